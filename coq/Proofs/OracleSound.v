(* C01: the observation oracle accepts the model's own behaviour.
   `spec_accepts` / `spec_accepts_strict` (Spec/HistObs.v) judge what the implementation did on
   the observations alone; `run_h` is what the model does. Theorem model_passes_oracle: for every
   history of statements, flushes, table read-backs and page dumps, the oracle accepts
   (hevs, run_h init_sys hevs). Hence "Go agrees with the model on this history" (model_agrees)
   implies "the oracle accepts what Go did": the oracle cannot raise a false alarm on behaviour
   that conforms to the model.

   The invariant between the model state y and the oracle state (cands, seen, gmax):
     cands = [d] with Rep (mem y) d;
     gmax <= K <= lastKey (mem y), K = the row-id counter at the last read-back;
     every id <= K that a user table n shows now was shown by n at the last read-back (IdExt,
     Proofs/OracleIds.v), and n had been created before it; if n was read there, `seen` holds
     exactly those ids;
     every table of d was named by a CREATE TABLE of the history so far. *)
From Coq Require Import Arith Lia Bool List NArith ZArith String Sorted Permutation.
From Mkdb Require Import Model.Engine Spec.TableSpec Spec.HistObs Proofs.TreeProofs Proofs.StoreInv
  Proofs.BytesProofs Proofs.TupleProofs Proofs.RefineForest Proofs.RefineCodec Proofs.RefineRep
  Proofs.RefineCat Proofs.RefineDML Proofs.RefineDDL Proofs.Atomic Proofs.RefineMain Proofs.RefineFail
  Proofs.FailsEarly Proofs.SessionStore Proofs.OracleIds Gen.Params.
Import ListNotations.
Local Open Scope N_scope.
Local Open Scope string_scope.
Local Open Scope list_scope.

(* ====================== the hypotheses, as boolean predicates on the history ====================== *)
(* the events of the C01 check *)
Definition hev_shape (h : hevent) : bool :=
  match h with
  | HEv (EvStmt _) | HEv EvFlush | HReadTables _ | HDumpPages => true
  | HEv _ => false
  end.
Definition hist_shape (hevs : list hevent) : bool := forallb hev_shape hevs.

(* literals are Go values (RefineMain.stmt_ok) *)
Definition hev_ok (h : hevent) : bool := match h with HEv e => ev_ok e | _ => true end.

(* statements on which the plain specification and the engine are known to differ although both
   are right: an INSERT without rows and an UPDATE / DELETE that names a catalog table succeed in
   the engine when nothing is to be done (no row, no matching row), while the specification has no
   such table (refuted_* examples below) *)
Definition stmt_shape (st : stmt) : bool :=
  match st with
  | SInsert _ _ rows => match rows with [] => false | _ => true end
  | SUpdate n _ _ | SDelete n _ => negb (is_sys n)
  | _ => true
  end.
Definition hev_stmt_shape (h : hevent) : bool := match h with HEv (EvStmt st) => stmt_shape st | _ => true end.

(* the allocation frontier stays <= 2^63 along the run: after every statement (whatever its outcome) *)
Fixpoint frontier_ok (y : sys) (hevs : list hevent) : bool :=
  match hevs with
  | [] => true
  | HEv ev :: r =>
      match ev with EvStmt st => N.leb (nextFree (e_store (run_stmt (mem y) st))) OFFMAX | _ => true end &&
      match step y ev with
      | (SOk y1, _) => frontier_ok y1 r
      | _ => true
      end
  | _ :: r => frontier_ok y r
  end.

(* read-backs: a user table that is read back was read at the previous read-back too, unless no
   CREATE TABLE had named it by then (the oracle's `seen` only knows the tables it was shown) *)
Definition mem_str (n : string) (l : list string) : bool := existsb (String.eqb n) l.

Fixpoint reads_cover (cr crP pn : list string) (hevs : list hevent) : bool :=
  match hevs with
  | [] => true
  | HEv (EvStmt (SCreateTable n _)) :: r => reads_cover (n :: cr) crP pn r
  | HReadTables ns :: r =>
      forallb (fun n => is_sys n || mem_str n pn || negb (mem_str n crP)) ns && reads_cover cr cr ns r
  | _ :: r => reads_cover cr crP pn r
  end.

Lemma mem_str_In n l : mem_str n l = true <-> In n l.
Proof.
  unfold mem_str. rewrite existsb_exists. split.
  - intros (x & Hx & E). apply String.eqb_eq in E. subst. exact Hx.
  - intros H. exists n. split; [exact H | apply String.eqb_refl].
Qed.

(* ====================== the oracle's bookkeeping ====================== *)
Lemma prev_ids_set_same n l seen : prev_ids n (set_seen n l seen) = l.
Proof.
  induction seen as [|[m x] r IH]; cbn [set_seen prev_ids]; [rewrite String.eqb_refl; reflexivity|].
  destruct (String.eqb_spec m n) as [E|E]; cbn [prev_ids].
  - rewrite String.eqb_refl. reflexivity.
  - destruct (String.eqb_spec m n); [contradiction | exact IH].
Qed.

Lemma prev_ids_set_other n m l seen : m <> n -> prev_ids n (set_seen m l seen) = prev_ids n seen.
Proof.
  intros Hne. induction seen as [|[m0 x] r IH]; cbn [set_seen prev_ids].
  - destruct (String.eqb_spec m n); [contradiction | reflexivity].
  - destruct (String.eqb_spec m0 m) as [E|E]; cbn [prev_ids].
    + subst m0. destruct (String.eqb_spec m n); [contradiction | reflexivity].
    + destruct (String.eqb m0 n); [reflexivity | exact IH].
Qed.

Definition seen_step (acc : list (string * list N)) (nt : string * tobs) : list (string * list N) :=
  set_seen (fst nt) (ids_of (snd nt)) acc.

Lemma prev_ids_fold n X : forall l seen,
  (forall nt, In nt l -> fst nt = n -> ids_of (snd nt) = X) ->
  (prev_ids n seen = X \/ In n (map fst l)) ->
  prev_ids n (fold_left seen_step l seen) = X.
Proof.
  induction l as [|nt l IH]; intros seen Hall Hc; cbn [fold_left].
  - destruct Hc as [Hc|[]]. exact Hc.
  - apply IH; [intros x Hx; apply Hall; right; exact Hx|].
    unfold seen_step at 1. destruct (String.eqb_spec (fst nt) n) as [E|E].
    + left. rewrite E, prev_ids_set_same. apply Hall; [left; reflexivity | exact E].
    + rewrite (prev_ids_set_other n (fst nt) _ seen E).
      destruct Hc as [Hc|[Hc|Hc]]; [left; exact Hc | contradiction | right; exact Hc].
Qed.

Lemma fold_max_le l : forall g B, g <= B -> Forall (fun x => x <= B) l -> fold_left N.max l g <= B.
Proof.
  induction l as [|a l IH]; intros g B Hg Hl; cbn [fold_left]; [exact Hg|].
  inversion Hl; subst. apply IH; [lia | assumption].
Qed.

Lemma sorted_ids_increasing l : StronglySorted N.lt l -> ids_increasing l = true.
Proof.
  induction 1 as [|a l Hs IH Hf]; [reflexivity|].
  destruct l as [|b r]; [reflexivity|]. cbn [ids_increasing] in *.
  inversion Hf; subst. apply andb_true_iff. split; [apply N.ltb_lt; assumption | exact IH].
Qed.

Lemma list_eqb_refl {A} (eqb : A -> A -> bool) :
  (forall x y, eqb x y = true <-> x = y) -> forall l, list_eqb eqb l l = true.
Proof. intros H l. apply (list_eqb_spec eqb H). reflexivity. Qed.

Lemma row_eqb_spec a b : row_eqb a b = true <-> a = b.
Proof. apply (list_eqb_spec value_eqb value_eqb_spec). Qed.

(* what the model shows for a table is what the specification database holds *)
Lemma matches_model s d n : Rep s d -> table_matches_spec d (n, obs_table s n) = true.
Proof.
  intros HR. unfold table_matches_spec.
  destruct (String.eqb n "sys_pages" || String.eqb n "sys_schema") eqn:Hsys; [reflexivity|].
  change (is_sys n = false) in Hsys. unfold spec_table, obs_table.
  destruct (find_tbl n d) as [t|] eqn:Hf.
  - destruct (st_fetch_user s d n t HR Hsys Hf) as (o & tr & Eo & Hr & Es & Ht & Hfetch).
    rewrite Hfetch. pose proof (Forall2_length' _ _ _ Ht) as Hlen.
    assert (Hl : List.length (keys_of (scan_tree tr)) = List.length (tb_rows t))
      by (unfold keys_of; rewrite map_length; exact Hlen).
    rewrite (map_snd_combine _ _ Hl), (map_fst_combine _ _ Hl).
    unfold fields_of. rewrite map_map. cbn [f_col].
    rewrite (list_eqb_refl String.eqb String.eqb_eq), (list_eqb_refl row_eqb row_eqb_spec). cbn [andb].
    apply sorted_ids_increasing. eapply scan_keys_sorted; [apply (r_sinv _ _ HR) | exact Hr].
  - rewrite (st_fetch_missing s d n HR Hsys Hf). reflexivity.
Qed.

(* ====================== an acknowledged statement is one the specification accepts ====================== *)
Lemma run_stmt_spec_ok s d st c :
  Rep s d -> stmt_ok st = true -> stmt_shape st = true ->
  nextFree (e_store (run_stmt s st)) <= OFFMAX -> e_out (run_stmt s st) = OOk c ->
  exists d', spec_exec d st = SpecOk d'.
Proof.
  intros HR Hst Hsh Hmax Hout. destruct st as [q|n cds|n| |n|n cols rows|n sets w|n w]; try (cbn in Hout; discriminate).
  - (* CREATE TABLE *)
    clear Hst. cbn [run_stmt] in *.
    destruct (is_sys n) eqn:Hsys.
    { exfalso. destruct (rel_offset_sys s d n HR Hsys) as [o Eo]. unfold st_create_table, create_bad_rows, st_create_table0 in Hout.
      rewrite Eo in Hout. destruct (names_distinct _); cbn in Hout; discriminate. }
    destruct (st_create_table s n (map fielddef_of cds)) as [s1 [[]|e|]] eqn:Ec; cbn [e_store e_out] in *; try discriminate.
    assert (Hmax1 : nextFree s1 <= OFFMAX) by exact Hmax.
    destruct (st_create_table_rep s d n (map fielddef_of cds) s1 HR Hsys Hmax1 Ec) as (Hnd & Hf & HR1).
    rewrite names_fielddefs in Hnd.
    cbn [spec_exec]. rewrite Hnd. cbn [negb]. rewrite Hf. eauto.
  - (* INSERT *)
    cbn [stmt_ok] in Hst. rename Hst into Hv.
    assert (Hvals : Forall (Forall val_okP) rows).
    { apply forallb_Forall in Hv. eapply Forall_impl; [|exact Hv]. intros r. apply forallb_Forall. }
    cbn [run_stmt] in *. destruct (first_err _ rows) as [u|e0|]; try discriminate.
    destruct (insert_rows s n cols rows [] 0) as [[s1 b] o] eqn:Er. cbn [e_store e_out] in *. subst o.
    destruct rows as [|r rest]; [cbn in Hsh; discriminate|].
    cbn [spec_exec].
    destruct (is_sys n) eqn:Hsys.
    { exfalso. cbn [insert_rows] in Er. unfold st_insert, ins_bad_cols, st_insert0 in Er.
      rewrite is_sys_table_is_sys, Hsys in Er. inversion Er. }
    destruct (find_tbl n d) as [t|] eqn:Hf.
    + destruct (insert_rows_rep n cols (r :: rest) s d t [] 0%nat s1 b c HR Hsys Hf Hvals Hmax Er) as (new & Hnew & HR1).
      rewrite Hnew. eauto.
    + exfalso. cbn [insert_rows] in Er. unfold st_insert, ins_bad_cols, st_insert0 in Er.
      rewrite is_sys_table_is_sys, Hsys in Er.
      destruct HR as [Hinv Hok (pt & sc & ents & osc & HC)].
      rewrite (cat_rel_offset_none s d pt sc ents osc Hinv HC n Hsys Hf) in Er. cbn [bind] in Er. inversion Er.
  - (* UPDATE *)
    cbn [stmt_ok] in Hst. rename Hst into Hv.
    apply forallb_Forall in Hv. fold (set_vals sets) in *.
    cbn [run_stmt] in *. fold (set_vals sets) in *.
    cbn [spec_exec]. fold (set_vals sets).
    destruct (existsb _ sets) eqn:Ex; [cbn in Hout; discriminate|].
    destruct (where_ids s n w) as [idl|e|] eqn:Ew; cbn [e_out e_store] in *; try discriminate.
    destruct (first_err _ idl) as [u|e0|]; cbn [e_out e_store] in *; try discriminate.
    cbn [stmt_shape] in Hsh. apply negb_true_iff in Hsh. rename Hsh into Hsys.
    destruct (find_tbl n d) as [t|] eqn:Hf.
    2:{ exfalso. unfold where_ids in Ew. rewrite (st_fetch_missing s d n HR Hsys Hf) in Ew. discriminate. }
    destruct (where_ids_spec s n w idl Ew) as (idrows & fs & Hfetch & Hids & Hev).
    destruct (st_fetch_user s d n t HR Hsys Hf) as (o & tr & Eo & Hr & Es & Ht & Hfetch').
    rewrite Hfetch' in Hfetch. inversion Hfetch; subst idrows fs. clear Hfetch.
    destruct (fetch_rows_ids s d n t o tr HR Hsys Hf Eo Hr) as (Hidc & Hrows & Hndk).
    assert (Efr : fetch_rows s n = combine (keys_of (scan_tree tr)) (tb_rows t)) by (unfold fetch_rows; rewrite Hfetch'; reflexivity).
    rewrite <- Efr in *.
    destruct (update_rows s n (map fst sets) (set_vals sets) idl []) as [[s1 b] o1] eqn:Eu. cbn [e_store e_out] in *. subst o1.
    destruct (update_rows_rep n (map fst sets) (set_vals sets) idl s d t [] s1 b c HR Hsys Hf Hv) as (HR1 & _ & Hchk & Hce); auto.
    { intros k Hk. subst idl. apply in_map_iff in Hk as (kr & <- & Hkr). apply filter_In in Hkr as [Hkr _]. apply in_map. exact Hkr. }
    { subst idl. apply NoDup_map_filter. exact Hndk. }
    rewrite <- Hrows.
    rewrite (update_all_pred w (tb_schema t) (map fst sets) (set_vals sets) (fetch_rows s n) Hev); [eauto| |].
    + intros [k r] Hkr Hp. cbn [snd]. apply (Hchk k r); [|exact Hkr].
      subst idl. change k with (fst (k, r)). apply in_map. apply filter_In. auto.
    + intros [k r] Hkr Hp. apply Hce. subst idl. intros E.
      assert (X : In (fst (k, r)) (map fst (filter (sel_pred w (fields_of (tb_schema t))) (fetch_rows s n))))
        by (apply in_map; apply filter_In; auto).
      rewrite E in X. exact X.
  - (* DELETE *)
    cbn [run_stmt] in *. cbn [spec_exec].
    destruct (where_ids s n w) as [idl|e|] eqn:Ew; cbn [e_out e_store] in *; try discriminate.
    cbn [stmt_shape] in Hsh. apply negb_true_iff in Hsh. rename Hsh into Hsys.
    destruct (find_tbl n d) as [t|] eqn:Hf.
    2:{ exfalso. unfold where_ids in Ew. rewrite (st_fetch_missing s d n HR Hsys Hf) in Ew. discriminate. }
    destruct (where_ids_spec s n w idl Ew) as (idrows & fs & Hfetch & Hids & Hev).
    destruct (st_fetch_user s d n t HR Hsys Hf) as (o & tr & Eo & Hr & Es & Ht & Hfetch').
    rewrite Hfetch' in Hfetch. inversion Hfetch; subst idrows fs. clear Hfetch.
    destruct (fetch_rows_ids s d n t o tr HR Hsys Hf Eo Hr) as (Hidc & Hrows & Hndk).
    assert (Efr : fetch_rows s n = combine (keys_of (scan_tree tr)) (tb_rows t)) by (unfold fetch_rows; rewrite Hfetch'; reflexivity).
    rewrite <- Efr in *.
    rewrite <- Hrows. rewrite (delete_all_pred w (tb_schema t) (fetch_rows s n) Hev). eauto.
Qed.

(* the tables of the specification database were all named by a CREATE TABLE *)
Lemma find_tbl_set_rows_some n m rows d : find_tbl m (set_rows n rows d) <> None -> find_tbl m d <> None.
Proof.
  induction d as [|a d IH]; cbn [set_rows find_tbl]; [auto|].
  destruct (String.eqb_spec (tb_name a) n) as [E|E]; cbn [find_tbl tb_name].
  - destruct (String.eqb_spec n m) as [E2|E2].
    + intros _. rewrite E, E2, String.eqb_refl. discriminate.
    + destruct (String.eqb_spec (tb_name a) m); [congruence | auto].
  - destruct (String.eqb (tb_name a) m); [intros _; discriminate | exact IH].
Qed.

Lemma spec_exec_tables d st d' m :
  spec_exec d st = SpecOk d' -> find_tbl m d' <> None ->
  find_tbl m d <> None \/ exists cols, st = SCreateTable m cols.
Proof.
  intros H Hm. destruct st as [q|n cds|n| |n|n cols rows|n sets w|n w]; cbn [spec_exec] in H; try discriminate.
  - destruct (negb _); [discriminate|]. destruct (find_tbl n d) eqn:Hf; [discriminate|]. inversion H; subst.
    destruct (String.eqb_spec n m) as [->|Hne]; [right; eauto|]. left.
    rewrite find_tbl_app_last in Hm by (cbn; exact Hne). exact Hm.
  - destruct (find_tbl n d) as [t|]; [|discriminate]. destruct (insert_all _ _ _); inversion H; subst.
    left. eapply find_tbl_set_rows_some; eauto.
  - destruct (find_tbl n d) as [t|]; [|discriminate]. destruct (existsb _ _); [discriminate|].
    destruct (update_all _ _ _ _ _); inversion H; subst. left. eapply find_tbl_set_rows_some; eauto.
  - destruct (find_tbl n d) as [t|]; [|discriminate]. destruct (delete_all _ _ _); inversion H; subst.
    left. eapply find_tbl_set_rows_some; eauto.
Qed.

(* ====================== the invariant ====================== *)
Record OInv (s : store) (d : db) (seen : list (string * list N)) (gmax K : N) (cr crP pn : list string) : Prop := mkOInv {
  oi_rep : Rep s d;
  oi_gK : gmax <= K;
  oi_Kl : K <= lastKey s;
  oi_old : forall n i, is_sys n = false -> In i (ids s n) -> i <= K ->
             In n crP /\ (In n pn -> In i (prev_ids n seen));
  oi_cr : forall n, find_tbl n d <> None -> In n cr
}.

Lemma OInv_init : OInv (mem init_sys) [] [] 0 0 [] [] [].
Proof.
  change (mem init_sys) with (fst create_db). constructor.
  - exact Rep_init.
  - lia.
  - lia.
  - intros n i Hsys Hi _. exfalso. rewrite (ids_missing _ [] n Rep_init Hsys eq_refl) in Hi. exact Hi.
  - intros n H. exfalso. apply H. reflexivity.
Qed.

Lemma OInv_ext s s' d d' seen gmax K cr cr' crP pn :
  OInv s d seen gmax K cr crP pn -> Rep s' d' -> IdExt s s' ->
  (forall n, find_tbl n d' <> None -> In n cr') -> OInv s' d' seen gmax K cr' crP pn.
Proof.
  intros [HR A B C D] HR' [L H] Hcr. constructor; auto; [lia|].
  intros n i Hsys Hi Hk. destruct (H n i Hsys Hi) as [X|X]; [exact (C n i Hsys X Hk) | lia].
Qed.

Lemma step_stmt y st :
  step y (EvStmt st) =
  match e_out (run_stmt (mem y) st) with
  | OPanic => (SPanic, Some OPanic)
  | o => (SOk (fst (exec y st)), Some o)
  end.
Proof. cbn [step]. unfold exec. cbn [fst]. destruct (e_out (run_stmt (mem y) st)); reflexivity. Qed.

Lemma mem_exec y st : mem (fst (exec y st)) = e_store (run_stmt (mem y) st).
Proof. reflexivity. Qed.

(* the strict oracle's extra demand, supplied later (model_refusal_justified) *)
Definition strict_side (md : smode) (P : Prop) : Prop :=
  match md with MNormal => True | MStrict => P | MLax => False end.

Section Run.
Variable md : smode.
(* what strict mode needs for a refused statement *)
Variable strict_hev : hevent -> bool.
Hypothesis strict_refusal : forall s d st e,
  md = MStrict -> Rep s d -> stmt_ok st = true -> strict_hev (HEv (EvStmt st)) = true ->
  nextFree (e_store (run_stmt s st)) <= OFFMAX ->
  e_out (run_stmt s st) = OErr e -> exists e', spec_exec d st = SpecErr e'.
Hypothesis md_not_lax : is_lax md = false.

Lemma oracle_run : forall hevs y d seen gmax K cr crP pn base,
  OInv (mem y) d seen gmax K cr crP pn ->
  hist_shape hevs = true -> forallb hev_ok hevs = true -> forallb hev_stmt_shape hevs = true ->
  (md = MStrict -> forallb strict_hev hevs = true) ->
  frontier_ok y hevs = true -> reads_cover cr crP pn hevs = true ->
  spec_ok md base [d] seen gmax hevs (run_h y hevs) = true.
Proof.
  induction hevs as [|h r IH]; intros y d seen gmax K cr crP pn base HI Hsh Hok Hss Hstr Hfr Hrc; [reflexivity|].
  cbn [hist_shape forallb] in Hsh, Hok, Hss. apply andb_true_iff in Hsh as [Hsh1 Hsh2].
  apply andb_true_iff in Hok as [Hok1 Hok2]. apply andb_true_iff in Hss as [Hss1 Hss2].
  assert (Hstr2 : md = MStrict -> forallb strict_hev r = true).
  { intros E. specialize (Hstr E). cbn [forallb] in Hstr. apply andb_true_iff in Hstr as [_ X]. exact X. }
  destruct h as [[st| | | |]|ns|]; try discriminate.
  - (* a statement *)
    cbn [hev_ok ev_ok] in Hok1. cbn [hev_stmt_shape] in Hss1.
    cbn [run_h frontier_ok] in *. rewrite step_stmt in *.
    apply andb_true_iff in Hfr as [Hmax Hfr]. apply N.leb_le in Hmax.
    pose proof (oi_rep _ _ _ _ _ _ _ _ HI) as HR.
    destruct (e_out (run_stmt (mem y) st)) as [c|e|] eqn:Eo.
    + (* acknowledged *)
      destruct (run_stmt_spec_ok (mem y) d st c HR Hok1 Hss1 Hmax Eo) as [d' Hd'].
      pose proof (run_stmt_rep (mem y) d st c HR Hok1 Hmax Eo) as HR'. unfold spec_step in HR'. rewrite Hd' in HR'.
      pose proof (run_stmt_idext (mem y) d st c HR Hok1 Hmax Eo) as Hext.
      cbn [oobs_of spec_ok flat_map ok_dbs]. rewrite Hd'. cbn [ok_dbs app List.length Nat.eqb negb andb].
      set (cr' := match st with SCreateTable n _ => n :: cr | _ => cr end).
      assert (HI' : OInv (mem (fst (exec y st))) d' seen gmax K cr' crP pn).
      { rewrite mem_exec. eapply OInv_ext; eauto. intros n Hn.
        destruct (spec_exec_tables d st d' n Hd' Hn) as [X|[cols ->]].
        - pose proof (oi_cr _ _ _ _ _ _ _ _ HI n X) as Y. unfold cr'. destruct st; try exact Y. right. exact Y.
        - left. reflexivity. }
      apply (IH _ d' seen gmax K cr' crP pn _ HI' Hsh2 Hok2 Hss2 Hstr2 Hfr).
      unfold cr'. destruct st; exact Hrc.
    + (* refused: nothing changed *)
      pose proof (stmt_err_unchanged (mem y) d st e HR Hok1 Hmax Eo) as Hun.
      cbn [oobs_of spec_ok]. rewrite md_not_lax.
      assert (Hstrict : (match md with
                         | MStrict => forallb (fun d0 => match spec_exec d0 st with SpecErr _ => true | SpecOk _ => false end) [d]
                         | _ => true end) = true).
      { destruct md eqn:Emd; try reflexivity. cbn [forallb].
        specialize (Hstr eq_refl). cbn [forallb] in Hstr. apply andb_true_iff in Hstr as [Hs1 _].
        destruct (strict_refusal (mem y) d st e eq_refl HR Hok1 Hs1 Hmax Eo) as [e' ->]. reflexivity. }
      rewrite Hstrict. cbn [andb].
      set (cr' := match st with SCreateTable n _ => n :: cr | _ => cr end).
      assert (HI' : OInv (mem (fst (exec y st))) d seen gmax K cr' crP pn).
      { rewrite mem_exec, Hun. destruct HI as [A B C D E]. constructor; auto.
        intros n Hn. specialize (E n Hn). unfold cr'. destruct st; try exact E. right. exact E. }
      apply (IH _ d seen gmax K cr' crP pn _ HI' Hsh2 Hok2 Hss2 Hstr2 Hfr).
      unfold cr'. destruct st; exact Hrc.
    + (* a panic: impossible *)
      exfalso. apply (run_stmt_no_panic (mem y) d st HR); [|exact Eo].
      unfold np_hyp. destruct st; try exact Hok1; (apply andb_true_iff; split; [exact Hok1 | apply N.leb_le; exact Hmax]).
  - (* a flush *)
    cbn [run_h step frontier_ok andb] in *. cbn [spec_ok].
    assert (HI' : OInv (mem (do_flush y)) d seen gmax K cr crP pn).
    { cbn [do_flush mem]. eapply OInv_ext; [exact HI | apply Rep_flush; apply (oi_rep _ _ _ _ _ _ _ _ HI) | | apply (oi_cr _ _ _ _ _ _ _ _ HI)].
      split; [cbn; lia|]. intros m i _ Hi. rewrite ids_flush in Hi. left. exact Hi. }
    exact (IH _ d seen gmax K cr crP pn _ HI' Hsh2 Hok2 Hss2 Hstr2 Hfr Hrc).
  - (* a table read-back *)
    cbn [run_h frontier_ok reads_cover] in *. apply andb_true_iff in Hrc as [Hcov Hrc].
    pose proof HI as [HR HgK HKl Hold Hcr].
    set (s := mem y) in *.
    set (l := map (fun n => (n, obs_table s n)) ns).
    cbn [spec_ok]. fold l.
    set (user := filter (fun nt : string * tobs => negb (is_sys (fst nt))) l).
    assert (Hl : forall nt, In nt l -> exists n, In n ns /\ nt = (n, obs_table s n)).
    { intros nt H. apply in_map_iff in H as (n & <- & Hn). eauto. }
    assert (Hu : forall nt, In nt user -> exists n, In n ns /\ is_sys n = false /\ nt = (n, obs_table s n)).
    { intros nt H. apply filter_In in H as [H1 H2]. destruct (Hl nt H1) as (n & Hn & ->).
      cbn [fst] in H2. apply negb_true_iff in H2. eauto. }
    assert (Hm : forallb (table_matches_spec d) l = true).
    { apply forallb_forall. intros nt H. destruct (Hl nt H) as (n & _ & ->). apply matches_model. exact HR. }
    cbn [filter]. rewrite Hm. cbn [List.length Nat.eqb negb andb].
    assert (Hfresh : forallb (fresh_ok seen gmax) user = true).
    { apply forallb_forall. intros nt H. destruct (Hu nt H) as (n & Hn & Hsys & ->).
      unfold fresh_ok. apply forallb_forall. intros i Hi. rewrite ids_obs in Hi.
      rewrite forallb_forall in Hcov. specialize (Hcov n Hn). rewrite Hsys in Hcov. cbn [orb] in Hcov.
      destruct (N.leb_spec i K) as [Hle|Hgt].
      - destruct (Hold n i Hsys Hi Hle) as [Hc Hp].
        apply (proj2 (mem_str_In n crP)) in Hc. rewrite Hc in Hcov. cbn [negb] in Hcov. rewrite orb_false_r in Hcov.
        apply mem_str_In in Hcov. specialize (Hp Hcov).
        apply orb_true_iff. left. apply existsb_exists. exists i. split; [exact Hp | apply N.eqb_refl].
      - apply orb_true_iff. right. apply N.ltb_lt. lia. }
    rewrite Hfresh. cbn [andb].
    apply (IH y d _ _ (lastKey s) cr cr ns base); auto.
    change (mem y) with s. constructor.
    + exact HR.
    + apply fold_max_le; [lia|]. rewrite Forall_forall. intros i Hi.
      apply in_flat_map in Hi as (nt & Hnt & Hi). destruct (Hu nt Hnt) as (n & _ & Hsys & ->).
      cbn [snd] in Hi. rewrite ids_obs in Hi. exact (ids_le_lastKey s d n i HR Hsys Hi).
    + apply N.le_refl.
    + intros n i Hsys Hi _. split.
      * apply Hcr. intros Hf. rewrite (ids_missing s d n HR Hsys Hf) in Hi. exact Hi.
      * intros Hn. change (fun (acc : list (string * list N)) (nt : string * tobs) => set_seen (fst nt) (ids_of (snd nt)) acc) with seen_step.
        rewrite (prev_ids_fold n (ids s n)); [exact Hi| |].
        -- intros nt Hnt E. destruct (Hu nt Hnt) as (n' & _ & _ & ->). cbn [fst snd] in *. subst n'. apply ids_obs.
        -- right. apply in_map_iff. exists (n, obs_table s n). split; [reflexivity|].
           apply filter_In. split; [apply in_map_iff; exists n; auto | cbn [fst]; rewrite Hsys; reflexivity].
    + exact Hcr.
  - (* a page dump *)
    cbn [run_h frontier_ok reads_cover] in *. unfold dump_of. cbn [spec_ok].
    exact (IH _ d seen gmax K cr crP pn _ HI Hsh2 Hok2 Hss2 Hstr2 Hfr Hrc).
Qed.
End Run.

(* ====================== the theorem (normal oracle) ====================== *)
Theorem model_passes_oracle : forall hevs,
  hist_shape hevs = true ->                          (* statements, flushes, read-backs, page dumps *)
  forallb hev_ok hevs = true ->                      (* literals are Go values *)
  forallb hev_stmt_shape hevs = true ->              (* no INSERT without rows, no UPDATE / DELETE on the catalog *)
  frontier_ok init_sys hevs = true ->                (* the data file stays below 2^63 bytes *)
  reads_cover [] [] [] hevs = true ->                (* read-backs do not skip a table and come back to it *)
  spec_accepts (hevs, run_h init_sys hevs) = true.
Proof.
  intros hevs Hsh Hok Hss Hfr Hrc. unfold spec_accepts. cbn [fst snd].
  apply (oracle_run MNormal (fun _ => true)) with (K := 0) (cr := []) (crP := []) (pn := []); auto.
  - intros s d st e E. discriminate E.
  - apply OInv_init.
  - intros E. discriminate E.
Qed.

(* ====================== strict mode: what the model refuses, the specification refuses ====================== *)
Lemma value_ok_validate t v : v <> VNull -> value_ok t v = None -> validate t v = Ok tt.
Proof.
  destruct v as [z|s|b|], t; cbn; intros Hn H; try congruence; try discriminate; try reflexivity.
  unfold Tuple.int32_ok, TableSpec.int32_ok in *. destruct (_ && _); [reflexivity | discriminate].
Qed.

Lemma encode_vals_total sch : forall r, row_err sch r = None -> exists bs, encode_vals sch r = Ok bs.
Proof.
  induction sch as [|fd sr IH]; intros r H; [exists []; destruct r; reflexivity|].
  destruct r as [|v vr]; [exists []; reflexivity|].
  cbn [row_err] in H. destruct (value_ok (fd_type fd) v) eqn:Ev; [discriminate|].
  destruct (IH vr H) as [rest Hr].
  assert (Hcase : v = VNull \/ v <> VNull) by (destruct v; auto; right; discriminate).
  destruct Hcase as [->|Hnn].
  - cbn [encode_vals]. rewrite Hr. cbn [bind]. eauto.
  - destruct (encode_vals_cons_nn fd sr v vr Hnn) as [E1 _]. rewrite E1, (value_ok_validate _ _ Hnn Ev), Hr. cbn [bind]. eauto.
Qed.

(* Tuple.Encode + checkRowSizeLimit accept every row check_row accepts *)
Lemma check_row_encode sch m :
  check_row sch (row_of sch m) = None -> Forall val_okP (row_of sch m) ->
  exists bs, encode_tuple sch m = Ok bs /\ check_row_size bs = Ok tt.
Proof.
  intros H Hv. unfold check_row in H. destruct (row_err sch (row_of sch m)) eqn:Er; [discriminate|].
  destruct (Nat.ltb_spec max_row_size (row_size sch (row_of sch m))) as [|Hle]; [discriminate|].
  rewrite encode_tuple_vals. destruct (encode_vals_total sch _ Er) as [bs Hbs]. exists bs. split; [exact Hbs|].
  destruct (encode_vals_ok sch _ bs Hbs (row_of_length sch m) Hv) as (_ & _ & _ & Hlen).
  unfold check_row_size. rewrite Hlen.
  destruct (Nat.ltb_spec MV (row_size sch (row_of sch m))); [rewrite MV_is_max_row_size in *; lia | reflexivity].
Qed.

Lemma insert_all_row_check sch cols rows : forall new,
  Forall (Forall val_okP) rows -> insert_all sch cols rows = Ok new -> first_err (row_check sch cols) rows = Ok tt.
Proof.
  induction rows as [|vals rest IH]; intros new Hv H; [reflexivity|].
  inversion Hv as [|? ? Hv1 Hvr]; subst. cbn [insert_all] in H. cbv zeta in H.
  cbn [first_err]. unfold row_check at 1. cbv zeta.
  set (cols' := match cols with [] => map fd_name sch | _ => cols end) in *.
  destruct (negb _); [discriminate|].
  destruct (cols_err (map fd_name sch) cols' []); [discriminate|].
  destruct (check_row sch (build_row sch cols' vals (null_row sch))) eqn:Ec; [discriminate|].
  destruct (insert_all sch cols rest) as [more|e|] eqn:Em; cbn [bind] in H; try discriminate.
  assert (Hrow : row_of sch (zip_set cols' vals []) = build_row sch cols' vals (null_row sch))
    by (rewrite row_of_zip_set; reflexivity).
  destruct (check_row_encode sch (zip_set cols' vals [])) as (bs & Eb & Es).
  { rewrite Hrow. exact Ec. }
  { rewrite Hrow. apply build_row_val_ok; [exact Hv1 | apply null_row_val_ok]. }
  rewrite Eb. cbn [bind]. rewrite Es. exact (IH more Hvr eq_refl).
Qed.

Lemma update_all_matches w sch cols vals : forall rows x,
  update_all w sch cols vals rows = Ok x -> Forall (fun r => exists b, matches w sch r = Ok b) rows.
Proof.
  induction rows as [|r rest IH]; intros x H; [constructor|]. cbn [update_all] in H.
  destruct (matches w sch r) as [m|em|] eqn:Em; cbn [bind] in H; try discriminate.
  destruct (update_all w sch cols vals rest) as [more|eu|] eqn:Eu; cbn [bind] in H; try discriminate.
  constructor; [eauto | eapply IH; eauto].
Qed.

Lemma delete_all_matches w sch : forall rows x,
  delete_all w sch rows = Ok x -> Forall (fun r => exists b, matches w sch r = Ok b) rows.
Proof.
  induction rows as [|r rest IH]; intros x H; [constructor|]. cbn [delete_all] in H.
  destruct (matches w sch r) as [m|em|] eqn:Em; cbn [bind] in H; try discriminate.
  destruct (delete_all w sch rest) as [more|eu|] eqn:Eu; cbn [bind] in H; try discriminate.
  constructor; [eauto | eapply IH; eauto].
Qed.

Lemma matches_evaluable e sch r b : matches (Some e) sch r = Ok b -> exists v, evaluate e (fields_of sch) r = Ok v.
Proof. cbn [matches]. destruct (evaluate e (fields_of sch) r) as [v|ev|]; cbn [bind]; try discriminate. eauto. Qed.

Lemma filter_rows_total e fs : forall (idrows : list (N * row)),
  Forall (fun kr => exists v, evaluate e fs (snd kr) = Ok v) idrows -> exists keep, filter_rows e fs idrows = Ok keep.
Proof.
  induction idrows as [|[k r] rest IH]; intros H; [exists []; reflexivity|].
  inversion H as [|? ? [v Hv] Hr]; subst. destruct (IH Hr) as [keep Hk]. cbn [snd] in Hv.
  cbn [filter_rows]. rewrite Hv. cbn [bind]. rewrite Hk. cbn [bind]. destruct v as [z|s|[|]|]; eauto.
Qed.

(* the WHERE clause the specification can evaluate on every row, the engine can too *)
Lemma where_ids_total s n w sch idrows :
  st_fetch s n = Ok (idrows, fields_of sch) ->
  Forall (fun r => exists b, matches w sch r = Ok b) (map snd idrows) ->
  exists idl, where_ids s n w = Ok idl.
Proof.
  intros Hf Hm. unfold where_ids. rewrite Hf. cbn [bind]. destruct w as [e|]; [|eauto].
  destruct (filter_rows_total e (fields_of sch) idrows) as [keep Hk]; [|rewrite Hk; cbn [bind]; eauto].
  rewrite Forall_forall in *. intros kr Hkr. destruct (Hm (snd kr) (in_map snd _ _ Hkr)) as [b Hb].
  eapply matches_evaluable; eauto.
Qed.

Lemma update_all_checks w sch cols vals : forall rows x r,
  update_all w sch cols vals rows = Ok x -> In r rows -> matches w sch r = Ok true ->
  cols_err (map fd_name sch) cols [] = None /\ check_row sch (build_row sch cols vals r) = None.
Proof.
  induction rows as [|r0 rest IH]; intros x r H Hin Hm; [contradiction|]. cbn [update_all] in H.
  destruct (matches w sch r0) as [m|em|] eqn:Em; cbn [bind] in H; try discriminate.
  destruct (update_all w sch cols vals rest) as [more|eu|] eqn:Eu; cbn [bind] in H; try discriminate.
  destruct Hin as [->|Hin]; [|eapply IH; eauto].
  rewrite Hm in Em. inversion Em; subst m.
  destruct (cols_err _ cols []); [discriminate|]. destruct (check_row _ _); [discriminate|]. auto.
Qed.

Lemma Forall2_in_r {A B} (R : A -> B -> Prop) l1 l2 y : Forall2 R l1 l2 -> In y l2 -> exists x, In x l1 /\ R x y.
Proof.
  induction 1 as [|a b l1 l2 Hab _ IH]; intros Hin; [contradiction|].
  destruct Hin as [<-|Hin]; [exists a; split; [left; reflexivity | exact Hab]|].
  destruct (IH Hin) as (x & Hx & HR). exists x. split; [right; exact Hx | exact HR].
Qed.

(* in strict mode the oracle demands that the specification refuses whatever the implementation
   refuses. The engine also refuses CREATE TABLE for reasons the plain specification does not know:
   a catalog table's name, and catalog rows that cannot be stored (a VARCHAR length outside INT,
   names too long for a catalog row). Exactly those are excluded: *)
Definition strict_stmt (st : stmt) : bool :=
  match st with
  | SCreateTable n cols =>
      negb (is_sys n) && match check_catalog_rows n (map fielddef_of cols) with Ok _ => true | _ => false end
  | _ => true
  end.
Definition strict_hev (h : hevent) : bool := match h with HEv (EvStmt st) => strict_stmt st | _ => true end.

Theorem model_refusal_justified s d st e :
  Rep s d -> stmt_ok st = true -> strict_stmt st = true ->
  nextFree (e_store (run_stmt s st)) <= OFFMAX -> e_out (run_stmt s st) = OErr e ->
  exists e', spec_exec d st = SpecErr e'.
Proof.
  intros HR Hst Hss Hmax Hout.
  destruct st as [q|n cds|n| |n|n cols rows|n sets w|n w]; try (cbn [spec_exec]; eauto; fail).
  - (* CREATE TABLE *)
    clear Hst. cbn [run_stmt] in *. unfold st_create_table in *. cbn [strict_stmt] in Hss.
    apply andb_true_iff in Hss as [Hsys Hcat]. apply negb_true_iff in Hsys.
    set (fds := map fielddef_of cds) in *. fold (names fds) in *.
    cbn [spec_exec]. rewrite <- names_fielddefs. fold fds.
    destruct (names_distinct (names fds)) eqn:Hd; [|cbn [negb]; eauto]. cbn [negb].
    destruct (find_tbl n d) as [t|] eqn:Hf; [eauto|]. exfalso.
    pose proof HR as [Hinv Hok (pt & sc & ents & osc & HC)].
    unfold create_bad_rows in *.
    rewrite (cat_rel_offset_none s d pt sc ents osc Hinv HC n Hsys Hf) in *.
    destruct (check_catalog_rows n fds) as [[]|e0|] eqn:Ec; try discriminate.
    pose proof (st_create_table0_ok s d n fds HR Hsys Hf (names_distinct_NoDup _ Hd) Ec) as Hgo.
    destruct (st_create_table0 s n fds) as [s1 r1] eqn:E0. cbn [fst snd] in Hgo.
    assert (Hm1 : nextFree s1 <= OFFMAX) by (destruct r1; cbn [e_store] in Hmax; exact Hmax).
    destruct (Hgo Hm1) as [u ->]. cbn in Hout. discriminate.
  - (* INSERT *)
    cbn [stmt_ok] in Hst.
    assert (Hvals : Forall (Forall val_okP) rows).
    { apply forallb_Forall in Hst. eapply Forall_impl; [|exact Hst]. intros r. apply forallb_Forall. }
    cbn [spec_exec]. destruct (find_tbl n d) as [t|] eqn:Hf; [|eauto].
    assert (Hsys : is_sys n = false).
    { destruct (is_sys n) eqn:E; [|reflexivity]. rewrite (find_tbl_sys d n (r_dbok _ _ HR) E) in Hf. discriminate. }
    destruct (insert_all (tb_schema t) cols rows) as [new|e'|] eqn:Ei; [exfalso|eauto|eauto].
    pose proof (insert_all_row_check _ _ _ new Hvals Ei) as Hchk.
    rewrite run_insert in *.
    rewrite (first_err_ext _ (row_check (tb_schema t) cols) rows) in *
      by (intros a _; apply (check_insert_rep n cols s d t a HR Hsys Hf)).
    rewrite Hchk in *. cbn [e_out e_store] in *.
    destruct (insert_rows_ok n cols rows s d t [] 0%nat HR Hsys Hf Hvals Hchk Hmax) as [c Hc].
    rewrite Hc in Hout. discriminate.
  - (* UPDATE *)
    cbn [stmt_ok] in Hst. apply forallb_Forall in Hst. change (set_vals sets) with (lit_vals sets) in Hst.
    cbn [spec_exec]. destruct (find_tbl n d) as [t|] eqn:Hf; [|eauto].
    assert (Hsys : is_sys n = false).
    { destruct (is_sys n) eqn:E; [|reflexivity]. rewrite (find_tbl_sys d n (r_dbok _ _ HR) E) in Hf. discriminate. }
    change (existsb (fun sv : string * vexpr => match snd sv with XCol _ => true | _ => false end) sets) with (set_from_col sets).
    change (map (fun sv : string * vexpr => match snd sv with XLit v => v | _ => VNull end) sets) with (lit_vals sets).
    rewrite run_update in *.
    destruct (set_from_col sets); [eauto|].
    destruct (update_all w (tb_schema t) (map fst sets) (lit_vals sets) (tb_rows t)) as [x|e'|] eqn:Eu; [exfalso|eauto|eauto].
    destruct (st_fetch_user s d n t HR Hsys Hf) as (o & tr & Eo & Hr & Es & Ht & Hfetch').
    destruct (fetch_rows_ids s d n t o tr HR Hsys Hf Eo Hr) as (Hidc & Hrows & Hndk).
    assert (Efr : fetch_rows s n = combine (keys_of (scan_tree tr)) (tb_rows t)) by (unfold fetch_rows; rewrite Hfetch'; reflexivity).
    rewrite <- Efr in Hfetch'. rewrite <- Hrows in Eu.
    destruct (where_ids_total s n w (tb_schema t) (fetch_rows s n) Hfetch' (update_all_matches _ _ _ _ _ _ Eu)) as [idl Ew].
    rewrite Ew in *.
    destruct (where_ids_spec s n w idl Ew) as (idrows & fs & Hfetch & Hids & Hev).
    rewrite Hfetch' in Hfetch. inversion Hfetch; subst idrows fs. clear Hfetch.
    assert (Hsch : NoDup (names (tb_schema t))).
    { destruct (find_tbl_In _ _ _ Hf) as [Hin _]. pose proof (d_sch _ (r_dbok _ _ HR)) as X. rewrite Forall_forall in X. apply X. exact Hin. }
    assert (Hupd : forall k r, In k idl -> In (k, r) (fetch_rows s n) ->
                   upd_check (tb_schema t) (map fst sets) (lit_vals sets) r = Ok tt).
    { intros k r Hk Hkr.
      assert (Hsel : sel_pred w (fields_of (tb_schema t)) (k, r) = true).
      { subst idl. apply in_map_iff in Hk as ([k' r'] & E & Hkr'). cbn [fst] in E. subst k'.
        apply filter_In in Hkr' as [Hkr' Hp].
        assert ((k, r') = (k, r)) by (eapply (NoDup_map_inj_in fst (fetch_rows s n)); eauto). congruence. }
      assert (Hmt : matches w (tb_schema t) r = Ok true).
      { rewrite (matches_sel w (tb_schema t) k r), Hsel; [reflexivity|].
        intros e0 E0. specialize (Hev e0 E0). rewrite Forall_forall in Hev. apply (Hev (k, r) Hkr). }
      destruct (update_all_checks _ _ _ _ _ _ r Eu (in_map snd _ _ Hkr) Hmt) as [Hce Hcr].
      destruct (Forall2_in_r _ _ _ (k, r) Hidc Hkr) as (c & _ & _ & _ & Hfit). cbn [snd] in Hfit.
      assert (Hrow : row_of (tb_schema t) (zip_set (map fst sets) (lit_vals sets) (fill (tb_schema t) r [])) =
                     build_row (tb_schema t) (map fst sets) (lit_vals sets) r).
      { rewrite row_of_zip_set, (row_of_fill _ _ Hsch Hfit). reflexivity. }
      unfold upd_check. rewrite Hce.
      destruct (check_row_encode (tb_schema t) (zip_set (map fst sets) (lit_vals sets) (fill (tb_schema t) r []))) as (bs & Eb & Esz).
      { rewrite Hrow. exact Hcr. }
      { rewrite Hrow. apply build_row_val_ok; [exact Hst | apply (row_fits_val_ok _ _ Hfit)]. }
      rewrite Eb. cbn [bind]. exact Esz. }
    assert (Hinl : forall k, In k idl -> In k (map fst (fetch_rows s n))).
    { intros k Hk. subst idl. apply in_map_iff in Hk as (kr & <- & Hkr). apply filter_In in Hkr as [Hkr _]. apply in_map. exact Hkr. }
    assert (Efe : first_err (fun k => check_update s n k (map fst sets) (lit_vals sets)) idl = Ok tt).
    { apply first_err_ok_intro. intros k Hk.
      destruct (proj1 (in_map_iff _ _ _) (Hinl k Hk)) as ([k' r] & E & Hkr). cbn [fst] in E. subst k'.
      rewrite (check_update_rep n (map fst sets) (lit_vals sets) s d t k r HR Hsys Hf Hkr). exact (Hupd k r Hk Hkr). }
    rewrite Efe in *. cbv zeta in *. cbn [e_out e_store] in *.
    destruct (update_rows_ok n (map fst sets) (lit_vals sets) idl s d t [] HR Hsys Hf Hst Hinl) as [c Hc].
    + subst idl. apply NoDup_map_filter. exact Hndk.
    + exact Hupd.
    + rewrite Hc in Hout. discriminate.
  - (* DELETE *)
    cbn [spec_exec]. destruct (find_tbl n d) as [t|] eqn:Hf; [|eauto].
    assert (Hsys : is_sys n = false).
    { destruct (is_sys n) eqn:E; [|reflexivity]. rewrite (find_tbl_sys d n (r_dbok _ _ HR) E) in Hf. discriminate. }
    rewrite run_delete in *.
    destruct (delete_all w (tb_schema t) (tb_rows t)) as [x|e'|] eqn:Ed; [exfalso|eauto|eauto].
    destruct (st_fetch_user s d n t HR Hsys Hf) as (o & tr & Eo & Hr & Es & Ht & Hfetch').
    destruct (fetch_rows_ids s d n t o tr HR Hsys Hf Eo Hr) as (Hidc & Hrows & Hndk).
    assert (Efr : fetch_rows s n = combine (keys_of (scan_tree tr)) (tb_rows t)) by (unfold fetch_rows; rewrite Hfetch'; reflexivity).
    rewrite <- Efr in Hfetch'. rewrite <- Hrows in Ed.
    destruct (where_ids_total s n w (tb_schema t) (fetch_rows s n) Hfetch' (delete_all_matches _ _ _ _ Ed)) as [idl Ew].
    rewrite Ew in *. cbv zeta in *. cbn [e_out e_store] in *.
    destruct (where_ids_spec s n w idl Ew) as (idrows & fs & Hfetch & Hids & Hev).
    rewrite Hfetch' in Hfetch. inversion Hfetch; subst idrows fs. clear Hfetch.
    destruct (delete_rows_ok n idl s d t [] 0%nat HR Hsys Hf) as [c Hc].
    + intros k Hk. subst idl. apply in_map_iff in Hk as (kr & <- & Hkr). apply filter_In in Hkr as [Hkr _]. apply in_map. exact Hkr.
    + subst idl. apply NoDup_map_filter. exact Hndk.
    + rewrite Hc in Hout. discriminate.
Qed.

Theorem model_passes_oracle_strict : forall hevs,
  hist_shape hevs = true -> forallb hev_ok hevs = true -> forallb hev_stmt_shape hevs = true ->
  frontier_ok init_sys hevs = true -> reads_cover [] [] [] hevs = true ->
  forallb strict_hev hevs = true ->                  (* CREATE TABLE: not a catalog name, catalog rows storable *)
  spec_accepts_strict (hevs, run_h init_sys hevs) = true.
Proof.
  intros hevs Hsh Hok Hss Hfr Hrc Hst. unfold spec_accepts_strict. cbn [fst snd].
  apply (oracle_run MStrict strict_hev) with (K := 0) (cr := []) (crP := []) (pn := []); auto.
  - intros s d st e _ HR Hk Hs Hmax Hout. exact (model_refusal_justified s d st e HR Hk Hs Hmax Hout).
  - apply OInv_init.
Qed.


(* ====================== every extra hypothesis is needed ======================
   On each of these histories the oracle REJECTS the model's own behaviour (so it would report a
   property violation on an implementation that does exactly what the model does): *)
(* reads_cover: t is skipped by a read-back that shows a larger id (u's), then read *)
Definition h_skip : list hevent :=
  [HEv (EvStmt (SCreateTable "t" [mkColDef "a" STNumeric])); HEv (EvStmt (SCreateTable "u" [mkColDef "a" STNumeric]));
   HEv (EvStmt (SInsert "t" [] [[VInt 1]])); HEv (EvStmt (SInsert "u" [] [[VInt 1]]));
   HReadTables ["u"]; HReadTables ["t"]].
Example oracle_needs_reads_cover :
  spec_accepts (h_skip, run_h init_sys h_skip) = false /\ reads_cover [] [] [] h_skip = false /\
  hist_shape h_skip = true /\ forallb hev_ok h_skip = true /\ forallb hev_stmt_shape h_skip = true /\
  frontier_ok init_sys h_skip = true.
Proof. vm_compute. repeat split; reflexivity. Qed.

(* stmt_shape: an INSERT without rows into a table that does not exist is acknowledged *)
Definition h_norows : list hevent := [HEv (EvStmt (SInsert "nosuch" [] []))].
Example oracle_needs_insert_rows :
  spec_accepts (h_norows, run_h init_sys h_norows) = false /\ run_h init_sys h_norows = [HOut OBok].
Proof. vm_compute. split; reflexivity. Qed.

(* stmt_shape: a DELETE / UPDATE on a catalog table that matches no row is acknowledged *)
Definition h_syscat : list hevent :=
  [HEv (EvStmt (SDelete "sys_pages" (Some (EPred (XCol (mkCol "" "table_name")) CEq (XLit (VStr "zz"))))))].
Definition h_syscat2 : list hevent :=
  [HEv (EvStmt (SUpdate "sys_schema" [("field_name", XLit (VStr "q"))]
                        (Some (EPred (XCol (mkCol "" "table_name")) CEq (XLit (VStr "zz"))))))].
Example oracle_needs_no_catalog_dml :
  spec_accepts (h_syscat, run_h init_sys h_syscat) = false /\ run_h init_sys h_syscat = [HOut OBok] /\
  spec_accepts (h_syscat2, run_h init_sys h_syscat2) = false /\ run_h init_sys h_syscat2 = [HOut OBok].
Proof. vm_compute. repeat split; reflexivity. Qed.

(* strict_stmt: CREATE TABLE of a catalog name / with a catalog row that cannot be stored is refused
   by the engine only *)
Definition h_strict1 : list hevent := [HEv (EvStmt (SCreateTable "sys_pages" [mkColDef "a" STNumeric]))].
Definition h_strict2 : list hevent := [HEv (EvStmt (SCreateTable "v" [mkColDef "a" (STVarchar 3000000000)]))].
Example strict_oracle_needs_strict_stmt :
  spec_accepts_strict (h_strict1, run_h init_sys h_strict1) = false /\ spec_accepts (h_strict1, run_h init_sys h_strict1) = true /\
  spec_accepts_strict (h_strict2, run_h init_sys h_strict2) = false /\ spec_accepts (h_strict2, run_h init_sys h_strict2) = true.
Proof. vm_compute. repeat split; reflexivity. Qed.

(* ====================== agreement with the model implies acceptance by the oracle ======================
   model_agrees compares observations with hobs_eqb (page dumps up to meaningless sibling fields);
   the oracle does not look into page dumps, and hobs_eqb is equality on everything else. *)
Lemma err_eqb_spec a b : err_eqb a b = true <-> a = b.
Proof.
  split; [destruct a, b; cbn; intros H; try discriminate; reflexivity | intros ->; destruct b; reflexivity].
Qed.

Lemma idrow_eqb_spec a b : idrow_eqb a b = true <-> a = b.
Proof.
  destruct a as [k r], b as [k' r']. unfold idrow_eqb. cbn [fst snd].
  rewrite andb_true_iff, N.eqb_eq, row_eqb_spec. split; [intros [-> ->]; reflexivity | intros H; inversion H; auto].
Qed.

Lemma tobs_eqb_spec a b : tobs_eqb a b = true <-> a = b.
Proof.
  destruct a as [c1 r1|e1|], b as [c2 r2|e2|]; cbn [tobs_eqb]; try (split; [discriminate | intros H; inversion H]; fail).
  - rewrite andb_true_iff, (list_eqb_spec String.eqb String.eqb_eq), (list_eqb_spec idrow_eqb idrow_eqb_spec).
    split; [intros [-> ->]; reflexivity | intros H; inversion H; auto].
  - rewrite err_eqb_spec. split; [intros ->; reflexivity | intros H; inversion H; reflexivity].
  - split; intros _; reflexivity.
Qed.

Definition hobs_sim (a b : hobs) : Prop := a = b \/ exists h1 p1 h2 p2, a = HDump h1 p1 /\ b = HDump h2 p2.

Lemma hobs_eqb_sim a b : hobs_eqb a b = true -> hobs_sim a b.
Proof.
  destruct a as [x|l1|[[[a1 a2] a3] a4] p1| |], b as [y|l2|[[[b1 b2] b3] b4] p2| |]; cbn [hobs_eqb]; try discriminate; intros H.
  - left. f_equal. destruct x, y; cbn in H; try discriminate; try reflexivity. f_equal. apply err_eqb_spec. exact H.
  - left. f_equal. apply (list_eqb_spec (pair_eqb String.eqb tobs_eqb)); [|exact H].
    intros [n1 t1] [n2 t2]. unfold pair_eqb. cbn [fst snd]. rewrite andb_true_iff, String.eqb_eq, tobs_eqb_spec.
    split; [intros [-> ->]; reflexivity | intros E; inversion E; auto].
  - right. eauto 10.
  - left. reflexivity.
  - left. reflexivity.
Qed.

Lemma spec_ok_sim md : forall evs base cands seen gmax o1 o2,
  Forall2 hobs_sim o1 o2 -> spec_ok md base cands seen gmax evs o1 = spec_ok md base cands seen gmax evs o2.
Proof.
  induction evs as [|h er IH]; intros base cands seen gmax o1 o2 H.
  - inversion H; subst; reflexivity.
  - inversion H as [|a b t1 t2 Hab Ht]; subst.
    + destruct h as [[st| | |st j|W]|ns|]; reflexivity.
    + pose proof (fun b c s g => IH b c s g t1 t2 Ht) as IH'.
      destruct Hab as [->|(h1 & p1 & h2 & p2 & -> & ->)].
      * destruct h as [[st| | |st j|W]|ns|]; cbn [spec_ok];
          (destruct b as [o|l|hd ps| |]; try reflexivity; try (destruct o; try reflexivity); rewrite ?IH'; reflexivity).
      * destruct h as [[st| | |st j|W]|ns|]; cbn [spec_ok]; try reflexivity. apply IH'.
Qed.

Lemma list_eqb_Forall2 {A} (eqb : A -> A -> bool) (R : A -> A -> Prop) :
  (forall a b, eqb a b = true -> R a b) -> forall l1 l2, list_eqb eqb l1 l2 = true -> Forall2 R l1 l2.
Proof.
  intros HR. induction l1 as [|a l1 IH]; intros [|b l2] H; cbn [list_eqb] in H; try discriminate; [constructor|].
  apply andb_true_iff in H as [H1 H2]. constructor; auto.
Qed.

(* "MM = [] implies SM = []" for one history: if the implementation's observations agree with the
   model's, the oracle accepts them *)
Theorem agreement_implies_acceptance : forall c,
  model_agrees c = true ->
  hist_shape (fst c) = true -> forallb hev_ok (fst c) = true -> forallb hev_stmt_shape (fst c) = true ->
  frontier_ok init_sys (fst c) = true -> reads_cover [] [] [] (fst c) = true ->
  spec_accepts c = true.
Proof.
  intros [hevs obs] Hag Hsh Hok Hss Hfr Hrc. cbn [fst snd] in *. unfold model_agrees in Hag. cbn [fst snd] in Hag.
  pose proof (model_passes_oracle hevs Hsh Hok Hss Hfr Hrc) as H. unfold spec_accepts in *. cbn [fst snd] in *.
  rewrite <- (spec_ok_sim MNormal hevs _ _ _ _ (run_h init_sys hevs) obs); [exact H|].
  exact (list_eqb_Forall2 hobs_eqb hobs_sim hobs_eqb_sim _ _ Hag).
Qed.

Theorem agreement_implies_strict_acceptance : forall c,
  model_agrees c = true ->
  hist_shape (fst c) = true -> forallb hev_ok (fst c) = true -> forallb hev_stmt_shape (fst c) = true ->
  frontier_ok init_sys (fst c) = true -> reads_cover [] [] [] (fst c) = true -> forallb strict_hev (fst c) = true ->
  spec_accepts_strict c = true.
Proof.
  intros [hevs obs] Hag Hsh Hok Hss Hfr Hrc Hst. cbn [fst snd] in *. unfold model_agrees in Hag. cbn [fst snd] in Hag.
  pose proof (model_passes_oracle_strict hevs Hsh Hok Hss Hfr Hrc Hst) as H. unfold spec_accepts_strict in *. cbn [fst snd] in *.
  rewrite <- (spec_ok_sim MStrict hevs _ _ _ _ (run_h init_sys hevs) obs); [exact H|].
  exact (list_eqb_Forall2 hobs_eqb hobs_sim hobs_eqb_sim _ _ Hag).
Qed.
