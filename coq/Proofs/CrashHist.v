(* Crash theory, part 7: histories of statements, flushes, crash-restarts at statement boundaries
   (C02) and crash-restarts inside a statement's log append (C03); the invariant holds after every
   such history, and the theorems that follow from it. *)
From Coq Require Import Arith Lia Bool List NArith Permutation.
From Mkdb Require Import Model.Engine Proofs.TreeProofs Proofs.StoreInv Proofs.CrashBase Proofs.CrashPages
  Proofs.CrashRedo Proofs.CrashLog Proofs.CrashMain Proofs.CrashPrefix Gen.Params.
Import ListNotations.
Local Open Scope N_scope.

(* ---------- histories of statements, flushes and crashes ---------- *)
Definition ev_ok (y : sys) (ev : event) : Prop :=
  match ev with
  | EvStmt st => stmt_ok (mem y) st
  | EvFlush | EvCrash => True
  | EvCrashInLog st _ => stmt_ok (mem y) st
  | EvTornFlush _ => False
  end.

Lemma flushed_shape s st :
  e_flushed (run_stmt s st) = true -> is_ok (e_out (run_stmt s st)) = true /\ e_batch (run_stmt s st) = [].
Proof.
  destruct st; cbn [run_stmt]; try (cbn; discriminate).
  - destruct (st_create_table s name _) as [s1 [u|e|]]; cbn; try discriminate. auto.
  - destruct (insert_rows s table cols rows [] 0) as [[s1 b] o]. cbn. discriminate.
  - destruct (existsb _ sets); [cbn; discriminate|].
    destruct (where_ids s table where_) as [ids|e|]; try (cbn; discriminate).
    destruct (update_rows s table _ _ ids []) as [[s1 b] o]. cbn. discriminate.
  - destruct (where_ids s table where_) as [ids|e|]; try (cbn; discriminate).
    destruct (delete_rows s table ids [] 0) as [[s1 b] o]. cbn. discriminate.
Qed.

Lemma recover_disk_wal m d w : recover (mkSys m d w) = recover (mkSys d d w).
Proof. reflexivity. Qed.

(* a crash while a statement's batch is being appended (any statement, any cut) *)
Lemma inv_crash_in_log y st j y1 o :
  Inv y -> stmt_ok (mem y) st -> step y (EvCrashInLog st j) = (SOk y1, o) -> Inv y1.
Proof.
  intros HI [Hat Hmv] Hs.
  destruct (e_flushed (run_stmt (mem y) st)) eqn:Efl.
  - (* CREATE TABLE: flushed, nothing logged *)
    destruct (flushed_shape _ _ Efl) as [Eok Eb].
    destruct HI as (r & Hrep & Hseq & Gr & HGL).
    pose proof (log_stmt (wal y) (mem y) st HGL) as HL. rewrite Eok, Eb, app_nil_r in HL.
    cbn [step] in Hs. rewrite Efl, Eok, Eb, firstn_nil, app_nil_r in Hs.
    set (es := e_store (run_stmt (mem y) st)) in *.
    assert (HI0 : Inv (mkSys es es (wal y))).
    { exists es. cbn [mem disk wal]. split; [apply replay_inert; apply HL|].
      split; [apply seq_refl|]. split; [apply HL | exact HL]. }
    destruct (inv_recover _ HI0) as (r0 & _ & Hrec & _ & _ & HI1). rewrite Hrec in Hs. inversion Hs; subst. exact HI1.
  - destruct (is_ok (e_out (run_stmt (mem y) st))) eqn:Eok.
    + destruct (e_out (run_stmt (mem y) st)) as [m| |] eqn:Eo; try discriminate.
      assert (Hd : is_dml st = true) by (apply (ok_unflushed_is_dml (mem y)); [rewrite Eo; reflexivity | exact Efl]).
      destruct (crash_in_log y st m j HI Hd Hmv Eo) as (y' & Hst & _ & _ & _ & _ & HI').
      rewrite Hst in Hs. inversion Hs; subst. exact HI'.
    + cbn [step] in Hs. rewrite Efl, Eok in Hs. rewrite <- (recover_disk_wal (mem y)) in Hs.
      destruct (inv_recover y HI) as (r & _ & Hrec & _ & _ & HI1).
      destruct y as [m d w]. cbn [mem disk wal] in *. rewrite Hrec in Hs. inversion Hs; subst. exact HI1.
Qed.

Fixpoint hist_ok (y : sys) (evs : list event) : Prop :=
  match evs with
  | [] => True
  | ev :: r => ev_ok y ev /\ match step y ev with (SOk y1, _) => hist_ok y1 r | _ => True end
  end.

Lemma inv_step y ev y1 o : Inv y -> ev_ok y ev -> step y ev = (SOk y1, o) -> Inv y1.
Proof.
  intros HI Hok Hs. destruct ev; cbn [ev_ok] in Hok; try contradiction; [cbn [step] in Hs .. | idtac].
  - pose proof (inv_stmt y st HI Hok) as H1. destruct (exec y st) as [y2 o2]. cbn [fst] in H1.
    destruct o2; inversion Hs; subst; exact H1.
  - inversion Hs; subst. apply inv_flush. exact HI.
  - destruct (inv_recover y HI) as (r & _ & Hrec & _ & _ & HI1). rewrite Hrec in Hs. inversion Hs; subst. exact HI1.
  - eapply inv_crash_in_log; eauto.
Qed.

Theorem inv_run evs : forall y y' os,
  Inv y -> hist_ok y evs -> run_events y evs = (SOk y', os) -> Inv y'.
Proof.
  induction evs as [|ev r IH]; intros y y' os HI Hok Hr.
  - cbn in Hr. inversion Hr; subst. exact HI.
  - cbn [hist_ok] in Hok. destruct Hok as [Hev Hrest]. cbn [run_events] in Hr.
    destruct (step y ev) as [[y1|e|] o] eqn:Es; try discriminate.
    destruct (run_events y1 r) as [fin os'] eqn:Er. inversion Hr; subst.
    eapply IH; [eapply inv_step; eauto | exact Hrest | exact Er].
Qed.

(* the model never fails or panics in recovery along such a history *)
Lemma step_crash_ok y : Inv y -> exists y1, step y EvCrash = (SOk y1, None).
Proof.
  intros HI. destruct (inv_recover y HI) as (r & _ & Hrec & _). cbn [step]. rewrite Hrec. eauto.
Qed.

(* ---------- the C02 theorems ---------- *)
Definition reachable_c (y : sys) : Prop :=
  exists evs os, hist_ok init_sys evs /\ run_events init_sys evs = (SOk y, os).

Lemma reachable_inv_c y : reachable_c y -> Inv y.
Proof. intros (evs & os & Hok & Hr). eapply inv_run; [apply inv_init | exact Hok | exact Hr]. Qed.

Theorem recovery_restores y : reachable_c y ->
  exists y', recover y = Ok y' /\ seq (mem y') (mem y) /\ abs (mem y') = abs (mem y) /\
             disk y' = mem y' /\ wal y' = wal y.
Proof.
  intros Hy. destruct (inv_recover y (reachable_inv_c y Hy)) as (r & _ & Hrec & Sf & _ & _).
  eexists. split; [exact Hrec|]. cbn [mem disk wal]. split; [exact Sf|]. split; [apply seq_abs; exact Sf | auto].
Qed.

Theorem recover_idempotent y y1 : reachable_c y -> recover y = Ok y1 -> recover y1 = Ok y1.
Proof.
  intros Hy H1. destruct (inv_recover y (reachable_inv_c y Hy)) as (r & _ & Hrec & _ & Gf & HI1).
  rewrite Hrec in H1. inversion H1; subst y1. clear H1.
  destruct HI1 as (r1 & Hrep1 & _ & _ & [G1 L1]). cbn [mem disk wal] in *.
  rewrite (replay_inert (flush r) (wal y) G1 L1) in Hrep1. inversion Hrep1; subst r1.
  unfold recover. cbn [disk wal]. rewrite (replay_inert (flush r) (wal y) G1 L1), flush_flush. reflexivity.
Qed.

Theorem ids_never_reused y y1 : reachable_c y -> recover y = Ok y1 ->
  Forall (fun t => Forall (fun k => k <= lastKey (mem y1)) (tree_keys t)) (forest (mem y1)) /\
  Forall (fun t => Forall (fun n => t_lsn n < nextLSN (mem y1)) (nodes t)) (forest (mem y1)).
Proof.
  intros Hy H1. destruct (inv_recover y (reachable_inv_c y Hy)) as (r & _ & Hrec & _ & [[_ _ Gk] [_ Gl]] & _).
  rewrite Hrec in H1. inversion H1; subst y1. cbn [mem]. auto.
Qed.

(* crash-recovery is itself an event of the histories: whatever follows a recovery (further
   statements, flushes, crashes) is covered by the same theorems *)
Theorem reachable_after_crash y y1 : reachable_c y -> recover y = Ok y1 -> reachable_c y1.
Proof.
  intros (evs & os & Hok & Hr) H1. exists (evs ++ [EvCrash]).
  assert (G : forall evs y0 os0, hist_ok y0 evs -> run_events y0 evs = (SOk y, os0) ->
              exists os', hist_ok y0 (evs ++ [EvCrash]) /\ run_events y0 (evs ++ [EvCrash]) = (SOk y1, os')).
  { clear evs os Hok Hr. induction evs as [|ev r IH]; intros y0 os0 Hok Hr.
    - cbn in Hr. inversion Hr; subst y0. cbn [app hist_ok run_events step ev_ok]. rewrite H1.
      eexists. split; [split; [exact I | exact I] | reflexivity].
    - cbn [hist_ok] in Hok. destruct Hok as [Hev Hrest]. cbn [run_events] in Hr.
      destruct (step y0 ev) as [[y2|e|] o] eqn:Es; try discriminate.
      destruct (run_events y2 r) as [fin os'] eqn:Er. inversion Hr; subst.
      destruct (IH y2 os' Hrest Er) as (os2 & A & B).
      cbn [app hist_ok run_events]. rewrite Es, B. eexists. split; [split; [exact Hev | exact A] | reflexivity]. }
  destruct (G evs init_sys os Hok Hr) as (os' & A & B). exists os'. auto.
Qed.

(* clean shutdown = flush, then stop: restart returns exactly the flushed system, counters included *)
Theorem clean_shutdown y : reachable_c y -> recover (do_flush y) = Ok (do_flush y).
Proof.
  intros Hy. destruct (inv_flush y (reachable_inv_c y Hy)) as (r & Hrep & _ & _ & [G L]).
  unfold do_flush in *. cbn [mem disk wal] in *. unfold recover. cbn [disk wal].
  rewrite (replay_inert _ _ G L), flush_flush. reflexivity.
Qed.
