(* Crash theory, part 7: histories of statements, flushes, crash-restarts at statement boundaries
   (C02) and crash-restarts inside a statement's log append (C03); the invariant holds after every
   such history, and the theorems that follow from it. *)
From Coq Require Import Arith Lia Bool List NArith Permutation.
From Mkdb Require Import Model.Engine Proofs.TreeProofs Proofs.StoreInv Proofs.CrashBase Proofs.CrashPages
  Proofs.CrashRedo Proofs.CrashLog Proofs.CrashMain Proofs.CrashPrefix Proofs.CrashTorn Proofs.CrashTornInv Gen.Params.
Import ListNotations.
Local Open Scope N_scope.

(* ---------- histories of statements, flushes and crashes ---------- *)
Definition ev_ok (y : sys) (ev : event) : Prop :=
  match ev with
  | EvStmt st => stmt_ok (mem y) st
  | EvFlush | EvCrash => True
  | EvCrashInLog st _ => stmt_ok (mem y) st
  | EvTornFlush _ => True     (* when the model has no torn file for W the step fails and the history ends *)
  end.

Lemma flushed_shape s st :
  e_flushed (run_stmt s st) = true -> is_ok (e_out (run_stmt s st)) = true /\ e_batch (run_stmt s st) = [].
Proof.
  destruct st; cbn [run_stmt]; try (cbn; discriminate).
  - destruct (st_create_table s name _) as [s1 [u|e|]]; cbn; try discriminate. auto.
  - destruct (first_err _ rows) as [u|e|]; try (cbn; discriminate).
    destruct (insert_rows s table cols rows [] 0) as [[s1 b] o]. cbn. discriminate.
  - destruct (existsb _ sets); [cbn; discriminate|].
    destruct (where_ids s table where_) as [ids|e|]; try (cbn; discriminate).
    destruct (first_err _ ids) as [u|e|]; try (cbn; discriminate).
    destruct (update_rows s table _ _ ids []) as [[s1 b] o]. cbn. discriminate.
  - destruct (where_ids s table where_) as [ids|e|]; try (cbn; discriminate).
    destruct (delete_rows s table ids [] 0) as [[s1 b] o]. cbn. discriminate.
Qed.

Lemma recover_disk_wal m d w : recover (mkSys m d w) = recover (mkSys d d w).
Proof. reflexivity. Qed.

(* a crash while a statement's batch is being appended (any statement, any cut) *)
Lemma inv_crash_in_log y st j y1 o :
  Inv y -> stmt_ok (mem y) st -> step y (EvCrashInLog st j) = (SOk y1, o) -> Inv y1.
Proof.
  intros HI [Hat Hmv] Hs.
  destruct (e_flushed (run_stmt (mem y) st)) eqn:Efl.
  - (* CREATE TABLE: flushed, nothing logged *)
    destruct (flushed_shape _ _ Efl) as [Eok Eb].
    destruct HI as (r & Hrep & Hseq & Gr & HGL).
    pose proof (log_stmt (wal y) (mem y) st HGL) as HL. rewrite Eok, Eb, app_nil_r in HL.
    cbn [step] in Hs. rewrite Efl, Eok, Eb, firstn_nil, app_nil_r in Hs.
    set (es := e_store (run_stmt (mem y) st)) in *.
    assert (HI0 : Inv (mkSys es es (wal y))).
    { exists es. cbn [mem disk wal]. split; [apply replay_inert; apply HL|].
      split; [apply seq_refl|]. split; [apply HL | exact HL]. }
    destruct (inv_recover _ HI0) as (r0 & _ & Hrec & _ & _ & HI1). rewrite Hrec in Hs. inversion Hs; subst. exact HI1.
  - destruct (is_ok (e_out (run_stmt (mem y) st))) eqn:Eok.
    + destruct (e_out (run_stmt (mem y) st)) as [m| |] eqn:Eo; try discriminate.
      assert (Hd : is_dml st = true) by (apply (ok_unflushed_is_dml (mem y)); [rewrite Eo; reflexivity | exact Efl]).
      destruct (crash_in_log y st m j HI Hd Hmv Eo) as (y' & Hst & _ & _ & _ & _ & HI').
      rewrite Hst in Hs. inversion Hs; subst. exact HI'.
    + cbn [step] in Hs. rewrite Efl, Eok in Hs. rewrite <- (recover_disk_wal (mem y)) in Hs.
      destruct (inv_recover y HI) as (r & _ & Hrec & _ & _ & HI1).
      destruct y as [m d w]. cbn [mem disk wal] in *. rewrite Hrec in Hs. inversion Hs; subst. exact HI1.
Qed.

Fixpoint hist_ok (y : sys) (evs : list event) : Prop :=
  match evs with
  | [] => True
  | ev :: r => ev_ok y ev /\ match step y ev with (SOk y1, _) => hist_ok y1 r | _ => True end
  end.

(* the two invariants together: Inv (log replays to the cache; every record inert on the cache) and
   TornInv (the log splits into records inert on the data file and LSN-sorted newer ones) *)
Definition Inv2 (y : sys) : Prop := Inv y /\ TornInv y.

Lemma inv2_step y ev y1 o : Inv2 y -> ev_ok y ev -> step y ev = (SOk y1, o) -> Inv2 y1.
Proof.
  intros [HI HT] Hok Hs. destruct ev; cbn [ev_ok] in Hok.
  - cbn [step] in Hs. pose proof (inv_stmt y st HI Hok) as H1. pose proof (tinv_stmt y st HI HT) as H2.
    destruct (exec y st) as [y2 o2]. cbn [fst] in H1, H2.
    destruct o2; inversion Hs; subst; split; assumption.
  - cbn [step] in Hs. inversion Hs; subst. pose proof (inv_flush y HI) as HI1. split; [exact HI1|].
    destruct HI1 as (r & _ & _ & _ & HGL). cbn [do_flush mem disk wal] in *.
    apply tinv_synced; cbn [mem disk wal]; [exact HGL | apply flush_clean | apply N.le_refl].
  - cbn [step] in Hs. destruct (inv_recover y HI) as (r & _ & Hrec & _ & _ & HI1). rewrite Hrec in Hs. inversion Hs; subst.
    split; [exact HI1|]. destruct (recover_shape _ _ Hrec) as [A B]. apply tinv_after_recover; assumption.
  - pose proof (inv_crash_in_log y st j y1 o HI Hok Hs) as HI1. split; [exact HI1|].
    cbn [step] in Hs.
    match type of Hs with context [recover ?a] => destruct (recover a) as [y2|e|] eqn:Er end; inversion Hs; subst.
    destruct (recover_shape _ _ Er) as [A B]. apply tinv_after_recover; assumption.
  - cbn [step] in Hs. destruct (torn_disk y W) as [d|] eqn:Et; [|discriminate].
    destruct (torn_flush_inv y W d HI HT Et) as (y' & Hrec & _ & _ & _ & HI' & HT').
    rewrite Hrec in Hs. inversion Hs; subst. split; assumption.
Qed.

Lemma inv_step y ev y1 o : Inv2 y -> ev_ok y ev -> step y ev = (SOk y1, o) -> Inv y1.
Proof. intros H A B. apply (inv2_step y ev y1 o H A B). Qed.

Lemma inv2_init : Inv2 init_sys.
Proof. split; [apply inv_init | apply tinv_init]. Qed.

Theorem inv2_run evs : forall y y' os,
  Inv2 y -> hist_ok y evs -> run_events y evs = (SOk y', os) -> Inv2 y'.
Proof.
  induction evs as [|ev r IH]; intros y y' os HI Hok Hr.
  - cbn in Hr. inversion Hr; subst. exact HI.
  - cbn [hist_ok] in Hok. destruct Hok as [Hev Hrest]. cbn [run_events] in Hr.
    destruct (step y ev) as [[y1|e|] o] eqn:Es; try discriminate.
    destruct (run_events y1 r) as [fin os'] eqn:Er. inversion Hr; subst.
    eapply IH; [eapply inv2_step; eauto | exact Hrest | exact Er].
Qed.

Theorem inv_run evs : forall y y' os,
  Inv2 y -> hist_ok y evs -> run_events y evs = (SOk y', os) -> Inv y'.
Proof. intros y y' os H A B. apply (inv2_run evs y y' os H A B). Qed.

(* the model never fails or panics in recovery along such a history *)
Lemma step_crash_ok y : Inv y -> exists y1, step y EvCrash = (SOk y1, None).
Proof.
  intros HI. destruct (inv_recover y HI) as (r & _ & Hrec & _). cbn [step]. rewrite Hrec. eauto.
Qed.

(* ---------- the C02 theorems ---------- *)
Definition reachable_c (y : sys) : Prop :=
  exists evs os, hist_ok init_sys evs /\ run_events init_sys evs = (SOk y, os).

Lemma reachable_inv2 y : reachable_c y -> Inv2 y.
Proof. intros (evs & os & Hok & Hr). eapply inv2_run; [apply inv2_init | exact Hok | exact Hr]. Qed.

Lemma reachable_inv_c y : reachable_c y -> Inv y.
Proof. intros H. apply (reachable_inv2 y H). Qed.

Theorem recovery_restores y : reachable_c y ->
  exists y', recover y = Ok y' /\ seq (mem y') (mem y) /\ abs (mem y') = abs (mem y) /\
             disk y' = mem y' /\ wal y' = wal y.
Proof.
  intros Hy. destruct (inv_recover y (reachable_inv_c y Hy)) as (r & _ & Hrec & Sf & _ & _).
  eexists. split; [exact Hrec|]. cbn [mem disk wal]. split; [exact Sf|]. split; [apply seq_abs; exact Sf | auto].
Qed.

Theorem recover_idempotent y y1 : reachable_c y -> recover y = Ok y1 -> recover y1 = Ok y1.
Proof.
  intros Hy H1. destruct (inv_recover y (reachable_inv_c y Hy)) as (r & _ & Hrec & _ & Gf & HI1).
  rewrite Hrec in H1. inversion H1; subst y1. clear H1.
  destruct HI1 as (r1 & Hrep1 & _ & _ & [G1 L1]). cbn [mem disk wal] in *.
  rewrite (replay_inert (flush r) (wal y) G1 L1) in Hrep1. inversion Hrep1; subst r1.
  unfold recover. cbn [disk wal]. rewrite (replay_inert (flush r) (wal y) G1 L1), flush_flush. reflexivity.
Qed.

Theorem ids_never_reused y y1 : reachable_c y -> recover y = Ok y1 ->
  Forall (fun t => Forall (fun k => k <= lastKey (mem y1)) (tree_keys t)) (forest (mem y1)) /\
  Forall (fun t => Forall (fun n => t_lsn n < nextLSN (mem y1)) (nodes t)) (forest (mem y1)).
Proof.
  intros Hy H1. destruct (inv_recover y (reachable_inv_c y Hy)) as (r & _ & Hrec & _ & [[_ _ Gk] [_ Gl]] & _).
  rewrite Hrec in H1. inversion H1; subst y1. cbn [mem]. auto.
Qed.

(* crash-recovery is itself an event of the histories: whatever follows a recovery (further
   statements, flushes, crashes) is covered by the same theorems *)
Theorem reachable_after_crash y y1 : reachable_c y -> recover y = Ok y1 -> reachable_c y1.
Proof.
  intros (evs & os & Hok & Hr) H1. exists (evs ++ [EvCrash]).
  assert (G : forall evs y0 os0, hist_ok y0 evs -> run_events y0 evs = (SOk y, os0) ->
              exists os', hist_ok y0 (evs ++ [EvCrash]) /\ run_events y0 (evs ++ [EvCrash]) = (SOk y1, os')).
  { clear evs os Hok Hr. induction evs as [|ev r IH]; intros y0 os0 Hok Hr.
    - cbn in Hr. inversion Hr; subst y0. cbn [app hist_ok run_events step ev_ok]. rewrite H1.
      eexists. split; [split; [exact I | exact I] | reflexivity].
    - cbn [hist_ok] in Hok. destruct Hok as [Hev Hrest]. cbn [run_events] in Hr.
      destruct (step y0 ev) as [[y2|e|] o] eqn:Es; try discriminate.
      destruct (run_events y2 r) as [fin os'] eqn:Er. inversion Hr; subst.
      destruct (IH y2 os' Hrest Er) as (os2 & A & B).
      cbn [app hist_ok run_events]. rewrite Es, B. eexists. split; [split; [exact Hev | exact A] | reflexivity]. }
  destruct (G evs init_sys os Hok Hr) as (os' & A & B). exists os'. auto.
Qed.

(* clean shutdown = flush, then stop: restart returns exactly the flushed system, counters included *)
Theorem clean_shutdown y : reachable_c y -> recover (do_flush y) = Ok (do_flush y).
Proof.
  intros Hy. destruct (inv_flush y (reachable_inv_c y Hy)) as (r & Hrep & _ & _ & [G L]).
  unfold do_flush in *. cbn [mem disk wal] in *. unfold recover. cbn [disk wal].
  rewrite (replay_inert _ _ G L), flush_flush. reflexivity.
Qed.

(* C04, in-place case, for every reachable system *)
Theorem torn_flush_recovers y W d :
  reachable_c y -> torn_disk y W = Some d ->
  exists y', recover (mkSys d d (wal y)) = Ok y' /\ seq (mem y') (mem y) /\ abs (mem y') = abs (mem y) /\
             step y (EvTornFlush W) = (SOk y', None) /\ Good (mem y') /\ reachable_c y'.
Proof.
  intros Hy Htd. destruct (reachable_inv2 y Hy) as [HI HT].
  destruct (torn_flush_inv y W d HI HT Htd) as (y' & Hrec & S & A & Hst & HI' & HT').
  exists y'. split; [exact Hrec|]. split; [exact S|]. split; [exact A|]. split; [exact Hst|].
  split; [destruct HI' as (_ & _ & _ & _ & [G _]); exact G|].
  destruct Hy as (evs & os & Hok & Hr). exists (evs ++ [EvTornFlush W]).
  assert (G : forall evs y0 os0, hist_ok y0 evs -> run_events y0 evs = (SOk y, os0) ->
              exists os', hist_ok y0 (evs ++ [EvTornFlush W]) /\ run_events y0 (evs ++ [EvTornFlush W]) = (SOk y', os')).
  { clear evs os Hok Hr. induction evs as [|ev r IH]; intros y0 os0 Hok Hr.
    - cbn in Hr. inversion Hr; subst y0. cbn [app hist_ok run_events ev_ok]. rewrite Hst.
      eexists. split; [split; [exact I | exact I] | reflexivity].
    - cbn [hist_ok] in Hok. destruct Hok as [Hev Hrest]. cbn [run_events] in Hr.
      destruct (step y0 ev) as [[y2|e|] o] eqn:Es; try discriminate.
      destruct (run_events y2 r) as [fin os'] eqn:Er. inversion Hr; subst.
      destruct (IH y2 os' Hrest Er) as (os2 & A1 & B1).
      cbn [app hist_ok run_events]. rewrite Es, B1. eexists. split; [split; [exact Hev | exact A1] | reflexivity]. }
  destruct (G evs init_sys os Hok Hr) as (os' & A1 & B1). exists os'. auto.
Qed.
