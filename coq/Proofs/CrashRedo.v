(* Crash theory, part 3: do = redo. Replaying the records a successful row operation logged,
   on a store equal (up to dirty flags) to the one the operation ran on, gives a store equal
   (up to dirty flags) to the operation's result - whatever the two stores' row-id and LSN
   counters are, as long as both respect the LSN discipline. *)
From Coq Require Import Arith Lia Bool List NArith Permutation.
From Mkdb Require Import Model.Engine Proofs.TreeProofs Proofs.StoreInv Proofs.CrashBase Proofs.CrashPages Gen.Params.
Import ListNotations.
Local Open Scope N_scope.

(* ---------- bump_lsn ---------- *)
Lemma bump_forest s l : forest (bump_lsn s l) = forest s.
Proof. unfold bump_lsn. destruct (N.leb _ _); reflexivity. Qed.
Lemma bump_lastKey s l : lastKey (bump_lsn s l) = lastKey s.
Proof. unfold bump_lsn. destruct (N.leb _ _); reflexivity. Qed.
Lemma bump_ptRoot s l : ptRoot (bump_lsn s l) = ptRoot s.
Proof. unfold bump_lsn. destruct (N.leb _ _); reflexivity. Qed.
Lemma bump_nextFree s l : nextFree (bump_lsn s l) = nextFree s.
Proof. unfold bump_lsn. destruct (N.leb _ _); reflexivity. Qed.
Lemma bump_gt s l : l < nextLSN (bump_lsn s l).
Proof. unfold bump_lsn. destruct (N.leb_spec (nextLSN s) l); cbn [nextLSN]; lia. Qed.
Lemma bump_ge s l : nextLSN s <= nextLSN (bump_lsn s l).
Proof. unfold bump_lsn. destruct (N.leb_spec (nextLSN s) l); cbn [nextLSN]; lia. Qed.
Lemma bump_id s l : l < nextLSN s -> bump_lsn s l = s.
Proof. intros H. unfold bump_lsn. destruct (N.leb_spec (nextLSN s) l); [lia | reflexivity]. Qed.

(* ---------- bump_key ---------- *)
Lemma bkey_forest s w : forest (bump_key s w) = forest s.
Proof. unfold bump_key. destruct (w_op w); reflexivity. Qed.
Lemma bkey_ptRoot s w : ptRoot (bump_key s w) = ptRoot s.
Proof. unfold bump_key. destruct (w_op w); reflexivity. Qed.
Lemma bkey_nextFree s w : nextFree (bump_key s w) = nextFree s.
Proof. unfold bump_key. destruct (w_op w); reflexivity. Qed.
Lemma bkey_nextLSN s w : nextLSN (bump_key s w) = nextLSN s.
Proof. unfold bump_key. destruct (w_op w); reflexivity. Qed.
Lemma bkey_ge s w : lastKey s <= lastKey (bump_key s w).
Proof. unfold bump_key. destruct (w_op w); cbn [lastKey]; lia. Qed.
Lemma bkey_insert s w : w_op w = OpInsert -> w_cell w <= lastKey (bump_key s w).
Proof. intros H. unfold bump_key. rewrite H. cbn [lastKey]. lia. Qed.
Lemma bkey_id s w : (w_op w = OpInsert -> w_cell w <= lastKey s) -> bump_key s w = s.
Proof.
  intros H. unfold bump_key. destruct (w_op w); try reflexivity. specialize (H eq_refl).
  destruct s as [f lk pt nf nl]. cbn in *. f_equal. lia.
Qed.

(* the store replay_one works on: counters raised first *)
Definition pre (s : store) (w : walentry) : store := bump_key (bump_lsn s (w_lsn w)) w.
Lemma pre_forest s w : forest (pre s w) = forest s.
Proof. unfold pre. rewrite bkey_forest. apply bump_forest. Qed.
Lemma pre_ptRoot s w : ptRoot (pre s w) = ptRoot s.
Proof. unfold pre. rewrite bkey_ptRoot. apply bump_ptRoot. Qed.
Lemma pre_nextFree s w : nextFree (pre s w) = nextFree s.
Proof. unfold pre. rewrite bkey_nextFree. apply bump_nextFree. Qed.
Lemma pre_gt s w : w_lsn w < nextLSN (pre s w).
Proof. unfold pre. rewrite bkey_nextLSN. apply bump_gt. Qed.
Lemma pre_ge s w : nextLSN s <= nextLSN (pre s w).
Proof. unfold pre. rewrite bkey_nextLSN. apply bump_ge. Qed.
Lemma pre_key_ge s w : lastKey s <= lastKey (pre s w).
Proof. unfold pre. pose proof (bkey_ge (bump_lsn s (w_lsn w)) w). rewrite bump_lastKey in H. exact H. Qed.
Lemma pre_key_insert s w : w_op w = OpInsert -> w_cell w <= lastKey (pre s w).
Proof. intros H. unfold pre. apply bkey_insert. exact H. Qed.
Lemma pre_id s w : w_lsn w < nextLSN s -> (w_op w = OpInsert -> w_cell w <= lastKey s) -> pre s w = s.
Proof. intros A B. unfold pre. rewrite (bump_id s _ A). apply bkey_id. exact B. Qed.

Lemma store_eta s : mkStore (forest s) (lastKey s) (ptRoot s) (nextFree s) (nextLSN s) = s.
Proof. destruct s; reflexivity. Qed.

Lemma bump_seq s l : seq (bump_lsn s l) s.
Proof. constructor; [rewrite bump_forest | apply bump_ptRoot | apply bump_nextFree]; reflexivity. Qed.

Lemma pre_seq s w : seq (pre s w) s.
Proof. constructor; [rewrite pre_forest | apply pre_ptRoot | apply pre_nextFree]; reflexivity. Qed.

Lemma bump_good s l : Good s -> Good (bump_lsn s l).
Proof.
  intros [A [B C]]. split.
  - rewrite <- (store_eta (bump_lsn s l)), bump_forest, bump_lastKey, bump_nextFree.
    apply SInv_header; [lia | exact A].
  - split; [pose proof (bump_ge s l); lia|]. rewrite bump_forest.
    eapply Forall_nodes_weaken; [apply bump_ge | exact C].
Qed.

Lemma pre_good s w : Good s -> Good (pre s w).
Proof.
  intros [A [B C]]. split.
  - rewrite <- (store_eta (pre s w)), pre_forest, pre_nextFree.
    apply SInv_header; [apply pre_key_ge | exact A].
  - split; [pose proof (pre_ge s w); lia|]. rewrite pre_forest.
    eapply Forall_nodes_weaken; [apply pre_ge | exact C].
Qed.

(* ---------- transfer across equality up to dirty flags ---------- *)
Lemma fclean_Forall (Q : tree -> Prop) f g :
  fclean f = fclean g -> (forall t t', erase false t = erase false t' -> Q t' -> Q t) ->
  Forall Q g -> Forall Q f.
Proof.
  intros H HQ Hg. rewrite Forall_forall in *. intros t Ht.
  destruct (fclean_in f g t H Ht) as (t' & Ht' & E). apply (HQ t t'); auto.
Qed.

Lemma fclean_all_offsets f g : fclean f = fclean g -> all_offsets f = all_offsets g.
Proof.
  revert g. induction f as [|a f IH]; intros g H.
  - destruct g; [reflexivity | discriminate].
  - apply fclean_eq_cons_inv in H as (b & g' & -> & Hab & Hfg).
    cbn [all_offsets flat_map]. fold (all_offsets f). fold (all_offsets g'). rewrite (IH _ Hfg). f_equal.
    rewrite <- (erase_offsets false a), Hab. apply erase_offsets.
Qed.

(* well-formedness does not look at dirty flags or LSNs *)
Lemma erase_wf el t : forall h lo hi, wf ML MI h lo hi (erase el t) <-> wf ML MI h lo hi t.
Proof.
  induction t as [off l d cells hl hr ls rs | off l d kids rgt IHk IHr] using tree_ind2; intros h lo hi; [reflexivity|].
  rewrite erase_node. destruct h as [|h']; [cbn; tauto|]. rewrite !wf_node.
  assert (E1 : ekids el kids <> [] <-> kids <> []) by (destruct kids; cbn; split; congruence).
  rewrite E1, ekids_length.
  assert (E2 : forall lo0, wf_kids (wf ML MI h') lo0 hi (ekids el kids) (erase el rgt) <->
                           wf_kids (wf ML MI h') lo0 hi kids rgt).
  { clear E1. induction kids as [|[s c] r IH]; intros lo0.
    - cbn. apply IHr.
    - inversion IHk as [|? ? Hc Hr]; subst. cbn [snd] in Hc.
      cbn [ekids map fst snd wf_kids]. fold (ekids el r). rewrite Hc, (IH Hr). tauto. }
  rewrite E2. tauto.
Qed.

Lemma erase_linked el l : forall p, linked p (map (erase el) l) <-> linked p l.
Proof.
  induction l as [|x r IH]; intros p; [reflexivity|].
  cbn [map linked]. destruct x as [off a b c hl hr ls rs | off a b kids rgt]; [|rewrite erase_node; tauto].
  cbn [erase]. rewrite IH.
  destruct r as [|y r']; [reflexivity|]. cbn [map]. rewrite erase_off. reflexivity.
Qed.

Lemma erase_WFT el free t : WFT ML MI free (erase el t) <-> WFT ML MI free t.
Proof.
  split; intros [[h Hs] Hl Hn Hb]; constructor.
  - exists h. apply (erase_wf el). exact Hs.
  - rewrite erase_leaves in Hl. apply (erase_linked el). exact Hl.
  - rewrite erase_offsets in Hn. exact Hn.
  - rewrite erase_offsets in Hb. exact Hb.
  - exists h. apply (erase_wf el). exact Hs.
  - rewrite erase_leaves. apply (erase_linked el). exact Hl.
  - rewrite erase_offsets. exact Hn.
  - rewrite erase_offsets. exact Hb.
Qed.

(* ---------- the relation kept between the replaying store and the original ---------- *)
Record Rel (a b : store) : Prop := mkRel { rel_seq : seq a b; rel_ga : Good a; rel_gb : Good b }.

(* the replaying store with the original's counters *)
Definition align (a b : store) : store :=
  mkStore (forest a) (lastKey b) (ptRoot a) (nextFree a) (nextLSN b).

Lemma align_seq a b : seq a b -> seq (align a b) b.
Proof. intros [A B C]. constructor; assumption. Qed.

Lemma align_good a b : Rel a b -> Good (align a b).
Proof.
  intros [[Hf Hp Hn] [[Aw An Ak] [Al1 Al2]] [[Bw Bn Bk] [Bl1 Bl2]]]. split.
  - constructor; cbn [align forest nextFree lastKey]; [exact Aw | exact An |].
    apply (fclean_Forall _ _ _ Hf); [|exact Bk]. intros t t' E H.
    rewrite <- (erase_keys false t), E, erase_keys. exact H.
  - split; cbn [align forest nextLSN]; [exact Bl1|].
    apply (fclean_Forall _ _ _ Hf); [|exact Bl2]. intros t t' E H.
    rewrite Forall_forall in *. intros n Hn'.
    destruct (erase_eq_nodes t t' n (eq_sym E) Hn') as (n' & Hin & En).
    rewrite <- (erase_lsn n), <- En, erase_lsn. apply H. exact Hin.
Qed.

(* ---------- congruence of the insertion primitive ---------- *)
Lemma tree_insert_congr ta tb k lsn v free :
  erase false ta = erase false tb ->
  match tree_insert ML MI PS MV ta k lsn v free, tree_insert ML MI PS MV tb k lsn v free with
  | TOk (t1, f1), TOk (t2, f2) => erase false t1 = erase false t2 /\ f1 = f2 /\ t_off t1 = t_off t2
  | TErr e1, TErr e2 => e1 = e2
  | _, _ => False
  end.
Proof.
  intros E. pose proof (erase_tree_insert false ta k lsn v free) as A.
  pose proof (erase_tree_insert false tb k lsn v free) as B. rewrite E in A.
  destruct (tree_insert ML MI PS MV (erase false tb) k lsn v free) as [[t0 f0]|e0];
  destruct (tree_insert ML MI PS MV ta k lsn v free) as [[t1 f1]|e1];
  destruct (tree_insert ML MI PS MV tb k lsn v free) as [[t2 f2]|e2]; try contradiction.
  - destruct A as (A1 & A2 & A3), B as (B1 & B2 & B3). repeat split; congruence.
  - congruence.
Qed.

Lemma bt_insert_congr x y root v :
  seq x y -> lastKey x = lastKey y -> nextLSN x = nextLSN y ->
  seq (fst (bt_insert x root v)) (fst (bt_insert y root v)) /\
  snd (bt_insert x root v) = snd (bt_insert y root v) /\
  lastKey (fst (bt_insert x root v)) = lastKey (fst (bt_insert y root v)) /\
  nextLSN (fst (bt_insert x root v)) = nextLSN (fst (bt_insert y root v)).
Proof.
  intros S Ek El. unfold bt_insert. pose proof (seq_get_tree x y root S) as G.
  destruct (get_tree x root) as [tx|ex|], (get_tree y root) as [ty|ey|]; try contradiction; cbn [fst snd].
  - rewrite Ek, El, (seq_free _ _ S).
    pose proof (tree_insert_congr tx ty (lastKey y + 1) (nextLSN y) v (nextFree y) G) as T.
    destruct (tree_insert ML MI PS MV tx (lastKey y + 1) (nextLSN y) v (nextFree y)) as [[t1 f1]|e1];
    destruct (tree_insert ML MI PS MV ty (lastKey y + 1) (nextLSN y) v (nextFree y)) as [[t2 f2]|e2];
      try contradiction; cbn [fst snd lastKey nextLSN].
    + destruct T as (T1 & T2 & T3). subst f2. split; [|rewrite T3; auto].
      constructor; cbn [forest ptRoot nextFree]; [|apply (seq_pt _ _ S)|reflexivity].
      apply fclean_replace_root; [apply (seq_forest _ _ S) | exact T1].
    + subst e2. split; [|auto]. constructor; cbn [forest ptRoot nextFree]; [apply (seq_forest _ _ S)|apply (seq_pt _ _ S)|reflexivity].
  - subst ey. auto.
Qed.

(* ---------- redo of an insert record ---------- *)
Definition after_root_move (a1 : store) (root newroot lsn : N) : replay_res :=
  match redo_root_move a1 root newroot lsn with
  | (s2, Ok _) => RCont s2
  | (s2, Err e) => RFail s2 e
  | (s2, Panic) => RPanic
  end.

Lemma find_root_in off f t : find_root off f = Some t -> In t f /\ t_off t = off.
Proof.
  intros H. destruct (find_root_split _ _ _ H) as (l1 & l2 & -> & Ho & _). split; [|exact Ho].
  apply in_or_app. right. left. reflexivity.
Qed.

Lemma redo_insert a b root v b1 k lsn newroot :
  Rel a b -> bt_insert b root v = (b1, Ok (k, lsn, newroot)) ->
  lsn = nextLSN b /\ nextLSN b1 = lsn + 1 /\
  exists a1, Rel a1 b1 /\ lsn < nextLSN a1 /\
    replay_one a (mkWal OpInsert lsn root k v) =
      if N.eqb newroot root then RCont a1 else after_root_move a1 root newroot lsn.
Proof.
  intros HR Hb. pose proof (align_good a b HR) as Gx. pose proof (align_seq a b (rel_seq _ _ HR)) as Sx.
  destruct (bt_insert_congr (align a b) b root v Sx eq_refl eq_refl) as (S1 & R1 & K1 & L1).
  pose proof (good_bt_insert (align a b) root v Gx) as Gx1.
  pose proof (good_bt_insert b root v (rel_gb _ _ HR)) as Gb1.
  rewrite Hb in *. cbn [fst snd] in *.
  unfold bt_insert in R1, S1, K1, L1, Gx1. unfold get_tree in *.
  change (forest (align a b)) with (forest a) in *. change (nextFree (align a b)) with (nextFree a) in *.
  change (lastKey (align a b)) with (lastKey b) in *. change (nextLSN (align a b)) with (nextLSN b) in *.
  change (ptRoot (align a b)) with (ptRoot a) in *.
  destruct (find_root root (forest a)) as [ta|] eqn:Efa; [|discriminate].
  destruct (tree_insert ML MI PS MV ta (lastKey b + 1) (nextLSN b) v (nextFree a)) as [[ta' nf]|e] eqn:Ei;
    cbn [fst snd] in *; [|destruct e; discriminate].
  inversion R1; subst k lsn newroot. clear R1.
  cbn [lastKey nextLSN] in K1, L1.
  split; [reflexivity|]. split; [symmetry; exact L1|].
  exists (mkStore (replace_root root ta' (forest a)) (N.max (N.max (lastKey a) (lastKey b + 1)) (lastKey b + 1)) (ptRoot a) nf
                  (nextLSN (bump_lsn a (nextLSN b)))).
  destruct (find_root_in _ _ _ Efa) as [Hin Hoff].
  split; [|split].
  - constructor; [| |exact Gb1].
    + destruct S1 as [F1 P1 N1]. constructor; assumption.
    + destruct Gx1 as [Sx1 [Lp Lx1]]. split.
      * apply (SInv_header _ (N.max (N.max (lastKey a) (lastKey b + 1)) (lastKey b + 1)) (ptRoot a) (nextLSN (bump_lsn a (nextLSN b)))) in Sx1;
          [exact Sx1 | cbn [lastKey]; lia].
      * pose proof (bump_gt a (nextLSN b)). split; cbn [nextLSN forest] in *; [lia|].
        eapply Forall_nodes_weaken; [|exact Lx1]. lia.
  - cbn [nextLSN]. apply bump_gt.
  - unfold replay_one. cbn [w_lsn w_page w_op w_cell w_val bump_key forest nextFree lastKey ptRoot nextLSN]. rewrite bump_forest.
    rewrite (find_node_complete (forest a) root true ta).
    2:{ destruct HR as [_ [[_ An _] _] _]. exact An. }
    2:{ exists ta. repeat split; auto; [apply root_in_nodes | rewrite Hoff, N.eqb_refl; reflexivity]. }
    assert (Hl : t_lsn ta < nextLSN b).
    { destruct Gx as [_ [_ Lx]]. cbn [align forest nextLSN] in Lx. rewrite Forall_forall in Lx.
      specialize (Lx ta Hin). rewrite Forall_forall in Lx. apply Lx. apply root_in_nodes. }
    destruct (N.leb_spec (nextLSN b) (t_lsn ta)) as [Hle|_]; [lia|].
    cbn [negb]. rewrite bump_nextFree, Ei, bump_lastKey, bump_ptRoot.
    cbn [forest lastKey ptRoot nextFree nextLSN].
    rewrite (N.eqb_sym (t_off ta') root). rewrite N.eqb_sym. reflexivity.
Qed.

(* ---------- pages touched in place ---------- *)
Lemma has_page_in pg t : has_page pg t = true <-> In pg (offsets_of t).
Proof.
  unfold has_page. rewrite existsb_exists. split.
  - intros (x & Hx & E). apply N.eqb_eq in E. subst. exact Hx.
  - intros H. exists pg. split; [exact H | apply N.eqb_refl].
Qed.

Lemma node_offset_in n t : In n (nodes t) -> In (t_off n) (offsets_of t).
Proof. intros H. unfold offsets_of. apply in_map. exact H. Qed.

Lemma touch_forest_page pg k lsn g : forall f b n,
  NoDup (all_offsets f) -> page_in f pg b n ->
  page_in (touch_forest pg k lsn g f) pg b (touch_leaf pg k lsn g n).
Proof.
  induction f as [|a f IH]; intros b n Hn (t & Ht & Hin & Hp & Hb); [contradiction|].
  cbn [all_offsets flat_map] in Hn. fold (all_offsets f) in Hn.
  apply NoDup_app_inv in Hn as (Ha & Hf & Hd). cbn [touch_forest].
  destruct (has_page pg a) eqn:Ehp.
  - apply has_page_in in Ehp. destruct Ht as [->|Ht].
    + exists (touch_leaf pg k lsn g t). split; [left; reflexivity|]. split; [|split].
      * rewrite touch_nodes. apply in_map. exact Hin.
      * rewrite touch_off. exact Hp.
      * rewrite touch_off. exact Hb.
    + exfalso. apply (Hd pg Ehp). apply in_all_offsets. exists t. split; [exact Ht|].
      rewrite <- Hp. apply node_offset_in. exact Hin.
  - destruct Ht as [->|Ht].
    + exfalso. assert (In pg (offsets_of t)) by (rewrite <- Hp; apply node_offset_in; exact Hin).
      apply has_page_in in H. congruence.
    + destruct (IH b n Hf) as (t' & A & B & C & D); [exists t; auto|].
      exists t'. repeat split; auto. right. exact A.
Qed.

Lemma leaves_is_leaf t : forall l, In l (leaves t) -> is_leaf l.
Proof.
  induction t as [off l0 d cells hl hr ls rs | off l0 d kids rgt IHk IHr] using tree_ind2; intros l H.
  - destruct H as [<-|[]]. exact I.
  - rewrite leaves_node in H. apply in_app_or in H as [H|H]; [|apply IHr; exact H].
    unfold kids_leaves in H. apply in_flat_map in H as (sc & Hsc & Hl).
    rewrite Forall_forall in IHk. apply (IHk sc Hsc). exact Hl.
Qed.

Definition leaf_has (f : list tree) (pg key : N) : Prop :=
  exists t l, In t f /\ In l (leaves t) /\ t_off l = pg /\ In key (keys_of (leaf_cells l)).

Lemma keys_existsb key cells :
  In key (keys_of cells) -> existsb (fun c => N.eqb (lc_key c) key) cells = true.
Proof.
  intros H. apply in_map_iff in H as (c & E & Hc). apply existsb_exists. exists c. split; [exact Hc|].
  apply N.eqb_eq. exact E.
Qed.

Lemma redo_leaf_lookup a b pg key :
  Rel a b -> leaf_has (forest b) pg key ->
  exists isroot off ll d cells hl hr ls rs,
    find_node pg (forest a) = Some (isroot, TLeaf off ll d cells hl hr ls rs) /\
    N.leb (nextLSN b) ll = false /\ existsb (fun c => N.eqb (lc_key c) key) cells = true.
Proof.
  intros [[Hf _ _] [[_ An _] _] [_ [_ Bl]]] (t & l & Ht & Hl & Hp & Hk).
  pose proof (leaves_is_leaf t l Hl) as Hleaf.
  assert (Hpi : page_in (forest b) pg (N.eqb (t_off t) pg) l).
  { exists t. repeat split; auto. apply leaves_sub_nodes. exact Hl. }
  destruct (page_in_fclean (forest b) (forest a) pg _ l (eq_sym Hf) Hpi) as (n' & Hpa & En).
  destruct l as [off ll d cells hl hr ls rs|]; [|contradiction].
  destruct n' as [off' ll' d' cells' hl' hr' ls' rs' | off' ll' d' kids' rgt']; [|rewrite erase_node in En; discriminate].
  cbn [erase] in En. inversion En; subst.
  exists (N.eqb (t_off t) (t_off (TLeaf off ll d cells hl hr ls rs))), off, ll, d', cells, hl, hr, ls, rs.
  split; [apply find_node_complete; assumption|]. split.
  - rewrite Forall_forall in Bl. specialize (Bl t Ht). rewrite Forall_forall in Bl.
    specialize (Bl _ (leaves_sub_nodes _ _ Hl)). cbn [t_lsn] in Bl. apply N.leb_gt. exact Bl.
  - apply keys_existsb. exact Hk.
Qed.

Lemma lsn_touch_at s pg k l g :
  LsnInv s -> l < nextLSN s -> LsnInv (set_forest s (touch_forest pg k l g (forest s))).
Proof.
  intros [Hp Hl] Hlt. split; cbn [set_forest nextLSN forest]; [exact Hp|].
  apply touch_forest_Forall; [|exact Hl].
  intros t Ht. rewrite touch_nodes, Forall_map. eapply Forall_impl; [|exact Ht]. cbn. intros n Hn.
  destruct (touch_lsn pg k l g n) as [E|E]; rewrite E; lia.
Qed.

Lemma good_touch_at s pg k l g :
  (forall x, lc_key (g x) = lc_key x) -> Good s -> l < nextLSN s ->
  Good (set_forest s (touch_forest pg k l g (forest s))).
Proof. intros Hg [A B] Hl. split; [apply touch_forest_inv | apply lsn_touch_at]; assumption. Qed.

Lemma rel_touch a b pg key G :
  Rel a b -> (forall x, lc_key (G x) = lc_key x) ->
  Rel (set_forest (bump_lsn a (nextLSN b)) (touch_forest pg key (nextLSN b) G (forest (bump_lsn a (nextLSN b)))))
      (mkStore (touch_forest pg key (nextLSN b) G (forest b)) (lastKey b) (ptRoot b) (nextFree b) (nextLSN b + 1)).
Proof.
  intros [[Hf Hp Hn] Ga Gb] HG. constructor.
  - constructor; cbn [set_forest forest ptRoot nextFree].
    + rewrite bump_forest. apply fclean_touch_forest. exact Hf.
    + rewrite bump_ptRoot. exact Hp.
    + rewrite bump_nextFree. exact Hn.
  - apply good_touch_at; [exact HG | apply bump_good; exact Ga | apply bump_gt].
  - apply good_touch; assumption.
Qed.

(* ---------- the catalog scans of updatePageTable / redoRootMove ---------- *)
Fixpoint pt_scan (P : tuple -> bool) (pg : N) (cs : list leafcell)
         (rest : res (option (N * leafcell * tuple))) : res (option (N * leafcell * tuple)) :=
  match cs with
  | [] => rest
  | c :: cr =>
      if lc_deleted c then pt_scan P pg cr rest else
      do m <- decode_tuple pageTableSchema (lc_val c) [];
      if P m then Ok (Some (pg, c, m)) else pt_scan P pg cr rest
  end.

Definition off_pred (o : N) (m : tuple) : bool := value_eqb (tget "file_offset" m) (VInt (Z.of_N o)).
Definition name_pred (name : string) (m : tuple) : bool := value_eqb (tget "table_name" m) (VStr name).

Lemma pt_find_off_cons o l r :
  pt_find_off o (l :: r) = pt_scan (off_pred o) (t_off l) (leaf_cells l) (pt_find_off o r).
Proof.
  cbn [pt_find_off]. induction (leaf_cells l) as [|c cr IH]; [reflexivity|].
  cbn [pt_scan]. destruct (lc_deleted c); [exact IH|].
  destruct (decode_tuple pageTableSchema (lc_val c) []) as [m|e|]; cbn [bind]; try reflexivity.
  unfold off_pred at 1. destruct (value_eqb _ _); [reflexivity | exact IH].
Qed.

Lemma pt_find_row_cons name l r :
  pt_find_row name (l :: r) = pt_scan (name_pred name) (t_off l) (leaf_cells l) (pt_find_row name r).
Proof.
  cbn [pt_find_row]. induction (leaf_cells l) as [|c cr IH]; [reflexivity|].
  cbn [pt_scan]. destruct (lc_deleted c); [exact IH|].
  destruct (decode_tuple pageTableSchema (lc_val c) []) as [m|e|]; cbn [bind]; try reflexivity.
  unfold name_pred at 1. destruct (value_eqb _ _); [reflexivity | exact IH].
Qed.

Lemma pt_find_off_erase el o ls : pt_find_off o (map (erase el) ls) = pt_find_off o ls.
Proof.
  induction ls as [|l r IH]; [reflexivity|]. cbn [map].
  rewrite !pt_find_off_cons, IH, erase_off, erase_leaf_cells. reflexivity.
Qed.

Lemma pt_scan_some P pg cs rest pg' c m :
  pt_scan P pg cs rest = Ok (Some (pg', c, m)) ->
  (pg' = pg /\ In c cs) \/ rest = Ok (Some (pg', c, m)).
Proof.
  induction cs as [|x cr IH]; cbn [pt_scan]; intros H; [right; exact H|].
  destruct (lc_deleted x).
  - destruct (IH H) as [[A B]|A]; [left; split; [exact A | right; exact B] | right; exact A].
  - destruct (decode_tuple pageTableSchema (lc_val x) []) as [m0|e|]; cbn [bind] in H; try discriminate.
    destruct (P m0).
    + inversion H; subst. left. split; [reflexivity | left; reflexivity].
    + destruct (IH H) as [[A B]|A]; [left; split; [exact A | right; exact B] | right; exact A].
Qed.

Lemma pt_find_row_some name ls pg c m :
  pt_find_row name ls = Ok (Some (pg, c, m)) -> exists l, In l ls /\ t_off l = pg /\ In c (leaf_cells l).
Proof.
  induction ls as [|l r IH]; [discriminate|]. rewrite pt_find_row_cons. intros H.
  apply pt_scan_some in H as [[A B]|H].
  - exists l. split; [left; reflexivity | auto].
  - destruct (IH H) as (l' & A & B & C). exists l'. split; [right; exact A | auto].
Qed.

Definition cat_scan (s : store) (F : list tree -> res (option (N * leafcell * tuple))) :=
  do pt <- get_tree s (ptRoot s); do ls <- of_tres (scan_right_leaves pt); F ls.

(* the hypothesis a root move needs: the catalog row rewritten by updatePageTable (found by
   table name) is the row redoRootMove would rewrite (the first live row holding the old root) *)
Definition move_ok (s1 : store) (oldroot : N) (name : string) : Prop :=
  cat_scan s1 (pt_find_off oldroot) = cat_scan s1 (pt_find_row name).

Lemma scan_leaves_eq t1 t2 : erase false t1 = erase false t2 ->
  map_tres (map (erase false)) (scan_right_leaves t1) = map_tres (map (erase false)) (scan_right_leaves t2).
Proof. intros H. rewrite <- !erase_scan_right_leaves, H. reflexivity. Qed.

Lemma seq_cat_scan_off a b o : seq a b -> cat_scan a (pt_find_off o) = cat_scan b (pt_find_off o).
Proof.
  intros S. unfold cat_scan. rewrite (seq_pt _ _ S). pose proof (seq_get_tree a b (ptRoot b) S) as G.
  destruct (get_tree a (ptRoot b)) as [t1|e1|], (get_tree b (ptRoot b)) as [t2|e2|]; try contradiction; cbn [bind].
  - pose proof (scan_leaves_eq _ _ G) as E.
    destruct (scan_right_leaves t1) as [l1|x1], (scan_right_leaves t2) as [l2|x2]; cbn [map_tres] in E; try discriminate.
    + inversion E as [E']. cbn [of_tres bind].
      rewrite <- (pt_find_off_erase false o l1), E', pt_find_off_erase. reflexivity.
    + inversion E; subst. reflexivity.
  - subst. reflexivity.
Qed.

(* touching the same cell twice with the same bytes = touching it once (the later LSN wins) *)
Lemma map_cell_twice k g cells :
  (forall x, lc_key (g x) = lc_key x) -> (forall x, g (g x) = g x) ->
  map_cell k g (map_cell k g cells) = map_cell k g cells.
Proof.
  intros Hk Hg. unfold map_cell. rewrite map_map. apply map_ext. intros c.
  destruct (N.eqb (lc_key c) k) eqn:E; [|rewrite E; reflexivity].
  rewrite Hk, E. apply Hg.
Qed.

Lemma touch_leaf_twice pg k l1 l2 g t :
  (forall x, lc_key (g x) = lc_key x) -> (forall x, g (g x) = g x) ->
  touch_leaf pg k l2 g (touch_leaf pg k l1 g t) = touch_leaf pg k l2 g t.
Proof.
  intros Hk Hg. induction t as [off l d cells hl hr ls rs | off l d kids rgt IHk IHr] using tree_ind2.
  - cbn [touch_leaf]. destruct (N.eqb off pg) eqn:E; cbn [touch_leaf]; rewrite E; [|reflexivity].
    rewrite map_cell_twice by assumption. reflexivity.
  - rewrite !touch_leaf_node, IHr. f_equal. rewrite map_kids_map.
    apply (map_kids_ext (fun t => touch_leaf pg k l2 g (touch_leaf pg k l1 g t)) (touch_leaf pg k l2 g)). exact IHk.
Qed.

Lemma touch_forest_twice pg k l1 l2 g f :
  (forall x, lc_key (g x) = lc_key x) -> (forall x, g (g x) = g x) ->
  touch_forest pg k l2 g (touch_forest pg k l1 g f) = touch_forest pg k l2 g f.
Proof.
  intros Hk Hg. induction f as [|t f IH]; [reflexivity|]. cbn [touch_forest].
  destruct (has_page pg t) eqn:E; cbn [touch_forest].
  - unfold has_page. rewrite touch_offsets. fold (has_page pg t). rewrite E.
    rewrite touch_leaf_twice by assumption. reflexivity.
  - rewrite E, IH. reflexivity.
Qed.

(* ---------- redo of update / delete records ---------- *)
Definition upd_fun (bs : bytes) : leafcell -> leafcell := fun x => mkLC (lc_key x) (lc_deleted x) bs.
Definition del_fun : leafcell -> leafcell := fun x => mkLC (lc_key x) true (lc_val x).

Lemma redo_update_record a b pg key bs :
  Rel a b -> leaf_has (forest b) pg key -> (MV <? length bs)%nat = false ->
  exists a1,
    replay_one a (mkWal OpUpdate (nextLSN b) pg key bs) = RCont a1 /\
    Rel a1 (mkStore (touch_forest pg key (nextLSN b) (upd_fun bs) (forest b)) (lastKey b) (ptRoot b) (nextFree b) (nextLSN b + 1)) /\
    nextLSN b < nextLSN a1.
Proof.
  intros HR Hh Hmv.
  destruct (redo_leaf_lookup a b pg key HR Hh) as (isroot & off & ll & d & cells & hl & hr & ls & rs & Hfind & Hleb & Hex).
  eexists. split; [|split].
  - unfold replay_one. cbn [w_lsn w_page w_op w_cell w_val bump_key]. rewrite bump_forest, Hfind. cbn [t_lsn].
    rewrite Hleb, Hmv, Hex. rewrite <- (bump_forest a (nextLSN b)). reflexivity.
  - apply (rel_touch a b pg key (upd_fun bs) HR). reflexivity.
  - cbn [set_forest nextLSN]. apply bump_gt.
Qed.

Lemma redo_delete_record a b pg key :
  Rel a b -> leaf_has (forest b) pg key ->
  exists a1,
    replay_one a (mkWal OpDelete (nextLSN b) pg key []) = RCont a1 /\
    Rel a1 (mkStore (touch_forest pg key (nextLSN b) del_fun (forest b)) (lastKey b) (ptRoot b) (nextFree b) (nextLSN b + 1)).
Proof.
  intros HR Hh.
  destruct (redo_leaf_lookup a b pg key HR Hh) as (isroot & off & ll & d & cells & hl & hr & ls & rs & Hfind & Hleb & Hex).
  eexists. split.
  - unfold replay_one. cbn [w_lsn w_page w_op w_cell w_val bump_key]. rewrite bump_forest, Hfind. cbn [t_lsn].
    rewrite Hleb, Hex. rewrite <- (bump_forest a (nextLSN b)). reflexivity.
  - apply (rel_touch a b pg key del_fun HR). reflexivity.
Qed.

Lemma get_tree_in s off t : get_tree s off = Ok t -> In t (forest s) /\ t_off t = off.
Proof.
  unfold get_tree. destruct (find_root off (forest s)) eqn:E; [|discriminate].
  intros H. inversion H; subst. apply find_root_in. exact E.
Qed.

Lemma good_wft s t : Good s -> In t (forest s) -> WFT ML MI (nextFree s) t.
Proof. intros [[Hw _ _] _] Hin. rewrite Forall_forall in Hw. apply Hw. exact Hin. Qed.

(* RelationService.Update *)
Lemma redo_st_update a b name rowid cols vals b1 ws :
  Rel a b -> st_update b name rowid cols vals = (b1, Ok ws) ->
  exists a1, replay a ws = RCont a1 /\ Rel a1 b1.
Proof.
  intros HR. unfold st_update. destruct (upd_bad_cols _ _ _); [discriminate|]. unfold st_update0.
  destruct (is_sys_table name); [discriminate|].
  destruct (rel_offset b name) as [off|e|]; cbn [bind]; try discriminate.
  destruct (get_tree b off) as [t|e|] eqn:Eg; cbn [bind]; try discriminate.
  destruct (rel_schema b name) as [sch|e|]; cbn [bind]; try discriminate.
  destruct (get_tree_in _ _ _ Eg) as [Hin _].
  rewrite (scan_right_leaves_okP _ _ (good_wft b t (rel_gb _ _ HR) Hin)). cbn [of_tres bind].
  destruct (find _ _) as [[pg c]|] eqn:Ef.
  2:{ intros H. inversion H; subst. exists a. split; [reflexivity | exact HR]. }
  destruct (bind (decode_tuple sch (lc_val c) []) _) as [bs|e|]; try discriminate.
  destruct (Nat.ltb MV (length bs)) eqn:Emv; [discriminate|].
  intros H. inversion H; subst. clear H.
  apply find_some in Ef as [Hfin Hpred]. cbn [snd] in Hpred. apply andb_true_iff in Hpred as [Hkey _].
  apply N.eqb_eq in Hkey. apply in_flat_map in Hfin as (l & Hl & Hpc).
  apply in_map_iff in Hpc as (c' & E & Hc). inversion E; subst.
  assert (Hh : leaf_has (forest b) (t_off l) (lc_key c)).
  { exists t, l. repeat split; auto. apply in_map. exact Hc. }
  destruct (redo_update_record a b (t_off l) (lc_key c) bs HR Hh Emv) as (a1 & Hr & HR1 & _).
  exists a1. split; [|exact HR1]. cbn [replay]. rewrite Hr. reflexivity.
Qed.

Lemma descend_in_leaves k t : In (descend k t) (leaves t).
Proof.
  induction t as [off l d cells hl hr ls rs | off l d kids rgt IHk IHr] using tree_ind2; [left; reflexivity|].
  rewrite descend_node, leaves_node.
  destruct (child_for_in k kids rgt) as [E|Hin].
  - rewrite E. apply in_or_app. right. exact IHr.
  - apply in_map_iff in Hin as (sc & E & Hin). apply in_or_app. left.
    unfold kids_leaves. apply in_flat_map. exists sc. split; [exact Hin|].
    rewrite Forall_forall in IHk. rewrite <- E. apply IHk. exact Hin.
Qed.

(* RelationService.MarkDeleted *)
Lemma redo_st_delete a b name rowid b1 ws :
  Rel a b -> st_delete b name rowid = (b1, Ok ws) ->
  exists a1, replay a ws = RCont a1 /\ Rel a1 b1.
Proof.
  intros HR. unfold st_delete. destruct (is_sys_table name); [discriminate|].
  destruct (rel_offset b name) as [off|e|]; cbn [bind]; try discriminate.
  destruct (get_tree b off) as [t|e|] eqn:Eg; try discriminate.
  destruct (get_tree_in _ _ _ Eg) as [Hin _].
  destruct (find_cell rowid t) as [[pg c]|] eqn:Ef; [|discriminate].
  intros H. inversion H; subst. clear H.
  assert (Hh : leaf_has (forest b) pg rowid).
  { unfold find_cell in Ef. pose proof (descend_in_leaves rowid t) as Hd.
    destruct (descend rowid t) as [off' l d cells hl hr ls rs|] eqn:Ed; [|discriminate].
    destruct (find _ cells) as [c'|] eqn:Efc; [|discriminate].
    destruct (lc_deleted c'); [discriminate|]. inversion Ef; subst.
    apply find_some in Efc as [Hc Hk]. apply N.eqb_eq in Hk.
    exists t, (TLeaf pg l d cells hl hr ls rs). repeat split; auto.
    cbn [leaf_cells]. rewrite <- Hk. apply in_map. exact Hc. }
  destruct (redo_delete_record a b pg rowid HR Hh) as (a1 & Hr & HR1).
  exists a1. split; [|exact HR1]. cbn [replay]. rewrite Hr. reflexivity.
Qed.

(* ---------- the root move: redoRootMove + the update record that follows ---------- *)
Lemma upd_fun_key bs x : lc_key (upd_fun bs x) = lc_key x.
Proof. reflexivity. Qed.
Lemma upd_fun_idem bs x : upd_fun bs (upd_fun bs x) = upd_fun bs x.
Proof. reflexivity. Qed.

Lemma touch_forest_leaf_has pg k l g f pg' key :
  (forall x, lc_key (g x) = lc_key x) -> leaf_has f pg' key -> leaf_has (touch_forest pg k l g f) pg' key.
Proof.
  intros Hg (t & lf & Ht & Hl & Hp & Hk).
  assert (G : forall t0, In lf (leaves t0) ->
              exists lf', In lf' (leaves (touch_leaf pg k l g t0)) /\ t_off lf' = pg' /\ In key (keys_of (leaf_cells lf'))).
  { intros t0 Hl0. exists (touch_leaf pg k l g lf). split; [rewrite touch_leaves; apply in_map; exact Hl0|].
    split; [rewrite touch_off; exact Hp|].
    pose proof (leaves_is_leaf _ _ Hl0) as Hleaf. destruct lf as [off ll d cells hl hr ls rs|]; [|contradiction].
    cbn [touch_leaf]. destruct (N.eqb off pg); cbn [leaf_cells] in *; [|exact Hk].
    rewrite map_cell_keys by exact Hg. exact Hk. }
  induction f as [|a f IH]; [contradiction|]. cbn [touch_forest]. destruct Ht as [->|Ht].
  - destruct (has_page pg t).
    + destruct (G t Hl) as (lf' & A & B & C). exists (touch_leaf pg k l g t), lf'. repeat split; auto. left. reflexivity.
    + exists t, lf. repeat split; auto. left. reflexivity.
  - destruct (has_page pg a).
    + exists t, lf. repeat split; auto. right. exact Ht.
    + destruct (IH Ht) as (t' & lf' & A & B & C & D). exists t', lf'. repeat split; auto. right. exact A.
Qed.

Lemma redo_root_move_pair a1 b1 oldroot newroot name lsn b2 ws :
  Rel a1 b1 -> lsn < nextLSN a1 -> nextLSN b1 = lsn + 1 -> move_ok b1 oldroot name ->
  update_page_table b1 newroot name = (b2, Ok ws) ->
  exists w2 ah a2,
    ws = [w2] /\ redo_root_move a1 oldroot newroot lsn = (ah, Ok tt) /\
    replay_one ah w2 = RCont a2 /\ Rel a2 b2 /\
    (* the half-way state: the catalog row already rewritten, the page stamped with the
       insert's LSN instead of the update record's *)
    exists pg key bs,
      w2 = mkWal OpUpdate (lsn + 1) pg key bs /\
      Rel ah (set_forest b1 (touch_forest pg key lsn (upd_fun bs) (forest b1))) /\
      forest b2 = touch_forest pg key (lsn + 1) (upd_fun bs) (forest b1) /\
      ptRoot b2 = ptRoot b1 /\ nextFree b2 = nextFree b1.
Proof.
  intros HR Hlsn Hnl Hmv. unfold update_page_table, redo_root_move.
  pose proof (seq_cat_scan_off a1 b1 oldroot (rel_seq _ _ HR)) as Hcs.
  unfold move_ok in Hmv. rewrite Hmv in Hcs. unfold cat_scan in Hcs, Hmv. rewrite Hcs. clear Hcs.
  destruct (get_tree b1 (ptRoot b1)) as [pt|e|] eqn:Eg; cbn [bind]; try discriminate.
  destruct (get_tree_in _ _ _ Eg) as [Hin _].
  rewrite (scan_right_leaves_okP _ _ (good_wft b1 pt (rel_gb _ _ HR) Hin)). cbn [of_tres bind].
  destruct (pt_find_row name (leaves pt)) as [[[[pg c] m]|]|e|] eqn:Ef; try discriminate.
  destruct (encode_tuple pageTableSchema _) as [bs|e|]; try discriminate.
  destruct (Nat.ltb MV (length bs)) eqn:Emv; [discriminate|].
  intros H. inversion H; subst b2 ws. clear H.
  destruct (pt_find_row_some _ _ _ _ _ Ef) as (l & Hl & Hp & Hc).
  assert (Hh : leaf_has (forest b1) pg (lc_key c)).
  { exists pt, l. repeat split; auto. apply in_map. exact Hc. }
  set (bh := set_forest b1 (touch_forest pg (lc_key c) lsn (upd_fun bs) (forest b1))).
  set (ah := set_forest a1 (touch_forest pg (lc_key c) lsn (upd_fun bs) (forest a1))).
  assert (HRh : Rel ah bh).
  { destruct HR as [[Hf Hpt Hnf] Ga Gb]. constructor.
    - constructor; cbn [ah bh set_forest forest ptRoot nextFree]; auto. apply fclean_touch_forest. exact Hf.
    - apply good_touch_at; [apply upd_fun_key | exact Ga | exact Hlsn].
    - apply good_touch_at; [apply upd_fun_key | exact Gb | lia]. }
  assert (Hhh : leaf_has (forest bh) pg (lc_key c)).
  { cbn [bh set_forest forest]. apply touch_forest_leaf_has; [apply upd_fun_key | exact Hh]. }
  destruct (redo_update_record ah bh pg (lc_key c) bs HRh Hhh Emv) as (a2 & Hr & HR2 & _).
  change (nextLSN bh) with (nextLSN b1) in *. rewrite Hnl in *.
  exists (mkWal OpUpdate (lsn + 1) pg (lc_key c) bs), ah, a2.
  split; [reflexivity|]. split; [reflexivity|]. split; [exact Hr|]. split.
  - cbn [bh set_forest forest lastKey ptRoot nextFree] in HR2.
    rewrite touch_forest_twice in HR2 by (apply upd_fun_key || apply upd_fun_idem). exact HR2.
  - exists pg, (lc_key c), bs. split; [reflexivity|]. split; [exact HRh|]. repeat split; reflexivity.
Qed.

(* ---------- RelationService.Insert ---------- *)
Definition ins_prelude (s : store) (name : string) (cols : list string) (vals : list value) : res (N * bytes) :=
  do off <- rel_offset s name;
  do _ <- get_tree s off;
  do sch <- rel_schema s name;
  let cols' := match cols with [] => map fd_name sch | _ => cols end in
  if negb (Nat.eqb (length cols') (length vals)) then Err EColCount else
  do bs <- encode_tuple sch (zip_set cols' vals []);
  Ok (off, bs).

(* if this row's insert moves the root of its table, the catalog row rewritten is the one redo
   finds (see move_ok) *)
Definition row_move_ok (s : store) (name : string) (cols : list string) (vals : list value) : Prop :=
  if is_sys_table name then True else
  match ins_prelude s name cols vals with
  | Ok (off, bs) =>
      match bt_insert s off bs with
      | (s1, Ok (_, _, newroot)) => if N.eqb newroot off then True else move_ok s1 off name
      | _ => True
      end
  | _ => True
  end.

(* what one row insert logs and does, step by step *)
Lemma st_insert_shape b name cols vals b2 ws :
  st_insert b name cols vals = (b2, Ok ws) ->
  exists off bs b1 k lsn newroot,
    is_sys_table name = false /\ ins_prelude b name cols vals = Ok (off, bs) /\
    bt_insert b off bs = (b1, Ok (k, lsn, newroot)) /\
    ((newroot = off /\ b2 = b1 /\ ws = [mkWal OpInsert lsn off k bs]) \/
     (newroot <> off /\ exists ws', update_page_table b1 newroot name = (b2, Ok ws') /\
                                    ws = mkWal OpInsert lsn off k bs :: ws')).
Proof.
  unfold st_insert. destruct (ins_bad_cols _ _ _ _); [discriminate|]. unfold st_insert0.
  destruct (is_sys_table name) eqn:Esys; [discriminate|]. fold (ins_prelude b name cols vals).
  destruct (ins_prelude b name cols vals) as [[off bs]|e|]; try discriminate.
  destruct (bt_insert b off bs) as [b1 [[[k lsn] nr]|e|]] eqn:Eb; try discriminate.
  destruct (N.eqb_spec nr off) as [E|E].
  - intros H. inversion H; subst. exists off, bs, b2, k, lsn, off.
    split; [reflexivity|]. split; [reflexivity|]. split; [exact Eb|]. left. auto.
  - destruct (update_page_table b1 nr name) as [s2 [ws'|e|]] eqn:Eu; try discriminate.
    intros H. inversion H; subst. exists off, bs, b1, k, lsn, nr. split; [reflexivity|]. split; [reflexivity|]. split; [exact Eb|].
    right. split; [exact E|]. exists ws'. auto.
Qed.

Lemma redo_st_insert a b name cols vals b2 ws :
  Rel a b -> row_move_ok b name cols vals -> st_insert b name cols vals = (b2, Ok ws) ->
  exists a2, replay a ws = RCont a2 /\ Rel a2 b2.
Proof.
  intros HR Hok Hst.
  destruct (st_insert_shape _ _ _ _ _ _ Hst) as (off & bs & b1 & k & lsn & nr & Hsys & Hpre & Hbt & Hcase).
  unfold row_move_ok in Hok. rewrite Hsys, Hpre, Hbt in Hok.
  destruct (redo_insert a b off bs b1 k lsn nr HR Hbt) as (Hl & Hnl & a1 & HR1 & Hlt & Hrep).
  destruct Hcase as [(-> & -> & ->)|(Hne & ws' & Hup & ->)].
  - rewrite N.eqb_refl in Hrep. exists a1. split; [|exact HR1]. cbn [replay]. rewrite Hrep. reflexivity.
  - apply N.eqb_neq in Hne. rewrite Hne in Hrep, Hok.
    destruct (redo_root_move_pair a1 b1 off nr name lsn b2 ws' HR1 Hlt Hnl Hok Hup)
      as (w2 & ah & a2 & -> & Hrm & Hr2 & HR2 & _).
    exists a2. split; [|exact HR2]. cbn [replay]. rewrite Hrep. unfold after_root_move. rewrite Hrm, Hr2. reflexivity.
Qed.

(* ---------- replay over concatenated logs ---------- *)
Lemma replay_app s ws1 : forall ws2 s1,
  replay s ws1 = RCont s1 -> replay s (ws1 ++ ws2) = replay s1 ws2.
Proof.
  revert s. induction ws1 as [|w r IH]; intros s ws2 s1 H.
  - cbn in H. inversion H; subst. reflexivity.
  - cbn [replay app] in *. destruct (replay_one s w) as [s'| | |]; try discriminate. apply IH. exact H.
Qed.

(* ---------- whole statements ---------- *)
Fixpoint rows_move_ok (s : store) (name : string) (cols : list string) (rows : list (list value)) : Prop :=
  match rows with
  | [] => True
  | r :: rest =>
      row_move_ok s name cols r /\
      match st_insert s name cols r with
      | (s1, Ok _) => rows_move_ok s1 name cols rest
      | _ => True
      end
  end.

Lemma redo_insert_rows rows : forall a b name cols batch n b' B m,
  Rel a b -> rows_move_ok b name cols rows ->
  insert_rows b name cols rows batch n = (b', B, OOk m) ->
  exists ws a', B = batch ++ ws /\ replay a ws = RCont a' /\ Rel a' b'.
Proof.
  induction rows as [|r rest IH]; intros a b name cols batch n b' B m HR Hok H.
  - cbn in H. inversion H; subst. exists [], a. rewrite app_nil_r. auto.
  - cbn [insert_rows] in H. cbn [rows_move_ok] in Hok. destruct Hok as [Hok1 Hok2].
    destruct (st_insert b name cols r) as [b1 [ws|e|]] eqn:Est; try discriminate.
    destruct (redo_st_insert a b name cols r b1 ws HR Hok1 Est) as (a1 & Hr1 & HR1).
    destruct (IH a1 b1 name cols (batch ++ ws) (S n) b' B m HR1 Hok2 H) as (ws2 & a' & EB & Hr2 & HR2).
    exists (ws ++ ws2), a'. split; [rewrite EB, app_assoc; reflexivity|]. split; [|exact HR2].
    rewrite (replay_app a ws ws2 a1 Hr1). exact Hr2.
Qed.

Lemma redo_update_rows ids : forall a b name cols vals batch b' B m,
  Rel a b -> update_rows b name cols vals ids batch = (b', B, OOk m) ->
  exists ws a', B = batch ++ ws /\ replay a ws = RCont a' /\ Rel a' b'.
Proof.
  induction ids as [|k rest IH]; intros a b name cols vals batch b' B m HR H.
  - cbn in H. inversion H; subst. exists [], a. rewrite app_nil_r. auto.
  - cbn [update_rows] in H.
    destruct (st_update b name k cols vals) as [b1 [ws|e|]] eqn:Est; try discriminate.
    destruct (redo_st_update a b name k cols vals b1 ws HR Est) as (a1 & Hr1 & HR1).
    destruct (IH a1 b1 name cols vals (batch ++ ws) b' B m HR1 H) as (ws2 & a' & EB & Hr2 & HR2).
    exists (ws ++ ws2), a'. split; [rewrite EB, app_assoc; reflexivity|]. split; [|exact HR2].
    rewrite (replay_app a ws ws2 a1 Hr1). exact Hr2.
Qed.

Lemma redo_delete_rows ids : forall a b name batch n b' B m,
  Rel a b -> delete_rows b name ids batch n = (b', B, OOk m) ->
  exists ws a', B = batch ++ ws /\ replay a ws = RCont a' /\ Rel a' b'.
Proof.
  induction ids as [|k rest IH]; intros a b name batch n b' B m HR H.
  - cbn in H. inversion H; subst. exists [], a. rewrite app_nil_r. auto.
  - cbn [delete_rows] in H.
    destruct (st_delete b name k) as [b1 [ws|e|]] eqn:Est; try discriminate.
    destruct (redo_st_delete a b name k b1 ws HR Est) as (a1 & Hr1 & HR1).
    destruct (IH a1 b1 name (batch ++ ws) (S n) b' B m HR1 H) as (ws2 & a' & EB & Hr2 & HR2).
    exists (ws ++ ws2), a'. split; [rewrite EB, app_assoc; reflexivity|]. split; [|exact HR2].
    rewrite (replay_app a ws ws2 a1 Hr1). exact Hr2.
Qed.

(* the root-move hypothesis of a statement (only INSERT can move a root; an INSERT refused by
   the check loop of EvaluateInsert stores nothing) *)
Definition stmt_moves_ok (s : store) (st : stmt) : Prop :=
  match st with
  | SInsert name cols rows =>
      match first_err (check_insert s name cols) rows with
      | Ok _ => rows_move_ok s name cols rows
      | _ => True
      end
  | _ => True
  end.

Definition is_dml (st : stmt) : bool :=
  match st with SInsert _ _ _ | SUpdate _ _ _ | SDelete _ _ => true | _ => false end.

(* B. do = redo for a successful INSERT / UPDATE / DELETE statement *)
Theorem redo_stmt a b st m :
  Rel a b -> is_dml st = true -> stmt_moves_ok b st -> e_out (run_stmt b st) = OOk m ->
  exists a', replay a (e_batch (run_stmt b st)) = RCont a' /\ Rel a' (e_store (run_stmt b st)) /\
             e_flushed (run_stmt b st) = false.
Proof.
  intros HR Hd Hok Hout. destruct st; try discriminate; cbn [run_stmt stmt_moves_ok] in *.
  - destruct (first_err _ rows) as [u|e0|]; try discriminate.
    destruct (insert_rows b table cols rows [] 0) as [[b' B] o] eqn:E. cbn [e_out e_batch e_store e_flushed] in *. subst o.
    destruct (redo_insert_rows rows a b table cols [] 0%nat b' B m HR Hok E) as (ws & a' & -> & Hr & HR').
    exists a'. auto.
  - destruct (existsb _ sets); [discriminate|].
    destruct (where_ids b table where_) as [ids|e|]; try discriminate.
    destruct (first_err _ ids) as [u|e0|]; try discriminate.
    destruct (update_rows b table _ _ ids []) as [[b' B] o] eqn:E. cbn [e_out e_batch e_store e_flushed] in *. subst o.
    destruct (redo_update_rows ids a b table _ _ [] b' B m HR E) as (ws & a' & -> & Hr & HR').
    exists a'. auto.
  - destruct (where_ids b table where_) as [ids|e|]; try discriminate.
    destruct (delete_rows b table ids [] 0) as [[b' B] o] eqn:E. cbn [e_out e_batch e_store e_flushed] in *. subst o.
    destruct (redo_delete_rows ids a b table [] 0%nat b' B m HR E) as (ws & a' & -> & Hr & HR').
    exists a'. auto.
Qed.
