(* Crash theory, part 2: pages by offset (what fs.fetch returns during replay), how page LSNs
   move under insertion and in-place changes, the LSN discipline invariant, and a generic
   "closed under the storage primitives => preserved by every statement" principle. *)
From Coq Require Import Arith Lia Bool List NArith Permutation.
From Mkdb Require Import Model.Engine Proofs.TreeProofs Proofs.StoreInv Proofs.CrashBase Gen.Params.
Import ListNotations.
Local Open Scope N_scope.

(* ====================== find_in_tree / find_node ====================== *)
Fixpoint find_kids (off : N) (kids : list (N * tree)) : option tree :=
  match kids with
  | [] => None
  | sc :: r => match find_in_tree off (snd sc) with Some x => Some x | None => find_kids off r end
  end.

Lemma find_in_tree_node off o l d kids rgt :
  find_in_tree off (TNode o l d kids rgt) =
  if N.eqb o off then Some (TNode o l d kids rgt)
  else match find_kids off kids with Some x => Some x | None => find_in_tree off rgt end.
Proof.
  cbn [find_in_tree t_off]. destruct (N.eqb o off); [reflexivity|].
  assert (E : (fix go (ks : list (N * tree)) : option tree :=
                 match ks with
                 | [] => None
                 | (_, c) :: r => match find_in_tree off c with Some x => Some x | None => go r end
                 end) kids = find_kids off kids).
  { induction kids as [|[s c] r IH]; [reflexivity|]. cbn [find_kids snd]. rewrite IH. reflexivity. }
  rewrite E. reflexivity.
Qed.

Lemma find_in_tree_leaf off o l d cells hl hr ls rs :
  find_in_tree off (TLeaf o l d cells hl hr ls rs) =
  if N.eqb o off then Some (TLeaf o l d cells hl hr ls rs) else None.
Proof. cbn [find_in_tree t_off]. destruct (N.eqb o off); reflexivity. Qed.

Lemma in_kids_nodes x kids : In x (kids_nodes kids) <-> exists sc, In sc kids /\ In x (nodes (snd sc)).
Proof. unfold kids_nodes. apply in_flat_map. Qed.

Lemma find_in_tree_some t : forall off n,
  find_in_tree off t = Some n -> In n (nodes t) /\ t_off n = off.
Proof.
  induction t as [o l d cells hl hr ls rs | o l d kids rgt IHk IHr] using tree_ind2; intros off n H.
  - rewrite find_in_tree_leaf in H. destruct (N.eqb_spec o off); [|discriminate].
    inversion H; subst. split; [left; reflexivity | reflexivity].
  - rewrite find_in_tree_node in H. rewrite nodes_node. destruct (N.eqb_spec o off).
    + inversion H; subst. split; [left; reflexivity | reflexivity].
    + destruct (find_kids off kids) as [x|] eqn:Ek.
      * inversion H; subst x. clear H.
        assert (G : In n (kids_nodes kids) /\ t_off n = off).
        { clear IHr. induction kids as [|[s c] r IH]; [discriminate|].
          inversion IHk as [|? ? Hc Hr]; subst. cbn [snd] in Hc. cbn [find_kids snd] in Ek.
          cbn [kids_nodes flat_map snd]. fold (kids_nodes r).
          destruct (find_in_tree off c) as [y|] eqn:Ec.
          - inversion Ek; subst y. destruct (Hc _ _ Ec) as [A B]. split; [|exact B]. apply in_or_app. left. exact A.
          - destruct (IH Hr Ek) as [A B]. split; [|exact B]. apply in_or_app. right. exact A. }
        destruct G as [A B]. split; [|exact B]. right. apply in_or_app. left. exact A.
      * destruct (IHr _ _ H) as [A B]. split; [|exact B]. right. apply in_or_app. right. exact A.
Qed.

Lemma find_in_tree_none t : forall off,
  find_in_tree off t = None -> ~ In off (offsets_of t).
Proof.
  induction t as [o l d cells hl hr ls rs | o l d kids rgt IHk IHr] using tree_ind2; intros off H.
  - rewrite find_in_tree_leaf in H. destruct (N.eqb_spec o off); [discriminate|].
    cbn. intros [E|[]]. congruence.
  - rewrite find_in_tree_node in H. rewrite offsets_node. destruct (N.eqb_spec o off); [discriminate|].
    destruct (find_kids off kids) as [x|] eqn:Ek; [discriminate|].
    intros [E|Hin]; [congruence|]. apply in_app_or in Hin as [Hin|Hin]; [|exact (IHr _ H Hin)].
    clear H. induction kids as [|[s c] r IH]; [exact Hin|].
    inversion IHk as [|? ? Hc Hr]; subst. cbn [snd] in Hc. cbn [find_kids snd] in Ek.
    destruct (find_in_tree off c) eqn:Ec; [discriminate|].
    cbn [kids_offsets flat_map snd] in Hin. apply in_app_or in Hin as [Hin|Hin]; [exact (Hc _ Ec Hin) | exact (IH Hr Ek Hin)].
Qed.

Lemma nodup_map_inj {A} (f : A -> N) (l : list A) x y :
  NoDup (map f l) -> In x l -> In y l -> f x = f y -> x = y.
Proof.
  induction l as [|a l IH]; cbn [map]; intros Hn Hx Hy E; [contradiction|].
  inversion Hn as [|? ? Hna Hn']; subst.
  destruct Hx as [->|Hx], Hy as [->|Hy]; auto.
  - exfalso. apply Hna. rewrite E. apply in_map. exact Hy.
  - exfalso. apply Hna. rewrite <- E. apply in_map. exact Hx.
Qed.

Lemma find_in_tree_complete t n :
  NoDup (offsets_of t) -> In n (nodes t) -> find_in_tree (t_off n) t = Some n.
Proof.
  intros Hn Hin. destruct (find_in_tree (t_off n) t) as [x|] eqn:E.
  - destruct (find_in_tree_some _ _ _ E) as [A B]. f_equal.
    apply (nodup_map_inj t_off (nodes t)); auto.
  - exfalso. apply (find_in_tree_none _ _ E). unfold offsets_of. apply in_map. exact Hin.
Qed.

Lemma root_in_nodes t : In t (nodes t).
Proof. destruct t; [left; reflexivity | rewrite nodes_node; left; reflexivity]. Qed.

Lemma root_node_unique t n : NoDup (offsets_of t) -> In n (nodes t) -> t_off n = t_off t -> n = t.
Proof. intros Hn Hin E. apply (nodup_map_inj t_off (nodes t)); auto. apply root_in_nodes. Qed.

(* the page at offset p: (is it the root of its tree, the node) *)
Definition page_in (f : list tree) (p : N) (b : bool) (n : tree) : Prop :=
  exists t, In t f /\ In n (nodes t) /\ t_off n = p /\ b = N.eqb (t_off t) p.

Lemma find_node_sound f : forall p b n, find_node p f = Some (b, n) -> page_in f p b n.
Proof.
  induction f as [|a f IH]; intros p b n H; [discriminate|]. cbn [find_node] in H.
  destruct (find_in_tree p a) as [x|] eqn:E.
  - inversion H; subst. destruct (find_in_tree_some _ _ _ E) as [A B].
    exists a. repeat split; auto. left. reflexivity.
  - destruct (IH _ _ _ H) as (t & A & B & C & D). exists t. repeat split; auto. right. exact A.
Qed.

Lemma in_all_offsets x f : In x (all_offsets f) <-> exists t, In t f /\ In x (offsets_of t).
Proof. unfold all_offsets. apply in_flat_map. Qed.

Lemma find_node_complete f : forall p b n,
  NoDup (all_offsets f) -> page_in f p b n -> find_node p f = Some (b, n).
Proof.
  induction f as [|a f IH]; intros p b n Hn (t & Ht & Hin & Hp & Hb); [contradiction|].
  cbn [all_offsets flat_map] in Hn. fold (all_offsets f) in Hn.
  apply NoDup_app_inv in Hn as (Ha & Hf & Hd). cbn [find_node].
  destruct Ht as [->|Ht].
  - subst p. rewrite (find_in_tree_complete t n Ha Hin). rewrite Hb. reflexivity.
  - destruct (find_in_tree p a) as [x|] eqn:E.
    + exfalso. destruct (find_in_tree_some _ _ _ E) as [A B].
      apply (Hd p); [rewrite <- B; unfold offsets_of; apply in_map; exact A|].
      apply in_all_offsets. exists t. split; [exact Ht|]. rewrite <- Hp. unfold offsets_of. apply in_map. exact Hin.
    + apply IH; [exact Hf|]. exists t. auto.
Qed.

(* a page of one forest is a page of any forest equal to it up to dirty flags *)
Lemma fclean_in f g t : fclean f = fclean g -> In t f -> exists t', In t' g /\ erase false t' = erase false t.
Proof.
  intros H Hin. assert (Hi : In (erase false t) (fclean g)) by (rewrite <- H; apply in_map; exact Hin).
  apply in_map_iff in Hi as (t' & E & Hi). eauto.
Qed.

Lemma erase_eq_nodes t t' n : erase false t' = erase false t -> In n (nodes t) ->
  exists n', In n' (nodes t') /\ erase false n' = erase false n.
Proof.
  intros E Hin. assert (Hi : In (erase false n) (nodes (erase false t'))).
  { rewrite E, erase_nodes. apply in_map. exact Hin. }
  rewrite erase_nodes in Hi. apply in_map_iff in Hi as (n' & En & Hi). eauto.
Qed.

Lemma page_in_fclean f g p b n : fclean f = fclean g -> page_in f p b n ->
  exists n', page_in g p b n' /\ erase false n' = erase false n.
Proof.
  intros H (t & Ht & Hin & Hp & Hb).
  destruct (fclean_in f g t H Ht) as (t' & Ht' & Et).
  destruct (erase_eq_nodes t t' n Et Hin) as (n' & Hn' & En).
  exists n'. split; [|exact En]. exists t'. repeat split; auto.
  - rewrite <- (erase_off false n'), En, erase_off. exact Hp.
  - rewrite <- (erase_off false t'), Et, erase_off. exact Hb.
Qed.

(* ====================== nodes after ins_right ====================== *)
Definition res_nodes (r : ins_res) : list tree :=
  match r with
  | IFit t => nodes t
  | ISplit l _ r => nodes l ++ nodes r
  end.

Lemma div2_lt n : (0 < n)%nat -> (n / 2 < n)%nat.
Proof. intros. apply Nat.div_lt; lia. Qed.

(* one level of ins_right on an internal node: the nodes of the result are the (one or two)
   rebuilt copies of this page, the untouched children, and the nodes the recursion returned *)
Lemma ins_right_node_nodes off l d kids rgt k lsn v free :
  exists heads,
    (forall x, In x (res_nodes (fst (ins_right ML MI PS (TNode off l d kids rgt) k lsn v free))) <->
               In x heads \/ In x (kids_nodes kids) \/
               In x (res_nodes (fst (ins_right ML MI PS rgt k lsn v free)))) /\
    (exists h, In h heads /\ t_off h = off /\ (t_lsn h = l \/ t_lsn h = lsn)) /\
    (forall h, In h heads -> t_lsn h = l \/ t_lsn h = lsn).
Proof.
  cbn [ins_right]. destruct (ins_right ML MI PS rgt k lsn v free) as [[r'|lft sep r'] f] eqn:E; cbn [fst].
  - exists [TNode off l d kids r']. cbn [res_nodes]. rewrite nodes_node. split; [|split].
    + intros x. cbn [In]. rewrite in_app_iff. tauto.
    + eexists. split; [left; reflexivity|]. cbn. auto.
    + intros h [<-|[]]. cbn. auto.
  - assert (Hk : forall x, In x (kids_nodes (kids ++ [(sep, lft)])) <-> In x (kids_nodes kids) \/ In x (nodes lft)).
    { intros x. rewrite kids_nodes_app, in_app_iff. cbn [kids_nodes flat_map snd]. rewrite app_nil_r. tauto. }
    destruct (Nat.ltb _ MI).
    + exists [TNode off lsn true (kids ++ [(sep, lft)]) r']. cbn [fst res_nodes]. rewrite nodes_node. split; [|split].
      * intros x. cbn [In]. rewrite !in_app_iff, Hk. tauto.
      * eexists. split; [left; reflexivity|]. cbn. auto.
      * intros h [<-|[]]. cbn. auto.
    + destruct (nth_error (kids ++ [(sep, lft)]) (length (kids ++ [(sep, lft)]) / 2)) as [[msep mchild]|] eqn:En.
      * pose proof (split_list_mid _ _ _ En) as Hs.
        set (a := firstn (length (kids ++ [(sep, lft)]) / 2) (kids ++ [(sep, lft)])) in *.
        set (b := skipn (S (length (kids ++ [(sep, lft)]) / 2)) (kids ++ [(sep, lft)])) in *.
        exists [TNode off lsn true a mchild; TNode f lsn true b r'].
        cbn [fst res_nodes]. rewrite !nodes_node. split; [|split].
        -- intros x. specialize (Hk x). rewrite Hs, kids_nodes_app in Hk.
           cbn [kids_nodes flat_map snd] in Hk. rewrite !in_app_iff in Hk.
           cbn [In]. rewrite !in_app_iff. cbn [In]. rewrite !in_app_iff. tauto.
        -- eexists. split; [left; reflexivity|]. cbn. auto.
        -- intros h [<-|[<-|[]]]; cbn; auto.
      * exfalso. apply nth_error_None in En.
        assert (0 < length (kids ++ [(sep, lft)]))%nat by (rewrite app_length; cbn; lia).
        pose proof (div2_lt _ H). lia.
Qed.

(* every page keeps its offset; its LSN stays or becomes the LSN of the insert *)
Lemma ins_right_nodes_fwd t : forall k lsn v free n,
  In n (nodes t) ->
  exists n', In n' (res_nodes (fst (ins_right ML MI PS t k lsn v free))) /\
             t_off n' = t_off n /\ (t_lsn n' = t_lsn n \/ t_lsn n' = lsn).
Proof.
  induction t as [off l d cells hl hr ls rs | off l d kids rgt IH]; intros k lsn v free n Hin.
  - destruct Hin as [<-|[]]. cbn [ins_right]. destruct (Nat.ltb _ ML); cbn [fst res_nodes nodes].
    + eexists. split; [left; reflexivity|]. cbn. auto.
    + eexists. split; [left; reflexivity|]. cbn. auto.
  - destruct (ins_right_node_nodes off l d kids rgt k lsn v free) as (heads & Hx & (h & Hh & Ho & Hl) & _).
    rewrite nodes_node in Hin. destruct Hin as [<-|Hin].
    + exists h. split; [apply Hx; left; exact Hh|]. cbn [t_off t_lsn]. auto.
    + apply in_app_or in Hin as [Hin|Hin].
      * exists n. split; [apply Hx; right; left; exact Hin|]. auto.
      * destruct (IH k lsn v free n Hin) as (n' & A & B & C).
        exists n'. split; [apply Hx; right; right; exact A|]. auto.
Qed.

(* and nothing else appears: every LSN in the result is an old one or the insert's *)
Lemma ins_right_nodes_bwd t : forall k lsn v free n',
  In n' (res_nodes (fst (ins_right ML MI PS t k lsn v free))) ->
  t_lsn n' = lsn \/ exists n, In n (nodes t) /\ t_lsn n = t_lsn n'.
Proof.
  induction t as [off l d cells hl hr ls rs | off l d kids rgt IH]; intros k lsn v free n' Hin.
  - cbn [ins_right] in Hin. destruct (Nat.ltb _ ML); cbn [fst res_nodes nodes app] in Hin.
    + destruct Hin as [<-|[]]. left. reflexivity.
    + destruct Hin as [<-|[<-|[]]]; left; reflexivity.
  - destruct (ins_right_node_nodes off l d kids rgt k lsn v free) as (heads & Hx & _ & Hall).
    apply Hx in Hin. rewrite nodes_node. destruct Hin as [Hin|[Hin|Hin]].
    + destruct (Hall _ Hin) as [E|E]; [right|left; exact E].
      eexists. split; [left; reflexivity|]. cbn [t_lsn]. symmetry. exact E.
    + right. exists n'. split; [right; apply in_or_app; left; exact Hin | reflexivity].
    + destruct (IH k lsn v free n' Hin) as [E|(n & A & B)]; [left; exact E|].
      right. exists n. split; [right; apply in_or_app; right; exact A | exact B].
Qed.

(* the root page of the input: kept as root when everything fitted, or the left half (stamped
   with the insert's LSN) when the root split *)
Lemma ins_right_root t k lsn v free :
  match fst (ins_right ML MI PS t k lsn v free) with
  | IFit t' => t_off t' = t_off t
  | ISplit l _ _ => t_off l = t_off t /\ t_lsn l = lsn
  end.
Proof.
  destruct t as [off l d cells hl hr ls rs | off l d kids rgt]; cbn [ins_right].
  - destruct (Nat.ltb _ ML); cbn; auto.
  - destruct (ins_right ML MI PS rgt k lsn v free) as [[r'|lft sep r'] f]; cbn [fst]; [reflexivity|].
    destruct (Nat.ltb _ MI); cbn [fst]; [reflexivity|].
    destruct (nth_error _ _) as [[msep mchild]|]; cbn [fst]; cbn; auto.
Qed.

(* the same three facts for BTree.insertKey *)
Lemma tree_insert_nodes t k lsn v free t' nf :
  tree_insert ML MI PS MV t k lsn v free = TOk (t', nf) ->
  (forall n, In n (nodes t) -> exists n', In n' (nodes t') /\ t_off n' = t_off n /\
                                          (t_lsn n' = t_lsn n \/ t_lsn n' = lsn)) /\
  (forall n', In n' (nodes t') -> t_lsn n' = lsn \/ exists n, In n (nodes t) /\ t_lsn n = t_lsn n') /\
  (t_off t' = t_off t \/
   exists l, In l (nodes t') /\ t_off l = t_off t /\ t_lsn l = lsn /\ free <= t_off t').
Proof.
  unfold tree_insert. destruct (key_exists k t); [discriminate|].
  destruct (negb (on_right_spine k t)); [discriminate|].
  destruct (Nat.ltb MV (length v)); [discriminate|].
  pose proof (ins_right_nodes_fwd t k lsn v free) as F.
  pose proof (ins_right_nodes_bwd t k lsn v free) as B.
  pose proof (ins_right_root t k lsn v free) as R.
  destruct (ins_right_offsets ML MI PS t k lsn v free) as (m & _ & Hf).
  destruct (ins_right ML MI PS t k lsn v free) as [[t1|l sep r] f]; cbn [fst snd res_nodes] in *; intros H; inversion H; subst.
  - split; [exact F|]. split; [exact B|]. left. exact R.
  - destruct R as [Ro Rl]. split; [|split].
    + intros n Hn. destruct (F n Hn) as (n' & A & C). exists n'. split; [|exact C].
      rewrite nodes_node. right. cbn [kids_nodes flat_map snd]. rewrite app_nil_r. exact A.
    + intros n' Hn. rewrite nodes_node in Hn. cbn [kids_nodes flat_map snd] in Hn. rewrite app_nil_r in Hn.
      destruct Hn as [<-|Hn]; [left; reflexivity | apply B; exact Hn].
    + right. exists l. split; [|split; [exact Ro|split; [exact Rl|]]].
      * rewrite nodes_node. right. cbn [kids_nodes flat_map snd]. rewrite app_nil_r.
        apply in_or_app. left. apply root_in_nodes.
      * cbn [t_off]. lia.
Qed.

(* ====================== nodes after an in-place change ====================== *)
Lemma touch_nodes pg k lsn g t : nodes (touch_leaf pg k lsn g t) = map (touch_leaf pg k lsn g) (nodes t).
Proof.
  induction t as [off l d cells hl hr ls rs | off l d kids rgt IHk IHr] using tree_ind2.
  - cbn [touch_leaf nodes map]. destruct (N.eqb off pg); reflexivity.
  - rewrite (nodes_node off l d kids rgt). cbn [map]. rewrite touch_leaf_node, nodes_node. f_equal.
    rewrite map_app, IHr. f_equal.
    unfold kids_nodes. induction kids as [|[s c] r IH]; [reflexivity|].
    inversion IHk as [|? ? Hc Hr]; subst. cbn [snd] in Hc.
    cbn [map flat_map fst snd]. rewrite map_app, Hc, (IH Hr). reflexivity.
Qed.

Lemma touch_lsn pg k lsn g n :
  t_lsn (touch_leaf pg k lsn g n) = t_lsn n \/ t_lsn (touch_leaf pg k lsn g n) = lsn.
Proof.
  destruct n as [off l d cells hl hr ls rs | off l d kids rgt].
  - cbn [touch_leaf]. destruct (N.eqb off pg); cbn; auto.
  - rewrite touch_leaf_node. cbn. auto.
Qed.

Lemma touch_leaf_at pg k lsn g off l d cells hl hr ls rs :
  off = pg ->
  touch_leaf pg k lsn g (TLeaf off l d cells hl hr ls rs) = TLeaf off lsn true (map_cell k g cells) hl hr ls rs.
Proof. intros ->. cbn [touch_leaf]. rewrite N.eqb_refl. reflexivity. Qed.

(* ====================== the LSN discipline ====================== *)
(* every page LSN is below the next LSN to be handed out *)
Definition LsnInv (s : store) : Prop :=
  0 < nextLSN s /\ Forall (fun t => Forall (fun n => t_lsn n < nextLSN s) (nodes t)) (forest s).

Record Good (s : store) : Prop := mkGood { good_s : SInv s; good_l : LsnInv s }.

Lemma Forall_nodes_weaken (a b : N) f :
  a <= b -> Forall (fun t => Forall (fun n => t_lsn n < a) (nodes t)) f ->
  Forall (fun t => Forall (fun n => t_lsn n < b) (nodes t)) f.
Proof.
  intros Hle H. eapply Forall_impl; [|exact H]. cbn. intros t Ht.
  eapply Forall_impl; [|exact Ht]. cbn. intros; lia.
Qed.

Lemma lsn_bt_insert s root v : LsnInv s -> LsnInv (fst (bt_insert s root v)).
Proof.
  intros [Hp Hl]. unfold bt_insert, get_tree.
  destruct (find_root root (forest s)) as [t|] eqn:Ef; [|cbn; split; auto].
  destruct (find_root_split _ _ _ Ef) as (l1 & l2 & Hf & Ho & _ & Hrep).
  destruct (tree_insert ML MI PS MV t (lastKey s + 1) (nextLSN s) v (nextFree s)) as [[t' nf]|e] eqn:Ei; cbn [fst].
  - split; cbn [nextLSN forest]; [lia|]. rewrite Hrep. rewrite Hf in Hl.
    apply Forall_app in Hl as [H1 H2]. inversion H2 as [|? ? Ht H3]; subst.
    apply Forall_app. split; [eapply Forall_nodes_weaken; [|exact H1]; lia|].
    constructor; [|eapply Forall_nodes_weaken; [|exact H3]; lia].
    destruct (tree_insert_nodes _ _ _ _ _ _ _ Ei) as (_ & B & _).
    rewrite Forall_forall in *. intros n' Hn'. destruct (B n' Hn') as [E|(n & Hn & E)]; [lia|].
    specialize (Ht n Hn). lia.
  - split; cbn [nextLSN forest]; [lia|]. eapply Forall_nodes_weaken; [|exact Hl]. lia.
Qed.

Lemma lsn_touch s pg k g :
  LsnInv s ->
  LsnInv (mkStore (touch_forest pg k (nextLSN s) g (forest s)) (lastKey s) (ptRoot s) (nextFree s) (nextLSN s + 1)).
Proof.
  intros [Hp Hl]. split; cbn [nextLSN forest]; [lia|].
  apply touch_forest_Forall.
  - intros t Ht. rewrite touch_nodes, Forall_map. eapply Forall_impl; [|exact Ht]. cbn. intros n Hn.
    destruct (touch_lsn pg k (nextLSN s) g n) as [E|E]; rewrite E; lia.
  - eapply Forall_nodes_weaken; [|exact Hl]. lia.
Qed.

Lemma lsn_create_page s : LsnInv s -> LsnInv (fst (create_page s)).
Proof.
  intros [Hp Hl]. unfold create_page. cbn [fst]. split; cbn [nextLSN forest]; [exact Hp|].
  apply Forall_app. split; [exact Hl|]. constructor; [|constructor]. cbn. constructor; [exact Hp|constructor].
Qed.

Lemma lsn_header s lk pt : LsnInv s -> LsnInv (mkStore (forest s) lk pt (nextFree s) (nextLSN s)).
Proof. intros H. exact H. Qed.

Lemma lsn_flush s : LsnInv s -> LsnInv (flush s).
Proof.
  intros [Hp Hl]. split; [exact Hp|]. rewrite flush_forest. unfold fclean. rewrite Forall_map.
  change (nextLSN (flush s)) with (nextLSN s).
  eapply Forall_impl; [|exact Hl]. cbn. intros t Ht. rewrite erase_nodes, Forall_map.
  eapply Forall_impl; [|exact Ht]. cbn. intros n Hn. rewrite erase_lsn. exact Hn.
Qed.

(* ====================== closed under the primitives => preserved by every statement ====================== *)
Section Closure.
Variable P : store -> Prop.
Hypothesis P_bt_insert : forall s root v, P s -> P (fst (bt_insert s root v)).
Hypothesis P_touch : forall s pg k g, (forall x, lc_key (g x) = lc_key x) -> P s ->
  P (mkStore (touch_forest pg k (nextLSN s) g (forest s)) (lastKey s) (ptRoot s) (nextFree s) (nextLSN s + 1)).
Hypothesis P_create_page : forall s, P s -> P (fst (create_page s)).
Hypothesis P_ptroot : forall s pt, P s -> P (mkStore (forest s) (lastKey s) pt (nextFree s) (nextLSN s)).
Hypothesis P_flush : forall s, P s -> P (flush s).

Lemma update_page_table_closed s newroot name : P s -> P (fst (update_page_table s newroot name)).
Proof.
  intros H. unfold update_page_table.
  repeat (break_match; cbn [fst]; try exact H).
  apply P_touch; [reflexivity | exact H].
Qed.

Lemma insert_page_table_closed s pg name : P s -> P (fst (insert_page_table s pg name)).
Proof.
  intros H. unfold insert_page_table.
  destruct (encode_tuple _ _) as [bs|e|]; cbn [fst]; try exact H.
  pose proof (P_bt_insert s (ptRoot s) bs H) as H1.
  destruct (bt_insert s (ptRoot s) bs) as [s1 [[[k l] nr]|e|]]; cbn [fst] in *; try exact H1.
  apply P_ptroot. exact H1.
Qed.

Lemma st_insert_closed s name cols vals : P s -> P (fst (st_insert s name cols vals)).
Proof.
  intros H. unfold st_insert. destruct (ins_bad_cols _ _ _ _); [exact H|]. unfold st_insert0.
  destruct (is_sys_table name); [exact H|].
  destruct (bind _ _) as [[off bs]|e|]; cbn [fst]; try exact H.
  pose proof (P_bt_insert s off bs H) as H1.
  destruct (bt_insert s off bs) as [s1 [[[k l] nr]|e|]]; cbn [fst] in *; try exact H1.
  destruct (N.eqb nr off); cbn [fst]; [exact H1|].
  pose proof (update_page_table_closed s1 nr name H1) as H2.
  destruct (update_page_table s1 nr name) as [s2 [ws|e|]]; cbn [fst] in *; exact H2.
Qed.

Lemma st_update_closed s name rowid cols vals : P s -> P (fst (st_update s name rowid cols vals)).
Proof.
  intros H. unfold st_update. destruct (upd_bad_cols _ _ _); [exact H|]. unfold st_update0.
  destruct (is_sys_table name); [exact H|].
  repeat (break_match; cbn [fst]; try exact H).
  apply P_touch; [reflexivity | exact H].
Qed.

Lemma st_delete_closed s name rowid : P s -> P (fst (st_delete s name rowid)).
Proof.
  intros H. unfold st_delete. destruct (is_sys_table name); [exact H|].
  repeat (break_match; cbn [fst]; try exact H).
  apply P_touch; [reflexivity | exact H].
Qed.

Lemma insert_schema_rows_closed fds : forall s root tname,
  P s -> P (fst (insert_schema_rows s root tname fds)).
Proof.
  induction fds as [|fd r IH]; intros s root tname H; [exact H|].
  cbn [insert_schema_rows].
  destruct (encode_tuple _ _) as [bs|e|]; cbn [fst]; try exact H.
  pose proof (P_bt_insert s root bs H) as H1.
  destruct (bt_insert s root bs) as [s1 [[[k l] nr]|e|]]; cbn [fst] in *; try exact H1.
  destruct (N.eqb nr root); [apply IH; exact H1|].
  pose proof (update_page_table_closed s1 nr schemaTableName H1) as H2.
  destruct (update_page_table s1 nr schemaTableName) as [s2 [ws|e|]]; cbn [fst] in *; try exact H2.
  apply IH. exact H2.
Qed.

Lemma insert_schema_table_closed s tname fds : P s -> P (fst (insert_schema_table s tname fds)).
Proof.
  intros H. unfold insert_schema_table.
  destruct (bind _ _) as [off|e|]; cbn [fst]; try exact H.
  apply insert_schema_rows_closed. exact H.
Qed.

Lemma st_create_table_closed s name fds : P s -> P (fst (st_create_table s name fds)).
Proof.
  intros H. unfold st_create_table. destruct (names_distinct _); [|exact H].
  destruct (create_bad_rows s name fds); [exact H|]. unfold st_create_table0.
  destruct (rel_offset s name) as [o|e|]; cbn [fst]; try exact H.
  destruct e; cbn [fst]; try exact H.
  pose proof (P_create_page s H) as H1. destruct (create_page s) as [s1 pg]. cbn [fst] in H1.
  pose proof (insert_page_table_closed s1 pg name H1) as H2.
  destruct (insert_page_table s1 pg name) as [s2 [u|e|]]; cbn [fst] in *; try exact H2.
  apply insert_schema_table_closed. exact H2.
Qed.

Lemma insert_rows_closed rows : forall s name cols batch n,
  P s -> P (fst (fst (insert_rows s name cols rows batch n))).
Proof.
  induction rows as [|r rest IH]; intros s name cols batch n H; [exact H|].
  cbn [insert_rows]. pose proof (st_insert_closed s name cols r H) as H1.
  destruct (st_insert s name cols r) as [s1 [ws|e|]]; cbn [fst] in *; try exact H1.
  apply IH. exact H1.
Qed.

Lemma update_rows_closed ids : forall s name cols vals batch,
  P s -> P (fst (fst (update_rows s name cols vals ids batch))).
Proof.
  induction ids as [|k rest IH]; intros s name cols vals batch H; [exact H|].
  cbn [update_rows]. pose proof (st_update_closed s name k cols vals H) as H1.
  destruct (st_update s name k cols vals) as [s1 [ws|e|]]; cbn [fst] in *; try exact H1.
  apply IH. exact H1.
Qed.

Lemma delete_rows_closed ids : forall s name batch n,
  P s -> P (fst (fst (delete_rows s name ids batch n))).
Proof.
  induction ids as [|k rest IH]; intros s name batch n H; [exact H|].
  cbn [delete_rows]. pose proof (st_delete_closed s name k H) as H1.
  destruct (st_delete s name k) as [s1 [ws|e|]]; cbn [fst] in *; try exact H1.
  apply IH. exact H1.
Qed.

Lemma run_stmt_closed s st : P s -> P (e_store (run_stmt s st)).
Proof.
  intros H. destruct st; cbn [run_stmt e_store]; try exact H.
  - pose proof (st_create_table_closed s name (map fielddef_of cols) H) as H1.
    destruct (st_create_table s name (map fielddef_of cols)) as [s1 [u|e|]]; cbn [fst e_store] in *; try exact H1.
    apply P_flush. exact H1.
  - destruct (first_err _ rows) as [u|e|]; cbn [e_store]; try exact H.
    pose proof (insert_rows_closed rows s table cols [] 0%nat H) as H1.
    destruct (insert_rows s table cols rows [] 0) as [[s1 b] o]. exact H1.
  - destruct (existsb _ sets); [exact H|].
    destruct (where_ids s table where_) as [ids|e|]; cbn [e_store]; try exact H.
    destruct (first_err _ ids) as [u|e|]; cbn [e_store]; try exact H.
    pose proof (update_rows_closed ids s table (map fst sets)
                 (map (fun sv => match snd sv with XLit v => v | _ => VNull end) sets) [] H) as H1.
    destruct (update_rows s table _ _ ids []) as [[s1 b] o]. exact H1.
  - destruct (where_ids s table where_) as [ids|e|]; cbn [e_store]; try exact H.
    pose proof (delete_rows_closed ids s table [] 0%nat H) as H1.
    destruct (delete_rows s table ids [] 0) as [[s1 b] o]. exact H1.
Qed.
End Closure.

(* ---- instance: Good ---- *)
Lemma good_bt_insert s root v : Good s -> Good (fst (bt_insert s root v)).
Proof. intros [A B]. split; [apply bt_insert_inv | apply lsn_bt_insert]; assumption. Qed.
Lemma good_touch s pg k g : (forall x, lc_key (g x) = lc_key x) -> Good s ->
  Good (mkStore (touch_forest pg k (nextLSN s) g (forest s)) (lastKey s) (ptRoot s) (nextFree s) (nextLSN s + 1)).
Proof. intros Hg [A B]. split; [apply touch_store_inv | apply lsn_touch]; assumption. Qed.
Lemma good_create_page s : Good s -> Good (fst (create_page s)).
Proof. intros [A B]. split; [apply create_page_inv | apply lsn_create_page]; assumption. Qed.
Lemma good_ptroot s pt : Good s -> Good (mkStore (forest s) (lastKey s) pt (nextFree s) (nextLSN s)).
Proof. intros [A B]. split; [apply SInv_header; [lia|exact A] | exact B]. Qed.
Lemma good_flush s : Good s -> Good (flush s).
Proof. intros [A B]. split; [apply flush_inv | apply lsn_flush]; assumption. Qed.

Lemma run_stmt_good s st : Good s -> Good (e_store (run_stmt s st)).
Proof.
  apply (run_stmt_closed Good good_bt_insert good_touch good_create_page good_ptroot good_flush).
Qed.
