(* C05: on well-typed single-table queries the model returns a result that satisfies
   SelectSpec; the checker check_select decides SelectSpec. *)
From Coq Require Import ZArith String Bool List Ascii Permutation Sorted Lia.
From Mkdb Require Import Model.CaseLib Model.Select Spec.SelectSpec
     Proofs.SelectOrder Proofs.SelectEval Proofs.SelectSort.
Import ListNotations.

Definition no_aggr_list (sl : list derivedcol) : bool :=
  negb (existsb (fun d => match dc_prim d with SPCount _ | SPAvg _ => true | _ => false end) sl).

Lemma lookup_idx_resolve c fs i : resolve c fs = Some i -> lookup_idx c fs = i.
Proof. intros H. unfold lookup_idx. rewrite (resolve_find_column _ _ _ H). reflexivity. Qed.

(* one select-list cell *)
Lemma sem_item_cell p fs rw v : sem_item p fs rw = Some v -> project_cell p fs rw = Ok v.
Proof.
  destruct p as [ | c | c | e]; try (cbn; discriminate).
  assert (G : forall e', option_map VBool (sem_cond e' fs rw) = Some v -> evaluate e' fs rw = Ok v).
  { intros e' H. destruct (sem_cond e' fs rw) as [t|] eqn:E; cbn in H; try discriminate.
    inversion H; subst. apply sem_cond_eval. exact E. }
  destruct e as [[l|c] | l op r | [[l op] r] rhs | e1 e2].
  - destruct l; cbn; try discriminate; intros H; inversion H; reflexivity.
  - cbn. destruct (resolve c fs) as [i|] eqn:R; cbn; try discriminate.
    rewrite (lookup_idx_resolve _ _ _ R). unfold idx_row. intros ->. reflexivity.
  - apply (G (EPred l op r)).
  - apply (G (EAnd (l, op, r) rhs)).
  - apply (G (EOr e1 e2)).
Qed.

Lemma sem_items_row sl fs rw r :
  all_some (map (fun d => sem_item (dc_prim d) fs rw) sl) = Some r -> project_row sl fs rw = Ok r.
Proof.
  revert r. induction sl as [|d sl IH]; intros r H.
  - inversion H; reflexivity.
  - cbn [map] in H. apply all_some_cons in H. destruct H as [v [r' [Hv [Hr ->]]]].
    cbn. rewrite (sem_item_cell _ _ _ _ Hv). cbn. rewrite (IH _ Hr). reflexivity.
Qed.

Lemma sem_project_rows sl fs rows base :
  is_star sl = false -> sem_project sl fs rows = Some base -> project_rows sl fs rows = Ok base.
Proof.
  intros Hst. unfold sem_project, sem_project_row. rewrite Hst.
  revert base. induction rows as [|rw rows IH]; intros base H.
  - inversion H; reflexivity.
  - cbn [map] in H. apply all_some_cons in H. destruct H as [r [b' [Hr [Hb ->]]]].
    cbn. rewrite (sem_items_row _ _ _ _ Hr). cbn. rewrite (IH _ Hb). reflexivity.
Qed.

Lemma out_field_header d fs f :
  no_aggr_list [d] = true -> out_field d fs = Some f -> header_cell d fs = Ok f.
Proof.
  unfold no_aggr_list, out_field, header_cell. cbn. rewrite orb_false_r.
  destruct (dc_prim d) as [ | c | c | e]; cbn; try discriminate.
  intros _. destruct e as [[l|c] | l op r | [[l op] r] rhs | e1 e2]; cbn;
    try (intros H; inversion H; reflexivity).
  destruct (resolve c fs) as [i|] eqn:R; cbn; try discriminate.
  rewrite (lookup_idx_resolve _ _ _ R). destruct (nth_error fs i); cbn; try discriminate.
  intros H; inversion H; reflexivity.
Qed.

Lemma no_aggr_cons d sl : no_aggr_list (d :: sl) = true -> no_aggr_list [d] = true /\ no_aggr_list sl = true.
Proof.
  unfold no_aggr_list. cbn. rewrite orb_false_r, !negb_true_iff, orb_false_iff. tauto.
Qed.

Lemma out_header_model sl fs hdr :
  no_aggr_list sl = true ->
  all_some (map (fun d => out_field d fs) sl) = Some hdr -> project_header sl fs = Ok hdr.
Proof.
  revert hdr. induction sl as [|d sl IH]; intros hdr N H.
  - inversion H; reflexivity.
  - apply no_aggr_cons in N. destruct N as [N1 N2].
    cbn [map] in H. apply all_some_cons in H. destruct H as [f [h' [Hf [Hh ->]]]].
    cbn. rewrite (out_field_header _ _ _ N1 Hf). cbn. rewrite (IH _ N2 Hh). reflexivity.
Qed.

Lemma build_lookup_ok sl fs hdr :
  no_aggr_list sl = true ->
  all_some (map (fun d => out_field d fs) sl) = Some hdr -> build_lookup sl fs = Ok tt.
Proof.
  revert hdr. induction sl as [|d sl IH]; intros hdr N H; cbn; auto.
  apply no_aggr_cons in N. destruct N as [N1 N2].
  cbn [map] in H. apply all_some_cons in H. destruct H as [f [h' [Hf [Hh ->]]]].
  unfold no_aggr_list in N1. cbn in N1. rewrite orb_false_r in N1.
  unfold out_field in Hf.
  destruct (dc_prim d) as [ | c | c | e]; cbn in *; try discriminate; eauto.
  destruct e as [[l|c] | l op r | [[l op] r] rhs | e1 e2]; cbn; eauto.
  destruct (resolve c fs) as [i|] eqn:R; cbn in Hf; try discriminate.
  rewrite (resolve_find_column _ _ _ R). cbn. eauto.
Qed.

Lemma project_columns_sem sl fs rows base hdr :
  sl <> [] -> no_aggr_list sl = true ->
  sem_project sl fs rows = Some base -> out_header sl fs = Some hdr ->
  project_columns sl fs rows = Ok (hdr, base).
Proof.
  intros NE N P H. unfold out_header in H. destruct (is_star sl) eqn:S.
  - inversion H; subst. destruct sl as [|d [|? ?]]; try discriminate.
    unfold is_star in S. unfold project_columns. destruct (dc_prim d) eqn:Ed; try discriminate.
    unfold sem_project, sem_project_row in P. cbn in P. rewrite Ed in P.
    change (fun _ : row => Some _) with (@Some row) in P.
    assert (E : map (fun rw : row => Some rw) rows = map Some rows) by reflexivity.
    rewrite all_some_map_some in P. inversion P; reflexivity.
  - unfold project_columns. destruct sl as [|d sl'].
    + congruence.
    + assert (Hd : dc_prim d <> SPStar).
      { intros Ed. cbn [map] in H. apply all_some_cons in H. destruct H as [f [? [Hf _]]].
        unfold out_field in Hf. rewrite Ed in Hf. discriminate. }
      destruct (dc_prim d) eqn:Ed; try congruence;
        rewrite (build_lookup_ok _ _ _ N H); cbn [obind];
        rewrite (sem_project_rows _ _ _ _ S P); cbn [obind];
        rewrite (out_header_model _ _ _ N H); reflexivity.
Qed.

Lemma sem_sortkeys_model ssl hdr keys : sem_sortkeys ssl hdr = Some keys -> sort_idxs ssl hdr = Ok keys.
Proof.
  unfold sem_sortkeys. revert keys. induction ssl as [|s ssl IH]; intros keys H.
  - inversion H; reflexivity.
  - cbn [map] in H. apply all_some_cons in H. destruct H as [k [ks [Hk [Hks ->]]]].
    destruct (resolve (ss_key s) hdr) as [i|] eqn:R; cbn in Hk; try discriminate. inversion Hk; subst.
    cbn. rewrite (resolve_find_column _ _ _ R). rewrite (IH _ Hks). reflexivity.
Qed.

Lemma sem_sortkeys_lt ssl hdr keys :
  sem_sortkeys ssl hdr = Some keys -> Forall (fun k => (fst k < List.length hdr)%nat) keys.
Proof.
  unfold sem_sortkeys. revert keys. induction ssl as [|s ssl IH]; intros keys H.
  - inversion H; constructor.
  - cbn [map] in H. apply all_some_cons in H. destruct H as [k [ks [Hk [Hks ->]]]].
    destruct (resolve (ss_key s) hdr) as [i|] eqn:R; cbn in Hk; try discriminate. inversion Hk; subst.
    constructor; auto. cbn. apply resolve_some in R. tauto.
Qed.

(* widths: every projected row is as wide as the header *)
Lemma sem_project_width sl fs rows base hdr :
  Forall (fun rw => List.length rw = List.length fs) rows ->
  sem_project sl fs rows = Some base -> out_header sl fs = Some hdr ->
  Forall (fun rw => List.length rw = List.length hdr) base.
Proof.
  unfold sem_project, sem_project_row, out_header. intros W P H.
  destruct (is_star sl).
  - inversion H; subst. change (fun rw : row => Some rw) with (@Some row) in P.
    rewrite all_some_map_some in P. inversion P; subst. exact W.
  - apply all_some_length in H. rewrite map_length in H.
    clear W. revert base P. induction rows as [|rw rows IH]; intros base P.
    + inversion P; constructor.
    + cbn [map] in P. apply all_some_cons in P. destruct P as [r [b' [Hr [Hb ->]]]].
      constructor; auto. apply all_some_length in Hr. rewrite map_length in Hr. lia.
Qed.

Lemma table_fields_eq name alias cols :
  map (fun c => (match alias with Some a => a | None => name end, c)) cols = table_fields name alias cols.
Proof. reflexivity. Qed.

Theorem model_meets_select_spec d q :
  well_typed q d = true -> exists r, select q d = Ok r /\ SelectSpec q d r.
Proof.
  unfold well_typed. rewrite !andb_true_iff. intros [[[NE NA] WO] WT].
  assert (NE' : sel_list q <> []) by (unfold nonempty_list in NE; destruct (sel_list q); congruence).
  destruct (sem_single q d) as [[[hdr base] keys]|] eqn:E; try discriminate. clear WT.
  pose proof E as E0. unfold sem_single in E.
  destruct (sel_from q) as [|[name alias|] [|? ?]] eqn:EF; try discriminate.
  destruct (fetch d name) as [[cols rows]|] eqn:FE; cbn in E; try discriminate.
  destruct (forallb (fun rw : list value => Nat.eqb (List.length rw) (List.length cols)) rows) eqn:WD; try discriminate.
  destruct (sem_filter (sel_where q) (table_fields name alias cols) rows) as [kept|] eqn:SF; cbn in E; try discriminate.
  destruct (sem_project (sel_list q) (table_fields name alias cols) kept) as [base'|] eqn:SP; cbn in E; try discriminate.
  destruct (out_header (sel_list q) (table_fields name alias cols)) as [hdr'|] eqn:OH; cbn in E; try discriminate.
  destruct (sem_sortkeys (sel_sort q) hdr') as [keys'|] eqn:SK; cbn in E; try discriminate.
  destruct (keys_homog keys' base') eqn:KH; try discriminate.
  inversion E; subst hdr' base' keys'. clear E.
  unfold no_aggregate in NA. rewrite andb_true_iff in NA. destruct NA as [NA NG].
  destruct (sel_group q) eqn:EG; try discriminate. clear NG.
  (* widths *)
  assert (Wrows : Forall (fun rw => List.length rw = List.length (table_fields name alias cols)) rows).
  { rewrite Forall_forall. intros rw Hrw. rewrite forallb_forall in WD. specialize (WD rw Hrw).
    apply Nat.eqb_eq in WD. unfold table_fields. rewrite map_length. exact WD. }
  assert (Wkept : Forall (fun rw => List.length rw = List.length (table_fields name alias cols)) kept).
  { unfold sem_filter in SF. destruct (sel_where q).
    - destruct (forallb _ rows); try discriminate. inversion SF; subst.
      rewrite Forall_forall in *. intros rw Hrw. apply filter_In in Hrw. apply Wrows. tauto.
    - inversion SF; subst. exact Wrows. }
  pose proof (sem_project_width _ _ _ _ _ Wkept SP OH) as Wbase.
  pose proof (sem_sortkeys_lt _ _ _ SK) as Klt.
  assert (Wide : Forall (wide keys) base).
  { rewrite Forall_forall in *. intros rw Hrw. unfold wide. rewrite Forall_forall. intros k Hk.
    rewrite (Wbase rw Hrw). apply Klt. exact Hk. }
  destruct (sort_rows_spec keys base Wide KH) as [s [ES [PS SS]]].
  (* run the model *)
  exists (hdr, window (q_offset q) (q_limit q) s). split.
  - unfold select. rewrite EF. unfold select_core. cbn [nested_loop_join]. rewrite FE. cbn.
    rewrite table_fields_eq.
    rewrite (sem_filter_model _ _ _ _ SF). cbn.
    rewrite (project_columns_sem _ _ _ _ _ NE' NA SP OH). cbn.
    unfold aggregate_rows. unfold no_aggr_list in NA. unfold has_aggr, is_aggr.
    assert (EA : existsb (fun d0 => match dc_prim d0 with SPCount _ | SPAvg _ => true | _ => false end) (sel_list q) = false)
      by (apply negb_true_iff; exact NA).
    rewrite EA, EG. cbn.
    rewrite (sem_sortkeys_model _ _ _ SK). cbn. rewrite ES. cbn.
    rewrite (select_window_spec _ _ WO). reflexivity.
  - exists hdr, base, keys. repeat split; auto. cbn.
    unfold OrderedWindow. destruct keys as [|k ks].
    + rewrite sort_rows_nil in ES. inversion ES; subst. reflexivity.
    + exists s. auto.
Qed.

Theorem check_select_iff q d res : check_select q d res = true <-> SelectSpec q d res.
Proof.
  unfold check_select, SelectSpec. destruct (sem_single q d) as [[[hdr base] keys]|]; split.
  - rewrite andb_true_iff, check_window_iff. intros [Hf Hw].
    exists hdr, base, keys. repeat split; auto.
    apply (list_eqb_spec field_eqb); auto.
    intros [a b] [a' b']. unfold field_eqb. cbn. rewrite andb_true_iff, !String.eqb_eq.
    split; [intros [-> ->]; auto | intros H; inversion H; auto].
  - intros [h [b [k [E [Hf Hw]]]]]. inversion E; subst h b k.
    rewrite andb_true_iff, check_window_iff. split; auto.
    apply (list_eqb_spec field_eqb); auto.
    intros [a b] [a' b']. unfold field_eqb. cbn. rewrite andb_true_iff, !String.eqb_eq.
    split; [intros [-> ->]; auto | intros H; inversion H; auto].
  - discriminate.
  - intros [h [b [k [E _]]]]. discriminate.
Qed.
