(* Crash theory, part 5: the invariant of the durable system (cache, data file, log) and its
   preservation by statements, flushes and crash-recoveries (C02). *)
From Coq Require Import Arith Lia Bool List NArith Permutation.
From Mkdb Require Import Model.Engine Proofs.TreeProofs Proofs.StoreInv Proofs.CrashBase Proofs.CrashPages
  Proofs.CrashRedo Proofs.CrashLog Gen.Params.
Import ListNotations.
Local Open Scope N_scope.

(* ---------- hypotheses on a statement, evaluated in the store it runs on ---------- *)
(* a failing statement changes no page. (Before the repair of the recorded findings F11a-c (C14)
   this excluded a multi-row INSERT / UPDATE or a CREATE TABLE failing after its first row; it is
   now derived from the refinement invariant: Proofs/HistNoH1.v rep_stmt_atomic.) *)
Definition stmt_atomic (s : store) (st : stmt) : Prop :=
  is_ok (e_out (run_stmt s st)) = false -> seq (e_store (run_stmt s st)) s.

Definition stmt_ok (s : store) (st : stmt) : Prop := stmt_atomic s st /\ stmt_moves_ok s st.

(* ---------- the invariant ---------- *)
(* replaying the whole log on the data file gives the cache, up to dirty flags; the replayed store
   r and the cache respect the structural invariant and the LSN discipline; every record of the
   log is inert with respect to the cache (hence to any later complete flush of it) *)
Definition Inv (y : sys) : Prop :=
  exists r, replay (disk y) (wal y) = RCont r /\ seq r (mem y) /\ Good r /\ GL (wal y) (mem y).

(* ---------- replay never moves the LSN counter backwards and passes every record ---------- *)
Lemma redo_root_move_lsn s o n l : nextLSN (fst (redo_root_move s o n l)) = nextLSN s.
Proof. unfold redo_root_move. repeat (break_match; cbn [fst]; try reflexivity). Qed.

Lemma redo_root_move_key s o n l : lastKey (fst (redo_root_move s o n l)) = lastKey s.
Proof. unfold redo_root_move. repeat (break_match; cbn [fst]; try reflexivity). Qed.

(* the counters after one record: never lower, above the record's LSN, and (inserts) at least its key *)
Lemma replay_one_counters s w s1 : replay_one s w = RCont s1 ->
  (w_lsn w < nextLSN s1 /\ nextLSN s <= nextLSN s1) /\
  (lastKey s <= lastKey s1 /\ (w_op w = OpInsert -> w_cell w <= lastKey s1)).
Proof.
  unfold replay_one. fold (pre s w).
  pose proof (pre_gt s w) as A. pose proof (pre_ge s w) as B.
  pose proof (pre_key_ge s w) as C. pose proof (pre_key_insert s w) as D.
  set (s0 := pre s w) in *.
  destruct (find_node (w_page w) (forest s0)) as [[isroot n]|]; [|discriminate].
  destruct (N.leb (w_lsn w) (t_lsn n)); [intros H; inversion H; subst; auto|].
  destruct (w_op w) eqn:Eop.
  - destruct (negb isroot); [discriminate|].
    destruct (tree_insert ML MI PS MV n (w_cell w) (w_lsn w) (w_val w) (nextFree s0)) as [[t' nf]|e].
    + destruct (N.eqb (t_off t') (w_page w)); [intros H; inversion H; subst; cbn [nextLSN lastKey]; split; [auto|split; [lia|intros; lia]]|].
      match goal with |- context [redo_root_move ?a ?b ?c ?d] =>
        pose proof (redo_root_move_lsn a b c d) as L; pose proof (redo_root_move_key a b c d) as K;
        destruct (redo_root_move a b c d) as [s2 [u|e|]] end;
        try discriminate.
      intros H; inversion H; subst. cbn [fst nextLSN lastKey] in L, K. rewrite L, K. split; [auto|split; [lia|intros; lia]].
    + destruct e; try discriminate. intros H; inversion H; subst; cbn [nextLSN lastKey]; split; [auto|split; [lia|intros; lia]].
  - destruct n; [|discriminate]. destruct (Nat.ltb MV _); [discriminate|].
    destruct (existsb _ _); [|discriminate]. intros H; inversion H; subst; cbn [set_forest nextLSN lastKey]; auto.
  - destruct n; [|discriminate].
    destruct (existsb _ _); [|discriminate]. intros H; inversion H; subst; cbn [set_forest nextLSN lastKey]; auto.
Qed.

Lemma replay_one_lsn s w s1 : replay_one s w = RCont s1 -> w_lsn w < nextLSN s1 /\ nextLSN s <= nextLSN s1.
Proof. intros H. apply (replay_one_counters _ _ _ H). Qed.

Lemma replay_lsn ws : forall s r, replay s ws = RCont r ->
  nextLSN s <= nextLSN r /\ Forall (fun w => w_lsn w < nextLSN r) ws.
Proof.
  induction ws as [|w rest IH]; intros s r H.
  - cbn in H. inversion H; subst. split; [lia | constructor].
  - cbn [replay] in H. destruct (replay_one s w) as [s1| | |] eqn:E; try discriminate.
    destruct (replay_one_lsn _ _ _ E) as [A B]. destruct (IH _ _ H) as [C D].
    split; [lia|]. constructor; [lia | exact D].
Qed.

Lemma replay_key ws : forall s r, replay s ws = RCont r ->
  lastKey s <= lastKey r /\ Forall (fun w => w_op w = OpInsert -> w_cell w <= lastKey r) ws.
Proof.
  induction ws as [|w rest IH]; intros s r H.
  - cbn in H. inversion H; subst. split; [lia | constructor].
  - cbn [replay] in H. destruct (replay_one s w) as [s1| | |] eqn:E; try discriminate.
    destruct (replay_one_counters _ _ _ E) as [_ [A B]]. destruct (IH _ _ H) as [C D].
    split; [lia|]. constructor; [intros Ho; specialize (B Ho); lia | exact D].
Qed.

(* ---------- the initial database ---------- *)
Definition lsn_okb (s : store) : bool :=
  (0 <? nextLSN s) && forallb (fun t => forallb (fun n => t_lsn n <? nextLSN s) (nodes t)) (forest s).

Lemma lsn_okb_sound s : lsn_okb s = true -> LsnInv s.
Proof.
  unfold lsn_okb. rewrite andb_true_iff, N.ltb_lt, forallb_forall. intros [A B]. split; [exact A|].
  apply Forall_forall. intros t Ht. specialize (B t Ht). rewrite forallb_forall in B.
  apply Forall_forall. intros n Hn. apply N.ltb_lt. apply B. exact Hn.
Qed.

Lemma init_good : Good (fst create_db).
Proof. split; [apply create_db_inv | apply lsn_okb_sound; vm_compute; reflexivity]. Qed.

Lemma inv_init : Inv init_sys.
Proof.
  exists (fst create_db). unfold init_sys. cbn [mem disk wal replay].
  split; [reflexivity|]. split; [apply seq_refl|]. split; [apply init_good|]. split; [apply init_good | constructor].
Qed.

(* ---------- one event ---------- *)
Lemma ok_unflushed_is_dml s st :
  is_ok (e_out (run_stmt s st)) = true -> e_flushed (run_stmt s st) = false -> is_dml st = true.
Proof.
  destruct st; cbn [run_stmt is_dml]; try reflexivity; try (cbn; discriminate).
  destruct (st_create_table s name _) as [s1 [u|e|]]; cbn; discriminate.
Qed.

Lemma inv_stmt y st : Inv y -> stmt_ok (mem y) st -> Inv (fst (exec y st)).
Proof.
  intros (r & Hrep & Hseq & Gr & HGL) [Hat Hmv]. unfold exec.
  pose proof (log_stmt (wal y) (mem y) st HGL) as HL.
  set (e := run_stmt (mem y) st) in *. cbn [fst].
  destruct (e_flushed e) eqn:Efl.
  - (* the statement ended with a flush: every record is inert on the new file *)
    exists (e_store e). cbn [mem disk wal]. split; [|split; [apply seq_refl|split; [apply HL | exact HL]]].
    apply replay_inert; apply HL.
  - destruct (is_ok (e_out e)) eqn:Eok.
    + destruct (e_out e) as [m| |] eqn:Eo; try discriminate.
      assert (Hd : is_dml st = true) by (apply (ok_unflushed_is_dml (mem y)); fold e; [rewrite Eo; reflexivity | exact Efl]).
      destruct (redo_stmt r (mem y) st m (mkRel _ _ Hseq Gr (proj1 HGL)) Hd Hmv Eo) as (a' & Hr & [S' Ga' _] & _).
      fold e in Hr, S'. exists a'. cbn [mem disk wal].
      split; [rewrite (replay_app _ _ _ _ Hrep); exact Hr|]. split; [exact S'|]. split; [exact Ga' | exact HL].
    + exists r. cbn [mem disk wal]. split; [exact Hrep|]. split; [|split; [exact Gr | exact HL]].
      eapply seq_trans; [exact Hseq|]. apply seq_sym. apply Hat. exact Eok.
Qed.

Lemma inv_flush y : Inv y -> Inv (do_flush y).
Proof.
  intros (r & Hrep & Hseq & Gr & [Gm Lm]). unfold do_flush.
  assert (HGL : GL (wal y) (flush (mem y))).
  { apply (gl_map (wal y) (mem y)); [apply good_flush; exact Gm | | exact Lm]. intros w. apply inert_flush. }
  exists (flush (mem y)). cbn [mem disk wal]. split; [apply replay_inert; apply HGL|].
  split; [apply seq_refl|]. split; [apply HGL | exact HGL].
Qed.

(* what recovery returns on a system satisfying the invariant *)
Lemma inv_recover y : Inv y ->
  exists r, replay (disk y) (wal y) = RCont r /\ recover y = Ok (mkSys (flush r) (flush r) (wal y)) /\
            seq (flush r) (mem y) /\ Good (flush r) /\ Inv (mkSys (flush r) (flush r) (wal y)).
Proof.
  intros (r & Hrep & Hseq & Gr & [Gm Lm]). exists r. split; [exact Hrep|].
  split; [unfold recover; rewrite Hrep; reflexivity|].
  assert (Sf : seq (flush r) (mem y)) by (eapply seq_trans; [apply seq_flush | exact Hseq]).
  split; [exact Sf|]. pose proof (good_flush r Gr) as Gf. split; [exact Gf|].
  assert (HGL : GL (wal y) (flush r)).
  { split; [exact Gf|]. destruct (replay_lsn _ _ _ Hrep) as [_ Hb]. destruct (replay_key _ _ _ Hrep) as [_ Hk].
    unfold LogInv in *. rewrite Forall_forall in *. intros w Hw.
    apply (rec_inert_seq (flush r) (mem y) w Sf); [apply Hb; exact Hw | apply Hk; exact Hw | apply Lm; exact Hw]. }
  exists (flush r). cbn [mem disk wal]. split; [apply replay_inert; apply HGL|].
  split; [apply seq_refl|]. split; [exact Gf | exact HGL].
Qed.

