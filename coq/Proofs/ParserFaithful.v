(* C10: parsing is faithful. For every production: if the input starts with the rendering of a
   well-formed tree followed by `rest`, and `rest` does not start with a token that would extend
   the production (the follow-set side conditions), the production returns the tree and `rest`.
   Fuel: any amount above the number of tokens. *)
From Coq Require Import ZArith String Ascii List Bool Lia.
From Mkdb Require Import Model.Value Model.Ast Model.Lexer Model.Parser Spec.ParseSpec Proofs.ParserTotal.
Import ListNotations.
Local Open Scope list_scope.

Local Arguments val_of : simpl never.
Local Arguments require_int : simpl never.
Local Arguments column_reference : simpl never.
Local Arguments value_expression : simpl never.
Local Arguments predicate : simpl never.
Local Arguments and_cond : simpl never.
Local Arguments and_loop : simpl never.
Local Arguments or_cond : simpl never.
Local Arguments or_loop : simpl never.
Local Arguments set_function : simpl never.
Local Arguments derived_column : simpl never.
Local Arguments select_items : simpl never.
Local Arguments select_list : simpl never.
Local Arguments table_name : simpl never.
Local Arguments join_loop : simpl never.
Local Arguments from_clause : simpl never.
Local Arguments where_clause : simpl never.
Local Arguments group_loop : simpl never.
Local Arguments group_by_clause : simpl never.
Local Arguments table_expression : simpl never.
Local Arguments sort_loop : simpl never.
Local Arguments sort_spec_list : simpl never.
Local Arguments limit_loop : simpl never.
Local Arguments limit_offset : simpl never.
Local Arguments select_ : simpl never.
Local Arguments table_elements_loop : simpl never.
Local Arguments table_elements : simpl never.
Local Arguments create_table : simpl never.
Local Arguments create_ : simpl never.
Local Arguments insert_cols_loop : simpl never.
Local Arguments insert_vals_loop : simpl never.
Local Arguments insert_rows_loop : simpl never.
Local Arguments insert_ : simpl never.
Local Arguments update_set_loop : simpl never.
Local Arguments update_ : simpl never.
Local Arguments delete_ : simpl never.
Local Arguments parse_f : simpl never.
Local Arguments validate_group_by : simpl never.
Local Arguments atoi : simpl never.
Local Arguments r_colref : simpl never.
Local Arguments r_vexpr : simpl never.
Local Arguments r_value : simpl never.

(* kind of the next token; the end of the list behaves like EOFToken, whose type is no keyword *)
Definition hdk (l : list ptok) : tk := match l with [] => KOther | (k, _) :: _ => k end.

(* tokens that would extend a comparison / an AND chain / a search condition *)
Definition ext_and (k : tk) : bool :=
  match k with KDot | KEq | KNeq | KGt | KLt | KLte | KGte | KAnd => true | _ => false end.
Definition ext_or (k : tk) : bool := ext_and k || match k with KOr => true | _ => false end.

Ltac dhd rest := let k := fresh "k" in let s := fresh "s" in let r := fresh "r" in
  destruct rest as [|[k s] r]; [|destruct k]; cbn in *; try reflexivity; try discriminate; try contradiction; try congruence.

Ltac norm := repeat rewrite <- app_assoc; cbn [app].
Ltac lens := repeat (rewrite app_length in * || progress cbn [length] in * ).

(* ---- ColumnReference ---- *)
Lemma colref_rt c rest : hdk rest <> KDot ->
  column_reference (r_colref c ++ rest) = POk (Some c, rest).
Proof.
  intros H. unfold r_colref. destruct c as [q n]; cbn [cr_qual cr_name].
  destruct (String.eqb q "") eqn:E.
  - apply String.eqb_eq in E; subst. unfold column_reference; cbn. dhd rest.
  - reflexivity.
Qed.

Lemma colref_head c : exists x tl, r_colref c = (KIdent, x) :: tl.
Proof. unfold r_colref. destruct (String.eqb _ _); eauto. Qed.

Lemma colref_len c : 1 <= length (r_colref c).
Proof. destruct (colref_head c) as (x & tl & ->). cbn. lia. Qed.

(* ---- ValueExpression ---- *)
Lemma num_ok_atoi o z : num_ok o z = true -> atoi (o_num o z) = Some z.
Proof.
  unfold num_ok. destruct (atoi (o_num o z)) as [z'|]; try discriminate.
  intros H. apply Z.eqb_eq in H. congruence.
Qed.

Lemma value_rt o v : wf_value o v = true ->
  exists t, r_value o v = [t] /\ is_literal (fst t) = true /\ val_of t = POk v.
Proof.
  destruct v as [z|s|[|]|]; cbn; intros H; try discriminate; unfold r_value; eexists; repeat split.
  unfold val_of; cbn. rewrite (num_ok_atoi _ _ H). reflexivity.
Qed.

Lemma vexpr_rt o v rest : wf_vexpr o v = true -> hdk rest <> KDot ->
  value_expression (r_vexpr o v ++ rest) = POk (v, rest).
Proof.
  intros W H. destruct v as [x|c]; unfold r_vexpr.
  - destruct (value_rt o x W) as (t & -> & L & V). cbn [app]. unfold value_expression.
    rewrite L, V. reflexivity.
  - destruct (colref_head c) as (x & tl & E).
    assert (Hc : r_colref c ++ rest = (KIdent, x) :: (tl ++ rest)) by (rewrite E; reflexivity).
    unfold value_expression. rewrite Hc. cbn [is_literal fst]. rewrite <- Hc.
    rewrite (colref_rt c rest H). reflexivity.
Qed.

Lemma vexpr_len o v : wf_vexpr o v = true -> 1 <= length (r_vexpr o v).
Proof.
  intros W. destruct v as [x|c]; unfold r_vexpr.
  - destruct (value_rt o x W) as (t & -> & _). cbn; lia.
  - apply colref_len.
Qed.

Lemma vexpr_head o v : wf_vexpr o v = true ->
  exists k s tl, r_vexpr o v = (k, s) :: tl /\
                 match k with KIdent | KInt | KStr | KTrue | KFalse => True | _ => False end.
Proof.
  intros W. destruct v as [x|c]; unfold r_vexpr.
  - destruct x as [z|s|[|]|]; cbn in W; try discriminate; unfold r_value; do 3 eexists; split; try reflexivity; exact I.
  - destruct (colref_head c) as (x & tl & ->). do 3 eexists; split; try reflexivity; exact I.
Qed.

(* ---- Predicate ---- *)
Lemma op_kind op : compop_of (fst (r_op op)) = Some op /\ fst (r_op op) <> KDot.
Proof. destruct op; cbn; split; auto; discriminate. Qed.

Lemma pred_val_rt o v rest : wf_vexpr o v = true -> ext_and (hdk rest) = false ->
  predicate (r_vexpr o v ++ rest) = POk (EVal v, rest).
Proof.
  intros W H. unfold predicate.
  assert (Hd : hdk rest <> KDot) by (intros E; rewrite E in H; discriminate).
  rewrite (vexpr_rt o v rest W Hd). cbn [bind]. dhd rest.
Qed.

Lemma pred_cmp_rt o l op r rest : wf_vexpr o l = true -> wf_vexpr o r = true -> hdk rest <> KDot ->
  predicate (r_vexpr o l ++ r_op op :: r_vexpr o r ++ rest) = POk (EPred l op r, rest).
Proof.
  intros Wl Wr H. unfold predicate. destruct (op_kind op) as [Ho Hd].
  assert (Hd' : hdk (r_op op :: r_vexpr o r ++ rest) <> KDot) by (destruct (r_op op); exact Hd).
  rewrite (vexpr_rt o l _ Wl Hd'). cbn [bind]. destruct (r_op op) as [k s] eqn:E. cbn [fst] in *. rewrite Ho.
  rewrite (vexpr_rt o r rest Wr H). reflexivity.
Qed.

(* ---- AndCondition ---- *)
Lemma expr_len o e : wf_or o e = true \/ wf_and o e = true -> 1 <= length (r_expr o e).
Proof.
  induction e as [v|l op r|[[l op] r] rhs IH|l IHl r IHr]; cbn; intros W.
  - apply vexpr_len. destruct W; auto.
  - rewrite app_length. cbn. lia.
  - rewrite app_length. cbn. lia.
  - rewrite app_length. cbn. lia.
Qed.

Lemma and_rt o : forall e, wf_and o e = true -> forall fuel rest,
  ext_and (hdk rest) = false -> length (r_expr o e ++ rest) < fuel ->
  and_cond fuel (r_expr o e ++ rest) = POk (e, rest).
Proof.
  induction e as [v|l op r|[[l op] r] rhs IH|l IHl r IHr]; cbn [wf_and r_expr]; intros W fuel rest F L.
  - pose proof (vexpr_len o v W) as Lv. lens.
    destruct fuel as [|[|f]]; try lia. rewrite and_cond_S, pred_val_rt; auto. cbn [bind].
    rewrite and_loop_S. dhd rest.
  - apply andb_prop in W as [Wl Wr].
    pose proof (vexpr_len o l Wl). pose proof (vexpr_len o r Wr).
    norm. lens.
    assert (Hd : hdk rest <> KDot) by (intros E; rewrite E in F; discriminate).
    destruct fuel as [|[|f]]; try lia. rewrite and_cond_S, (pred_cmp_rt o l op r rest Wl Wr Hd).
    cbn [bind]. rewrite and_loop_S. dhd rest.
  - apply andb_prop in W as [W Wrhs]. apply andb_prop in W as [Wl Wr].
    pose proof (vexpr_len o l Wl). pose proof (vexpr_len o r Wr).
    norm. lens.
    pose proof (expr_len o rhs (or_intror Wrhs)) as Lr.
    destruct fuel as [|[|[|f]]]; try lia.
    rewrite and_cond_S, (pred_cmp_rt o l op r _ Wl Wr ltac:(cbn; discriminate)).
    cbn [bind]. rewrite and_loop_S. cbn [K].
    rewrite IH; auto; [|lens; lia].
    cbn [bind]. rewrite and_loop_S. dhd rest.
  - discriminate.
Qed.

(* ---- OrCondition ---- *)
Lemma wf_or_and o e : match e with EOr _ _ => False | _ => True end -> wf_or o e = wf_and o e.
Proof. destruct e; cbn; tauto. Qed.

Lemma ext_or_and k : ext_or k = false -> ext_and k = false.
Proof. unfold ext_or. intros H. apply orb_false_elim in H. tauto. Qed.

Lemma or_rt o : forall e, wf_or o e = true -> forall fuel rest,
  ext_or (hdk rest) = false -> length (r_expr o e ++ rest) < fuel ->
  or_cond fuel (r_expr o e ++ rest) = POk (e, rest).
Proof.
  assert (Base : forall e, match e with EOr _ _ => False | _ => True end ->
    wf_and o e = true -> forall fuel rest, ext_or (hdk rest) = false ->
    length (r_expr o e ++ rest) < fuel -> or_cond fuel (r_expr o e ++ rest) = POk (e, rest)).
  { intros e Hne W fuel rest F L.
    pose proof (expr_len o e (or_intror W)) as Le. lens.
    destruct fuel as [|[|f]]; try lia.
    rewrite or_cond_S, and_rt; auto; [|apply ext_or_and; auto|lens; lia].
    cbn [bind]. rewrite or_loop_S. dhd rest. }
  induction e as [v|l op r|[[l op] r] rhs IH|l IHl r IHr]; intros W fuel rest F L;
    try (apply Base; auto; exact I).
  cbn [wf_or] in W. apply andb_prop in W as [Wl Wr]. cbn [r_expr] in *. norm.
  pose proof (expr_len o l (or_intror Wl)) as Ll. pose proof (expr_len o r (or_introl Wr)) as Lr.
  lens.
  destruct fuel as [|[|[|f]]]; try lia.
  rewrite or_cond_S, and_rt; auto; [|lens; lia].
  cbn [bind]. rewrite or_loop_S. cbn [K]. rewrite IHr; auto; [|lens; lia].
  cbn [bind]. rewrite or_loop_S. dhd rest.
Qed.
