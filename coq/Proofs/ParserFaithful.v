(* C10: parsing is faithful. For every production: if the input starts with the rendering of a
   well-formed tree followed by `rest`, and `rest` does not start with a token that would extend
   the production (the follow-set side conditions), the production returns the tree and `rest`.
   Fuel: any amount above the number of tokens. *)
From Coq Require Import ZArith String Ascii List Bool Lia.
From Mkdb Require Import Model.Value Model.Ast Model.Lexer Model.Parser Spec.ParseSpec Proofs.ParserTotal.
Import ListNotations.
Local Open Scope list_scope.

Local Arguments val_of : simpl never.
Local Arguments require_int : simpl never.
Local Arguments column_reference : simpl never.
Local Arguments value_expression : simpl never.
Local Arguments predicate : simpl never.
Local Arguments and_cond : simpl never.
Local Arguments and_loop : simpl never.
Local Arguments or_cond : simpl never.
Local Arguments or_loop : simpl never.
Local Arguments set_function : simpl never.
Local Arguments derived_column : simpl never.
Local Arguments select_items : simpl never.
Local Arguments select_list : simpl never.
Local Arguments table_name : simpl never.
Local Arguments join_loop : simpl never.
Local Arguments from_clause : simpl never.
Local Arguments where_clause : simpl never.
Local Arguments group_loop : simpl never.
Local Arguments group_by_clause : simpl never.
Local Arguments table_expression : simpl never.
Local Arguments sort_loop : simpl never.
Local Arguments sort_spec_list : simpl never.
Local Arguments limit_loop : simpl never.
Local Arguments limit_offset : simpl never.
Local Arguments select_ : simpl never.
Local Arguments table_elements_loop : simpl never.
Local Arguments table_elements : simpl never.
Local Arguments create_table : simpl never.
Local Arguments create_ : simpl never.
Local Arguments insert_cols_loop : simpl never.
Local Arguments insert_vals_loop : simpl never.
Local Arguments insert_rows_loop : simpl never.
Local Arguments insert_ : simpl never.
Local Arguments update_set_loop : simpl never.
Local Arguments update_ : simpl never.
Local Arguments delete_ : simpl never.
Local Arguments parse_f : simpl never.
Local Arguments validate_group_by : simpl never.
Local Arguments atoi : simpl never.
Local Arguments r_colref : simpl never.
Local Arguments r_vexpr : simpl never.
Local Arguments r_value : simpl never.

(* kind of the next token; the end of the list behaves like EOFToken, whose type is no keyword *)
Definition hdk (l : list ptok) : tk := match l with [] => KOther | (k, _) :: _ => k end.

(* tokens that would extend a comparison / an AND chain / a search condition *)
Definition ext_and (k : tk) : bool :=
  match k with KDot | KEq | KNeq | KGt | KLt | KLte | KGte | KAnd => true | _ => false end.
Definition ext_or (k : tk) : bool := ext_and k || match k with KOr => true | _ => false end.

Ltac dhd rest := let k := fresh "k" in let s := fresh "s" in let r := fresh "r" in
  destruct rest as [|[k s] r]; [|destruct k]; cbn in *; try reflexivity; try discriminate; try contradiction; try congruence.

Ltac norm := repeat rewrite <- app_assoc; cbn [app].
Ltac lens := repeat (first [rewrite app_length in * | progress cbn [length] in * ]).

(* ---- ColumnReference ---- *)
Lemma colref_rt c rest : hdk rest <> KDot ->
  column_reference (r_colref c ++ rest) = POk (Some c, rest).
Proof.
  intros H. unfold r_colref. destruct c as [q n]; cbn [cr_qual cr_name].
  destruct (String.eqb q "") eqn:E.
  - apply String.eqb_eq in E; subst. unfold column_reference; cbn. dhd rest.
  - reflexivity.
Qed.

Lemma colref_head c : exists x tl, r_colref c = (KIdent, x) :: tl.
Proof. unfold r_colref. destruct (String.eqb _ _); eauto. Qed.

Lemma colref_len c : 1 <= length (r_colref c).
Proof. destruct (colref_head c) as (x & tl & ->). cbn. lia. Qed.

(* ---- ValueExpression ---- *)
Lemma num_ok_atoi o z : num_ok o z = true -> atoi (o_num o z) = Some z.
Proof.
  unfold num_ok. destruct (atoi (o_num o z)) as [z'|]; try discriminate.
  intros H. apply Z.eqb_eq in H. congruence.
Qed.

Lemma value_rt o v : wf_value o v = true ->
  exists t, r_value o v = [t] /\ is_literal (fst t) = true /\ val_of t = POk v.
Proof.
  destruct v as [z|s|[|]|]; cbn; intros H; try discriminate; unfold r_value; eexists; repeat split.
  unfold val_of; cbn. rewrite (num_ok_atoi _ _ H). reflexivity.
Qed.

Lemma vexpr_rt o v rest : wf_vexpr o v = true -> hdk rest <> KDot ->
  value_expression (r_vexpr o v ++ rest) = POk (v, rest).
Proof.
  intros W H. destruct v as [x|c]; unfold r_vexpr.
  - destruct (value_rt o x W) as (t & -> & L & V). cbn [app]. unfold value_expression.
    rewrite L, V. reflexivity.
  - destruct (colref_head c) as (x & tl & E).
    assert (Hc : r_colref c ++ rest = (KIdent, x) :: (tl ++ rest)) by (rewrite E; reflexivity).
    unfold value_expression. rewrite Hc. cbn [is_literal fst]. rewrite <- Hc.
    rewrite (colref_rt c rest H). reflexivity.
Qed.

Lemma vexpr_len o v : wf_vexpr o v = true -> 1 <= length (r_vexpr o v).
Proof.
  intros W. destruct v as [x|c]; unfold r_vexpr.
  - destruct (value_rt o x W) as (t & -> & _). cbn; lia.
  - apply colref_len.
Qed.

Lemma vexpr_head o v : wf_vexpr o v = true ->
  exists k s tl, r_vexpr o v = (k, s) :: tl /\
                 match k with KIdent | KInt | KStr | KTrue | KFalse => True | _ => False end.
Proof.
  intros W. destruct v as [x|c]; unfold r_vexpr.
  - destruct x as [z|s|[|]|]; cbn in W; try discriminate; unfold r_value; do 3 eexists; split; try reflexivity; exact I.
  - destruct (colref_head c) as (x & tl & ->). do 3 eexists; split; try reflexivity; exact I.
Qed.

(* ---- Predicate ---- *)
Lemma op_kind op : compop_of (fst (r_op op)) = Some op /\ fst (r_op op) <> KDot.
Proof. destruct op; cbn; split; auto; discriminate. Qed.

Lemma pred_val_rt o v rest : wf_vexpr o v = true -> ext_and (hdk rest) = false ->
  predicate (r_vexpr o v ++ rest) = POk (EVal v, rest).
Proof.
  intros W H. unfold predicate.
  assert (Hd : hdk rest <> KDot) by (intros E; rewrite E in H; discriminate).
  rewrite (vexpr_rt o v rest W Hd). cbn [bind]. dhd rest.
Qed.

Lemma pred_cmp_rt o l op r rest : wf_vexpr o l = true -> wf_vexpr o r = true -> hdk rest <> KDot ->
  predicate (r_vexpr o l ++ r_op op :: r_vexpr o r ++ rest) = POk (EPred l op r, rest).
Proof.
  intros Wl Wr H. unfold predicate. destruct (op_kind op) as [Ho Hd].
  assert (Hd' : hdk (r_op op :: r_vexpr o r ++ rest) <> KDot) by (destruct (r_op op); exact Hd).
  rewrite (vexpr_rt o l _ Wl Hd'). cbn [bind]. destruct (r_op op) as [k s] eqn:E. cbn [fst] in *. rewrite Ho.
  rewrite (vexpr_rt o r rest Wr H). reflexivity.
Qed.

(* ---- AndCondition ---- *)
Lemma expr_len o e : wf_or o e = true \/ wf_and o e = true -> 1 <= length (r_expr o e).
Proof.
  induction e as [v|l op r|[[l op] r] rhs IH|l IHl r IHr]; cbn; intros W.
  - apply vexpr_len. destruct W; auto.
  - rewrite app_length. cbn. lia.
  - rewrite app_length. cbn. lia.
  - rewrite app_length. cbn. lia.
Qed.

Lemma and_rt o : forall e, wf_and o e = true -> forall fuel rest,
  ext_and (hdk rest) = false -> length (r_expr o e ++ rest) < fuel ->
  and_cond fuel (r_expr o e ++ rest) = POk (e, rest).
Proof.
  induction e as [v|l op r|[[l op] r] rhs IH|l IHl r IHr]; cbn [wf_and r_expr]; intros W fuel rest F L.
  - pose proof (vexpr_len o v W) as Lv. lens.
    destruct fuel as [|[|f]]; try lia. rewrite and_cond_S, pred_val_rt; auto. cbn [bind].
    rewrite and_loop_S. dhd rest.
  - apply andb_prop in W as [Wl Wr].
    pose proof (vexpr_len o l Wl). pose proof (vexpr_len o r Wr).
    norm. lens.
    assert (Hd : hdk rest <> KDot) by (intros E; rewrite E in F; discriminate).
    destruct fuel as [|[|f]]; try lia. rewrite and_cond_S, (pred_cmp_rt o l op r rest Wl Wr Hd).
    cbn [bind]. rewrite and_loop_S. dhd rest.
  - apply andb_prop in W as [W Wrhs]. apply andb_prop in W as [Wl Wr].
    pose proof (vexpr_len o l Wl). pose proof (vexpr_len o r Wr).
    norm. lens.
    pose proof (expr_len o rhs (or_intror Wrhs)) as Lr.
    destruct fuel as [|[|[|f]]]; try lia.
    rewrite and_cond_S, (pred_cmp_rt o l op r (K KAnd :: r_expr o rhs ++ rest) Wl Wr ltac:(cbn; discriminate)).
    cbn [bind]. rewrite and_loop_S. cbn [K].
    rewrite IH; auto; [|lens; lia].
    cbn [bind]. rewrite and_loop_S. dhd rest.
  - discriminate.
Qed.

(* ---- OrCondition ---- *)
Lemma wf_or_and o e : match e with EOr _ _ => False | _ => True end -> wf_or o e = wf_and o e.
Proof. destruct e; cbn; tauto. Qed.

Lemma ext_or_and k : ext_or k = false -> ext_and k = false.
Proof. unfold ext_or. intros H. apply orb_false_elim in H. tauto. Qed.

Lemma or_rt o : forall e, wf_or o e = true -> forall fuel rest,
  ext_or (hdk rest) = false -> length (r_expr o e ++ rest) < fuel ->
  or_cond fuel (r_expr o e ++ rest) = POk (e, rest).
Proof.
  assert (Base : forall e, match e with EOr _ _ => False | _ => True end ->
    wf_and o e = true -> forall fuel rest, ext_or (hdk rest) = false ->
    length (r_expr o e ++ rest) < fuel -> or_cond fuel (r_expr o e ++ rest) = POk (e, rest)).
  { intros e Hne W fuel rest F L.
    pose proof (expr_len o e (or_intror W)) as Le. lens.
    destruct fuel as [|[|f]]; try lia.
    rewrite or_cond_S, and_rt; auto; [|apply ext_or_and; auto|lens; lia].
    cbn [bind]. rewrite or_loop_S. dhd rest. }
  induction e as [v|l op r|[[l op] r] rhs IH|l IHl r IHr]; intros W fuel rest F L;
    try (apply Base; auto; exact I).
  cbn [wf_or] in W. apply andb_prop in W as [Wl Wr]. cbn [r_expr] in *. norm.
  pose proof (expr_len o l (or_intror Wl)) as Ll. pose proof (expr_len o r (or_introl Wr)) as Lr.
  lens.
  destruct fuel as [|[|[|f]]]; try lia.
  rewrite or_cond_S, and_rt; auto; [|lens; lia].
  cbn [bind]. rewrite or_loop_S. cbn [K]. rewrite IHr; auto; [|lens; lia].
  cbn [bind]. rewrite or_loop_S. dhd rest.
Qed.

(* ---- SetFunctionSpecification / DerivedColumn ---- *)
Definition starts_value (k : tk) : Prop :=
  match k with KIdent | KInt | KStr | KTrue | KFalse => True | _ => False end.

Lemma expr_head o e : wf_or o e = true \/ wf_and o e = true ->
  exists k s tl, r_expr o e = (k, s) :: tl /\ starts_value k.
Proof.
  induction e as [v|l op r|[[l op] r] rhs IH|l IHl r IHr]; cbn [r_expr wf_or wf_and]; intros W.
  - apply vexpr_head. destruct W; auto.
  - assert (Wl : wf_vexpr o l = true) by (destruct W as [W|W]; apply andb_prop in W; tauto).
    destruct (vexpr_head o l Wl) as (k & s & tl & -> & Hk). cbn [app]. eauto.
  - assert (Wl : wf_vexpr o l = true).
    { destruct W as [W|W]; apply andb_prop in W as [W _]; apply andb_prop in W; tauto. }
    destruct (vexpr_head o l Wl) as (k & s & tl & -> & Hk). cbn [app]. eauto.
  - destruct W as [W|W]; try discriminate. apply andb_prop in W as [Wl _].
    destruct (IHl (or_intror Wl)) as (k & s & tl & -> & Hk). cbn [app]. eauto.
Qed.

Lemma set_function_none k s tl : starts_value k -> set_function ((k, s) :: tl) = POk (None, (k, s) :: tl).
Proof. destruct k; cbn; try contradiction; reflexivity. Qed.

Lemma derived_column_rt o p fuel rest : wf_prim o p = true -> ext_or (hdk rest) = false ->
  length (r_prim o p ++ rest) < fuel ->
  derived_column fuel (r_prim o p ++ rest) = POk (p, rest).
Proof.
  intros W F L. unfold derived_column. destruct p as [|[c|]|c|e]; cbn [wf_prim r_prim] in *; try discriminate.
  - (* count(col) *) norm. unfold set_function.
    rewrite (colref_rt c (K KRparen :: rest)) by (cbn; discriminate). reflexivity.
  - (* count( * ) *) reflexivity.
  - (* avg(col) *) norm. unfold set_function.
    rewrite (colref_rt c (K KRparen :: rest)) by (cbn; discriminate). reflexivity.
  - destruct (expr_head o e (or_introl W)) as (k & s & tl & E & Hk).
    assert (Ht : r_expr o e ++ rest = (k, s) :: (tl ++ rest)) by (rewrite E; reflexivity).
    rewrite Ht at 1. rewrite set_function_none by exact Hk. cbn [bind].
    rewrite or_rt; auto.
Qed.

Lemma prim_head o p : wf_prim o p = true ->
  exists k s tl, r_prim o p = (k, s) :: tl /\ k <> KAstrsk.
Proof.
  intros W. destruct p as [|[c|]|c|e]; cbn [wf_prim r_prim] in *; try discriminate;
    try (do 3 eexists; split; [reflexivity|discriminate]).
  destruct (expr_head o e (or_introl W)) as (k & s & tl & E & Hk).
  exists k, s, tl. split; auto. intros ->. exact Hk.
Qed.

Lemma prim_len o p : wf_prim o p = true -> 1 <= length (r_prim o p).
Proof. intros W. destruct (prim_head o p W) as (k & s & tl & -> & _). cbn. lia. Qed.

(* ---- SelectList ---- *)
(* what may follow a select list: not an alias, not a comma, nothing that extends an expression *)
Definition after_items (rest : list ptok) : Prop :=
  ext_or (hdk rest) = false /\ hdk rest <> KAs /\ hdk rest <> KIdent /\ hdk rest <> KComma.

Lemma select_items_rt o : forall ds, ds <> [] -> forallb (fun d => wf_prim o (dc_prim d)) ds = true ->
  forall i acc fuel rest, after_items rest -> length (r_items o i ds ++ rest) < fuel ->
  select_items fuel acc (r_items o i ds ++ rest) = POk (acc ++ ds, rest).
Proof.
  induction ds as [|d ds IH]; intros Hne W i acc fuel rest (F & Fas & Fid & Fco) L; try congruence.
  cbn [forallb] in W. apply andb_prop in W as [Wd Wds].
  destruct d as [p a]. cbn [dc_prim] in *.
  cbn [r_items] in *. unfold r_item in *. cbn [dc_prim dc_as] in *.
  repeat rewrite <- app_assoc in *. cbn [app] in *.
  pose proof (prim_len o p Wd) as Lp.
  set (tail := match ds with [] => [] | _ :: _ => K KComma :: r_items o (S i) ds end ++ rest) in *.
  assert (Hk : tail = rest /\ ds = [] \/ exists d' ds', ds = d' :: ds' /\ tail = K KComma :: r_items o (S i) ds ++ rest).
  { destruct ds; [left; auto | right; eauto]. }
  assert (Ftail : ext_or (hdk tail) = false /\ hdk tail <> KAs /\ hdk tail <> KIdent).
  { destruct Hk as [[-> _]|(d' & ds' & _ & ->)]; cbn; auto. repeat split; discriminate. }
  destruct Ftail as (Ft1 & Ft2 & Ft3).
  destruct fuel as [|f]; try lia. rewrite select_items_S.
  (* the three spellings of the alias *)
  assert (Alias : forall mid, 
     (mid = [] /\ a = EmptyString \/ mid = [r_ident a] \/ mid = [K KAs; r_ident a]) ->
     length (r_prim o p ++ mid ++ tail) < S f ->
     (let* (prim, r1) := derived_column (S f) (r_prim o p ++ mid ++ tail) in
      let* r2 :=
        match r1 with
        | (KAs, _) :: r => match r with (KIdent, _) :: _ => POk r | _ => PErr EUnexpected end
        | _ => POk r1
        end in
      let '(alias, r3) := match r2 with (KIdent, a) :: r => (a, r) | _ => (EmptyString, r2) end in
      let acc' := acc ++ [mkDC prim alias] in
      match r3 with
      | (KComma, _) :: r4 => select_items f acc' r4
      | _ => POk (acc', r3)
      end) = POk (acc ++ {| dc_prim := p; dc_as := a |} :: ds, rest)).
  { intros mid Hmid Lm.
    assert (Fm : ext_or (hdk (mid ++ tail)) = false).
    { destruct Hmid as [[-> _]|[->| ->]]; cbn; auto. }
    rewrite (derived_column_rt o p (S f) (mid ++ tail) Wd Fm Lm). cbn [bind].
    assert (Fin : match tail with
              | (KComma, _) :: r4 => select_items f (acc ++ [mkDC p a]) r4
              | _ => POk (acc ++ [mkDC p a], tail)
              end = POk (acc ++ {| dc_prim := p; dc_as := a |} :: ds, rest)).
    { destruct Hk as [[-> ->]|(d' & ds' & Eds & ->)].
      - dhd rest.
      - rewrite IH; auto; try (rewrite Eds; discriminate).
        + rewrite <- app_assoc. reflexivity.
        + repeat split; auto.
        + lens. lia. }
    destruct Hmid as [[-> ->]|[->| ->]]; cbn [app r_ident K].
    - destruct tail as [|[k s] tl]; [exact Fin|]. destruct k; try exact Fin; cbn in *; congruence.
    - exact Fin.
    - exact Fin. }
  destruct (String.eqb a "") eqn:Ea.
  - apply String.eqb_eq in Ea. subst a. apply (Alias []); auto; exact L.
  - destruct (nth i (o_as o) false); cbn [app] in *.
    + apply (Alias [K KAs; r_ident a]); auto; exact L.
    + apply (Alias [r_ident a]); auto; exact L.
Qed.

Lemma items_head o i d ds : wf_prim o (dc_prim d) = true ->
  exists k s tl, r_items o i (d :: ds) = (k, s) :: tl /\ k <> KAstrsk.
Proof.
  intros W. destruct (prim_head o _ W) as (k & s & tl & E & Hk).
  cbn [r_items]. unfold r_item. rewrite E. cbn [app]. eauto.
Qed.

(* the select list of a well-formed SELECT: the asterisk alone, or items none of which is one *)
Definition wf_items (o : ropts) (ds : list derivedcol) : bool :=
  match ds with
  | [] => false
  | [d] => match dc_prim d with SPStar => String.eqb (dc_as d) "" | p => wf_prim o p end
  | _ => forallb (fun d => wf_prim o (dc_prim d)) ds
  end.

Lemma select_list_rt o ds fuel rest : wf_items o ds = true -> after_items rest ->
  length (r_items o 0 ds ++ rest) < fuel ->
  select_list fuel (r_items o 0 ds ++ rest) = POk (ds, rest).
Proof.
  intros W F L.
  assert (Star : ds = [mkDC SPStar ""] \/ (ds <> [] /\ forallb (fun d => wf_prim o (dc_prim d)) ds = true)).
  { destruct ds as [|d [|d2 ds]]; cbn in W; try discriminate.
    - destruct d as [p a]; cbn [dc_prim dc_as] in *.
      destruct p; try (right; split; [discriminate|cbn [forallb dc_prim]; rewrite andb_true_r; exact W]).
      apply String.eqb_eq in W. subst. left; reflexivity.
    - right. split; [discriminate|exact W]. }
  destruct Star as [->|[Hne Wf]].
  - reflexivity.
  - destruct ds as [|d ds]; try congruence.
    assert (Wd : wf_prim o (dc_prim d) = true) by (cbn in Wf; apply andb_prop in Wf; tauto).
    destruct (items_head o 0 d ds Wd) as (k & s & tl & E & Hk).
    unfold select_list.
    assert (Ht : r_items o 0 (d :: ds) ++ rest = (k, s) :: (tl ++ rest)) by (rewrite E; reflexivity).
    rewrite Ht. destruct k; try congruence; rewrite <- Ht;
      apply (select_items_rt o (d :: ds) Hne Wf 0 [] fuel rest F L).
Qed.

(* ---- TableName / FromClause ---- *)
Lemma table_name_rt o n a rest : (a = None -> hdk rest <> KIdent) ->
  table_name (r_tref o (TRName n a) ++ rest) = POk (TRName n a, rest).
Proof.
  intros H. destruct a as [x|]; cbn; [reflexivity|]. specialize (H eq_refl). unfold table_name. dhd rest.
Qed.

Lemma tref_len o t : join_count t + 1 <= length (r_tref o t).
Proof.
  induction t as [n a|l IHl jt r IHr c]; cbn [r_tref join_count]; lens; try lia.
Qed.

(* parsing the leftmost table name and then looping over the joins of `t` arrives at the loop
   state "t parsed, `more` ahead" with one unit of fuel used per join *)
Lemma join_cont o : forall t, wf_tref o t = true -> forall fuel more,
  hdk more <> KIdent -> ext_or (hdk more) = false ->
  length (r_tref o t ++ more) < fuel ->
  (let* (tn, r1) := table_name (r_tref o t ++ more) in join_loop fuel tn r1)
  = join_loop (fuel - join_count t) t more.
Proof.
  induction t as [n a|l IHl jt r IHr c]; cbn [wf_tref join_count]; intros W fuel more Fi Fe L.
  - rewrite table_name_rt by auto. cbn [bind]. rewrite Nat.sub_0_r. reflexivity.
  - apply andb_prop in W as [W Wc]. apply andb_prop in W as [W Wr]. apply andb_prop in W as [Wl Wj].
    destruct r as [rn ra|]; try discriminate.
    cbn [r_tref] in *. norm. repeat rewrite <- app_assoc in L. cbn [app] in L.
    pose proof (tref_len o l) as Ll.
    pose proof (expr_len o c (or_introl Wc)) as Lc.
    set (more' := r_jt o (join_count l) jt ++ K KJoin :: r_ident rn :: match ra with Some x => [r_ident x] | None => [] end
                  ++ K KOn :: r_expr o c ++ more) in *.
    assert (Hm : hdk more' <> KIdent /\ ext_or (hdk more') = false).
    { unfold more'. destruct jt; try discriminate; cbn; try (split; [discriminate|reflexivity]).
      destruct (nth (join_count l) (o_inner o) false); cbn; split; try discriminate; reflexivity. }
    destruct Hm as [Hm1 Hm2].
    rewrite (IHl Wl fuel more' Hm1 Hm2 L).
    assert (Lm : length more' = length (r_jt o (join_count l) jt) + 2 + length (match ra with Some x => [r_ident x] | None => [] end) + 1 + length (r_expr o c) + length more).
    { unfold more'. lens. lia. }
    rewrite app_length in L.
    destruct (fuel - join_count l) as [|f] eqn:Ef; try lia.
    replace (fuel - S (join_count l)) with f by lia.
    rewrite join_loop_S.
    assert (Step : forall jt',
      (match K KJoin :: r_ident rn :: match ra with Some x => [r_ident x] | None => [] end ++ K KOn :: r_expr o c ++ more with
       | (KJoin, _) :: r1 =>
           let* (rhs, r2) := table_name r1 in
           match r2 with
           | (KOn, _) :: r3 =>
               let* (cond, r4) := or_cond (S f) r3 in join_loop f (TRJoin l jt' rhs cond) r4
           | _ => PErr EUnexpected
           end
       | _ => PErr EUnexpected
       end) = join_loop f (TRJoin l jt' (TRName rn ra) c) more).
    { intros jt'. cbn [K].
      change (r_ident rn :: match ra with Some x => [r_ident x] | None => [] end ++ (KOn, EmptyString) :: r_expr o c ++ more)
        with (r_tref o (TRName rn ra) ++ (KOn, EmptyString) :: r_expr o c ++ more).
      rewrite table_name_rt by (intros _; cbn; discriminate). cbn [bind].
      rewrite or_rt; auto. lia. }
    unfold more'. destruct jt; try discriminate; cbn [r_jt app K].
    + apply Step.
    + apply Step.
    + destruct (nth (join_count l) (o_inner o) false); cbn [app K]; apply Step.
Qed.

Lemma from_rt o t fuel rest : wf_tref o t = true ->
  hdk rest <> KIdent -> ext_or (hdk rest) = false ->
  hdk rest <> KLeft -> hdk rest <> KRight -> hdk rest <> KInner -> hdk rest <> KJoin ->
  length (K KFrom :: r_tref o t ++ rest) < fuel ->
  from_clause fuel (K KFrom :: r_tref o t ++ rest) = POk (Some t, rest).
Proof.
  intros W F1 F2 F3 F4 F5 F6 L. unfold from_clause. cbn [K]. cbn [length] in L.
  pose proof (tref_len o t) as Lt. rewrite app_length in L.
  assert (E := join_cont o t W fuel rest F1 F2 ltac:(rewrite app_length; lia)).
  destruct (table_name (r_tref o t ++ rest)) as [[tn r1]| | |] eqn:Et; cbn [bind] in *;
    try (destruct (fuel - join_count t) as [|f] eqn:Ef; [lia|]; rewrite join_loop_S in E; revert E; dhd rest).
  rewrite E. destruct (fuel - join_count t) as [|f] eqn:Ef; try lia. rewrite join_loop_S. dhd rest.
Qed.
