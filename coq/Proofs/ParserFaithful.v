(* C10: parsing is faithful. For every production: if the input starts with the rendering of a
   well-formed tree followed by `rest`, and `rest` does not start with a token that would extend
   the production (the follow-set side conditions), the production returns the tree and `rest`.
   Fuel: any amount above the number of tokens. *)
From Coq Require Import ZArith String Ascii List Bool Lia.
From Mkdb Require Import Model.Value Model.Ast Model.Lexer Model.Parser Spec.ParseSpec Proofs.ParserTotal.
Import ListNotations.
Local Open Scope list_scope.

Local Arguments val_of : simpl never.
Local Arguments require_int : simpl never.
Local Arguments column_reference : simpl never.
Local Arguments value_expression : simpl never.
Local Arguments predicate : simpl never.
Local Arguments and_cond : simpl never.
Local Arguments and_loop : simpl never.
Local Arguments or_cond : simpl never.
Local Arguments or_loop : simpl never.
Local Arguments set_function : simpl never.
Local Arguments derived_column : simpl never.
Local Arguments select_items : simpl never.
Local Arguments select_list : simpl never.
Local Arguments table_name : simpl never.
Local Arguments join_loop : simpl never.
Local Arguments from_clause : simpl never.
Local Arguments where_clause : simpl never.
Local Arguments group_loop : simpl never.
Local Arguments group_by_clause : simpl never.
Local Arguments table_expression : simpl never.
Local Arguments sort_loop : simpl never.
Local Arguments sort_spec_list : simpl never.
Local Arguments limit_loop : simpl never.
Local Arguments limit_offset : simpl never.
Local Arguments select_ : simpl never.
Local Arguments table_elements_loop : simpl never.
Local Arguments table_elements : simpl never.
Local Arguments create_table : simpl never.
Local Arguments create_ : simpl never.
Local Arguments insert_cols_loop : simpl never.
Local Arguments insert_vals_loop : simpl never.
Local Arguments insert_rows_loop : simpl never.
Local Arguments insert_ : simpl never.
Local Arguments update_set_loop : simpl never.
Local Arguments update_ : simpl never.
Local Arguments delete_ : simpl never.
Local Arguments parse_f : simpl never.
Local Arguments validate_group_by : simpl never.
Local Arguments atoi : simpl never.
Local Arguments r_colref : simpl never.
Local Arguments r_vexpr : simpl never.
Local Arguments r_value : simpl never.

(* kind of the next token; the end of the list behaves like EOFToken, whose type is no keyword *)
Definition hdk (l : list ptok) : tk := match l with [] => KOther | (k, _) :: _ => k end.

(* tokens that would extend a comparison / an AND chain / a search condition *)
Definition ext_and (k : tk) : bool :=
  match k with KDot | KEq | KNeq | KGt | KLt | KLte | KGte | KAnd => true | _ => false end.
Definition ext_or (k : tk) : bool := ext_and k || match k with KOr => true | _ => false end.

Ltac dhd rest := let k := fresh "k" in let s := fresh "s" in let r := fresh "r" in
  destruct rest as [|[k s] r]; [|destruct k]; cbn in *; try reflexivity; try discriminate; try contradiction; try congruence.

Ltac norm := repeat rewrite <- app_assoc; cbn [app].
Ltac norm_all := repeat first [rewrite <- app_assoc in * | progress cbn [app] in * ].
Ltac norm_gl L := repeat first [rewrite <- app_assoc | rewrite <- app_assoc in L | progress cbn [app] | progress cbn [app] in L].
Ltac lens := repeat (first [rewrite app_length in * | progress cbn [length] in * ]).

(* ---- ColumnReference ---- *)
Lemma colref_rt c rest : hdk rest <> KDot ->
  column_reference (r_colref c ++ rest) = POk (Some c, rest).
Proof.
  intros H. unfold r_colref. destruct c as [q n]; cbn [cr_qual cr_name].
  destruct (String.eqb q "") eqn:E.
  - apply String.eqb_eq in E; subst. unfold column_reference; cbn. dhd rest.
  - reflexivity.
Qed.

Lemma colref_head c : exists x tl, r_colref c = (KIdent, x) :: tl.
Proof. unfold r_colref. destruct (String.eqb _ _); eauto. Qed.

Lemma colref_len c : 1 <= length (r_colref c).
Proof. destruct (colref_head c) as (x & tl & ->). cbn. lia. Qed.

(* ---- ValueExpression ---- *)
Lemma num_ok_atoi o z : num_ok o z = true -> atoi (o_num o z) = Some z.
Proof.
  unfold num_ok. destruct (atoi (o_num o z)) as [z'|]; try discriminate.
  intros H. apply Z.eqb_eq in H. congruence.
Qed.

Lemma value_rt o v : wf_value o v = true ->
  exists t, r_value o v = [t] /\ is_literal (fst t) = true /\ val_of t = POk v.
Proof.
  destruct v as [z|s|[|]|]; cbn; intros H; try discriminate; unfold r_value; eexists; repeat split.
  unfold val_of; cbn. rewrite (num_ok_atoi _ _ H). reflexivity.
Qed.

Lemma vexpr_rt o v rest : wf_vexpr o v = true -> hdk rest <> KDot ->
  value_expression (r_vexpr o v ++ rest) = POk (v, rest).
Proof.
  intros W H. destruct v as [x|c]; unfold r_vexpr.
  - destruct (value_rt o x W) as (t & -> & L & V). cbn [app]. unfold value_expression.
    rewrite L, V. reflexivity.
  - destruct (colref_head c) as (x & tl & E).
    assert (Hc : r_colref c ++ rest = (KIdent, x) :: (tl ++ rest)) by (rewrite E; reflexivity).
    unfold value_expression. rewrite Hc. cbn [is_literal fst]. rewrite <- Hc.
    rewrite (colref_rt c rest H). reflexivity.
Qed.

Lemma vexpr_len o v : wf_vexpr o v = true -> 1 <= length (r_vexpr o v).
Proof.
  intros W. destruct v as [x|c]; unfold r_vexpr.
  - destruct (value_rt o x W) as (t & -> & _). cbn; lia.
  - apply colref_len.
Qed.

Lemma vexpr_head o v : wf_vexpr o v = true ->
  exists k s tl, r_vexpr o v = (k, s) :: tl /\
                 match k with KIdent | KInt | KStr | KTrue | KFalse => True | _ => False end.
Proof.
  intros W. destruct v as [x|c]; unfold r_vexpr.
  - destruct x as [z|s|[|]|]; cbn in W; try discriminate; unfold r_value; do 3 eexists; split; try reflexivity; exact I.
  - destruct (colref_head c) as (x & tl & ->). do 3 eexists; split; try reflexivity; exact I.
Qed.

(* ---- Predicate ---- *)
Lemma op_kind op : compop_of (fst (r_op op)) = Some op /\ fst (r_op op) <> KDot.
Proof. destruct op; cbn; split; auto; discriminate. Qed.

Lemma pred_val_rt o v rest : wf_vexpr o v = true -> ext_and (hdk rest) = false ->
  predicate (r_vexpr o v ++ rest) = POk (EVal v, rest).
Proof.
  intros W H. unfold predicate.
  assert (Hd : hdk rest <> KDot) by (intros E; rewrite E in H; discriminate).
  rewrite (vexpr_rt o v rest W Hd). cbn [bind]. dhd rest.
Qed.

Lemma pred_cmp_rt o l op r rest : wf_vexpr o l = true -> wf_vexpr o r = true -> hdk rest <> KDot ->
  predicate (r_vexpr o l ++ r_op op :: r_vexpr o r ++ rest) = POk (EPred l op r, rest).
Proof.
  intros Wl Wr H. unfold predicate. destruct (op_kind op) as [Ho Hd].
  assert (Hd' : hdk (r_op op :: r_vexpr o r ++ rest) <> KDot) by (destruct (r_op op); exact Hd).
  rewrite (vexpr_rt o l _ Wl Hd'). cbn [bind]. destruct (r_op op) as [k s] eqn:E. cbn [fst] in *. rewrite Ho.
  rewrite (vexpr_rt o r rest Wr H). reflexivity.
Qed.

(* ---- AndCondition ---- *)
Lemma expr_len o e : wf_or o e = true \/ wf_and o e = true -> 1 <= length (r_expr o e).
Proof.
  induction e as [v|l op r|[[l op] r] rhs IH|l IHl r IHr]; cbn; intros W.
  - apply vexpr_len. destruct W; auto.
  - rewrite app_length. cbn. lia.
  - rewrite app_length. cbn. lia.
  - rewrite app_length. cbn. lia.
Qed.

Lemma and_rt o : forall e, wf_and o e = true -> forall fuel rest,
  ext_and (hdk rest) = false -> length (r_expr o e ++ rest) < fuel ->
  and_cond fuel (r_expr o e ++ rest) = POk (e, rest).
Proof.
  induction e as [v|l op r|[[l op] r] rhs IH|l IHl r IHr]; cbn [wf_and r_expr]; intros W fuel rest F L.
  - pose proof (vexpr_len o v W) as Lv. lens.
    destruct fuel as [|[|f]]; try lia. rewrite and_cond_S, pred_val_rt; auto. cbn [bind].
    rewrite and_loop_S. dhd rest.
  - apply andb_prop in W as [Wl Wr].
    pose proof (vexpr_len o l Wl). pose proof (vexpr_len o r Wr).
    norm. lens.
    assert (Hd : hdk rest <> KDot) by (intros E; rewrite E in F; discriminate).
    destruct fuel as [|[|f]]; try lia. rewrite and_cond_S, (pred_cmp_rt o l op r rest Wl Wr Hd).
    cbn [bind]. rewrite and_loop_S. dhd rest.
  - apply andb_prop in W as [W Wrhs]. apply andb_prop in W as [Wl Wr].
    pose proof (vexpr_len o l Wl). pose proof (vexpr_len o r Wr).
    norm. lens.
    pose proof (expr_len o rhs (or_intror Wrhs)) as Lr.
    destruct fuel as [|[|[|f]]]; try lia.
    rewrite and_cond_S, (pred_cmp_rt o l op r (K KAnd :: r_expr o rhs ++ rest) Wl Wr ltac:(cbn; discriminate)).
    cbn [bind]. rewrite and_loop_S. cbn [K].
    rewrite IH; auto; [|lens; lia].
    cbn [bind]. rewrite and_loop_S. dhd rest.
  - discriminate.
Qed.

(* ---- OrCondition ---- *)
Lemma wf_or_and o e : match e with EOr _ _ => False | _ => True end -> wf_or o e = wf_and o e.
Proof. destruct e; cbn; tauto. Qed.

Lemma ext_or_and k : ext_or k = false -> ext_and k = false.
Proof. unfold ext_or. intros H. apply orb_false_elim in H. tauto. Qed.

Lemma or_rt o : forall e, wf_or o e = true -> forall fuel rest,
  ext_or (hdk rest) = false -> length (r_expr o e ++ rest) < fuel ->
  or_cond fuel (r_expr o e ++ rest) = POk (e, rest).
Proof.
  assert (Base : forall e, match e with EOr _ _ => False | _ => True end ->
    wf_and o e = true -> forall fuel rest, ext_or (hdk rest) = false ->
    length (r_expr o e ++ rest) < fuel -> or_cond fuel (r_expr o e ++ rest) = POk (e, rest)).
  { intros e Hne W fuel rest F L.
    pose proof (expr_len o e (or_intror W)) as Le. lens.
    destruct fuel as [|[|f]]; try lia.
    rewrite or_cond_S, and_rt; auto; [|apply ext_or_and; auto|lens; lia].
    cbn [bind]. rewrite or_loop_S. dhd rest. }
  induction e as [v|l op r|[[l op] r] rhs IH|l IHl r IHr]; intros W fuel rest F L;
    try (apply Base; auto; exact I).
  cbn [wf_or] in W. apply andb_prop in W as [Wl Wr]. cbn [r_expr] in *. norm.
  pose proof (expr_len o l (or_intror Wl)) as Ll. pose proof (expr_len o r (or_introl Wr)) as Lr.
  lens.
  destruct fuel as [|[|[|f]]]; try lia.
  rewrite or_cond_S, and_rt; auto; [|lens; lia].
  cbn [bind]. rewrite or_loop_S. cbn [K]. rewrite IHr; auto; [|lens; lia].
  cbn [bind]. rewrite or_loop_S. dhd rest.
Qed.

(* ---- SetFunctionSpecification / DerivedColumn ---- *)
Definition starts_value (k : tk) : Prop :=
  match k with KIdent | KInt | KStr | KTrue | KFalse => True | _ => False end.

Lemma expr_head o e : wf_or o e = true \/ wf_and o e = true ->
  exists k s tl, r_expr o e = (k, s) :: tl /\ starts_value k.
Proof.
  induction e as [v|l op r|[[l op] r] rhs IH|l IHl r IHr]; cbn [r_expr wf_or wf_and]; intros W.
  - apply vexpr_head. destruct W; auto.
  - assert (Wl : wf_vexpr o l = true) by (destruct W as [W|W]; apply andb_prop in W; tauto).
    destruct (vexpr_head o l Wl) as (k & s & tl & -> & Hk). cbn [app]. eauto.
  - assert (Wl : wf_vexpr o l = true).
    { destruct W as [W|W]; apply andb_prop in W as [W _]; apply andb_prop in W; tauto. }
    destruct (vexpr_head o l Wl) as (k & s & tl & -> & Hk). cbn [app]. eauto.
  - destruct W as [W|W]; try discriminate. apply andb_prop in W as [Wl _].
    destruct (IHl (or_intror Wl)) as (k & s & tl & -> & Hk). cbn [app]. eauto.
Qed.

Lemma set_function_none k s tl : starts_value k -> set_function ((k, s) :: tl) = POk (None, (k, s) :: tl).
Proof. destruct k; cbn; try contradiction; reflexivity. Qed.

Lemma derived_column_rt o p fuel rest : wf_prim o p = true -> ext_or (hdk rest) = false ->
  length (r_prim o p ++ rest) < fuel ->
  derived_column fuel (r_prim o p ++ rest) = POk (p, rest).
Proof.
  intros W F L. unfold derived_column. destruct p as [|[c|]|c|e]; cbn [wf_prim r_prim] in *; try discriminate.
  - (* count(col) *) norm. unfold set_function.
    rewrite (colref_rt c (K KRparen :: rest)) by (cbn; discriminate). reflexivity.
  - (* count( * ) *) reflexivity.
  - (* avg(col) *) norm. unfold set_function.
    rewrite (colref_rt c (K KRparen :: rest)) by (cbn; discriminate). reflexivity.
  - destruct (expr_head o e (or_introl W)) as (k & s & tl & E & Hk).
    assert (Ht : r_expr o e ++ rest = (k, s) :: (tl ++ rest)) by (rewrite E; reflexivity).
    rewrite Ht at 1. rewrite set_function_none by exact Hk. cbn [bind].
    rewrite or_rt; auto.
Qed.

Lemma prim_head o p : wf_prim o p = true ->
  exists k s tl, r_prim o p = (k, s) :: tl /\ k <> KAstrsk.
Proof.
  intros W. destruct p as [|[c|]|c|e]; cbn [wf_prim r_prim] in *; try discriminate;
    try (do 3 eexists; split; [reflexivity|discriminate]).
  destruct (expr_head o e (or_introl W)) as (k & s & tl & E & Hk).
  exists k, s, tl. split; auto. intros ->. exact Hk.
Qed.

Lemma prim_len o p : wf_prim o p = true -> 1 <= length (r_prim o p).
Proof. intros W. destruct (prim_head o p W) as (k & s & tl & -> & _). cbn. lia. Qed.

(* ---- SelectList ---- *)
(* what may follow a select list: not an alias, not a comma, nothing that extends an expression *)
Definition after_items (rest : list ptok) : Prop :=
  ext_or (hdk rest) = false /\ hdk rest <> KAs /\ hdk rest <> KIdent /\ hdk rest <> KComma.

Lemma select_items_rt o : forall ds, ds <> [] -> forallb (fun d => wf_prim o (dc_prim d)) ds = true ->
  forall i acc fuel rest, after_items rest -> length (r_items o i ds ++ rest) < fuel ->
  select_items fuel acc (r_items o i ds ++ rest) = POk (acc ++ ds, rest).
Proof.
  induction ds as [|d ds IH]; intros Hne W i acc fuel rest (F & Fas & Fid & Fco) L; try congruence.
  cbn [forallb] in W. apply andb_prop in W as [Wd Wds].
  destruct d as [p a]. cbn [dc_prim] in *.
  cbn [r_items] in *. unfold r_item in *. cbn [dc_prim dc_as] in *.
  repeat rewrite <- app_assoc in *. cbn [app] in *.
  pose proof (prim_len o p Wd) as Lp.
  set (tail := match ds with [] => [] | _ :: _ => K KComma :: r_items o (S i) ds end ++ rest) in *.
  assert (Hk : tail = rest /\ ds = [] \/ exists d' ds', ds = d' :: ds' /\ tail = K KComma :: r_items o (S i) ds ++ rest).
  { destruct ds; [left; auto | right; eauto]. }
  assert (Ftail : ext_or (hdk tail) = false /\ hdk tail <> KAs /\ hdk tail <> KIdent).
  { destruct Hk as [[-> _]|(d' & ds' & _ & ->)]; cbn; auto. repeat split; discriminate. }
  destruct Ftail as (Ft1 & Ft2 & Ft3).
  destruct fuel as [|f]; try lia. rewrite select_items_S.
  (* the three spellings of the alias *)
  assert (Alias : forall mid, 
     (mid = [] /\ a = EmptyString \/ mid = [r_ident a] \/ mid = [K KAs; r_ident a]) ->
     length (r_prim o p ++ mid ++ tail) < S f ->
     (let* (prim, r1) := derived_column (S f) (r_prim o p ++ mid ++ tail) in
      let* r2 :=
        match r1 with
        | (KAs, _) :: r => match r with (KIdent, _) :: _ => POk r | _ => PErr EUnexpected end
        | _ => POk r1
        end in
      let '(alias, r3) := match r2 with (KIdent, a) :: r => (a, r) | _ => (EmptyString, r2) end in
      let acc' := acc ++ [mkDC prim alias] in
      match r3 with
      | (KComma, _) :: r4 => select_items f acc' r4
      | _ => POk (acc', r3)
      end) = POk (acc ++ {| dc_prim := p; dc_as := a |} :: ds, rest)).
  { intros mid Hmid Lm.
    assert (Fm : ext_or (hdk (mid ++ tail)) = false).
    { destruct Hmid as [[-> _]|[->| ->]]; cbn; auto. }
    rewrite (derived_column_rt o p (S f) (mid ++ tail) Wd Fm Lm). cbn [bind].
    assert (Fin : match tail with
              | (KComma, _) :: r4 => select_items f (acc ++ [mkDC p a]) r4
              | _ => POk (acc ++ [mkDC p a], tail)
              end = POk (acc ++ {| dc_prim := p; dc_as := a |} :: ds, rest)).
    { destruct Hk as [[-> ->]|(d' & ds' & Eds & ->)].
      - dhd rest.
      - rewrite IH; auto; try (rewrite Eds; discriminate).
        + rewrite <- app_assoc. reflexivity.
        + repeat split; auto.
        + lens. lia. }
    destruct Hmid as [[-> ->]|[->| ->]]; cbn [app r_ident K].
    - destruct tail as [|[k s] tl]; [exact Fin|]. destruct k; try exact Fin; cbn in *; congruence.
    - exact Fin.
    - exact Fin. }
  destruct (String.eqb a "") eqn:Ea.
  - apply String.eqb_eq in Ea. subst a. apply (Alias []); auto; exact L.
  - destruct (nth i (o_as o) false); cbn [app] in *.
    + apply (Alias [K KAs; r_ident a]); auto; exact L.
    + apply (Alias [r_ident a]); auto; exact L.
Qed.

Lemma items_head o i d ds : wf_prim o (dc_prim d) = true ->
  exists k s tl, r_items o i (d :: ds) = (k, s) :: tl /\ k <> KAstrsk.
Proof.
  intros W. destruct (prim_head o _ W) as (k & s & tl & E & Hk).
  cbn [r_items]. unfold r_item. rewrite E. cbn [app]. eauto.
Qed.

Lemma select_list_rt o ds fuel rest : wf_items o ds = true -> after_items rest ->
  length (r_items o 0 ds ++ rest) < fuel ->
  select_list fuel (r_items o 0 ds ++ rest) = POk (ds, rest).
Proof.
  intros W F L.
  assert (Star : ds = [mkDC SPStar ""] \/ (ds <> [] /\ forallb (fun d => wf_prim o (dc_prim d)) ds = true)).
  { destruct ds as [|d [|d2 ds]]; cbn in W; try discriminate.
    - destruct d as [p a]; cbn [dc_prim dc_as] in *.
      destruct p; try (right; split; [discriminate|cbn [forallb dc_prim]; rewrite andb_true_r; exact W]).
      apply String.eqb_eq in W. subst. left; reflexivity.
    - right. split; [discriminate|exact W]. }
  destruct Star as [->|[Hne Wf]].
  - reflexivity.
  - destruct ds as [|d ds]; try congruence.
    assert (Wd : wf_prim o (dc_prim d) = true) by (cbn in Wf; apply andb_prop in Wf; tauto).
    destruct (items_head o 0 d ds Wd) as (k & s & tl & E & Hk).
    unfold select_list.
    assert (Ht : r_items o 0 (d :: ds) ++ rest = (k, s) :: (tl ++ rest)) by (rewrite E; reflexivity).
    rewrite Ht. destruct k; try congruence; rewrite <- Ht;
      apply (select_items_rt o (d :: ds) Hne Wf 0 [] fuel rest F L).
Qed.

(* ---- TableName / FromClause ---- *)
Lemma table_name_rt o n a rest : (a = None -> hdk rest <> KIdent) ->
  table_name (r_tref o (TRName n a) ++ rest) = POk (TRName n a, rest).
Proof.
  intros H. destruct a as [x|]; cbn; [reflexivity|]. specialize (H eq_refl). unfold table_name. dhd rest.
Qed.

Lemma tref_len o t : join_count t + 1 <= length (r_tref o t).
Proof.
  induction t as [n a|l IHl jt r IHr c]; cbn [r_tref join_count]; lens; try lia.
Qed.

Lemma join_step o l jt rn ra c more f : wf_or o c = true -> ext_or (hdk more) = false ->
  length (r_expr o c ++ more) < S f ->
  (let* (rhs, r2) := table_name (r_tref o (TRName rn ra) ++ K KOn :: r_expr o c ++ more) in
   match r2 with
   | (KOn, _) :: r3 => let* (cond, r4) := or_cond (S f) r3 in join_loop f (TRJoin l jt rhs cond) r4
   | _ => PErr EUnexpected
   end) = join_loop f (TRJoin l jt (TRName rn ra) c) more.
Proof.
  intros Wc Fe Lf. rewrite table_name_rt by (intros _; cbn; discriminate). cbn [bind K].
  rewrite or_rt; auto.
Qed.

(* parsing the leftmost table name and then looping over the joins of `t` arrives at the loop
   state "t parsed, `more` ahead" with one unit of fuel used per join *)
Lemma join_cont o : forall t, wf_tref o t = true -> forall fuel more,
  hdk more <> KIdent -> ext_or (hdk more) = false ->
  length (r_tref o t ++ more) < fuel ->
  (let* (tn, r1) := table_name (r_tref o t ++ more) in join_loop fuel tn r1)
  = join_loop (fuel - join_count t) t more.
Proof.
  induction t as [n a|l IHl jt r IHr c]; cbn [wf_tref join_count]; intros W fuel more Fi Fe L.
  - rewrite table_name_rt by auto. cbn [bind]. rewrite Nat.sub_0_r. reflexivity.
  - apply andb_prop in W as [W Wc]. apply andb_prop in W as [W Wr]. apply andb_prop in W as [Wl Wj].
    destruct r as [rn ra|]; try discriminate.
    cbn [r_tref] in *. norm. repeat rewrite <- app_assoc in L. cbn [app] in L.
    pose proof (tref_len o l) as Ll.
    pose proof (expr_len o c (or_introl Wc)) as Lc.
    set (more' := r_jt o (join_count l) jt ++ K KJoin :: r_ident rn :: match ra with Some x => [r_ident x] | None => [] end
                  ++ K KOn :: r_expr o c ++ more) in *.
    assert (Hm : hdk more' <> KIdent /\ ext_or (hdk more') = false).
    { unfold more'. destruct jt; try discriminate; cbn; try (split; [discriminate|reflexivity]).
      destruct (nth (join_count l) (o_inner o) false); cbn; split; try discriminate; reflexivity. }
    destruct Hm as [Hm1 Hm2].
    rewrite (IHl Wl fuel more' Hm1 Hm2 L).
    assert (Lm : length more' = length (r_jt o (join_count l) jt) + 2 + length (match ra with Some x => [r_ident x] | None => [] end) + 1 + length (r_expr o c) + length more).
    { unfold more'. lens. lia. }
    rewrite app_length in L.
    destruct (fuel - join_count l) as [|f] eqn:Ef; try lia.
    replace (fuel - S (join_count l)) with f by lia.
    rewrite join_loop_S.
    assert (Lf : length (r_expr o c ++ more) < S f) by (rewrite app_length; lia).
    unfold more'. destruct jt; try discriminate; cbn [r_jt app K].
    + exact (join_step o l JLeft rn ra c more f Wc Fe Lf).
    + exact (join_step o l JRight rn ra c more f Wc Fe Lf).
    + destruct (nth (join_count l) (o_inner o) false); cbn [app K];
        exact (join_step o l JInner rn ra c more f Wc Fe Lf).
Qed.

Lemma from_rt o t fuel rest : wf_tref o t = true ->
  hdk rest <> KIdent -> ext_or (hdk rest) = false ->
  hdk rest <> KLeft -> hdk rest <> KRight -> hdk rest <> KInner -> hdk rest <> KJoin ->
  length (K KFrom :: r_tref o t ++ rest) < fuel ->
  from_clause fuel (K KFrom :: r_tref o t ++ rest) = POk (Some t, rest).
Proof.
  intros W F1 F2 F3 F4 F5 F6 L. unfold from_clause. cbn [K]. cbn [length] in L.
  pose proof (tref_len o t) as Lt. rewrite app_length in L.
  assert (E := join_cont o t W fuel rest F1 F2 ltac:(rewrite app_length; lia)).
  assert (Hend : forall f, join_loop (S f) t rest = POk (t, rest)).
  { intros f. rewrite join_loop_S. dhd rest. }
  destruct (fuel - join_count t) as [|f] eqn:Ef; try lia. rewrite Hend in E.
  destruct (table_name (r_tref o t ++ rest)) as [[tn r1]| | |] eqn:Et; cbn [bind] in *; try discriminate.
  rewrite E. reflexivity.
Qed.

(* ---- WhereClause ---- *)
Lemma where_rt o w fuel rest : wf_where o w = true -> ext_or (hdk rest) = false -> hdk rest <> KWhere ->
  length (r_where o w ++ rest) < fuel ->
  where_clause fuel (r_where o w ++ rest) = POk (w, rest).
Proof.
  intros W F Fw L. destruct w as [e|]; cbn [r_where wf_where app] in *.
  - unfold where_clause. cbn [K]. cbn [length] in L. rewrite or_rt; auto. lia.
  - unfold where_clause. dhd rest.
Qed.

(* ---- GroupByClause ---- *)
Lemma group_loop_rt o : forall cols i acc fuel rest,
  hdk rest <> KIdent -> hdk rest <> KComma -> hdk rest <> KDot ->
  length (r_group o i cols ++ rest) < fuel ->
  group_loop fuel acc (r_group o i cols ++ rest) = POk (acc ++ cols, rest).
Proof.
  induction cols as [|c cols IH]; intros i acc fuel rest F1 F2 F3 L.
  - cbn [r_group app] in *. destruct fuel as [|f]; try lia. rewrite group_loop_S.
    unfold column_reference. rewrite app_nil_r. dhd rest.
  - cbn [r_group] in *. repeat rewrite <- app_assoc in *.
    pose proof (colref_len c) as Lc.
    set (tail := match cols with [] => [] | _ :: _ => (if nth i (o_gsep o) false then [K KComma] else []) ++ r_group o (S i) cols end ++ rest) in *.
    destruct fuel as [|f]; try lia. rewrite group_loop_S.
    assert (Ht : (tail = r_group o (S i) cols ++ rest /\ hdk tail <> KComma /\ hdk tail <> KDot) \/
                 tail = K KComma :: r_group o (S i) cols ++ rest).
    { unfold tail. destruct cols as [|c2 cols'].
      - left. cbn. auto.
      - destruct (nth i (o_gsep o) false); [right; reflexivity|left].
        split; [reflexivity|]. cbn [app r_group]. destruct (colref_head c2) as (x & tl & ->). cbn. split; discriminate. }
    rewrite app_length in L.
    destruct Ht as [(Et & Hc & Hd)| Et].
    + rewrite (colref_rt c tail Hd). cbn [bind].
      assert (G : group_loop f (acc ++ [c]) tail = POk (acc ++ c :: cols, rest)).
      { rewrite Et. rewrite IH; auto; [rewrite <- app_assoc; reflexivity| rewrite <- Et; lia]. }
      destruct tail as [|[k s] tl]; [exact G|]. destruct k; try exact G. cbn in Hc; congruence.
    + rewrite (colref_rt c tail) by (rewrite Et; cbn; discriminate). cbn [bind]. rewrite Et. cbn [K].
      rewrite IH; auto; [rewrite <- app_assoc; reflexivity|]. rewrite Et in L. cbn [length] in L. lia.
Qed.

Definition r_group_clause (o : ropts) (g : list colref) : list ptok :=
  match g with [] => [] | _ => K KGroup :: K KBy :: r_group o 0 g end.

Lemma group_rt o g fuel rest :
  hdk rest <> KIdent -> hdk rest <> KComma -> hdk rest <> KDot -> hdk rest <> KGroup ->
  length (r_group_clause o g ++ rest) < fuel ->
  group_by_clause fuel (r_group_clause o g ++ rest) = POk (g, rest).
Proof.
  intros F1 F2 F3 F4 L. destruct g as [|c g].
  - cbn [r_group_clause app]. unfold group_by_clause. dhd rest.
  - unfold r_group_clause in *. cbn [app K] in *. unfold group_by_clause.
    cbn [length] in L. rewrite (group_loop_rt o (c :: g) 0 [] fuel rest); auto. lia.
Qed.

(* ---- SortSpecificationList ---- *)
Lemma sort_loop_rt o : forall ss, ss <> [] -> forall i acc fuel rest,
  hdk rest <> KComma -> hdk rest <> KDot -> hdk rest <> KAsc -> hdk rest <> KDesc ->
  length (r_sorts o i ss ++ rest) < fuel ->
  sort_loop fuel acc (r_sorts o i ss ++ rest) = POk (acc ++ ss, rest).
Proof.
  induction ss as [|s ss IH]; intros Hne i acc fuel rest F1 F2 F3 F4 L; try congruence.
  cbn [r_sorts] in *. unfold r_sortspec in *. repeat rewrite <- app_assoc in *.
  destruct s as [key dir]. cbn [ss_key ss_dir] in *.
  pose proof (colref_len key) as Lc.
  set (tail := match ss with [] => [] | _ :: _ => K KComma :: r_sorts o (S i) ss end ++ rest) in *.
  assert (Hk : tail = rest /\ ss = [] \/ exists s' ss', ss = s' :: ss' /\ tail = K KComma :: r_sorts o (S i) ss ++ rest).
  { destruct ss; [left; auto | right; eauto]. }
  assert (Ft : hdk tail <> KDot /\ hdk tail <> KAsc /\ hdk tail <> KDesc).
  { destruct Hk as [[-> _]|(s' & ss' & _ & ->)]; cbn; auto. repeat split; discriminate. }
  destruct Ft as (Ft1 & Ft2 & Ft3).
  destruct fuel as [|f]; try lia. rewrite sort_loop_S.
  assert (Fin : forall d, length tail < f ->
            match tail with
            | (KComma, _) :: r2 => sort_loop f (acc ++ [mkSort key d]) r2
            | _ => POk (acc ++ [mkSort key d], tail)
            end = POk (acc ++ mkSort key d :: ss, rest)).
  { intros d Lt. destruct Hk as [[-> ->]|(s' & ss' & Eds & ->)].
    - dhd rest.
    - cbn [K]. rewrite IH; auto; try (rewrite Eds; discriminate).
      + rewrite <- app_assoc. reflexivity.
      + cbn [length] in Lt. lia. }
  rewrite !app_length in L.
  destruct dir; [destruct (nth i (o_asc o) false)|]; cbn [app K length] in *.
  - rewrite (colref_rt key (K KAsc :: tail)) by (cbn; discriminate). cbn [bind K]. apply Fin. lia.
  - rewrite (colref_rt key tail Ft1). cbn [bind].
    destruct tail as [|[k s] tl]; [apply Fin; cbn; lia|].
    destruct k; try (apply Fin; cbn [length] in *; lia); cbn in *; congruence.
  - rewrite (colref_rt key (K KDesc :: tail)) by (cbn; discriminate). cbn [bind K]. apply Fin. lia.
Qed.

Definition r_sort_clause (o : ropts) (ss : list sortspec) : list ptok :=
  match ss with [] => [] | _ => K KOrder :: K KBy :: r_sorts o 0 ss end.

Lemma sort_rt o ss fuel rest :
  hdk rest <> KComma -> hdk rest <> KDot -> hdk rest <> KAsc -> hdk rest <> KDesc -> hdk rest <> KOrder ->
  length (r_sort_clause o ss ++ rest) < fuel ->
  sort_spec_list fuel (r_sort_clause o ss ++ rest) = POk (ss, rest).
Proof.
  intros F1 F2 F3 F4 F5 L. destruct ss as [|s ss].
  - cbn [r_sort_clause app]. unfold sort_spec_list. dhd rest.
  - unfold r_sort_clause in *. cbn [app K] in *. unfold sort_spec_list. cbn [length] in L.
    rewrite (sort_loop_rt o (s :: ss) ltac:(discriminate) 0 [] fuel rest); auto. lia.
Qed.

(* ---- LimitOffsetClause ---- *)
Lemma require_int_rt o z r : num_ok o z = true -> require_int ((KInt, o_num o z) :: r) = POk (z, r).
Proof. intros H. unfold require_int, val_of. cbn [fst snd]. rewrite (num_ok_atoi o z H). reflexivity. Qed.

Lemma limit_loop_end f lc rest : hdk rest <> KLimit -> hdk rest <> KOffset ->
  limit_loop (S f) lc rest = POk (lc, rest).
Proof. intros H1 H2. rewrite limit_loop_S. dhd rest. Qed.

Lemma limit_rt o s fuel rest :
  wf_limit o (sel_limit_active s) (sel_limit s) = true ->
  wf_limit o (sel_offset_active s) (sel_offset s) = true ->
  hdk rest <> KLimit -> hdk rest <> KOffset ->
  length (r_limit o s ++ rest) < fuel ->
  limit_offset fuel (r_limit o s ++ rest)
  = POk (mkLO (sel_limit_active s) (sel_offset_active s) (sel_limit s) (sel_offset s), rest).
Proof.
  unfold wf_limit, r_limit, limit_offset.
  destruct (sel_limit_active s), (sel_offset_active s); intros Wl Wo F1 F2 L;
    repeat match goal with H : (_ && _)%bool = true |- _ => apply andb_prop in H as [? ?] end;
    repeat match goal with H : Z.eqb _ 0 = true |- _ => apply Z.eqb_eq in H; rewrite H in * end;
    repeat match goal with H : Z.leb 0 ?z = true |- _ => apply Z.leb_le in H end;
    destruct (o_offset_first o); cbn [app K length] in *;
    destruct fuel as [|[|[|f]]]; try lia;
    repeat (rewrite limit_loop_S; cbn [negb lo_la lo_oa lo_l lo_o bind K];
            try (rewrite require_int_rt by assumption; cbn [bind lo_la lo_oa lo_l lo_o]));
    (destruct rest as [|[k s0] r]; [|destruct k]; cbn [hdk] in *; try congruence);
    cbn [bind lo_la lo_oa lo_l lo_o];
    repeat match goal with |- context [Z.ltb ?z 0] =>
      let E := fresh in destruct (Z.ltb_spec z 0) as [E|E]; [lia|] end;
    try reflexivity.
Qed.

(* ---- clause order: what may start the rest of a SELECT after each clause ---- *)
Definition lvl (k : tk) : nat :=
  match k with
  | KWhere => 1 | KGroup => 2 | KOrder => 3 | KLimit | KOffset => 4 | KOther => 5
  | _ => 0
  end.

Lemma lvl_ne k n k' : n <= lvl k -> lvl k' < n -> k <> k'.
Proof. intros H1 H2 ->. lia. Qed.

Lemma lvl_ext k : 1 <= lvl k -> ext_or k = false.
Proof. destruct k; cbn; intros; try lia; reflexivity. Qed.

Definition endtok (rest : list ptok) : Prop := rest = [] \/ rest = [K KOther].

Lemma lvl_end rest : endtok rest -> 5 <= lvl (hdk rest).
Proof. intros [->| ->]; cbn; lia. Qed.

Lemma lvl_limit o s X : 5 <= lvl (hdk X) -> 4 <= lvl (hdk (r_limit o s ++ X)).
Proof.
  intros H. unfold r_limit. destruct (sel_limit_active s), (sel_offset_active s), (o_offset_first o); cbn; lia.
Qed.

Lemma lvl_sort o ss X : 4 <= lvl (hdk X) -> 3 <= lvl (hdk (r_sort_clause o ss ++ X)).
Proof. intros H. destruct ss; cbn; lia. Qed.

Lemma lvl_group o g X : 3 <= lvl (hdk X) -> 2 <= lvl (hdk (r_group_clause o g ++ X)).
Proof. intros H. destruct g; cbn; lia. Qed.

Lemma lvl_where o w X : 2 <= lvl (hdk X) -> 1 <= lvl (hdk (r_where o w ++ X)).
Proof. intros H. destruct w; cbn; lia. Qed.

Ltac side H := first
  [ apply (lvl_ne _ _ _ H); cbn; lia
  | apply lvl_ext; lia ].

(* ---- Select ---- *)
Lemma r_select_eq o s :
  r_select o s =
  K KSelect :: r_items o 0 (sel_list s) ++
  match sel_from s with
  | tr :: _ => K KFrom :: r_tref o tr ++ r_where o (sel_where s) ++ r_group_clause o (sel_group s)
  | [] => []
  end ++ r_sort_clause o (sel_sort s) ++ r_limit o s.
Proof.
  unfold r_select, r_group_clause, r_sort_clause.
  destruct (sel_from s), (sel_group s), (sel_sort s); reflexivity.
Qed.

Lemma select_rt o s fuel rest : wf_select_syn o s = true -> endtok rest ->
  length (r_select o s ++ rest) <= fuel ->
  select_ fuel (r_items o 0 (sel_list s) ++
    match sel_from s with
    | tr :: _ => K KFrom :: r_tref o tr ++ r_where o (sel_where s) ++ r_group_clause o (sel_group s)
    | [] => []
    end ++ r_sort_clause o (sel_sort s) ++ r_limit o s ++ rest)
  = match validate_group_by (sel_list s) (sel_group s) with
    | Some e => PErr e
    | None => POk (SSelect s)
    end.
Proof.
  intros W E L.
  rewrite r_select_eq in L. cbn [app length] in L.
  pose proof (lvl_end rest E) as L5.
  unfold wf_select_syn in W. repeat (apply andb_prop in W as [W ?]). rename W into Wi.
  destruct s as [sl fr w g ss la oa lim off]. cbn [sel_list sel_from sel_where sel_group sel_sort
    sel_limit_active sel_offset_active sel_limit sel_offset] in *.
  unfold select_.
  destruct fr as [|tr [|tr2 fr]]; try discriminate.
  - (* no FROM *)
    destruct w; try discriminate. destruct g; try discriminate. destruct ss; try discriminate.
    match goal with H : (negb la && negb oa)%bool = true |- _ => apply andb_prop in H as [Hla Hoa] end.
    destruct la, oa; try discriminate.
    unfold wf_limit in *.
    repeat match goal with H : Z.eqb _ 0 = true |- _ => apply Z.eqb_eq in H; subst end.
    unfold r_limit in *. cbn [sel_limit_active sel_offset_active app r_sort_clause] in *.
    destruct (o_offset_first o); cbn [app] in *;
    (rewrite select_list_rt; auto;
      [ | repeat split; side L5 | lens; lia ]);
    cbn [bind];
    (destruct E as [->| ->]; unfold table_expression, from_clause; cbn [bind K has_next negb andb];
     destruct (validate_group_by sl []); try reflexivity;
     destruct fuel as [|[|f]]; cbn [length] in *; try lia; reflexivity).
  - (* FROM *)
    match goal with H : (wf_tref o tr && wf_where o w)%bool = true |- _ => apply andb_prop in H as [Wt Ww] end.
    norm_all.
    set (T4 := r_limit o {| sel_list := sl; sel_from := [tr]; sel_where := w; sel_group := g; sel_sort := ss;
                            sel_limit_active := la; sel_offset_active := oa; sel_limit := lim; sel_offset := off |} ++ rest) in *.
    pose proof (lvl_limit o _ rest L5 : 4 <= lvl (hdk T4)) as L4.
    set (T3 := r_sort_clause o ss ++ T4) in *.
    pose proof (lvl_sort o ss T4 L4 : 3 <= lvl (hdk T3)) as L3.
    set (T2 := r_group_clause o g ++ T3) in *.
    pose proof (lvl_group o g T3 L3 : 2 <= lvl (hdk T2)) as L2.
    set (T1 := r_where o w ++ T2) in *.
    pose proof (lvl_where o w T2 L2 : 1 <= lvl (hdk T1)) as L1.
    rewrite !app_length in L. cbn [length] in L. rewrite !app_length in L.
    rewrite select_list_rt; auto;
      [ | repeat split; cbn; discriminate | lens; lia ].
    cbn [bind]. unfold table_expression.
    rewrite from_rt; auto; try side L1; [|lens; lia].
    cbn [bind]. unfold T1 in *.
    rewrite where_rt; auto; try side L2; [|lens; lia].
    cbn [bind]. unfold T2 in *.
    rewrite group_rt; auto; try side L3; [|lens; lia].
    cbn [bind negb andb].
    destruct (validate_group_by sl g); try reflexivity.
    unfold T3 in *.
    rewrite sort_rt; auto; try side L4; [|lens; lia].
    cbn [bind]. unfold T4 in *.
    rewrite limit_rt; auto; try side L5; try (lens; lia).
Qed.
