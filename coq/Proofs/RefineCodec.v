(* C01 refinement, part 2: the tuple codec seen from the specification.
   - the Go tuple (a map by column name) built by INSERT / UPDATE denotes TableSpec.build_row;
   - Tuple.Encode succeeds exactly on the rows check_row accepts, and produces
     encode_row_direct, whose length is TableSpec.row_size;
   - the two catalog row formats. *)
From Coq Require Import Arith Lia Bool List NArith ZArith String Ascii.
From Mkdb Require Import Model.Engine Spec.TableSpec Proofs.BytesProofs Proofs.TupleProofs Gen.Params.
Import ListNotations.
Local Open Scope N_scope.

(* ---------- the row a tuple map denotes under a schema ---------- *)
Definition row_of (sch : schema) (m : tuple) : row := map (fun fd => tget (fd_name fd) m) sch.

Lemma tget_tset k k' v m : tget k' (tset k v m) = if String.eqb k k' then v else tget k' m.
Proof.
  destruct (String.eqb_spec k k') as [->|Hne]; [apply tget_tset_same | apply tget_tset_other; exact Hne].
Qed.

Lemma tget_zip_set k : forall cols vals m,
  tget k (zip_set cols vals m) = assoc_last k cols vals (tget k m).
Proof.
  induction cols as [|c cr IH]; intros vals m; [reflexivity|].
  destruct vals as [|v vr]; [reflexivity|]. cbn [zip_set assoc_last]. rewrite IH, tget_tset. reflexivity.
Qed.

Lemma row_of_length sch m : length (row_of sch m) = length sch.
Proof. unfold row_of. apply map_length. Qed.

Lemma build_row_length sch cols vals base :
  length base = length sch -> length (build_row sch cols vals base) = length sch.
Proof. intros H. unfold build_row. rewrite map_length, combine_length, H. lia. Qed.

Lemma row_of_zip_set sch cols vals m :
  row_of sch (zip_set cols vals m) = build_row sch cols vals (row_of sch m).
Proof.
  unfold row_of, build_row. induction sch as [|fd sr IH]; [reflexivity|].
  cbn [map combine fst snd]. rewrite tget_zip_set, IH. reflexivity.
Qed.

Lemma row_of_nil sch : row_of sch [] = null_row sch.
Proof. reflexivity. Qed.

(* ---------- Tuple.Encode positionally ---------- *)
Fixpoint encode_vals (sch : schema) (r : row) : res bytes :=
  match sch, r with
  | fd :: sr, v :: vr =>
      match v with
      | VNull => do rest <- encode_vals sr vr; Ok (enc_bool true ++ rest)
      | _ => do _ <- validate (fd_type fd) v;
             do rest <- encode_vals sr vr;
             Ok (enc_bool false ++ enc_value (fd_type fd) v ++ rest)
      end
  | _, _ => Ok []
  end.

Lemma encode_tuple_vals sch m : encode_tuple sch m = encode_vals sch (row_of sch m).
Proof.
  unfold row_of. induction sch as [|fd sr IH]; [reflexivity|].
  cbn [encode_tuple map encode_vals]. rewrite IH. destruct (tget (fd_name fd) m); reflexivity.
Qed.

(* values the engine can hold at all: Go int64, strings shorter than 4 GiB *)
Definition val_ok (v : value) : bool :=
  match v with
  | VInt z => int64_ok z
  | VStr s => N.ltb (N.of_nat (String.length s)) 4294967296
  | _ => true
  end.

Lemma value_fits_val_ok t v : value_fits t v = true -> val_ok v = true.
Proof.
  destruct v as [z|s|b|], t; cbn; try discriminate; auto.
  unfold Tuple.int32_ok, int64_ok. intros H. apply andb_true_iff in H as [A B].
  apply Z.leb_le in A, B. apply andb_true_iff. split; apply Z.leb_le; lia.
Qed.

Lemma row_fits_val_ok sch : forall r, row_fits sch r = true -> Forall (fun v => val_ok v = true) r.
Proof.
  induction sch as [|fd sr IH]; intros [|v vr] H; try discriminate; [constructor|].
  cbn [row_fits] in H. apply andb_true_iff in H as [A B]. constructor; [eapply value_fits_val_ok; eauto | auto].
Qed.

Lemma validate_fits_inv t v : val_ok v = true -> validate t v = Ok tt -> value_fits t v = true.
Proof.
  destruct v as [z|s|b|], t; cbn; try discriminate; auto.
  destruct (Tuple.int32_ok z); [reflexivity | discriminate].
Qed.

Lemma validate_value_ok t v : v <> VNull -> validate t v = Ok tt -> value_ok t v = None.
Proof.
  destruct v as [z|s|b|], t; cbn; try discriminate; try congruence; auto.
  unfold Tuple.int32_ok, TableSpec.int32_ok. destruct (_ && _); [reflexivity | discriminate].
Qed.

Lemma enc_value_length t v : v <> VNull -> length (enc_bool false ++ enc_value t v) = value_size t v.
Proof.
  destruct v as [z|s|b|]; intros H; try congruence; cbn [enc_bool app length enc_value value_size].
  - destruct t; rewrite le_enc_length; reflexivity.
  - rewrite app_length, le_enc_length, string_length_bytes. reflexivity.
  - reflexivity.
Qed.

Lemma encode_vals_cons_nn fd sr v vr : v <> VNull ->
  encode_vals (fd :: sr) (v :: vr) =
  (do _ <- validate (fd_type fd) v; do rest <- encode_vals sr vr;
   Ok (enc_bool false ++ enc_value (fd_type fd) v ++ rest)) /\
  encode_row_direct (fd :: sr) (v :: vr) = enc_bool false ++ enc_value (fd_type fd) v ++ encode_row_direct sr vr.
Proof. destruct v; try congruence; intros _; split; reflexivity. Qed.

Lemma encode_vals_ok sch : forall r bs,
  encode_vals sch r = Ok bs -> length r = length sch -> Forall (fun v => val_ok v = true) r ->
  bs = encode_row_direct sch r /\ row_fits sch r = true /\ row_err sch r = None /\
  length bs = row_size sch r.
Proof.
  induction sch as [|fd sr IH]; intros r bs H Hlen Hok.
  - destruct r; [|discriminate]. cbn in H. inversion H; subst. auto.
  - destruct r as [|v vr]; [discriminate|]. cbn [length] in Hlen.
    inversion Hok as [|? ? Hv Hvr]; subst.
    assert (Hcase : v = VNull \/ v <> VNull) by (destruct v; auto; right; discriminate).
    destruct Hcase as [->|Hnn].
    + cbn [encode_vals] in H.
      destruct (encode_vals sr vr) as [rest| |] eqn:Er; cbn [bind] in H; try discriminate.
      inversion H; subst bs. destruct (IH vr rest Er ltac:(lia) Hvr) as (A & B & C & D).
      cbn [encode_row_direct row_fits row_err row_size value_fits value_ok value_size].
      rewrite B, C, <- A. repeat split; auto. cbn [enc_bool app length]. rewrite D. reflexivity.
    + destruct (encode_vals_cons_nn fd sr v vr Hnn) as [E1 E2]. rewrite E1 in H. rewrite E2.
      destruct (validate (fd_type fd) v) as [[]| |] eqn:Ev; cbn [bind] in H; try discriminate.
      destruct (encode_vals sr vr) as [rest| |] eqn:Er; cbn [bind] in H; try discriminate.
      inversion H; subst bs. destruct (IH vr rest Er ltac:(lia) Hvr) as (A & B & C & D).
      cbn [row_fits row_err row_size].
      rewrite (validate_fits_inv _ _ Hv Ev), (validate_value_ok _ _ Hnn Ev), B, C, <- A.
      repeat split; auto.
      change (length ((enc_bool false ++ enc_value (fd_type fd) v) ++ rest) =
              (value_size (fd_type fd) v + row_size sr vr)%nat).
      rewrite app_length, (enc_value_length _ _ Hnn), D. reflexivity.
Qed.

Lemma MV_is_max_row_size : MV = max_row_size.
Proof. reflexivity. Qed.

(* Tuple.Encode of a map + the page-level size check = the specification's check_row *)
Lemma encode_tuple_check sch m bs :
  encode_tuple sch m = Ok bs -> Forall (fun v => val_ok v = true) (row_of sch m) ->
  bs = encode_row_direct sch (row_of sch m) /\ row_fits sch (row_of sch m) = true /\
  ((MV <? length bs)%nat = false -> check_row sch (row_of sch m) = None).
Proof.
  intros H Hok. rewrite encode_tuple_vals in H.
  destruct (encode_vals_ok sch _ bs H (row_of_length sch m) Hok) as (A & B & C & D).
  repeat split; auto. intros Hsz. unfold check_row. rewrite C, <- D, <- MV_is_max_row_size, Hsz. reflexivity.
Qed.

(* ---------- decoding what was encoded ---------- *)
Lemma decode_tuple_enc sch r :
  row_fits sch r = true -> decode_tuple sch (encode_row_direct sch r) [] = Ok (fill sch r []).
Proof.
  intros H. destruct (decode_tuple_direct sch r [] [] H) as [E|[]].
  rewrite app_nil_r in E. exact E.
Qed.

Lemma row_of_fill sch r :
  NoDup (names sch) -> row_fits sch r = true -> row_of sch (fill sch r []) = r.
Proof.
  intros Hnd Hfit. unfold row_of. apply fill_get; [exact Hnd | apply row_fits_length; exact Hfit | reflexivity].
Qed.

Lemma decode_row_enc sch r :
  NoDup (names sch) -> row_fits sch r = true -> decode_row sch (encode_row_direct sch r) = Ok r.
Proof.
  intros Hnd Hfit. unfold decode_row. rewrite (decode_tuple_enc sch r Hfit). cbn [bind].
  f_equal. apply (row_of_fill sch r Hnd Hfit).
Qed.

(* ---------- catalog rows: sys_pages ---------- *)
Definition pt_row (e : string * N) : row := [VStr (fst e); VInt (Z.of_N (snd e))].
Definition enc_pte (e : string * N) : bytes := encode_row_direct pageTableSchema (pt_row e).
(* a catalog row that round-trips and is within the cell size limit *)
Definition pt_fits (e : string * N) : Prop :=
  row_fits pageTableSchema (pt_row e) = true /\ (length (enc_pte e) <= MV)%nat.

Definition pt_tuple (e : string * N) : tuple :=
  [("table_name"%string, VStr (fst e)); ("file_offset"%string, VInt (Z.of_N (snd e)))].

Lemma decode_pte e : pt_fits e -> decode_tuple pageTableSchema (enc_pte e) [] = Ok (pt_tuple e).
Proof. intros [H _]. unfold enc_pte. rewrite (decode_tuple_enc _ _ H). reflexivity. Qed.

Lemma encode_pt_tuple e : encode_tuple pageTableSchema (pt_tuple e) = Ok (enc_pte e).
Proof. reflexivity. Qed.

Lemma pt_tuple_set e newroot :
  tset "file_offset" (VInt (Z.of_N newroot)) (pt_tuple e) = pt_tuple (fst e, newroot).
Proof. reflexivity. Qed.

Lemma str_len_bound (s : string) (a b : bytes) :
  (length (a ++ bytes_of_string s ++ b) <= MV)%nat -> N.ltb (N.of_nat (String.length s)) 4294967296 = true.
Proof.
  rewrite !app_length, string_length_bytes. intros H. apply N.ltb_lt.
  assert (String.length s <= 400)%nat by (change MV with 400%nat in H; lia). lia.
Qed.

Lemma enc_pte_length n o o' : length (enc_pte (n, o)) = length (enc_pte (n, o')).
Proof.
  unfold enc_pte, pt_row. cbn [fst snd encode_row_direct pageTableSchema fd_type enc_value].
  rewrite !app_length, !le_enc_length. reflexivity.
Qed.

Lemma pt_fits_intro n o :
  (length (enc_pte (n, o)) <= MV)%nat -> o < 9223372036854775808 -> pt_fits (n, o).
Proof.
  intros Hlen Ho. split; [|exact Hlen].
  unfold pt_row. cbn [fst snd row_fits pageTableSchema fd_type value_fits].
  rewrite andb_true_r. apply andb_true_iff. split.
  - unfold enc_pte, pt_row in Hlen. cbn [fst snd encode_row_direct pageTableSchema fd_type enc_value] in Hlen.
    eapply (str_len_bound n (enc_bool false ++ le_enc 4 _)). rewrite <- !app_assoc. rewrite <- !app_assoc in Hlen. exact Hlen.
  - unfold int64_ok. apply andb_true_iff. split; apply Z.leb_le; lia.
Qed.

Lemma pt_fits_offset n o o' : pt_fits (n, o) -> o' < 9223372036854775808 -> pt_fits (n, o').
Proof.
  intros [H L] Ho. split; [|rewrite (enc_pte_length n o' o); exact L].
  unfold pt_row in *. cbn [fst snd row_fits pageTableSchema fd_type value_fits] in *.
  rewrite !andb_true_r in *. apply andb_true_iff in H as [A _]. rewrite A. cbn [andb].
  unfold int64_ok. apply andb_true_iff. split; apply Z.leb_le; lia.
Qed.

Lemma pt_fits_bound n o : pt_fits (n, o) -> o < 9223372036854775808.
Proof.
  intros [H _]. unfold pt_row in H. cbn [fst snd row_fits pageTableSchema fd_type value_fits] in H.
  rewrite andb_true_r in H. apply andb_true_iff in H as [_ H]. unfold int64_ok in H.
  apply andb_true_iff in H as [_ H]. apply Z.leb_le in H. lia.
Qed.

(* ---------- catalog rows: sys_schema ---------- *)
Definition sc_row (e : string * fielddef) : row :=
  [VStr (fst e); VStr (fd_name (snd e)); VInt (code_of_coltype (fd_type (snd e))); VInt (fd_len (snd e))].
Definition enc_sce (e : string * fielddef) : bytes := encode_row_direct schemaTableSchema (sc_row e).
Definition sc_fits (e : string * fielddef) : Prop := row_fits schemaTableSchema (sc_row e) = true.

Definition sc_tuple (e : string * fielddef) : tuple :=
  [("table_name"%string, VStr (fst e)); ("field_name"%string, VStr (fd_name (snd e)));
   ("field_type"%string, VInt (code_of_coltype (fd_type (snd e)))); ("field_length"%string, VInt (fd_len (snd e)))].

Lemma decode_sce e : sc_fits e -> decode_tuple schemaTableSchema (enc_sce e) [] = Ok (sc_tuple e).
Proof. intros H. unfold enc_sce. rewrite (decode_tuple_enc _ _ H). reflexivity. Qed.

Lemma coltype_code_roundtrip t : coltype_of_code (code_of_coltype t) = Some t.
Proof. destruct t; reflexivity. Qed.

Lemma encode_sc_tuple e bs :
  encode_tuple schemaTableSchema (sc_tuple e) = Ok bs ->
  bs = enc_sce e /\ Tuple.int32_ok (fd_len (snd e)) = true.
Proof.
  unfold sc_tuple, enc_sce, sc_row. destruct e as [tn [t fname flen]]. cbn [fst snd fd_name fd_type fd_len].
  cbn [encode_tuple schemaTableSchema fd_name fd_type tget String.eqb Ascii.eqb Bool.eqb validate bind].
  assert (Hc : Tuple.int32_ok (code_of_coltype t) = true) by (destruct t; reflexivity).
  rewrite Hc. cbn [bind]. destruct (Tuple.int32_ok flen); cbn [bind]; [|discriminate].
  intros H. inversion H; subst. split; reflexivity.
Qed.

Lemma sc_fits_intro tn fd :
  (length (enc_sce (tn, fd)) <= MV)%nat -> Tuple.int32_ok (fd_len fd) = true -> sc_fits (tn, fd).
Proof.
  intros Hlen Hi. unfold sc_fits, sc_row. cbn [fst snd row_fits schemaTableSchema fd_type value_fits].
  unfold enc_sce, sc_row in Hlen. cbn [fst snd encode_row_direct schemaTableSchema fd_type enc_value] in Hlen.
  rewrite Hi. assert (Hc : Tuple.int32_ok (code_of_coltype (fd_type fd)) = true) by (destruct (fd_type fd); reflexivity).
  rewrite Hc. cbn [andb]. rewrite andb_true_r. apply andb_true_iff. split.
  - eapply (str_len_bound tn (enc_bool false ++ le_enc 4 _)). rewrite <- !app_assoc. rewrite <- !app_assoc in Hlen. exact Hlen.
  - match type of Hlen with (length (?a ++ (?b ++ ?c) ++ ?d ++ (?e ++ ?f) ++ ?g) <= _)%nat =>
      eapply (str_len_bound (fd_name fd) (a ++ b ++ c ++ d ++ e) g) end.
    rewrite <- !app_assoc. rewrite <- !app_assoc in Hlen. exact Hlen.
Qed.
