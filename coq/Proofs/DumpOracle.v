(* C11: the page-graph oracle `dump_ok` / `dumps_ok` (Spec/DumpCheck.v) accepts the model's own
   dumps. The heart: for every store that represents a database (RefineRep.Rep: SInv + the
   catalog invariant) the flattened dump of its forest passes the boolean checker - every tree
   well formed (WFT) is accepted by check_tree, the roots named by the page table are exactly the
   roots of forest members, no page is visited twice, every page lies below nextFreeOffset.
   Then along every history of statements, flushes, crash-restarts, read-backs and dumps (the
   crash invariant MovesFromRep.RInv), and finally "agreement with the model implies acceptance":
   dump_ok only reads fields that `pobs_eqb` compares. *)
From Coq Require Import Arith Lia Bool List NArith ZArith String Sorted Permutation.
From Mkdb Require Import Model.Engine Spec.TableSpec Spec.HistObs Spec.DumpCheck Proofs.TreeProofs Proofs.StoreInv
  Proofs.BytesProofs Proofs.TupleProofs Proofs.RefineForest Proofs.RefineCodec Proofs.RefineRep
  Proofs.RefineCat Proofs.RefineMain Proofs.CrashBase Proofs.CrashMain Proofs.CrashHist Proofs.MovesFromRep
  Proofs.HistNoH1 Proofs.OracleSound Proofs.OracleCrash Gen.Params.
Import ListNotations.
Local Open Scope N_scope.
Local Open Scope string_scope.
Local Open Scope list_scope.

(* ====================== the dump holds every node of the forest, once ====================== *)
Lemma insert_sorted_perm p l : Permutation (insert_sorted p l) (p :: l).
Proof.
  induction l as [|q r IH]; cbn [insert_sorted]; [reflexivity|].
  destruct (N.leb (pobs_off p) (pobs_off q)); [reflexivity|].
  eapply Permutation_trans; [apply perm_skip; exact IH | apply perm_swap].
Qed.

Lemma sort_perm L : Permutation (fold_right insert_sorted [] L) L.
Proof.
  induction L as [|p L IH]; cbn [fold_right]; [reflexivity|].
  eapply Permutation_trans; [apply insert_sorted_perm | apply perm_skip; exact IH].
Qed.

Lemma pobs_off_page_of n : pobs_off (page_of n) = t_off n.
Proof. destruct n; reflexivity. Qed.

Lemma all_offsets_nodes f : all_offsets f = map t_off (flat_map nodes f).
Proof.
  unfold all_offsets, offsets_of. induction f as [|t f IH]; [reflexivity|].
  cbn [flat_map]. rewrite map_app, IH. reflexivity.
Qed.

Lemma flatten_offsets f : Permutation (map pobs_off (flatten f)) (all_offsets f).
Proof.
  unfold flatten. eapply Permutation_trans; [apply Permutation_map; apply sort_perm|].
  rewrite map_map, all_offsets_nodes. erewrite map_ext; [reflexivity|]. intros n. apply pobs_off_page_of.
Qed.

Lemma flatten_length f : List.length (flatten f) = List.length (flat_map nodes f).
Proof. unfold flatten. rewrite (Permutation_length (sort_perm _)). apply map_length. Qed.

Lemma page_at_unique (L : list pobs) p :
  NoDup (map pobs_off L) -> In p L -> page_at (pobs_off p) L = Some p.
Proof. unfold page_at. apply (find_nodup pobs_off). Qed.

(* every node of the tree is a page of the dump, with exactly its fields *)
Definition covers (pages : list pobs) (t : tree) : Prop :=
  forall n, In n (nodes t) -> page_at (t_off n) pages = Some (page_of n).

Lemma flatten_covers f t : NoDup (all_offsets f) -> In t f -> covers (flatten f) t.
Proof.
  intros Hnd Hin n Hn. rewrite <- pobs_off_page_of. apply page_at_unique.
  - eapply Permutation_NoDup; [symmetry; apply flatten_offsets | exact Hnd].
  - unfold flatten. eapply Permutation_in; [symmetry; apply sort_perm|].
    apply in_map. apply in_flat_map. eauto.
Qed.

Lemma nodes_self t : In t (nodes t).
Proof. destruct t; [left; reflexivity | rewrite nodes_node; left; reflexivity]. Qed.

Lemma nodes_pos t : (1 <= List.length (nodes t))%nat.
Proof. destruct t; [cbn; lia | rewrite nodes_node; cbn [List.length]; lia]. Qed.

Lemma kids_nodes_in kids sc n : In sc kids -> In n (nodes (snd sc)) -> In n (kids_nodes kids).
Proof. intros H1 H2. unfold kids_nodes. apply in_flat_map. eauto. Qed.

Lemma kids_nodes_len kids sc : In sc kids -> (List.length (nodes (snd sc)) <= List.length (kids_nodes kids))%nat.
Proof.
  induction kids as [|a r IH]; intros H; [contradiction|].
  cbn [kids_nodes flat_map]. rewrite app_length. destruct H as [->|H]; [lia|].
  specialize (IH H). unfold kids_nodes in IH. lia.
Qed.

Lemma covers_kid pages off lsn d kids rgt sc :
  covers pages (TNode off lsn d kids rgt) -> In sc kids -> covers pages (snd sc).
Proof.
  intros H Hin n Hn. apply H. rewrite nodes_node. right. apply in_or_app. left.
  eapply kids_nodes_in; eauto.
Qed.

Lemma covers_rgt pages off lsn d kids rgt :
  covers pages (TNode off lsn d kids rgt) -> covers pages rgt.
Proof. intros H n Hn. apply H. rewrite nodes_node. right. apply in_or_app. right. exact Hn. Qed.

(* ====================== check_sub accepts a well-formed subtree ====================== *)
Lemma strictly_asc_sorted l : StronglySorted N.lt l -> strictly_asc l = true.
Proof.
  induction 1 as [|a l Hs IH Hf]; [reflexivity|].
  destruct l as [|b r]; [reflexivity|]. cbn [strictly_asc] in *.
  inversion Hf; subst. apply andb_true_iff. split; [apply N.ltb_lt; assumption | exact IH].
Qed.

Fixpoint check_kids (f : nat) (pages : list pobs) (rightc : N) (hi : option N) (lo : N) (ks : list (N * N))
  : option (nat * list N * list N) :=
  match ks with
  | [] => check_sub f pages rightc lo hi
  | (s, c) :: r =>
      if negb (N.leb lo s && match hi with None => true | Some h => N.leb s h end) then None else
      match check_sub f pages c lo (Some s), check_kids f pages rightc hi s r with
      | Some (d1, l1, a1), Some (d2, l2, a2) =>
          if Nat.eqb d1 d2 then Some (d1, l1 ++ l2, a1 ++ a2) else None
      | _, _ => None
      end
  end.

Lemma check_sub_S f pages off lo hi :
  check_sub (S f) pages off lo hi =
  match page_at off pages with
  | Some (PLeaf _ _ _ _ _ _ _ cells) =>
      let ks := map (fun c => fst (fst c)) cells in
      if strictly_asc ks && forallb (in_bounds lo hi) ks && (List.length cells <? ML)%nat
      then Some (O, [off], [off]) else None
  | Some (PInt _ _ _ rightc kids) =>
      if negb ((0 <? List.length kids)%nat && (List.length kids <? MI)%nat) then None else
      match check_kids f pages rightc hi lo kids with
      | Some (d, ls, al) => Some (S d, ls, off :: al)
      | None => None
      end
  | None => None
  end.
Proof.
  cbn [check_sub]. destruct (page_at off pages) as [[o l d hl hr ls rs cells|o l d rightc kids]|]; try reflexivity.
  destruct (negb _); [reflexivity|].
  match goal with |- match ?a with _ => _ end = match ?b with _ => _ end => replace a with b; [reflexivity|] end.
  revert lo. induction kids as [|[s c] r IH]; intros lo; cbn [check_kids]; [reflexivity|].
  rewrite IH. reflexivity.
Qed.

Definition sub_res (h : nat) (t : tree) : option (nat * list N * list N) :=
  Some (h, map t_off (leaves t), offsets_of t).

Lemma check_kids_ok pages f h' hi rgt :
  (forall lo, wf ML MI h' lo hi rgt -> check_sub f pages (t_off rgt) lo hi = sub_res h' rgt) ->
  forall kids lo,
  Forall (fun sc => forall lo hi, wf ML MI h' lo hi (snd sc) ->
                    check_sub f pages (t_off (snd sc)) lo hi = sub_res h' (snd sc)) kids ->
  wf_kids (wf ML MI h') lo hi kids rgt ->
  check_kids f pages (t_off rgt) hi lo (map (fun sc => (fst sc, t_off (snd sc))) kids) =
  Some (h', map t_off (kids_leaves kids ++ leaves rgt), kids_offsets kids ++ offsets_of rgt).
Proof.
  intros Hr. induction kids as [|[s c] r IH]; intros lo Hall Hk.
  - cbn in *. apply Hr. exact Hk.
  - cbn [wf_kids] in Hk. destruct Hk as (A & B & C & D).
    inversion Hall as [|? ? Hc Hrest]; subst. cbn [snd] in Hc.
    cbn [map fst snd check_kids].
    assert (E : (N.leb lo s && match hi with None => true | Some h => N.leb s h end) = true).
    { apply andb_true_iff. split; [apply N.leb_le; exact A|]. destruct hi; [apply N.leb_le; exact B | reflexivity]. }
    rewrite E. cbn [negb]. rewrite (Hc _ _ C), (IH s Hrest D). unfold sub_res. rewrite Nat.eqb_refl.
    cbn [kids_leaves kids_offsets flat_map snd]. rewrite <- !app_assoc, !map_app. reflexivity.
Qed.

Lemma check_sub_ok pages t : forall h lo hi fuel,
  wf ML MI h lo hi t -> covers pages t -> (List.length (nodes t) <= fuel)%nat ->
  check_sub fuel pages (t_off t) lo hi = sub_res h t.
Proof.
  induction t as [off l d cells hl hr ls rs | off l d kids rgt IHk IHr] using tree_ind2;
    intros h lo hi fuel Hwf Hcov Hfuel.
  - destruct fuel as [|f]; [cbn in Hfuel; lia|]. rewrite check_sub_S.
    rewrite (Hcov _ (nodes_self _)). cbn [page_of t_off]. cbv zeta.
    cbn [wf] in Hwf. destruct Hwf as (-> & Hs & Hb & Hlen).
    rewrite map_map. cbn [fst]. change (map (fun x => lc_key x) cells) with (keys_of cells).
    rewrite (strictly_asc_sorted _ Hs), map_length.
    assert (E1 : forallb (in_bounds lo hi) (keys_of cells) = true).
    { apply forallb_forall. intros k Hk. apply in_map_iff in Hk as (c & <- & Hc).
      rewrite Forall_forall in Hb. destruct (Hb c Hc) as [X Y]. unfold in_bounds.
      apply andb_true_iff. split; [apply N.leb_le; exact X|].
      destruct hi; [apply N.ltb_lt; exact Y | reflexivity]. }
    rewrite E1. apply Nat.ltb_lt in Hlen. rewrite Hlen. reflexivity.
  - destruct h as [|h']; [exfalso; exact (wf_node_O _ _ _ _ _ _ _ _ _ Hwf)|].
    apply wf_node in Hwf as (Hne & Hlen & Hk).
    rewrite nodes_node in Hfuel. cbn [List.length] in Hfuel. rewrite app_length in Hfuel.
    destruct fuel as [|f]; [lia|]. rewrite check_sub_S.
    rewrite (Hcov _ (nodes_self _)). cbn [page_of t_off]. rewrite map_length.
    assert (E : ((0 <? List.length kids)%nat && (List.length kids <? MI)%nat) = true).
    { apply andb_true_iff. split; [apply Nat.ltb_lt; destruct kids; [congruence | cbn; lia] | apply Nat.ltb_lt; exact Hlen]. }
    rewrite E. cbn [negb].
    rewrite (check_kids_ok pages f h' hi rgt).
    + unfold sub_res. rewrite leaves_node, offsets_node. reflexivity.
    + intros lo0 H0. apply IHr; [exact H0 | eapply covers_rgt; eauto | lia].
    + rewrite Forall_forall in IHk |- *. intros sc Hsc lo0 hi0 H0. apply (IHk sc Hsc); [exact H0 | eapply covers_kid; eauto|].
      pose proof (kids_nodes_len kids sc Hsc). lia.
    + exact Hk.
Qed.

(* ====================== the sibling chains ====================== *)
Lemma follow_right_ok pages : forall r x p fuel,
  linked p (x :: r) ->
  (forall y, In y (x :: r) -> page_at (t_off y) pages = Some (page_of y)) ->
  (List.length (x :: r) <= fuel)%nat ->
  follow_right fuel pages (t_off x) = Some (map t_off (x :: r)).
Proof.
  induction r as [|y r IH]; intros x p fuel Hl Hc Hf.
  - destruct fuel as [|f]; [cbn in Hf; lia|]. cbn [follow_right]. rewrite (Hc x (or_introl eq_refl)).
    cbn [linked] in Hl. destruct x as [off a b c hl hr ls rs|]; [|contradiction].
    destruct Hl as (_ & -> & _). reflexivity.
  - destruct fuel as [|f]; [cbn in Hf; lia|]. cbn [follow_right]. rewrite (Hc x (or_introl eq_refl)).
    cbn [linked] in Hl. destruct x as [off a b c hl hr ls rs|]; [|contradiction].
    destruct Hl as (_ & [-> ->] & Hl). cbn [page_of t_off].
    rewrite (IH y (Some off) f Hl); [reflexivity | intros z Hz; apply Hc; right; exact Hz | cbn [List.length] in *; lia].
Qed.

Lemma follow_left_ok pages : forall r x fuel,
  rlinked (x :: r) ->
  (forall y, In y (x :: r) -> page_at (t_off y) pages = Some (page_of y)) ->
  (List.length (x :: r) <= fuel)%nat ->
  follow_left fuel pages (t_off x) = Some (map t_off (x :: r)).
Proof.
  induction r as [|y r IH]; intros x fuel Hl Hc Hf.
  - destruct fuel as [|f]; [cbn in Hf; lia|]. cbn [follow_left]. rewrite (Hc x (or_introl eq_refl)).
    cbn [rlinked] in Hl. destruct x as [off a b c hl hr ls rs|]; [|contradiction].
    destruct Hl as (-> & _). reflexivity.
  - destruct fuel as [|f]; [cbn in Hf; lia|]. cbn [follow_left]. rewrite (Hc x (or_introl eq_refl)).
    cbn [rlinked] in Hl. destruct x as [off a b c hl hr ls rs|]; [|contradiction].
    destruct Hl as ([-> ->] & Hl). cbn [page_of t_off].
    rewrite (IH y f Hl); [reflexivity | intros z Hz; apply Hc; right; exact Hz | cbn [List.length] in *; lia].
Qed.

(* ====================== point lookups by separators ====================== *)
Lemma lookup_leaf_ok pages k t : forall fuel,
  covers pages t -> (List.length (nodes t) <= fuel)%nat ->
  lookup_leaf fuel pages (t_off t) k = Some (t_off (descend k t)).
Proof.
  induction t as [off l d cells hl hr ls rs | off l d kids rgt IHk IHr] using tree_ind2; intros fuel Hcov Hfuel.
  - destruct fuel as [|f]; [cbn in Hfuel; lia|]. cbn [lookup_leaf]. rewrite (Hcov _ (nodes_self _)). reflexivity.
  - rewrite nodes_node in Hfuel. cbn [List.length] in Hfuel. rewrite app_length in Hfuel.
    destruct fuel as [|f]; [lia|]. cbn [lookup_leaf]. rewrite (Hcov _ (nodes_self _)). cbn [page_of t_off descend].
    assert (Hr : lookup_leaf f pages (t_off rgt) k = Some (t_off (descend k rgt))).
    { apply IHr; [eapply covers_rgt; eauto | lia]. }
    assert (Hks : Forall (fun sc => lookup_leaf f pages (t_off (snd sc)) k = Some (t_off (descend k (snd sc)))) kids).
    { rewrite Forall_forall in IHk |- *. intros sc Hsc. apply (IHk sc Hsc); [eapply covers_kid; eauto|].
      pose proof (kids_nodes_len kids sc Hsc). lia. }
    clear - Hr Hks. induction kids as [|[s c] r IH]; [exact Hr|].
    inversion Hks as [|? ? Hc Hrest]; subst. cbn [snd] in Hc. cbn [map fst snd].
    destruct (N.ltb k s); [exact Hc | exact (IH Hrest)].
Qed.

Lemma leaves_are_leaves t : Forall is_leaf (leaves t).
Proof.
  induction t as [off l d cells hl hr ls rs | off l d kids rgt IHk IHr] using tree_ind2; [repeat constructor|].
  rewrite leaves_node. apply Forall_app. split; [|exact IHr].
  unfold kids_leaves. rewrite Forall_forall in IHk |- *. intros x Hx. apply in_flat_map in Hx as (sc & Hsc & Hx).
  specialize (IHk sc Hsc). rewrite Forall_forall in IHk. exact (IHk x Hx).
Qed.

Definition cellobs (c : leafcell) : N * bool * bytes := (lc_key c, lc_deleted c, lc_val c).

Lemma page_of_leaf l : is_leaf l ->
  exists lsn d hl hr ls rs, page_of l = PLeaf (t_off l) lsn d hl hr ls rs (map cellobs (leaf_cells l)).
Proof. destruct l; [|contradiction]. intros _. cbn. do 6 eexists. reflexivity. Qed.

Lemma leaf_keys_cov pages l : is_leaf l -> page_at (t_off l) pages = Some (page_of l) ->
  leaf_keys pages (t_off l) = keys_of (leaf_cells l).
Proof.
  intros Hl Hp. unfold leaf_keys. rewrite Hp. destruct (page_of_leaf l Hl) as (a & b & c & d & e & f & ->).
  rewrite map_map. reflexivity.
Qed.

Lemma leaf_cells_cov pages l : is_leaf l -> page_at (t_off l) pages = Some (page_of l) ->
  leaf_cells_of pages (t_off l) = map cellobs (leaf_cells l).
Proof.
  intros Hl Hp. unfold leaf_cells_of. rewrite Hp. destruct (page_of_leaf l Hl) as (a & b & c & d & e & f & ->).
  reflexivity.
Qed.

Lemma in_leaf_all_cells t l c : In l (leaves t) -> In c (leaf_cells l) -> In c (all_cells t).
Proof. intros H1 H2. unfold all_cells. apply in_flat_map. eauto. Qed.

Lemma opt_list_eqb_refl (l : list N) : option_eqb (list_eqb N.eqb) (Some l) (Some l) = true.
Proof. cbn. apply (list_eqb_spec N.eqb N.eqb_eq). reflexivity. Qed.

(* ====================== one tree ====================== *)
Lemma check_tree_ok pages free t :
  WFT ML MI free t -> covers pages t -> (List.length (nodes t) <= List.length pages)%nat ->
  check_tree pages (t_off t) = Some (offsets_of t).
Proof.
  intros [[h Hs] Hl Hnd _] Hcov Hlen. unfold check_tree.
  assert (Hfuel : (List.length (nodes t) <= S (List.length pages))%nat) by lia.
  rewrite (check_sub_ok pages t h 0 None _ Hs Hcov Hfuel). unfold sub_res.
  assert (Hcl : forall y, In y (leaves t) -> page_at (t_off y) pages = Some (page_of y)).
  { intros y Hy. apply Hcov. apply leaves_sub_nodes. exact Hy. }
  assert (Hll : (List.length (leaves t) <= S (List.length pages))%nat).
  { assert (List.length (map t_off (leaves t)) <= List.length (offsets_of t))%nat.
    { apply NoDup_incl_length; [apply leaf_offsets_NoDup; exact Hnd|].
      intros x Hx. apply in_map_iff in Hx as (y & <- & Hy). apply leaf_off_in_offsets. exact Hy. }
    unfold offsets_of in H. rewrite !map_length in H. lia. }
  (* right chain *)
  destruct (leaves t) as [|x r] eqn:EL; [exfalso; exact (leaves_nonempty t EL)|].
  assert (E1 : follow_right (S (List.length pages)) pages (hd 0 (map t_off (x :: r))) = Some (map t_off (x :: r))).
  { cbn [map hd]. apply (follow_right_ok pages r x None); auto. }
  rewrite E1, opt_list_eqb_refl. cbn [andb].
  (* left chain *)
  pose proof (linked_rlinked _ Hl) as Hrl.
  destruct (rev (x :: r)) as [|z q] eqn:ER.
  { exfalso. apply (f_equal (@List.length tree)) in ER. rewrite rev_length in ER. discriminate. }
  assert (Elast : last (map t_off (x :: r)) 0 = t_off z).
  { rewrite <- (rev_involutive (x :: r)), ER. cbn [rev]. rewrite map_app. cbn [map]. apply last_last. }
  assert (E2 : follow_left (S (List.length pages)) pages (last (map t_off (x :: r)) 0) = Some (rev (map t_off (x :: r)))).
  { rewrite Elast, <- map_rev, ER. apply (follow_left_ok pages q z); auto.
    - intros y Hy. apply Hcl. apply in_rev. rewrite ER. exact Hy.
    - rewrite <- ER, rev_length. exact Hll. }
  rewrite E2, opt_list_eqb_refl. cbn [andb].
  (* lookups *)
  assert (E3 : forallb (fun lf => forallb (fun k => option_eqb N.eqb (lookup_leaf (S (List.length pages)) pages (t_off t) k) (Some lf))
                                           (leaf_keys pages lf)) (map t_off (x :: r)) = true).
  { apply forallb_forall. intros lf Hlf. apply in_map_iff in Hlf as (lv & <- & Hlv).
    rewrite <- EL in Hlv.
    assert (Hleaf : is_leaf lv) by (pose proof (leaves_are_leaves t) as HF; rewrite Forall_forall in HF; auto).
    rewrite (leaf_keys_cov pages lv Hleaf) by (apply Hcov; apply leaves_sub_nodes; exact Hlv).
    apply forallb_forall. intros k Hk. apply in_map_iff in Hk as (c & <- & Hc).
    rewrite (lookup_leaf_ok pages (lc_key c) t _ Hcov Hfuel).
    pose proof (in_leaf_all_cells t lv c Hlv Hc) as Hall.
    destruct (descend_finds ML MI t h 0 None c Hs Hall) as [Hd1 Hd2].
    assert (descend (lc_key c) t = lv).
    { eapply (key_leaf_unique (leaves t)); eauto. apply SSorted_NoDup. eapply wf_sorted; eauto. }
    rewrite H. cbn. apply N.eqb_refl. }
  rewrite E3. reflexivity.
Qed.

(* ====================== the roots named by the page table ====================== *)
Definition roots_go : list (N * bool * bytes) -> option (list N) :=
  fix go (cs : list (N * bool * bytes)) : option (list N) :=
    match cs with
    | [] => Some []
    | c :: r =>
        match decode_tuple pageTableSchema (snd c) [], go r with
        | Ok m, Some rest =>
            if value_eqb (tget "table_name"%string m) (VStr "sys_pages"%string) then Some rest else
            match tget "file_offset"%string m with VInt z => Some (Z.to_N z :: rest) | _ => None end
        | _, _ => None
        end
    end.

Lemma catalog_roots_eq pages ptroot :
  catalog_roots pages ptroot =
  match check_sub (S (List.length pages)) pages ptroot 0 None with
  | Some (_, ls, _) =>
      roots_go (filter (fun c => negb (snd (fst c))) (flat_map (leaf_cells_of pages) ls))
  | None => None
  end.
Proof. reflexivity. Qed.

Definition not_self (e : string * N) : bool := negb (String.eqb (fst e) "sys_pages").

Lemma roots_go_ents : forall cells ents,
  PtCells cells ents -> Forall pt_fits ents ->
  roots_go (map cellobs cells) = Some (map snd (filter not_self ents)).
Proof.
  induction 1 as [|c e cells ents [Hlive Hval] _ IH]; intros Hfit; [reflexivity|].
  inversion Hfit as [|? ? Hf Hfr]; subst.
  cbn [map]. unfold roots_go at 1. fold roots_go. unfold cellobs at 1. cbn [snd].
  rewrite Hval, (decode_pte e Hf), (IH Hfr). rewrite tget_pt_name, tget_pt_off.
  assert (Hns : not_self e = negb (String.eqb (fst e) "sys_pages")) by reflexivity.
  cbn [value_eqb filter]. rewrite Hns.
  destruct (String.eqb (fst e) "sys_pages"); cbn [negb map]; [reflexivity|].
  rewrite N2Z.id. reflexivity.
Qed.

Lemma filter_live_all cells :
  Forall (fun c => lc_deleted c = false) cells ->
  filter (fun c : N * bool * bytes => negb (snd (fst c))) (map cellobs cells) = map cellobs cells.
Proof.
  induction 1 as [|c r Hc _ IH]; [reflexivity|]. cbn [map filter]. unfold cellobs at 1. cbn [fst snd].
  rewrite Hc. cbn [negb]. rewrite IH. reflexivity.
Qed.

Lemma PtCells_all_live cells ents : PtCells cells ents -> Forall (fun c => lc_deleted c = false) cells.
Proof. induction 1 as [|c e cells ents [H _] _ IH]; constructor; auto. Qed.

Lemma leaf_cells_flat pages L :
  Forall is_leaf L -> (forall y, In y L -> page_at (t_off y) pages = Some (page_of y)) ->
  flat_map (leaf_cells_of pages) (map t_off L) = map cellobs (flat_map leaf_cells L).
Proof.
  induction 1 as [|l L Hl _ IH]; intros Hc; [reflexivity|].
  cbn [map flat_map]. rewrite map_app, (leaf_cells_cov pages l Hl (Hc l (or_introl eq_refl))), IH; [reflexivity|].
  intros y Hy. apply Hc. right. exact Hy.
Qed.

Lemma filter_not_self_all (r : list (string * N)) :
  ~ In "sys_pages" (map fst r) -> filter not_self r = r.
Proof.
  induction r as [|a r IH]; intros Hn; [reflexivity|]. cbn [filter map] in *.
  unfold not_self at 1. destruct (String.eqb_spec (fst a) "sys_pages") as [E|E].
  - exfalso. apply Hn. left. exact E.
  - cbn [negb]. f_equal. apply IH. intros X. apply Hn. right. exact X.
Qed.

Lemma filter_not_self_tl (ents : list (string * N)) names :
  map fst ents = "sys_pages" :: names -> ~ In "sys_pages" names -> filter not_self ents = tl ents.
Proof.
  destruct ents as [|e r]; [discriminate|]. cbn [map]. intros H Hn. inversion H as [[H1 H2]].
  cbn [filter tl]. unfold not_self at 1. rewrite H1, String.eqb_refl. cbn [negb].
  apply filter_not_self_all. rewrite H2. exact Hn.
Qed.

Lemma catalog_roots_ok s d pt sc ents osc free :
  DbOk d -> Cat s d pt sc ents osc -> WFT ML MI free pt -> covers (flatten (forest s)) pt ->
  (List.length (nodes pt) <= List.length (flatten (forest s)))%nat ->
  catalog_roots (flatten (forest s)) (ptRoot s) = Some (map snd (tl ents)).
Proof.
  intros Hok HC [[h Hs] _ _ _] Hcov Hlen. set (pages := flatten (forest s)) in *.
  destruct (find_root_In _ _ _ (c_pt _ _ _ _ _ _ HC)) as [_ Hoff].
  rewrite catalog_roots_eq, <- Hoff.
  rewrite (check_sub_ok pages pt h 0 None (S (List.length pages)) Hs Hcov) by lia. unfold sub_res.
  rewrite (leaf_cells_flat pages (leaves pt) (leaves_are_leaves pt)).
  2:{ intros y Hy. apply Hcov. apply leaves_sub_nodes. exact Hy. }
  fold (all_cells pt).
  pose proof (c_ptcells _ _ _ _ _ _ HC) as Hpc.
  rewrite (filter_live_all _ (PtCells_all_live _ _ Hpc)).
  rewrite (roots_go_ents _ _ Hpc (c_ptfits _ _ _ _ _ _ HC)).
  rewrite (filter_not_self_tl ents _ (c_names _ _ _ _ _ _ HC)); [reflexivity|].
  pose proof (sys_names_NoDup d Hok) as Hnd. inversion Hnd; subst. assumption.
Qed.

(* ====================== all the trees ====================== *)
Lemma nodup_N_spec l : nodup_N l = true <-> NoDup l.
Proof.
  induction l as [|a r IH]; cbn [nodup_N]; [split; [constructor | reflexivity]|].
  rewrite andb_true_iff, negb_true_iff, IH. split.
  - intros [H1 H2]. constructor; [|exact H2]. intros Hin.
    assert (existsb (N.eqb a) r = true) by (apply existsb_exists; exists a; split; [exact Hin | apply N.eqb_refl]). congruence.
  - intros H. inversion H as [|? ? Hn Hd]; subst. split; [|exact Hd].
    destruct (existsb (N.eqb a) r) eqn:E; [|reflexivity]. exfalso. apply Hn.
    apply existsb_exists in E as (x & Hx & Ex). apply N.eqb_eq in Ex. subst. exact Hx.
Qed.

Lemma NoDup_app_intro {A} (a b : list A) :
  NoDup a -> NoDup b -> (forall x, In x a -> In x b -> False) -> NoDup (a ++ b).
Proof.
  induction a as [|x a IH]; intros Ha Hb Hd; [exact Hb|]. cbn [app].
  inversion Ha as [|? ? Hn Ha']; subst. constructor.
  - intros Hin. apply in_app_or in Hin as [Hin|Hin]; [contradiction | exact (Hd x (or_introl eq_refl) Hin)].
  - apply IH; auto. intros y Hy. apply Hd. right. exact Hy.
Qed.

Lemma shared_offset_same_tree (f : list tree) : forall a b x,
  NoDup (all_offsets f) -> In a f -> In b f -> In x (offsets_of a) -> In x (offsets_of b) -> a = b.
Proof.
  induction f as [|c f IH]; intros a b x Hnd Ha Hb Hxa Hxb; [contradiction|].
  cbn [all_offsets flat_map] in Hnd. fold (all_offsets f) in Hnd.
  apply NoDup_app_inv in Hnd as (_ & Hnd2 & Hd).
  assert (Hrest : forall y z, In y f -> In z (offsets_of y) -> In z (all_offsets f)).
  { intros y z Hy Hz. unfold all_offsets. apply in_flat_map. eauto. }
  destruct Ha as [<-|Ha], Hb as [<-|Hb]; auto.
  - exfalso. eapply Hd; eauto.
  - exfalso. eapply Hd; eauto.
  - eapply IH; eauto.
Qed.

Lemma check_trees_ok pages f free : forall roots,
  Forall (WFT ML MI free) f -> NoDup (all_offsets f) ->
  (forall t, In t f -> covers pages t) ->
  (List.length (flat_map nodes f) <= List.length pages)%nat ->
  (forall o, In o roots -> exists t, find_root o f = Some t) -> NoDup roots ->
  exists allo, check_trees pages roots = Some allo /\ NoDup allo /\
    forall x, In x allo -> exists o t, In o roots /\ find_root o f = Some t /\ In x (offsets_of t).
Proof.
  intros roots Hw Hnd Hcov Hlen. induction roots as [|o roots IH]; intros Hr Hndr.
  - exists []. split; [reflexivity|]. split; [constructor | intros x []].
  - inversion Hndr as [|? ? Hno Hndr']; subst.
    destruct (IH (fun o' Ho' => Hr o' (or_intror Ho')) Hndr') as (allo & E & Hnda & Hsrc).
    destruct (Hr o (or_introl eq_refl)) as [t Ht]. destruct (find_root_In _ _ _ Ht) as [Hin Hoff].
    rewrite Forall_forall in Hw.
    assert (Hl : (List.length (nodes t) <= List.length pages)%nat).
    { eapply Nat.le_trans; [|exact Hlen]. clear - Hin. induction f as [|a f IHf]; [contradiction|].
      cbn [flat_map]. rewrite app_length. destruct Hin as [->|Hin]; [lia | specialize (IHf Hin); lia]. }
    exists (offsets_of t ++ allo). cbn [check_trees]. rewrite <- Hoff at 1.
    rewrite (check_tree_ok pages free t (Hw t Hin) (Hcov t Hin) Hl), E. split; [reflexivity|]. split.
    + apply NoDup_app_intro; [apply (wft_nodup _ _ _ _ (Hw t Hin)) | exact Hnda|].
      intros x Hx1 Hx2. destruct (Hsrc x Hx2) as (o' & t' & Ho' & Ht' & Hx').
      destruct (find_root_In _ _ _ Ht') as [Hin' Hoff'].
      assert (t = t') by (eapply shared_offset_same_tree; eauto). subst t'.
      apply Hno. rewrite <- Hoff, Hoff'. exact Ho'.
    + intros x Hx. apply in_app_or in Hx as [Hx|Hx].
      * exists o, t. split; [left; reflexivity | split; assumption].
      * destruct (Hsrc x Hx) as (o' & t' & A & B & C). exists o', t'. split; [right; exact A | split; assumption].
Qed.

(* ====================== the heart: a store that represents a database dumps well ====================== *)
Theorem dump_ok_rep s d : Rep s d -> dump_ok (dump_of s) = true.
Proof.
  intros [[Hw Hnd Hk] Hok (pt & sc & ents & osc & HC)]. unfold dump_of. cbn [dump_ok].
  set (pages := flatten (forest s)).
  assert (Hcov : forall t, In t (forest s) -> covers pages t) by (intros t Ht; apply flatten_covers; assumption).
  assert (Hlen : (List.length (flat_map nodes (forest s)) <= List.length pages)%nat).
  { unfold pages. rewrite flatten_length. lia. }
  pose proof (c_pt _ _ _ _ _ _ HC) as Hpt. destruct (find_root_In _ _ _ Hpt) as [Hptin Hptoff].
  assert (Hptlen : (List.length (nodes pt) <= List.length pages)%nat).
  { eapply Nat.le_trans; [|exact Hlen]. clear - Hptin. induction (forest s) as [|a f IHf]; [contradiction|].
    cbn [flat_map]. rewrite app_length. destruct Hptin as [->|Hin]; [lia | specialize (IHf Hin); lia]. }
  pose proof Hw as Hw'. rewrite Forall_forall in Hw'.
  pose proof (catalog_roots_ok s d pt sc ents osc (nextFree s) Hok HC (Hw' pt Hptin) (Hcov pt Hptin) Hptlen) as Hcr.
  fold pages in Hcr. rewrite Hcr.
  pose proof (c_offs _ _ _ _ _ _ HC) as Hoffs.
  rewrite (proj2 (nodup_N_spec _) Hoffs). cbn [andb].
  destruct (check_trees_ok pages (forest s) (nextFree s) (ptRoot s :: map snd (tl ents)) Hw Hnd Hcov Hlen)
    as (allo & E & Hnda & Hsrc); [|exact Hoffs|].
  { intros o [<-|Ho]; [eauto|]. apply in_map_iff in Ho as ([n o'] & <- & Hin). cbn [snd].
    assert (Hin' : In (n, o') ents) by (destruct ents; [contradiction | right; exact Hin]).
    apply (cat_entry_tree s d pt sc ents osc n o' Hok HC Hin').
    intros ->.
    (* the only entry named sys_pages is the head *)
    pose proof (cat_names_NoDup d ents Hok (c_names _ _ _ _ _ _ HC)) as Hnn.
    destruct ents as [|e0 r]; [contradiction|]. pose proof (c_names _ _ _ _ _ _ HC) as Hnm.
    cbn [map] in Hnm, Hnn. inversion Hnm as [[H1 H2]]. inversion Hnn as [|? ? Hno _]; subst.
    apply Hno. rewrite H1. change "sys_pages" with (fst ("sys_pages", o')). apply in_map. exact Hin. }
  rewrite E, (proj2 (nodup_N_spec _) Hnda). cbn [andb].
  apply forallb_forall. intros x Hx. destruct (Hsrc x Hx) as (o & t & _ & Ht & Hxt).
  destruct (find_root_In _ _ _ Ht) as [Hin _]. apply N.ltb_lt.
  pose proof (wft_bound _ _ _ _ (Hw' t Hin)) as Hb. rewrite Forall_forall in Hb. exact (Hb x Hxt).
Qed.

(* ====================== along a history ====================== *)
Lemma dumps_run : forall hevs y,
  RInv y -> hist_shape_c hevs = true -> forallb hev_ok hevs = true -> frontier_ok y hevs = true ->
  forallb dump_ok (run_h y hevs) = true.
Proof.
  induction hevs as [|h r IH]; intros y HRI Hsh Hok Hfr; [reflexivity|].
  cbn [hist_shape_c forallb] in Hsh, Hok. apply andb_true_iff in Hsh as [Hsh1 Hsh2].
  apply andb_true_iff in Hok as [Hok1 Hok2].
  destruct h as [[st| | | |]|ns|]; try discriminate.
  - (* a statement *)
    cbn [hev_ok RefineMain.ev_ok] in Hok1. cbn [run_h frontier_ok] in *.
    apply andb_true_iff in Hfr as [Hmax Hfr]. apply N.leb_le in Hmax.
    destruct HRI as (HI2 & HS & d & HR).
    assert (Hev1 : ev_ok1 y (EvStmt st)).
    { split; [exact (rep_stmt_atomic (mem y) d st HR Hok1 Hmax) | split; assumption]. }
    pose proof (fun y1 o => RInv_step y (EvStmt st) y1 o (conj HI2 (conj HS (ex_intro _ d HR))) Hev1) as Hstep.
    destruct (step y (EvStmt st)) as [[y1|e|] o] eqn:Es.
    + specialize (Hstep y1 o eq_refl). destruct o as [o|]; cbn [forallb dump_ok]; apply IH; auto.
    + reflexivity.
    + reflexivity.
  - (* a flush *)
    pose proof (RInv_step y EvFlush (do_flush y) None HRI I eq_refl) as Hstep.
    cbn [run_h step frontier_ok andb forallb dump_ok] in *. apply IH; auto.
  - (* a crash-restart *)
    pose proof HRI as ([HInv _] & _).
    destruct (inv_recover y HInv) as (rr & _ & Hrec & _).
    assert (Hs : step y EvCrash = (SOk (mkSys (flush rr) (flush rr) (wal y)), None)) by (cbn [step]; rewrite Hrec; reflexivity).
    pose proof (RInv_step y EvCrash _ None HRI I Hs) as Hstep.
    cbn [run_h frontier_ok andb] in *. rewrite Hs in *. cbn [forallb dump_ok]. apply IH; auto.
  - (* a read-back *)
    cbn [run_h frontier_ok forallb dump_ok] in *. apply IH; auto.
  - (* a dump *)
    cbn [run_h frontier_ok forallb] in *. destruct HRI as (HI2 & HS & d & HR).
    rewrite (dump_ok_rep (mem y) d HR). cbn [andb]. apply IH; auto. exact (conj HI2 (conj HS (ex_intro _ d HR))).
Qed.

Theorem model_dumps_pass : forall hevs,
  hist_shape_c hevs = true ->                        (* statements, flushes, crash-restarts, read-backs, page dumps *)
  forallb hev_ok hevs = true ->                      (* literals are Go values *)
  frontier_ok init_sys hevs = true ->                (* the data file stays below 2^63 bytes *)
  dumps_ok (hevs, run_h init_sys hevs) = true.
Proof. intros hevs Hsh Hok Hfr. unfold dumps_ok. cbn [snd]. apply dumps_run; auto. apply RInv_init. Qed.

(* ====================== dump_ok only reads what pobs_eqb compares ====================== *)
Definition psim (p q : pobs) : Prop :=
  match p, q with
  | PLeaf o1 _ _ hl1 hr1 ls1 rs1 c1, PLeaf o2 _ _ hl2 hr2 ls2 rs2 c2 =>
      o1 = o2 /\ hl1 = hl2 /\ hr1 = hr2 /\ (hl1 = true -> ls1 = ls2) /\ (hr1 = true -> rs1 = rs2) /\ c1 = c2
  | PInt o1 _ _ r1 k1, PInt o2 _ _ r2 k2 => o1 = o2 /\ r1 = r2 /\ k1 = k2
  | _, _ => False
  end.

Lemma cell_eqb_spec a b : cell_eqb a b = true <-> a = b.
Proof.
  destruct a as [[k1 d1] v1], b as [[k2 d2] v2]. unfold cell_eqb, bytes_eqb. cbn [fst snd].
  rewrite !andb_true_iff, N.eqb_eq, Bool.eqb_true_iff, (list_eqb_spec Ascii.eqb Ascii.eqb_eq).
  split; [intros [[-> ->] ->]; reflexivity | intros E; inversion E; auto].
Qed.

Lemma kid_eqb_spec (a b : N * N) : pair_eqb N.eqb N.eqb a b = true <-> a = b.
Proof.
  destruct a, b. unfold pair_eqb. cbn [fst snd]. rewrite andb_true_iff, !N.eqb_eq.
  split; [intros [-> ->]; reflexivity | intros E; inversion E; auto].
Qed.

Lemma pobs_eqb_psim p q : pobs_eqb p q = true -> psim p q.
Proof.
  destruct p as [o1 l1 d1 hl1 hr1 ls1 rs1 c1|o1 l1 d1 r1 k1], q as [o2 l2 d2 hl2 hr2 ls2 rs2 c2|o2 l2 d2 r2 k2];
    cbn [pobs_eqb psim]; try discriminate.
  - rewrite !andb_true_iff. intros [[[[[[[A B] C] D] E] F] G] H].
    apply N.eqb_eq in A. apply Bool.eqb_prop in D. apply Bool.eqb_prop in E. apply (list_eqb_spec cell_eqb cell_eqb_spec) in H.
    subst. split; [reflexivity|]. split; [reflexivity|]. split; [reflexivity|].
    split; [intros ->; apply N.eqb_eq; exact F|]. split; [intros ->; apply N.eqb_eq; exact G | reflexivity].
  - rewrite !andb_true_iff. intros [[[[A B] C] D] E].
    apply N.eqb_eq in A, D. apply (list_eqb_spec _ kid_eqb_spec) in E. auto.
Qed.

Lemma psim_off p q : psim p q -> pobs_off p = pobs_off q.
Proof. destruct p, q; cbn; try contradiction; tauto. Qed.

Definition osim (a b : option pobs) : Prop :=
  match a, b with Some p, Some q => psim p q | None, None => True | _, _ => False end.

Lemma page_at_sim P Q off : Forall2 psim P Q -> osim (page_at off P) (page_at off Q).
Proof.
  induction 1 as [|p q P Q Hpq _ IH]; [exact I|]. unfold page_at in *. cbn [find].
  rewrite <- (psim_off p q Hpq). destruct (N.eqb (pobs_off p) off); [exact Hpq | exact IH].
Qed.

Lemma forallb_ext' {A} (f g : A -> bool) l : (forall x, f x = g x) -> forallb f l = forallb g l.
Proof. intros H. induction l as [|a l IH]; [reflexivity|]. cbn [forallb]. rewrite H, IH. reflexivity. Qed.

Section Sim.
Variables P Q : list pobs.
Hypothesis HPQ : Forall2 psim P Q.

Ltac sim_pages off :=
  let H := fresh "Hs" in
  pose proof (page_at_sim P Q off HPQ) as H;
  destruct (page_at off P) as [[? ? ? ? ? ? ? ?|? ? ? ? ?]|], (page_at off Q) as [[? ? ? ? ? ? ? ?|? ? ? ? ?]|];
  cbn [osim psim] in H; try contradiction.

Lemma check_sub_sim : forall fuel off lo hi, check_sub fuel P off lo hi = check_sub fuel Q off lo hi.
Proof.
  induction fuel as [|f IH]; intros off lo hi; [reflexivity|]. rewrite !check_sub_S.
  sim_pages off; try reflexivity.
  - destruct Hs as (-> & _ & _ & _ & _ & ->). reflexivity.
  - destruct Hs as (-> & -> & ->).
    destruct (negb _); [reflexivity|].
    match goal with |- match ?a with _ => _ end = match ?b with _ => _ end => replace a with b; [reflexivity|] end.
    revert lo. induction kids0 as [|[s c] r IHk]; intros lo; cbn [check_kids]; [symmetry; apply IH|].
    rewrite IH, IHk. reflexivity.
Qed.

Lemma follow_right_sim : forall fuel off, follow_right fuel P off = follow_right fuel Q off.
Proof.
  induction fuel as [|f IH]; intros off; [reflexivity|]. cbn [follow_right].
  sim_pages off; try reflexivity.
  destruct Hs as (_ & _ & -> & _ & Hr & _). destruct hasR0; [|reflexivity]. rewrite (Hr eq_refl), IH. reflexivity.
Qed.

Lemma follow_left_sim : forall fuel off, follow_left fuel P off = follow_left fuel Q off.
Proof.
  induction fuel as [|f IH]; intros off; [reflexivity|]. cbn [follow_left].
  sim_pages off; try reflexivity.
  destruct Hs as (_ & -> & _ & Hl & _ & _). destruct hasL0; [|reflexivity]. rewrite (Hl eq_refl), IH. reflexivity.
Qed.

Lemma lookup_leaf_sim k : forall fuel off, lookup_leaf fuel P off k = lookup_leaf fuel Q off k.
Proof.
  induction fuel as [|f IH]; intros off; [reflexivity|]. cbn [lookup_leaf].
  sim_pages off; try reflexivity.
  destruct Hs as (_ & -> & ->). apply IH.
Qed.

Lemma leaf_keys_sim off : leaf_keys P off = leaf_keys Q off.
Proof.
  unfold leaf_keys. sim_pages off; try reflexivity. destruct Hs as (_ & _ & _ & _ & _ & ->). reflexivity.
Qed.

Lemma leaf_cells_of_sim off : leaf_cells_of P off = leaf_cells_of Q off.
Proof.
  unfold leaf_cells_of. sim_pages off; try reflexivity. destruct Hs as (_ & _ & _ & _ & _ & ->). reflexivity.
Qed.

Lemma pages_length_sim : List.length P = List.length Q.
Proof. exact (Forall2_length' _ _ _ HPQ). Qed.

Lemma check_tree_sim root : check_tree P root = check_tree Q root.
Proof.
  unfold check_tree. rewrite pages_length_sim, check_sub_sim.
  destruct (check_sub _ Q root 0 None) as [[[dd ls] al]|]; [|reflexivity].
  rewrite follow_right_sim, follow_left_sim.
  replace (forallb (fun lf => forallb (fun k => option_eqb N.eqb (lookup_leaf (S (List.length Q)) P root k) (Some lf)) (leaf_keys P lf)) ls)
    with (forallb (fun lf => forallb (fun k => option_eqb N.eqb (lookup_leaf (S (List.length Q)) Q root k) (Some lf)) (leaf_keys Q lf)) ls); [reflexivity|].
  apply forallb_ext'. intros lf. rewrite leaf_keys_sim. apply forallb_ext'. intros k. rewrite lookup_leaf_sim. reflexivity.
Qed.

Lemma catalog_roots_sim root : catalog_roots P root = catalog_roots Q root.
Proof.
  rewrite !catalog_roots_eq, pages_length_sim, check_sub_sim.
  destruct (check_sub _ Q root 0 None) as [[[dd ls] al]|]; [|reflexivity].
  erewrite flat_map_ext; [reflexivity|]. intros a. apply leaf_cells_of_sim.
Qed.

Lemma check_trees_sim roots : check_trees P roots = check_trees Q roots.
Proof. induction roots as [|r rest IH]; [reflexivity|]. cbn [check_trees]. rewrite check_tree_sim, IH. reflexivity. Qed.
End Sim.

Lemma list_eqb_F2 {A} (eqb : A -> A -> bool) (R : A -> A -> Prop) :
  (forall a b, eqb a b = true -> R a b) -> forall l1 l2, list_eqb eqb l1 l2 = true -> Forall2 R l1 l2.
Proof.
  intros H. induction l1 as [|a l1 IH]; destruct l2 as [|b l2]; cbn [list_eqb]; try discriminate; [constructor|].
  intros E. apply andb_true_iff in E as [E1 E2]. constructor; auto.
Qed.

Lemma dump_ok_sim a b : hobs_eqb a b = true -> dump_ok a = dump_ok b.
Proof.
  destruct a as [x|x|[[[a1 a2] a3] a4] p1| |], b as [y|y|[[[b1 b2] b3] b4] p2| |]; cbn [hobs_eqb]; try discriminate; try reflexivity.
  rewrite !andb_true_iff. intros [[[[A B] C] D] E].
  apply N.eqb_eq in A, B, C, D. subst.
  pose proof (list_eqb_F2 pobs_eqb psim pobs_eqb_psim _ _ E) as HPQ.
  cbn [dump_ok]. rewrite (catalog_roots_sim p1 p2 HPQ).
  destruct (catalog_roots p2 b2) as [roots0|]; [|reflexivity].
  rewrite (check_trees_sim p1 p2 HPQ). reflexivity.
Qed.

Lemma dumps_ok_sim : forall o1 o2, list_eqb hobs_eqb o1 o2 = true -> forallb dump_ok o1 = forallb dump_ok o2.
Proof.
  induction o1 as [|a o1 IH]; destruct o2 as [|b o2]; cbn [list_eqb]; try discriminate; [reflexivity|].
  intros E. apply andb_true_iff in E as [E1 E2]. cbn [forallb]. rewrite (dump_ok_sim a b E1), (IH o2 E2). reflexivity.
Qed.

(* agreement with the model (MM) implies acceptance by the page-graph oracle (SM) *)
Theorem dumps_agreement_implies_acceptance : forall c,
  hist_shape_c (fst c) = true -> forallb hev_ok (fst c) = true -> frontier_ok init_sys (fst c) = true ->
  model_agrees c = true -> dumps_ok c = true.
Proof.
  intros [hevs obs] Hsh Hok Hfr Hag. cbn [fst snd] in *. unfold model_agrees in Hag. cbn [fst snd] in Hag.
  unfold dumps_ok. cbn [snd]. rewrite <- (dumps_ok_sim _ _ Hag).
  exact (model_dumps_pass hevs Hsh Hok Hfr).
Qed.

(* ====================== what the oracle needs beyond SInv, and what it does not look at ====================== *)
(* SInv (the conclusion of C11_wellformed) alone does not imply acceptance: dump_ok starts from
   the header's page-table root and from the offsets stored in the page table's rows, about which
   SInv says nothing (SInv_header). The catalog invariant of Rep is what supplies them. *)
Definition bogus_header_store : store :=
  let s := fst create_db in mkStore (forest s) (lastKey s) 777 (nextFree s) (nextLSN s).

Example sinv_alone_not_enough :
  SInv bogus_header_store /\ dump_ok (dump_of bogus_header_store) = false.
Proof.
  split; [|vm_compute; reflexivity].
  apply (SInv_header (fst create_db) (lastKey (fst create_db)) 777 (nextLSN (fst create_db))); [lia | apply create_db_inv].
Qed.

(* dumps_ok never looks at the events: a dump that is missing from the observations (the driver
   reporting nothing, or the run ending early) is accepted by SM; only MM notices *)
Example oracle_lax_missing_dump :
  dumps_ok ([HDumpPages], [HNone]) = true /\ dumps_ok ([HDumpPages; HDumpPages], []) = true.
Proof. split; reflexivity. Qed.

(* pages that no root reaches are not examined: a page beyond nextFreeOffset with descending keys
   and sibling fields pointing nowhere, added to a good dump, is accepted (a leaf that dropped out
   of its parent AND out of the sibling chain would go unnoticed by SM; MM compares every page) *)
Definition with_orphan (o : hobs) : hobs :=
  match o with
  | HDump hdr pages => HDump hdr (pages ++ [PLeaf 99999999 0 false true true 5 5 [(9, false, []); (3, false, [])]])
  | x => x
  end.

Example oracle_lax_orphan_page :
  dump_ok (with_orphan (dump_of (fst create_db))) = true.
Proof. vm_compute. reflexivity. Qed.
