(* C07: top-level statements about the model's aggregation pipeline. *)
From Coq Require Import ZArith String Bool List Ascii Permutation Lia.
From Mkdb Require Import Model.CaseLib Model.Select Spec.SelectSpec
     Proofs.SelectOrder Proofs.SelectEval Proofs.SelectAggCols Proofs.SelectC07.
Import ListNotations.

(* the two steps of EvaluateSelect that compute aggregates, on the rows left by FROM / WHERE *)
Definition agg_run (sl : list derivedcol) (gb : list colref) (fs : list field) (base : list row)
  : outcome (list row) :=
  '(_, seeds) <~ project_columns sl fs base ;; aggregate_rows sl gb seeds.

(* ---------------------------------------------------------------------------------- *)
(* the checker decides the specification                                               *)

Lemma nodup_keys_iff ks : nodup_keys ks = true <-> NoDup ks.
Proof.
  induction ks as [|k ks IH]; cbn.
  - split; auto. constructor.
  - rewrite andb_true_iff, negb_true_iff, IH. split.
    + intros [H1 H2]. constructor; auto. intros Hin.
      assert (existsb (key_eqb k) ks = true) by (apply existsb_exists; exists k; split; auto; apply key_eqb_iff; auto).
      congruence.
    + intros H. inversion H as [|? ? Hn ND]; subst. split; auto.
      destruct (existsb (key_eqb k) ks) eqn:E; auto. apply existsb_exists in E. destruct E as [k' [Hin Hk]].
      apply key_eqb_iff in Hk. subst. contradiction.
Qed.

Theorem check_agg_g_iff cells sl gb fs base out :
  check_agg_g cells sl gb fs base out = true <-> AggSpecG cells sl gb fs base out.
Proof.
  unfold check_agg_g, AggSpecG. destruct gb as [|g gb].
  - split.
    + destruct out as [|o [|? ?]]; try discriminate. eauto.
    + intros [o [-> H]]. exact H.
  - rewrite !andb_true_iff, nodup_keys_iff. split.
    + intros [[[ND H1] H2] H3]. split; auto. split.
      * intros k. rewrite !in_map_iff. split.
        -- intros [o [<- Ho]]. rewrite forallb_forall in H1. specialize (H1 o Ho).
           apply existsb_exists in H1. destruct H1 as [b [Hb E]]. apply key_eqb_iff in E. eauto.
        -- intros [b [<- Hb]]. rewrite forallb_forall in H2. specialize (H2 b Hb).
           apply existsb_exists in H2. destruct H2 as [o [Ho E]]. apply key_eqb_iff in E. eauto.
      * rewrite forallb_forall in H3. exact H3.
    + intros [ND [HK HC]]. repeat split; auto.
      * rewrite forallb_forall. intros o Ho. apply existsb_exists.
        assert (Hin : In (key_of_out sl o) (map (key_of_base sl fs) base)) by (apply HK; apply in_map; auto).
        apply in_map_iff in Hin. destruct Hin as [b [E Hb]]. exists b. split; auto. apply key_eqb_iff. auto.
      * rewrite forallb_forall. intros b Hb. apply existsb_exists.
        assert (Hin : In (key_of_base sl fs b) (map (key_of_out sl) out)) by (apply HK; apply in_map; auto).
        apply in_map_iff in Hin. destruct Hin as [o [E Ho]]. exists o. split; auto. apply key_eqb_iff. auto.
      * rewrite forallb_forall. exact HC.
Qed.

Corollary check_agg_iff sl gb fs base out : check_agg sl gb fs base out = true <-> AggSpec sl gb fs base out.
Proof. apply check_agg_g_iff. Qed.

(* ---------------------------------------------------------------------------------- *)
(* the model meets the specification up to AVG over three or more rows                 *)

Lemma typed_nogroup_aggr sl fs base : typed sl [] fs base -> Forall (fun d => is_aggr (dc_prim d) = true) sl.
Proof.
  intros T. pose proof (ty_shape _ _ _ _ T) as S. unfold agg_shape in S. rewrite !andb_true_iff in S.
  destruct S as [[S _] _]. rewrite forallb_forall in S. rewrite Forall_forall. intros d Hd. specialize (S d Hd).
  unfold is_aggr. destruct (dc_prim d) as [ | | | [[|c]| | | ]]; auto; discriminate.
Qed.

Lemma has_aggr_true sl : sl <> [] -> Forall (fun d => is_aggr (dc_prim d) = true) sl -> has_aggr sl = true.
Proof.
  intros NE F. destruct sl as [|d sl]; [congruence|]. inversion F; subst. unfold has_aggr. cbn. rewrite H1. reflexivity.
Qed.

Lemma empty_row_zeros sl : Forall (fun d => is_aggr (dc_prim d) = true) sl ->
  empty_aggregate_row sl = Ok (map (fun _ => VInt 0) sl).
Proof.
  induction 1 as [|d sl Hd _ IH]; cbn; auto. rewrite IH. unfold is_aggr in Hd.
  destruct (dc_prim d); try discriminate; reflexivity.
Qed.

Lemma zeros_ok sl fs : Forall (fun d => is_aggr (dc_prim d) = true) sl -> Forall (fun d => item_ok d fs) sl ->
  cells_ok sl fs [] (map (fun _ => VInt 0) sl) = true.
Proof.
  induction 1 as [|d sl Hd _ IH]; intros I; cbn; auto. inversion I as [|? ? Id I']; subst.
  rewrite IH by auto. rewrite andb_true_r. unfold cell_ok, is_aggr, item_ok in *.
  destruct (dc_prim d) as [ | [c|] | c | e]; try discriminate; auto; destruct Id as [i ->]; reflexivity.
Qed.

Lemma cells_ok_lenient_of sl fs grp o : cells_ok sl fs grp o = true -> cells_ok_lenient sl fs grp o = true.
Proof.
  revert o. induction sl as [|d sl IH]; intros [|v o]; cbn; auto.
  rewrite !andb_true_iff. intros [H1 H2]. split; auto.
  unfold cell_ok_lenient. destruct (dc_prim d); auto. rewrite H1. apply orb_true_r.
Qed.

Theorem agg_model_lenient sl gb fs base :
  agg_typed sl gb fs base = true ->
  exists out, agg_run sl gb fs base = Ok out /\ AggSpecLenient sl gb fs base out.
Proof.
  intros AT. pose proof (agg_typed_typed _ _ _ _ AT) as T.
  destruct (project_columns_seed _ _ _ _ T) as [hdr P]. unfold agg_run. rewrite P. cbn [Select.obind].
  pose proof (seeds_good _ _ _ _ T) as SG.
  unfold aggregate_rows. destruct gb as [|g gb'] eqn:Egb.
  - (* no GROUP BY *)
    pose proof (typed_nogroup_aggr _ _ _ T) as FA.
    rewrite (has_aggr_true _ (typed_nonempty _ _ _ _ T) FA). cbn [negb andb].
    destruct base as [|b base'] eqn:Eb.
    + cbn [map]. rewrite (empty_row_zeros _ FA). cbn. eexists. split; [reflexivity|].
      unfold AggSpecLenient, AggSpecG. eexists. split; [reflexivity|].
      apply cells_ok_lenient_of. apply zeros_ok; auto. apply (ty_items _ _ _ _ T).
    + destruct (agg_loop_inv sl [] (map (seed sl fs) (b :: base')) [] [] (inv_init _ _)) as [gs [E I]]; auto.
      cbn [app] in I.
      destruct (loop_meets_spec_nogroup sl [] fs (b :: base') T gs eq_refl ltac:(discriminate) I) as [s [-> C]].
      cbn [map] in *. rewrite E. cbn. eexists. split; [reflexivity|].
      unfold AggSpecLenient, AggSpecG. eexists. split; [reflexivity|]. exact C.
  - (* GROUP BY *)
    rewrite andb_false_r.
    destruct (agg_loop_inv sl (g :: gb') (map (seed sl fs) base) [] [] (inv_init _ _)) as [gs [E I]]; auto.
    cbn [app] in I.
    exists (map (fun x => fst (snd x)) gs). split.
    + destruct (map (seed sl fs) base) eqn:Em; rewrite E; reflexivity.
    + apply (loop_meets_spec sl (g :: gb') fs base T gs); [discriminate | exact I].
Qed.

(* ---------------------------------------------------------------------------------- *)
(* consequences: COUNT, groups, empty input, AVG over at most two rows                  *)

(* the rows of the input an output row is computed from *)
Definition grp_for (sl : list derivedcol) (gb : list colref) (fs : list field) (base : list row) (o : row) : list row :=
  match gb with [] => base | _ => group_of sl fs base (key_of_out sl o) end.

Lemma agg_spec_rows cells sl gb fs base out :
  AggSpecG cells sl gb fs base out -> forall o, In o out -> cells sl fs (grp_for sl gb fs base o) o = true.
Proof.
  unfold AggSpecG, grp_for. destruct gb.
  - intros [o' [-> H]] o [<-|[]]. exact H.
  - intros [_ [_ H]]. exact H.
Qed.

Lemma lenient_forall2 sl fs grp : forall o,
  cells_ok_lenient sl fs grp o = true ->
  Forall2 (fun d v => (is_avg d = false \/ (List.length grp <= 2)%nat) -> cell_ok d fs grp v = true) sl o.
Proof.
  induction sl as [|d sl IH]; intros [|v o]; cbn; try discriminate; [constructor|].
  rewrite andb_true_iff. intros [H1 H2]. constructor; auto.
  intros C. unfold cell_ok_lenient, is_avg in *. destruct (dc_prim d); auto.
  apply orb_true_iff in H1. destruct H1 as [H1|H1]; auto.
  apply andb_true_iff in H1. destruct H1 as [H1 _]. apply Nat.leb_le in H1.
  destruct C as [C|C]; [discriminate | lia].
Qed.

(* every COUNT and every grouping column is right; AVG is right for groups of <= 2 rows *)
Theorem agg_cells_correct sl gb fs base :
  agg_typed sl gb fs base = true ->
  exists out, agg_run sl gb fs base = Ok out /\
    forall o, In o out ->
      Forall2 (fun d v => (is_avg d = false \/ (List.length (grp_for sl gb fs base o) <= 2)%nat) ->
                          cell_ok d fs (grp_for sl gb fs base o) v = true) sl o.
Proof.
  intros AT. destruct (agg_model_lenient _ _ _ _ AT) as [out [E S]]. exists out. split; auto.
  intros o Ho. apply lenient_forall2. apply (agg_spec_rows _ _ _ _ _ _ S o Ho).
Qed.

(* one output row per class of equal grouping values *)
Theorem agg_groups sl gb fs base :
  gb <> [] -> agg_typed sl gb fs base = true ->
  exists out, agg_run sl gb fs base = Ok out /\
    NoDup (map (key_of_out sl) out) /\
    (forall k, In k (map (key_of_out sl) out) <-> In k (map (key_of_base sl fs) base)).
Proof.
  intros NG AT. destruct (agg_model_lenient _ _ _ _ AT) as [out [E S]]. exists out. split; auto.
  unfold AggSpecLenient, AggSpecG in S. destruct gb; [congruence|]. tauto.
Qed.

Theorem agg_empty sl fs :
  agg_typed sl [] fs [] = true -> agg_run sl [] fs [] = Ok [map (fun _ => VInt 0) sl].
Proof.
  intros AT. pose proof (agg_typed_typed _ _ _ _ AT) as T.
  destruct (project_columns_seed _ _ _ _ T) as [hdr P]. unfold agg_run. rewrite P. cbn [Select.obind map].
  pose proof (typed_nogroup_aggr _ _ _ T) as FA. unfold aggregate_rows.
  rewrite (has_aggr_true _ (typed_nonempty _ _ _ _ T) FA). cbn [negb andb].
  rewrite (empty_row_zeros _ FA). reflexivity.
Qed.

(* queries without AVG meet the full specification *)
Definition no_avg (sl : list derivedcol) : bool := forallb (fun d => negb (is_avg d)) sl.

Lemma lenient_no_avg sl fs grp : forall o,
  no_avg sl = true -> cells_ok_lenient sl fs grp o = true -> cells_ok sl fs grp o = true.
Proof.
  induction sl as [|d sl IH]; intros [|v o] N; cbn; auto.
  unfold no_avg in N. cbn in N. apply andb_true_iff in N. destruct N as [N1 N2].
  rewrite !andb_true_iff. intros [H1 H2]. split; [|apply IH; auto].
  unfold cell_ok_lenient, is_avg in *. destruct (dc_prim d); auto. discriminate.
Qed.

Theorem agg_no_avg_full sl gb fs base :
  no_avg sl = true -> agg_typed sl gb fs base = true ->
  exists out, agg_run sl gb fs base = Ok out /\ AggSpec sl gb fs base out.
Proof.
  intros N AT. destruct (agg_model_lenient _ _ _ _ AT) as [out [E S]]. exists out. split; auto.
  unfold AggSpecLenient, AggSpec, AggSpecG in *. destruct gb.
  - destruct S as [o [-> H]]. exists o. split; auto. apply lenient_no_avg; auto.
  - destruct S as [S1 [S2 S3]]. repeat split; auto. apply S2. apply S2.
    intros o Ho. apply lenient_no_avg; auto.
Qed.

(* ---------------------------------------------------------------------------------- *)
(* without AVG the result multiset does not depend on the order of the input rows      *)

Lemma forallb_perm {A} (p : A -> bool) l l' : Permutation l l' -> forallb p l = forallb p l'.
Proof.
  induction 1; cbn; auto.
  - rewrite IHPermutation. reflexivity.
  - destruct (p x), (p y); reflexivity.
  - congruence.
Qed.

Lemma forallb_ext' {A} (p q : A -> bool) l : (forall x, p x = q x) -> forallb p l = forallb q l.
Proof. intros H. induction l as [|a l IH]; cbn; auto. rewrite H, IH. reflexivity. Qed.

Lemma agg_typed_perm sl gb fs base base' :
  Permutation base base' -> agg_typed sl gb fs base = agg_typed sl gb fs base'.
Proof.
  intros P. unfold agg_typed. rewrite (forallb_perm _ _ _ P). f_equal. f_equal.
  unfold avg_args_int. apply forallb_ext'. intros d. destruct (dc_prim d); auto.
  destruct (resolve c fs); auto. apply forallb_perm. exact P.
Qed.

(* rows with the same grouping values agree on every plain select column *)
Lemma key_component sl fs g g' :
  Forall (fun d => item_ok d fs) sl -> key_of_base sl fs g = key_of_base sl fs g' ->
  forall d c i, In d sl -> dc_prim d = SPExpr (EVal (XCol c)) -> resolve c fs = Some i ->
  nth i g VNull = nth i g' VNull.
Proof.
  unfold key_of_base. induction 1 as [|d0 sl I _ IH]; intros E d c i [].
  - subst d0. intros Ed R. cbn in E. rewrite Ed, R in E. cbn in E. inversion E; auto.
  - intros Ed R.
    assert (E' : flat_map (fun d => match dc_prim d with
                     | SPExpr (EVal (XCol c)) => match resolve c fs with Some i => [nth i g VNull] | None => [] end
                     | _ => [] end) sl =
                 flat_map (fun d => match dc_prim d with
                     | SPExpr (EVal (XCol c)) => match resolve c fs with Some i => [nth i g' VNull] | None => [] end
                     | _ => [] end) sl).
    { cbn in E. unfold item_ok in I.
      destruct (dc_prim d0) as [ | [c0|] | c0 | [[l|c0]| | | ]]; try contradiction; cbn in E; auto.
      destruct I as [j Rj]. rewrite Rj in E. cbn in E. inversion E; auto. }
    apply (IH E' d c i); auto.
Qed.

Lemma cells_det sl fs grp : forall o o',
  no_avg sl = true -> cells_ok sl fs grp o = true -> cells_ok sl fs grp o' = true -> o = o'.
Proof.
  induction sl as [|d sl IH]; intros [|v o] [|v' o'] N; cbn; try discriminate; auto.
  unfold no_avg in N. cbn in N. apply andb_true_iff in N. destruct N as [N1 N2].
  rewrite !andb_true_iff. intros [H1 H2] [H1' H2']. f_equal; [|apply IH; auto].
  unfold cell_ok, is_avg in *.
  destruct (dc_prim d) as [ | [c|] | c | [[l|c]| | | ]]; try discriminate.
  - destruct (resolve c fs); try discriminate. apply value_eqb_spec in H1, H1'. congruence.
  - apply value_eqb_spec in H1, H1'. congruence.
  - destruct (resolve c fs), grp; try discriminate. apply value_eqb_spec in H1, H1'. congruence.
Qed.

Lemma cells_perm sl0 sl fs grp grp' : forall o,
  Forall (fun d => item_ok d fs) sl0 -> (forall d, In d sl -> In d sl0) ->
  no_avg sl = true -> Permutation grp grp' ->
  (forall g g', In g grp -> In g' grp -> key_of_base sl0 fs g = key_of_base sl0 fs g') ->
  cells_ok sl fs grp' o = true -> cells_ok sl fs grp o = true.
Proof.
  intros o I. revert o. induction sl as [|d sl IH]; intros [|v o] Sub N P K; cbn; auto.
  unfold no_avg in N. cbn in N. apply andb_true_iff in N. destruct N as [N1 N2].
  rewrite !andb_true_iff. intros [H1 H2]. split; [|apply IH; auto; intros d' Hd'; apply Sub; right; auto].
  unfold cell_ok, is_avg in *.
  destruct (dc_prim d) as [ | [c|] | c | [[l|c]| | | ]] eqn:Ed; try discriminate; auto.
  - destruct (resolve c fs); auto.
    rewrite (Permutation_length (l := filter _ grp) (l' := filter (fun g => negb (value_eqb (nth n g VNull) VNull)) grp')); auto.
    clear - P. induction P; cbn; auto.
    + destruct (negb _); auto.
    + destruct (negb (value_eqb (nth n x VNull) VNull)), (negb (value_eqb (nth n y VNull) VNull)); auto. apply perm_swap.
    + etransitivity; eauto.
  - rewrite (Permutation_length P). exact H1.
  - destruct (resolve c fs) as [i|] eqn:R; try discriminate.
    destruct grp' as [|g' r']; try discriminate.
    destruct grp as [|g r]; [apply Permutation_nil in P; discriminate|].
    apply value_eqb_spec in H1. subst v. apply value_eqb_spec.
    symmetry. apply (key_component sl0 fs g g' I) with (d := d) (c := c); auto.
    + apply K; [left; auto|]. eapply Permutation_in; [symmetry; exact P|]. left; auto.
    + apply Sub. left; auto.
Qed.

Lemma group_of_perm sl fs base base' k : Permutation base base' -> Permutation (group_of sl fs base k) (group_of sl fs base' k).
Proof.
  unfold group_of. induction 1; cbn; auto.
  - destruct (key_eqb _ k); auto.
  - destruct (key_eqb (key_of_base sl fs x) k), (key_eqb (key_of_base sl fs y) k); auto. apply perm_swap.
  - etransitivity; eauto.
Qed.

Lemma group_of_key sl fs base k g : In g (group_of sl fs base k) -> key_of_base sl fs g = k.
Proof. unfold group_of. rewrite filter_In. intros [_ H]. apply key_eqb_iff. exact H. Qed.

Lemma key_of_base_aggr sl fs g : Forall (fun d => is_aggr (dc_prim d) = true) sl -> key_of_base sl fs g = [].
Proof.
  unfold key_of_base. induction 1 as [|d sl Hd _ IH]; cbn; auto. rewrite IH.
  unfold is_aggr in Hd. destruct (dc_prim d); try discriminate; reflexivity.
Qed.

Lemma agg_spec_perm sl gb fs base base' out :
  typed sl gb fs base -> no_avg sl = true -> Permutation base base' ->
  AggSpec sl gb fs base' out -> AggSpec sl gb fs base out.
Proof.
  intros T N P. pose proof (ty_items _ _ _ _ T) as I. unfold AggSpec, AggSpecG. destruct gb as [|g gb].
  - intros [o [-> H]]. exists o. split; auto.
    apply (cells_perm sl sl fs base base' o I); auto.
    intros g g' _ _. rewrite !key_of_base_aggr; auto; apply (typed_nogroup_aggr _ _ _ T).
  - intros [S1 [S2 S3]]. split; auto. split.
    + intros k. rewrite S2. rewrite !in_map_iff. split; intros [b [E Hb]]; exists b; split; auto.
      * eapply Permutation_in; [symmetry; exact P | exact Hb].
      * eapply Permutation_in; [exact P | exact Hb].
    + intros o Ho. apply (cells_perm sl sl fs _ (group_of sl fs base' (key_of_out sl o)) o I); auto.
      * apply group_of_perm. exact P.
      * intros x y Hx Hy. rewrite (group_of_key _ _ _ _ _ Hx), (group_of_key _ _ _ _ _ Hy). reflexivity.
Qed.

Lemma nodup_map_inv {A B} (f : A -> B) l : NoDup (map f l) -> NoDup l.
Proof.
  induction l as [|a l IH]; cbn; intros H; [constructor|]. inversion H; subst. constructor; auto.
  intros Hin. apply H2. apply in_map. exact Hin.
Qed.

(* two results that meet the specification (no AVG) are permutations of each other *)
Lemma agg_spec_unique sl gb fs base out out' :
  no_avg sl = true -> AggSpec sl gb fs base out -> AggSpec sl gb fs base out' -> Permutation out out'.
Proof.
  intros N. unfold AggSpec, AggSpecG. destruct gb as [|g gb].
  - intros [o [-> H]] [o' [-> H']]. rewrite (cells_det _ _ _ _ _ N H H'). auto.
  - intros [S1 [S2 S3]] [S1' [S2' S3']].
    assert (Sub : forall (a b : list row) (c : list (list value)), (forall o, In o a -> cells_ok sl fs (group_of sl fs base (key_of_out sl o)) o = true) ->
              (forall o, In o b -> cells_ok sl fs (group_of sl fs base (key_of_out sl o)) o = true) ->
              (forall k, In k (map (key_of_out sl) a) <-> In k c) -> (forall k, In k (map (key_of_out sl) b) <-> In k c) ->
              forall o, In o a -> In o b).
    { intros a b c Ca Cb Ka Kb o Ho.
      assert (Hk : In (key_of_out sl o) (map (key_of_out sl) b)) by (apply Kb; apply Ka; apply in_map; auto).
      apply in_map_iff in Hk. destruct Hk as [o' [E Ho']].
      assert (o' = o); [|subst; auto].
      apply (cells_det sl fs (group_of sl fs base (key_of_out sl o))); auto.
      rewrite <- E. auto. }
    apply NoDup_Permutation.
    + eapply nodup_map_inv; eauto.
    + eapply nodup_map_inv; eauto.
    + intros o. split.
      * apply (Sub out out' _ S3 S3' S2 S2').
      * apply (Sub out' out _ S3' S3 S2' S2).
Qed.

Theorem agg_perm_invariant sl gb fs base base' :
  no_avg sl = true -> agg_typed sl gb fs base = true -> Permutation base base' ->
  exists out out', agg_run sl gb fs base = Ok out /\ agg_run sl gb fs base' = Ok out' /\ Permutation out out'.
Proof.
  intros N AT P.
  assert (AT' : agg_typed sl gb fs base' = true) by (rewrite <- (agg_typed_perm _ _ _ _ _ P); exact AT).
  destruct (agg_no_avg_full _ _ _ _ N AT) as [out [E S]].
  destruct (agg_no_avg_full _ _ _ _ N AT') as [out' [E' S']].
  exists out, out'. repeat split; auto.
  apply (agg_spec_unique sl gb fs base); auto.
  apply (agg_spec_perm sl gb fs base base'); auto. apply agg_typed_typed. exact AT.
Qed.

Lemma Forall2_impl' {A B} (P Q : A -> B -> Prop) l l' :
  (forall a b, P a b -> Q a b) -> Forall2 P l l' -> Forall2 Q l l'.
Proof. intros H. induction 1; constructor; auto. Qed.

Theorem agg_avg_two_rows sl gb fs base :
  agg_typed sl gb fs base = true ->
  exists out, agg_run sl gb fs base = Ok out /\
    forall o, In o out -> (List.length (grp_for sl gb fs base o) <= 2)%nat ->
      Forall2 (fun d v => cell_ok d fs (grp_for sl gb fs base o) v = true) sl o.
Proof.
  intros H. destruct (agg_cells_correct sl gb fs base H) as [out [E C]].
  exists out. split; auto. intros o Ho L. eapply Forall2_impl'; [|exact (C o Ho)]. cbn. auto.
Qed.

(* the witness of the known finding: AVG over [1;0;0] is 1, the mean is 1/3 *)
Definition w_sl : list derivedcol := [mkDC (SPAvg (mkCol "" "v")) ""].
Definition w_fs : list field := [("t"%string, "v"%string)].
Definition w_base : list row := [[VInt 1]; [VInt 0]; [VInt 0]].

Lemma full_statement_refuted :
  ~ (forall sl gb fs base, agg_typed sl gb fs base = true ->
       exists out, agg_run sl gb fs base = Ok out /\ AggSpec sl gb fs base out).
Proof.
  intros H. destruct (H w_sl [] w_fs w_base) as [out [E S]]; [vm_compute; reflexivity|].
  assert (R : agg_run w_sl [] w_fs w_base = Ok [[VInt 1]]) by (vm_compute; reflexivity).
  rewrite R in E. inversion E; subst out.
  apply check_agg_iff in S. vm_compute in S. discriminate.
Qed.
