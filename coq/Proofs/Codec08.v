(* Lemmas for C08 beyond the codec round trip of Proofs/TupleProofs.v: the size of an encoded
   row (= TableSpec.row_size), the refusal of rows over the 400-byte limit by BTree.insert /
   RelationService.Insert / RelationService.Update, and: a flush does not change what any scan
   returns (it only clears dirty flags). *)
From Coq Require Import Arith Lia Bool List NArith ZArith String.
From Mkdb Require Import Spec.HistObs Proofs.BytesProofs Proofs.TupleProofs Proofs.TreeProofs
                         Proofs.StoreInv Proofs.Atomic.
Import ListNotations.
Local Open Scope N_scope.
Local Notation length := List.length.

(* ---------- size law ---------- *)
Lemma encode_row_direct_length sch : forall r,
  length (encode_row_direct sch r) = row_size sch r.
Proof.
  induction sch as [|fd sr IH]; intros [|v vr]; try reflexivity.
  cbn [encode_row_direct row_size].
  destruct v as [z|str|b|]; rewrite ?app_length, IH; cbn [value_size enc_value enc_bool length].
  - destruct (fd_type fd); rewrite le_enc_length; lia.
  - rewrite app_length, le_enc_length, string_length_bytes. lia.
  - lia.
  - lia.
Qed.

Lemma tuple_of_get sch : forall r fd v,
  NoDup (names sch) -> In (fd, v) (combine sch r) -> tget (fd_name fd) (tuple_of sch r) = v.
Proof.
  induction sch as [|fd0 sr IH]; intros r fd v Hnd Hin; [destruct r; contradiction|].
  destruct r as [|v0 vr]; [contradiction|]. inversion Hnd as [|? ? Hn Hnd']; subst.
  cbn [combine] in Hin. cbn [tuple_of tget]. destruct Hin as [E|Hin].
  - inversion E; subst. rewrite String.eqb_refl. reflexivity.
  - destruct (String.eqb_spec (fd_name fd0) (fd_name fd)) as [E|E].
    + exfalso. apply Hn. rewrite E. apply in_map. eapply in_combine_l; eauto.
    + apply IH; auto.
Qed.

Lemma encode_tuple_of_row sch r :
  NoDup (names sch) -> row_fits sch r = true ->
  encode_tuple sch (tuple_of sch r) = Ok (encode_row_direct sch r).
Proof.
  intros Hnd Hfit. apply (encode_tuple_of sch r (tuple_of sch r) Hnd Hfit).
  intros fd v Hin. apply tuple_of_get; assumption.
Qed.

Lemma encode_tuple_size sch r bs :
  NoDup (names sch) -> row_fits sch r = true ->
  encode_tuple sch (tuple_of sch r) = Ok bs -> length bs = row_size sch r.
Proof.
  intros Hnd Hfit H. rewrite (encode_tuple_of_row sch r Hnd Hfit) in H. inversion H; subst.
  apply encode_row_direct_length.
Qed.

Lemma MV_is_max_row_size : MV = max_row_size.
Proof. vm_compute. reflexivity. Qed.

Lemma row_fits_row_err sch : forall r, row_fits sch r = true -> row_err sch r = None.
Proof.
  induction sch as [|fd sr IH]; intros [|v vr] H; try reflexivity; try discriminate.
  cbn [row_fits] in H. apply andb_true_iff in H as [Hv Hr]. cbn [row_err].
  rewrite (IH vr Hr).
  destruct v as [z|str|b|], (fd_type fd); cbn in Hv |- *; try discriminate; try reflexivity.
  unfold TableSpec.int32_ok. unfold Tuple.int32_ok in Hv. rewrite Hv. reflexivity.
Qed.

(* the size test of the code (leaf cell value limit, on the encoded bytes) is the size test of
   the specification (check_row, on the row) *)
Lemma size_test_agrees sch r bs :
  NoDup (names sch) -> row_fits sch r = true ->
  encode_tuple sch (tuple_of sch r) = Ok bs ->
  check_row sch r = if (MV <? length bs)%nat then Some ERowTooLarge else None.
Proof.
  intros Hnd Hfit H. unfold check_row. rewrite (row_fits_row_err sch r Hfit).
  rewrite (encode_tuple_size sch r bs Hnd Hfit H), MV_is_max_row_size. reflexivity.
Qed.

(* ---------- refusal by size ---------- *)
Lemma tree_insert_refuses_size t k lsn bs free :
  (MV < length bs)%nat -> key_exists k t = false -> on_right_spine k t = true ->
  tree_insert ML MI PS MV t k lsn bs free = TErr RowTooLarge.
Proof.
  intros Hlen Hk Hs. unfold tree_insert. rewrite Hk, Hs. cbn [negb].
  destruct (Nat.ltb_spec MV (length bs)); [reflexivity | lia].
Qed.

Lemma tree_insert_refuses_size_fresh t k lsn bs free :
  (MV < length bs)%nat -> Forall (fun x => x < k) (tree_keys t) ->
  tree_insert ML MI PS MV t k lsn bs free = TErr RowTooLarge.
Proof.
  intros Hlen Hk. apply tree_insert_refuses_size; [exact Hlen | apply key_exists_false; exact Hk |].
  apply on_right_spine_true. unfold tree_keys in Hk. apply Forall_app in Hk as [Hk _]. exact Hk.
Qed.

Definition bumped (s : store) : store :=
  mkStore (forest s) (lastKey s + 1) (ptRoot s) (nextFree s) (nextLSN s + 1).

Lemma bumped_same_pages s : same_pages s (bumped s).
Proof. unfold same_pages, bumped. cbn [forest ptRoot nextFree lastKey nextLSN]. repeat split; lia. Qed.

Lemma bt_insert_refuses_size s root t bs :
  get_tree s root = Ok t -> Forall (fun x => x <= lastKey s) (tree_keys t) ->
  (MV < length bs)%nat ->
  bt_insert s root bs = (bumped s, Err ERowTooLarge).
Proof.
  intros Ht Hk Hlen. unfold bt_insert. cbv zeta. rewrite Ht.
  rewrite tree_insert_refuses_size_fresh; [reflexivity | exact Hlen |].
  eapply Forall_impl; [|exact Hk]. cbn. intros; lia.
Qed.

Lemma get_tree_in s root t : get_tree s root = Ok t -> In t (forest s).
Proof.
  unfold get_tree, find_root. destruct (find _ (forest s)) as [t0|] eqn:E; [|discriminate].
  intros H. inversion H; subst. apply find_some in E. apply E.
Qed.

Lemma bt_insert_refuses_size_inv s root t bs :
  SInv s -> get_tree s root = Ok t -> (MV < length bs)%nat ->
  bt_insert s root bs = (bumped s, Err ERowTooLarge).
Proof.
  intros [_ _ Hk] Ht Hlen. apply (bt_insert_refuses_size s root t bs Ht); [|exact Hlen].
  rewrite Forall_forall in Hk. apply Hk. eapply get_tree_in; eauto.
Qed.

(* RelationService.Insert: the row passes every other check but its encoding is too long *)
Lemma st_insert_refuses_size s name cols vals off bs :
  SInv s -> is_sys_table name = false ->
  ins_precheck s name cols vals = Ok (off, bs) -> (MV < length bs)%nat ->
  st_insert s name cols vals = (bumped s, Err ERowTooLarge).
Proof.
  intros Hinv Hsys Hp Hlen. rewrite st_insert_unfold, Hsys, Hp.
  destruct (ins_precheck_tree _ _ _ _ _ _ Hp) as [t Ht].
  rewrite (bt_insert_refuses_size_inv s off t bs Hinv Ht Hlen). reflexivity.
Qed.

(* RelationService.Update: the re-encoded row is too long *)
Lemma st_update_refuses_size s name rowid cols vals off t sch ls pg c m bs :
  is_sys_table name = false ->
  rel_offset s name = Ok off -> get_tree s off = Ok t -> rel_schema s name = Ok sch ->
  scan_right_leaves t = TOk ls ->
  find (fun lc => N.eqb (lc_key (snd lc)) rowid && negb (lc_deleted (snd lc)))
       (flat_map (fun l => map (fun c => (t_off l, c)) (leaf_cells l)) ls) = Some (pg, c) ->
  decode_tuple sch (lc_val c) [] = Ok m ->
  cols_err (map fd_name sch) cols [] = None ->     (* the SET list names columns of the table, each once *)
  encode_tuple sch (zip_set cols vals m) = Ok bs ->
  (MV < length bs)%nat ->
  st_update s name rowid cols vals = (s, Err ERowTooLarge).
Proof.
  intros Hsys Ho Ht Hs Hl Hf Hd Hce He Hlen. unfold st_update, upd_bad_cols. rewrite Hsys.
  rewrite Ho. cbn [bind]. rewrite Ht. cbn [bind]. rewrite Hs, Hce. unfold st_update0. rewrite Hsys.
  rewrite Ho. cbn [bind]. rewrite Ht. cbn [bind]. rewrite Hs. cbn [bind]. rewrite Hl. cbn [of_tres bind].
  rewrite Hf, Hd. cbn [bind]. rewrite He.
  destruct (Nat.ltb_spec MV (length bs)); [reflexivity | lia].
Qed.

(* ---------- flush changes no scan ---------- *)
Definition tres_map {A B} (f : A -> B) (r : tres A) : tres B :=
  match r with TOk a => TOk (f a) | TErr e => TErr e end.

Lemma clean_leaf_cells l : leaf_cells (clean_tree l) = leaf_cells l.
Proof. destruct l; [reflexivity | rewrite clean_tree_node; reflexivity]. Qed.

Lemma find_off_map_clean off (L : list tree) :
  find (fun l => N.eqb (t_off l) off) (map clean_tree L) =
  option_map clean_tree (find (fun l => N.eqb (t_off l) off) L).
Proof.
  induction L as [|x r IH]; [reflexivity|]. cbn [map find]. rewrite clean_off.
  destruct (N.eqb (t_off x) off); [reflexivity | exact IH].
Qed.

Lemma clean_find_leaf off t : find_leaf off (clean_tree t) = option_map clean_tree (find_leaf off t).
Proof. unfold find_leaf. rewrite clean_leaves. apply find_off_map_clean. Qed.

Lemma clean_leftmost t : leftmost (clean_tree t) = option_map clean_tree (leftmost t).
Proof.
  induction t as [off l d cells hl hr ls rs | off l d kids rgt IHk IHr] using tree_ind2; [reflexivity|].
  rewrite clean_tree_node. cbn [leftmost]. destruct kids as [|[s c] r]; [reflexivity|].
  cbn [map fst snd]. inversion IHk as [|? ? Hc _]; subst. exact Hc.
Qed.

Lemma clean_chain_right fuel : forall root cur,
  chain_right fuel (clean_tree root) (clean_tree cur) =
  tres_map (map clean_tree) (chain_right fuel root cur).
Proof.
  induction fuel as [|f IH]; intros root cur; [reflexivity|].
  destruct cur as [off l d cells hl hr ls rs | off l d kids rgt].
  - cbn [clean_tree chain_right]. destruct hr; [|reflexivity].
    rewrite clean_find_leaf. destruct (find_leaf rs root) as [nxt|]; cbn [option_map]; [|reflexivity].
    rewrite IH. destruct (chain_right f root nxt); reflexivity.
  - rewrite clean_tree_node. reflexivity.
Qed.

Lemma clean_scan_right_leaves t :
  scan_right_leaves (clean_tree t) = tres_map (map clean_tree) (scan_right_leaves t).
Proof.
  unfold scan_right_leaves. rewrite clean_leftmost, clean_leaves, map_length.
  destruct (leftmost t) as [l|]; cbn [option_map]; [apply clean_chain_right | reflexivity].
Qed.

Lemma clean_scan_right t : scan_right (clean_tree t) = scan_right t.
Proof.
  unfold scan_right. rewrite clean_scan_right_leaves.
  destruct (scan_right_leaves t) as [ls|e]; cbn [tres_map]; [|reflexivity].
  f_equal. f_equal. rewrite flat_map_concat_map, map_map, <- flat_map_concat_map.
  apply flat_map_ext. apply clean_leaf_cells.
Qed.

Lemma get_tree_flush s off :
  get_tree (flush s) off = match get_tree s off with Ok t => Ok (clean_tree t) | Err e => Err e | Panic => Panic end.
Proof.
  unfold get_tree, flush, find_root. cbn [set_forest forest]. rewrite find_off_map_clean.
  destruct (find _ (forest s)); reflexivity.
Qed.

(* the common shape "fetch the root, scan it, continue with the cells" *)
Lemma scan_flush {A} s off (k : list leafcell -> res A) :
  (do t <- get_tree (flush s) off; do cells <- of_tres (scan_right t); k cells) =
  (do t <- get_tree s off; do cells <- of_tres (scan_right t); k cells).
Proof.
  rewrite get_tree_flush. destruct (get_tree s off) as [t|e|]; cbn [bind]; try reflexivity.
  rewrite clean_scan_right. reflexivity.
Qed.

Lemma rel_offset_flush s n : rel_offset (flush s) n = rel_offset s n.
Proof. unfold rel_offset. apply (scan_flush s (ptRoot s)). Qed.

Lemma rel_schema_flush s n : rel_schema (flush s) n = rel_schema s n.
Proof.
  unfold rel_schema. rewrite rel_offset_flush.
  destruct (rel_offset s schemaTableName) as [off|e|]; cbn [bind]; try reflexivity.
  apply scan_flush.
Qed.

Lemma st_fetch_flush s n : st_fetch (flush s) n = st_fetch s n.
Proof.
  unfold st_fetch. rewrite rel_offset_flush.
  destruct (rel_offset s n) as [off|e|]; cbn [bind]; try reflexivity.
  rewrite rel_schema_flush. destruct (rel_schema s n) as [sch|e|]; cbn [bind]; try reflexivity.
  apply scan_flush.
Qed.

Lemma all_tables_flush s : all_tables (flush s) = all_tables s.
Proof. unfold all_tables. apply (scan_flush s (ptRoot s)). Qed.

Lemma fetch_all_flush s ns : fetch_all (flush s) ns = fetch_all s ns.
Proof.
  induction ns as [|n r IH]; [reflexivity|]. cbn [fetch_all]. rewrite st_fetch_flush, IH. reflexivity.
Qed.

Lemma abs_flush s : abs (flush s) = abs s.
Proof.
  unfold abs. rewrite all_tables_flush. destruct (all_tables s) as [ns|e|]; cbn [bind]; try reflexivity.
  apply fetch_all_flush.
Qed.
