(* Literals of parser output are Go values (the hypothesis `stmt_ok` of the store theorems of C18,
   Proofs/RefineMain.v: INSERT / UPDATE literals are int64 integers and strings shorter than 4 GiB).

   * Integers: Token.Val reads an INT token with strconv.Atoi, which fails outside int64
     (Parser.atoi), so EVERY integer literal of EVERY parsed statement is within int64 - no
     hypothesis (parse_int_literals_ok).
   * Strings: a string literal is the text of a STR token (reserved_word_start / TRUE / FALSE
     literals carry no text), so it is as short as the token texts are. The model's strings are
     unbounded, hence the hypothesis "every token text is shorter than 4 GiB" (true of any SQL text
     shorter than 4 GiB: the wrapper only copies or trims the raw scanner's texts).
   Developed once, over an arbitrary predicate `sok` on string literals / token texts.
   This file depends on the parser model only; `stmtok txt_ok` is identified with
   RefineMain.stmt_ok in Proofs/ParserStmtOk.v. *)
From Coq Require Import ZArith NArith String Ascii List Bool Lia.
From Mkdb Require Import Model.Value Model.Ast Model.Lexer Model.Parser Proofs.ParserShape.
Import ListNotations.
Local Open Scope list_scope.

Tactic Notation "dtk" ident(toks) "as" ident(s) ident(r) :=
  let k := fresh "k" in destruct toks as [|[k s] r]; [|destruct k]; red_post; try exact I.

(* ---- strconv.Atoi stays within int64 ---- *)
Definition int64_lit (z : Z) : bool := ((min_int64 <=? z) && (z <=? max_int64))%Z.

Lemma digits_val_nonneg s : forall acc, (0 <= acc)%Z -> (0 <= digits_val acc s)%Z.
Proof.
  induction s as [|c r IH]; intros acc Ha; cbn [digits_val]; [exact Ha|].
  destruct (digit_of c) as [d|] eqn:E; [|exact Ha]. apply IH.
  unfold digit_of in E. destruct ((48 <=? N_of_ascii c)%N && (N_of_ascii c <=? 57)%N); [|discriminate].
  injection E as <-. lia.
Qed.

Lemma magnitude_nonneg s m : magnitude s = Some m -> (0 <= m)%Z.
Proof.
  unfold magnitude. destruct s as [|c r]; [discriminate|].
  destruct (all_digits (String c r)); [|discriminate].
  destruct (19 <? String.length (strip_zeros (String c r)))%nat; [discriminate|].
  intros E. injection E as <-. apply digits_val_nonneg. lia.
Qed.

Lemma atoi_int64 s z : atoi s = Some z -> int64_lit z = true.
Proof.
  unfold atoi, int64_lit, max_int64, min_int64. destruct s as [|c r]; [discriminate|].
  destruct (Ascii.eqb c "-"); [|destruct (Ascii.eqb c "+")].
  - destruct (magnitude r) as [m|] eqn:M; [|discriminate]. apply magnitude_nonneg in M.
    destruct (m <=? - -9223372036854775808)%Z eqn:L; [|discriminate]. intros E; injection E as <-.
    apply Z.leb_le in L. apply andb_true_iff; split; apply Z.leb_le; lia.
  - destruct (magnitude r) as [m|] eqn:M; [|discriminate]. apply magnitude_nonneg in M.
    destruct (m <=? 9223372036854775807)%Z eqn:L; [|discriminate]. intros E; injection E as <-.
    apply Z.leb_le in L. apply andb_true_iff; split; apply Z.leb_le; lia.
  - destruct (magnitude (String c r)) as [m|] eqn:M; [|discriminate]. apply magnitude_nonneg in M.
    destruct (m <=? 9223372036854775807)%Z eqn:L; [|discriminate]. intros E; injection E as <-.
    apply Z.leb_le in L. apply andb_true_iff; split; apply Z.leb_le; lia.
Qed.

Section Lits.
  Variable sok : string -> bool.       (* the property of token texts / string literals *)

  Definition valok (v : value) : bool :=
    match v with VInt z => int64_lit z | VStr s => sok s | _ => true end.

  (* RefineMain.set_vals, restated *)
  Definition set_vals (sets : list (string * vexpr)) : list value :=
    map (fun sv => match snd sv with XLit v => v | _ => VNull end) sets.

  Definition stmtok (st : stmt) : bool :=
    match st with
    | SInsert _ _ rows => forallb (forallb valok) rows
    | SUpdate _ sets _ => forallb valok (set_vals sets)
    | _ => true
    end.

  Fixpoint toks_ok (toks : list ptok) : Prop :=
    match toks with [] => True | t :: r => sok (snd t) = true /\ toks_ok r end.

  Lemma val_of_lit t : sok (snd t) = true -> post (fun v => valok v = true) (val_of t).
  Proof.
    intros H. unfold val_of. destruct t as [k s]. cbn [fst snd] in *. destruct k; red_post; try exact I; try reflexivity.
    - destruct (atoi s) as [z|] eqn:E; red_post; [|exact I]. cbn [valok]. eapply atoi_int64; eassumption.
    - exact H.
  Qed.

  Lemma column_reference_rest toks : toks_ok toks -> post (fun x => toks_ok (snd x)) (column_reference toks).
  Proof.
    unfold column_reference. intros H. dtk toks as s r; try exact H.
    cbn [toks_ok] in H. destruct H as [_ H].
    dtk r as s1 r1; try exact H. cbn [toks_ok] in H. destruct H as [_ H].
    dtk r1 as s2 r2. cbn [snd toks_ok] in *. tauto.
  Qed.

  Definition vexpr_ok (v : vexpr) : Prop := match v with XLit l => valok l = true | XCol _ => True end.

  Lemma value_expression_lits toks :
    toks_ok toks -> post (fun x => vexpr_ok (fst x) /\ toks_ok (snd x)) (value_expression toks).
  Proof.
    unfold value_expression. intros H. destruct toks as [|t r]; red_post; [exact I|].
    destruct (is_literal (fst t)); red_post.
    - cbn [toks_ok] in H. destruct H as [Ht Hr]. usel (val_of_lit t Ht) as v Hv. cbn [fst snd vexpr_ok]. tauto.
    - usel (column_reference_rest (t :: r) H) as [[c|] r'] Hc; cbn [fst snd vexpr_ok] in *. tauto.
  Qed.

  Lemma set_vals_app a b : set_vals (a ++ b) = set_vals a ++ set_vals b.
  Proof. unfold set_vals. apply map_app. Qed.

  Lemma update_set_loop_lits : forall fuel acc toks,
    forallb valok (set_vals acc) = true -> toks_ok toks ->
    post (fun x => forallb valok (set_vals (fst x)) = true) (update_set_loop fuel acc toks).
  Proof.
    induction fuel as [|f IH]; intros acc toks Ha Ht; [exact I|].
    cbn [update_set_loop]. dtk toks as c r; try exact Ha.
    cbn [toks_ok] in Ht. destruct Ht as [_ Ht].
    dtk r as s1 r1. cbn [toks_ok] in Ht. destruct Ht as [_ Ht].
    usel (value_expression_lits r1 Ht) as [v r2] Hv. cbn [fst snd] in Hv. destruct Hv as [Hv Hr2].
    assert (Hacc : forallb valok (set_vals (acc ++ [(c, v)])) = true).
    { rewrite set_vals_app, forallb_app, Ha. cbn. destruct v as [l|cr]; cbn in *; [rewrite Hv|]; reflexivity. }
    dtk r2 as s2 r3; try exact Hacc.
    cbn [toks_ok] in Hr2. exact (IH _ _ Hacc (proj2 Hr2)).
  Qed.

  Lemma insert_cols_loop_rest : forall fuel acc toks,
    toks_ok toks -> post (fun x => toks_ok (snd x)) (insert_cols_loop fuel acc toks).
  Proof.
    induction fuel as [|f IH]; intros acc toks Ht; [exact I|].
    cbn [insert_cols_loop]. dtk toks as c r; try exact Ht.
    cbn [toks_ok] in Ht. destruct Ht as [_ Ht].
    dtk r as s1 r1; try exact Ht. cbn [toks_ok] in Ht. exact (IH _ _ (proj2 Ht)).
  Qed.

  Lemma insert_vals_loop_lits : forall fuel acc toks,
    forallb valok acc = true -> toks_ok toks ->
    post (fun x => forallb valok (fst x) = true /\ toks_ok (snd x)) (insert_vals_loop fuel acc toks).
  Proof.
    induction fuel as [|f IH]; intros acc toks Ha Ht; [exact I|].
    cbn [insert_vals_loop]. destruct toks as [|t r]; red_post; [cbn [fst snd]; tauto|].
    destruct (is_literal (fst t)); red_post; [|cbn [fst snd]; tauto].
    cbn [toks_ok] in Ht. destruct Ht as [Ht Hr].
    usel (val_of_lit t Ht) as v Hv.
    assert (Hacc : forallb valok (acc ++ [v]) = true).
    { rewrite forallb_app, Ha. cbn. rewrite Hv. reflexivity. }
    dtk r as s r1; try (cbn [fst snd]; split; [exact Hacc | exact Hr]).
    cbn [toks_ok] in Hr. exact (IH _ _ Hacc (proj2 Hr)).
  Qed.

  Lemma insert_rows_loop_lits : forall fuel acc toks,
    forallb (forallb valok) acc = true -> toks_ok toks ->
    post (fun x => forallb (forallb valok) (fst x) = true) (insert_rows_loop fuel acc toks).
  Proof.
    induction fuel as [|f IH]; intros acc toks Ha Ht; [exact I|].
    cbn [insert_rows_loop]. dtk toks as s r; try exact Ha.
    cbn [toks_ok] in Ht. destruct Ht as [_ Ht].
    usel (insert_vals_loop_lits (S f) [] r eq_refl Ht) as [vals r1] Hv. cbn [fst snd] in Hv. destruct Hv as [Hv Hr1].
    assert (Hacc : forallb (forallb valok) (acc ++ [vals]) = true).
    { rewrite forallb_app, Ha. cbn. rewrite Hv. reflexivity. }
    dtk r1 as s1 r2. cbn [toks_ok] in Hr1. destruct Hr1 as [_ Hr2].
    dtk r2 as s2 r3; try exact Hacc. cbn [toks_ok] in Hr2. exact (IH _ _ Hacc (proj2 Hr2)).
  Qed.

  Definition stmt_post (st : stmt) : Prop := stmtok st = true.

  Lemma insert_lits fuel toks : toks_ok toks -> post stmt_post (insert_ fuel toks).
  Proof.
    intros Ht. unfold insert_. dtk toks as s r. cbn [toks_ok] in Ht. destruct Ht as [_ Ht].
    dtk r as tbl r1. cbn [toks_ok] in Ht. destruct Ht as [_ Ht].
    assert (Hc : post (fun x => toks_ok (snd x))
      (match r1 with
       | (KLparen, _) :: r' =>
           let* (cs, r'') := insert_cols_loop fuel [] r' in
           match r'' with
           | (KRparen, _) :: r3 => POk (cs, r3)
           | _ => PErr EUnexpected
           end
       | _ => POk ([], r1)
       end)).
    { dtk r1 as s2 r2; try exact Ht. cbn [toks_ok] in Ht.
      usel (insert_cols_loop_rest fuel [] r2 (proj2 Ht)) as [cs r''] Hr. cbn [snd] in Hr.
      dtk r'' as s3 r3. cbn [snd toks_ok] in *. tauto. }
    cbv beta iota delta [post Parser.bind] in Hc. revert Hc.
    match goal with |- match ?c with _ => _ end -> _ => destruct c as [[cols r2]| | |] end;
      red_post; try (intros _; exact I); intros Hr2. cbn [snd] in Hr2.
    dtk r2 as s2 r3. cbn [toks_ok] in Hr2.
    usel (insert_rows_loop_lits fuel [] r3 eq_refl (proj2 Hr2)) as [rows r4] Hrows.
    exact Hrows.
  Qed.

  Lemma update_lits fuel toks : toks_ok toks -> post stmt_post (update_ fuel toks).
  Proof.
    intros Ht. unfold update_. dtk toks as tbl r. cbn [toks_ok] in Ht. destruct Ht as [_ Ht].
    dtk r as s1 r1. cbn [toks_ok] in Ht.
    usel (update_set_loop_lits fuel [] r1 eq_refl (proj2 Ht)) as [sets r2] Hs. cbn [fst] in Hs.
    destruct (where_clause fuel r2) as [[w r3]| | |]; red_post; try exact I. exact Hs.
  Qed.

  (* the other statement kinds carry no literal that stmt_ok constrains *)
  Ltac triv := brute; try exact I; reflexivity.

  Lemma select_lits fuel toks : post stmt_post (select_ fuel toks).
  Proof. unfold select_. triv. Qed.

  Lemma create_lits fuel toks : post stmt_post (create_ fuel toks).
  Proof. unfold create_, create_table. triv. Qed.

  Lemma show_lits toks : post stmt_post (show_ toks).
  Proof. unfold show_. triv. Qed.

  Lemma use_lits toks : post stmt_post (use_ toks).
  Proof. unfold use_. triv. Qed.

  Lemma delete_lits fuel toks : post stmt_post (delete_ fuel toks).
  Proof. unfold delete_. triv. Qed.

  Lemma parse_f_lits fuel toks : toks_ok toks -> post stmt_post (parse_f fuel toks).
  Proof.
    intros Ht. unfold parse_f. dtk toks as s r; cbn [toks_ok] in Ht; destruct Ht as [_ Ht].
    - apply create_lits.
    - apply delete_lits.
    - apply insert_lits; exact Ht.
    - apply select_lits.
    - apply show_lits.
    - apply update_lits; exact Ht.
    - apply use_lits.
  Qed.

  Lemma classify_ok (ts : list token) :
    sok EmptyString = true -> forallb (fun t => sok (t_text t)) ts = true -> toks_ok (map classify ts).
  Proof.
    intros H0. induction ts as [|t r IH]; cbn [forallb map toks_ok]; [trivial|].
    intros H. apply andb_true_iff in H as [A B]. split; [|exact (IH B)].
    unfold classify. cbn [snd]. destruct (has_text (kind_of (t_type t))); assumption.
  Qed.
End Lits.

(* ---- instance 1: no condition on strings: integer literals are within int64, unconditionally ---- *)
Definition int_lit_ok (v : value) : bool := valok (fun _ => true) v.
Definition stmt_ints_ok (st : stmt) : bool := stmtok (fun _ => true) st.

Lemma toks_ok_trivial toks : toks_ok (fun _ => true) toks.
Proof. induction toks; cbn; auto. Qed.

Theorem parse_f_int_literals_ok : forall fuel toks st,
  parse_f fuel toks = POk st -> stmt_ints_ok st = true.
Proof.
  intros fuel toks st E.
  exact (post_ok _ _ _ (parse_f_lits (fun _ => true) fuel toks (toks_ok_trivial toks)) E).
Qed.

Theorem parse_int_literals_ok : forall toks st,
  parse_tokens toks = POk st -> stmt_ints_ok st = true.
Proof. intros toks st. unfold parse_tokens, parse. apply parse_f_int_literals_ok. Qed.

Theorem pipeline_int_literals_ok : forall raws st,
  parse_pipeline raws = POk st -> stmt_ints_ok st = true.
Proof. intros raws st. unfold parse_pipeline. apply parse_int_literals_ok. Qed.

(* ---- instance 2: token texts shorter than 4 GiB: stmt_ok, the hypothesis of the store theorems ---- *)
Definition txt_ok (s : string) : bool := N.ltb (N.of_nat (String.length s)) 4294967296.

Definition tokens_short (toks : list token) : bool := forallb (fun t => txt_ok (t_text t)) toks.
Definition raws_short (raws : list rawtok) : bool := forallb (fun r => txt_ok (r_text r)) raws.

Theorem parse_literals_short : forall toks st,
  tokens_short toks = true -> parse_tokens toks = POk st -> stmtok txt_ok st = true.
Proof.
  intros toks st H E. unfold parse_tokens, parse in E.
  exact (post_ok _ _ _ (parse_f_lits txt_ok _ _ (classify_ok txt_ok toks eq_refl H)) E).
Qed.

(* the wrapper copies or trims the raw texts *)
Lemma txt_ok_le a b : (String.length a <= String.length b)%nat -> txt_ok b = true -> txt_ok a = true.
Proof. unfold txt_ok. intros L H. apply N.ltb_lt in H. apply N.ltb_lt. lia. Qed.

Lemma trim_prefix1_len q s : (String.length (trim_prefix1 q s) <= String.length s)%nat.
Proof. destruct s as [|c r]; cbn; [lia|]. destruct (Ascii.eqb c q); cbn; lia. Qed.

Lemma trim_suffix1_len q s : (String.length (trim_suffix1 q s) <= String.length s)%nat.
Proof.
  induction s as [|c r IH]; [cbn; lia|]. cbn [trim_suffix1]. destruct r as [|d r'].
  - destruct (Ascii.eqb c q); cbn; lia.
  - cbn [String.length] in *. lia.
Qed.

Lemma strip_quotes_len q s : (String.length (strip_quotes q s) <= String.length s)%nat.
Proof. unfold strip_quotes. pose proof (trim_suffix1_len q (trim_prefix1 q s)). pose proof (trim_prefix1_len q s). lia. Qed.

Lemma wrap_one_short r : txt_ok (r_text r) = true -> txt_ok (t_text (fst (wrap_one r))) = true.
Proof.
  intros H. pose proof (txt_ok_le _ _ (strip_quotes_len dquote (r_text r)) H) as Hd.
  pose proof (txt_ok_le _ _ (strip_quotes_len squote (r_text r)) H) as Hs.
  unfold wrap_one. repeat match goal with
  | |- context [match ?x with _ => _ end] =>
      lazymatch x with context [match _ with _ => _ end] => fail | _ => destruct x end
  | |- context [if ?x then _ else _] =>
      lazymatch x with context [if _ then _ else _] => fail | _ => destruct x end
  end; cbn [fst t_text]; assumption.
Qed.

Lemma wrap_short raws : raws_short raws = true -> tokens_short (wrap raws) = true.
Proof.
  assert (G : forall n raws, (length raws <= n)%nat -> raws_short raws = true -> tokens_short (wrap raws) = true).
  { induction n; intros [|r rest] Hn H; cbn [wrap]; try reflexivity; cbn [length] in Hn; try lia.
    cbn [raws_short forallb] in H. apply andb_true_iff in H as [A B].
    pose proof (wrap_one_short r A) as W. destruct (wrap_one r) as [t extra]. cbn [fst] in W.
    cbn [tokens_short forallb]. rewrite W. cbn [andb].
    destruct extra.
    - destruct rest as [|r2 rest']; [reflexivity|]. cbn [forallb] in B. apply andb_true_iff in B as [_ B].
      apply IHn; [cbn [length] in Hn; lia | exact B].
    - apply IHn; [lia | exact B]. }
  apply (G (length raws)). lia.
Qed.

Theorem pipeline_literals_short : forall raws st,
  raws_short raws = true -> parse_pipeline raws = POk st -> stmtok txt_ok st = true.
Proof.
  intros raws st H. unfold parse_pipeline. apply parse_literals_short. apply wrap_short. exact H.
Qed.
