(* C16, page-store sub-check: the reference oracle `ps_spec` (Spec/PStoreObs.v: within the
   discipline every fetch is answered with an object whose content is what the cache-less reference
   map holds, every other operation with the kind of output the model produces) accepts the model's
   own outputs on every caller-level operation list; hence "the real fileStore did what the model
   does" (ps_model_agrees) implies "the oracle accepts what it did" (ps_spec), for every capacity,
   every operation list and every observation list. No hypothesis on the case.

   The oracle keeps the list of pages the caller holds an object for: an HModify of another page
   changes nothing in the model (hrun skips it), in the Go driver, and in the oracle's reference. *)
From Coq Require Import List NArith Bool Arith Lia.
From Mkdb Require Import Model.CaseLib Model.Lru Proofs.LruProofs Model.PStore Spec.PStoreSpec
  Proofs.PStoreProofs Spec.PStoreObs.
Import ListNotations.
Open Scope N_scope.

(* ---- a fetch / allocation that the discipline admits hands out an object ---- *)
Lemma step_ok_fetch_obj s k :
  step_ok s (PFetch k) = true -> exists o c, snd (ps_step s (PFetch k)) = PObj o c.
Proof.
  unfold step_ok. cbn [ps_step].
  destruct (lru_step (ps_cache s) (OGet k)) as [c1 [ | [o|] | ]]; cbn [snd];
    try (intros _; eauto; fail);
    destruct (lru_step (ps_cache s) (OSet k (ps_next s) false)) as [c2 [[|] ev| |]]; cbn [snd];
    intros H; try discriminate; eauto.
Qed.

Lemma step_ok_alloc_obj s k c :
  step_ok s (PAlloc k c) = true -> exists o, snd (ps_step s (PAlloc k c)) = PObj o c.
Proof.
  unfold step_ok. cbn [ps_step].
  destruct (lru_step (ps_cache s) (OSet k (ps_next s) false)) as [c2 [[|] ev| |]]; cbn [snd];
    intros H; try discriminate; eauto.
Qed.

Lemma modify_out s k o c : snd (ps_step s (PModify k o c)) = PUnit.
Proof. reflexivity. Qed.

Lemma flush_out s ord : snd (ps_step s (PFlush ord)) = PUnit.
Proof. cbn [ps_step]. destruct (fold_left _ _ _) as [c f]. reflexivity. Qed.

(* ---- the objects the caller holds (model: a map page -> object; oracle: the list of pages) ---- *)
Definition holds (heldk : list N) (held : amap) : Prop :=
  forall k, is_held k heldk = match aget k held with Some _ => true | None => false end.

Lemma holds_aset heldk held k o : holds heldk held -> holds (k :: heldk) (aset k o held).
Proof.
  intros H k'. unfold is_held. cbn [existsb]. fold (is_held k' heldk). rewrite (H k').
  destruct (N.eqb_spec k' k) as [->|Hne].
  - rewrite aget_aset_same. reflexivity.
  - rewrite aget_aset_other by congruence. reflexivity.
Qed.

(* ---- one caller-level operation: translated to a store operation, or skipped ---- *)
Definition pop_of (held : amap) (h : hop) : option pop :=
  match h with
  | HFetch k => Some (PFetch k)
  | HAlloc k c => Some (PAlloc k c)
  | HModify k c => match aget k held with Some o => Some (PModify k o c) | None => None end
  | HFlush ord => Some (PFlush ord)
  end.

Lemma hrun_some s held h op r :
  pop_of held h = Some op ->
  let s1 := fst (ps_step s op) in
  let out := snd (ps_step s op) in
  let held1 := match h, out with
               | HFetch k, PObj o _ | HAlloc k _, PObj o _ => aset k o held
               | _, _ => held
               end in
  hrun s held (h :: r) = (op :: fst (hrun s1 held1 r), out :: snd (hrun s1 held1 r)).
Proof.
  intros E. unfold pop_of in E. cbn [hrun]. rewrite E. destruct (ps_step s op) as [s1 out]. cbn [fst snd].
  destruct (hrun s1 _ r) as [ps os]. reflexivity.
Qed.

Lemma hrun_none s held h r :
  pop_of held h = None ->
  hrun s held (h :: r) = (fst (hrun s held r), PUnit :: snd (hrun s held r)).
Proof.
  intros E. unfold pop_of in E. cbn [hrun]. rewrite E. destruct (hrun s held r) as [ps os]. reflexivity.
Qed.

(* the oracle's reference map and held list after one operation *)
Definition href_step (m : amap) (heldk : list N) (h : hop) : amap :=
  match h with
  | HAlloc k c => aset k c m
  | HModify k c => if is_held k heldk then aset k c m else m
  | _ => m
  end.
Definition held_step (heldk : list N) (h : hop) : list N :=
  match h with HFetch k | HAlloc k _ => k :: heldk | _ => heldk end.
Definition out_ok (m : amap) (h : hop) (o : pout) : bool :=
  match h, o with
  | HFetch k, PObj _ c => N.eqb c (ref_get k m)
  | HAlloc _ c, PObj _ c' => N.eqb c' c
  | HModify _ _, PUnit | HFlush _, PUnit => true
  | _, _ => false
  end.

Lemma href_ok_cons m heldk h r o ro :
  href_ok m heldk (h :: r) (o :: ro) =
  out_ok m h o && href_ok (href_step m heldk h) (held_step heldk h) r ro.
Proof. reflexivity. Qed.

(* ---- the oracle accepts every output list that agrees with the model's, from any state that
   satisfies the invariant of C16 ---- *)
Lemma href_accepts_model ops : forall s held m pend heldk obs,
  PInv s m pend -> holds heldk held ->
  ok_run s pend (fst (hrun s held ops)) = true ->
  list_eqb pout_eqb (snd (hrun s held ops)) obs = true ->
  href_ok m heldk ops obs = true.
Proof.
  induction ops as [|h r IH]; intros s held m pend heldk obs HI Hh Hok Hag.
  - cbn in Hag. destruct obs; [reflexivity | discriminate].
  - destruct (pop_of held h) as [op|] eqn:Eop.
    + (* a store operation *)
      assert (Eref : ref_step m op = href_step m heldk h).
      { destruct h as [k|k c|k c|ord]; cbn [pop_of] in Eop; try (inversion Eop; subst; reflexivity).
        cbn [href_step]. rewrite (Hh k). destruct (aget k held) as [o|]; [|discriminate].
        inversion Eop; subst. reflexivity. }
      rewrite (hrun_some s held h op r Eop) in Hok, Hag. cbn [fst snd] in Hok, Hag.
      cbn [ok_run] in Hok. apply andb_true_iff in Hok as [Hok Hrest]. apply andb_true_iff in Hok as [Hso Hres].
      rewrite forallb_forall in Hres.
      pose proof (step_inv s m pend op HI Hso Hres) as H1. rewrite Eref in H1.
      destruct obs as [|o ro]; [cbn in Hag; discriminate|].
      cbn [list_eqb] in Hag. apply andb_true_iff in Hag as [Ho Hag].
      rewrite href_ok_cons. apply andb_true_iff.
      destruct h as [k|k c|k c|ord]; cbn [pop_of] in Eop.
      * (* fetch: an object holding the reference content *)
        inversion Eop; subst op. destruct (step_ok_fetch_obj s k Hso) as (o1 & c1 & E1).
        pose proof (fetch_returns_view s k) as Hf. rewrite E1 in Hf, Ho, Hrest, Hag.
        split.
        -- destruct o as [o' c'| |]; cbn [pout_eqb] in Ho; try discriminate.
           apply N.eqb_eq in Ho. subst c'. cbn [out_ok]. apply N.eqb_eq. rewrite Hf. apply (pi_view _ _ _ HI).
        -- apply (IH _ _ _ _ _ ro H1 (holds_aset heldk held k o1 Hh)); auto.
      * (* allocation: an object holding the content given *)
        inversion Eop; subst op. destruct (step_ok_alloc_obj s k c Hso) as (o1 & E1).
        rewrite E1 in Ho, Hrest, Hag. split.
        -- destruct o as [o' c'| |]; cbn [pout_eqb] in Ho; try discriminate.
           apply N.eqb_eq in Ho. subst c'. cbn [out_ok]. apply N.eqb_refl.
        -- apply (IH _ _ _ _ _ ro H1 (holds_aset heldk held k o1 Hh)); auto.
      * (* modification through a held object *)
        destruct (aget k held) as [ob|]; [|discriminate]. inversion Eop; subst op.
        rewrite modify_out in Ho. split.
        -- destruct o; cbn [pout_eqb] in Ho; try discriminate. reflexivity.
        -- apply (IH _ _ _ _ _ ro H1 Hh); auto.
      * (* flush *)
        inversion Eop; subst op. rewrite flush_out in Ho. split.
        -- destruct o; cbn [pout_eqb] in Ho; try discriminate. reflexivity.
        -- apply (IH _ _ _ _ _ ro H1 Hh); auto.
    + (* a modification of a page the caller holds no object for: skipped by model and oracle *)
      destruct h as [k|k c|k c|ord]; cbn [pop_of] in Eop; try discriminate.
      assert (Enh : is_held k heldk = false).
      { rewrite (Hh k). destruct (aget k held); [discriminate | reflexivity]. }
      rewrite (hrun_none s held (HModify k c) r) in Hok, Hag by (cbn [pop_of]; exact Eop).
      cbn [fst snd] in Hok, Hag.
      destruct obs as [|o ro]; [cbn in Hag; discriminate|].
      cbn [list_eqb] in Hag. apply andb_true_iff in Hag as [Ho Hag].
      rewrite href_ok_cons. apply andb_true_iff. split.
      * destruct o; cbn [pout_eqb] in Ho; try discriminate. reflexivity.
      * cbn [href_step held_step]. rewrite Enh. apply (IH _ _ _ _ _ ro HI Hh); auto.
Qed.

Lemma pout_list_refl l : list_eqb pout_eqb l l = true.
Proof.
  induction l as [|a l IH]; cbn; [reflexivity|]. rewrite IH, andb_true_r.
  destruct a; cbn; auto. apply N.eqb_refl.
Qed.

(* the oracle accepts the model's own outputs *)
Theorem oracle_accepts_model : forall cap ops,
  ps_spec (cap, ops, snd (hrun (ps_init cap) [] ops)) = true.
Proof.
  intros cap ops. unfold ps_spec.
  destruct (in_discipline (cap, ops, snd (hrun (ps_init cap) [] ops))) eqn:Ed; [|reflexivity].
  cbn [negb orb]. unfold in_discipline in Ed.
  apply (href_accepts_model ops (ps_init cap) [] [] [] []); auto.
  - apply PInv_init.
  - intros k. reflexivity.
  - apply pout_list_refl.
Qed.

(* "PM = [] implies PS = []" for one case *)
Theorem agreement_implies_acceptance : forall c : pcase,
  ps_model_agrees c = true -> ps_spec c = true.
Proof.
  intros [[cap ops] obs] Hag. unfold ps_spec, ps_model_agrees in *.
  destruct (in_discipline (cap, ops, obs)) eqn:Ed; [|reflexivity].
  cbn [negb orb] in *. unfold in_discipline in Ed.
  apply (href_accepts_model ops (ps_init cap) [] [] [] [] obs); auto.
  - apply PInv_init.
  - intros k. reflexivity.
Qed.
