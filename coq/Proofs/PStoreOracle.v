(* C16, page-store sub-check: the reference oracle `ps_spec` (Spec/PStoreObs.v: every observed
   fetch returns what the cache-less reference map holds) accepts the model's own outputs on every
   caller-level operation list that respects the discipline `ok_run`; hence "the real fileStore
   did what the model does" (ps_model_agrees) implies "the oracle accepts what it did" (ps_spec),
   for every capacity and every operation list.

   One hypothesis on the case is needed, `mods_held` (a page is modified only after a fetch or an
   allocation of it): `href_ok` applies EVERY HModify to its reference map, whereas the model
   (`hrun`) and the Go driver skip an HModify of a page for which the caller holds no object.
   `oracle_rejects_model_without_mods_held` below shows the oracle rejecting the model without it. *)
From Coq Require Import List NArith Bool Arith Lia.
From Mkdb Require Import Model.CaseLib Model.Lru Proofs.LruProofs Model.PStore Spec.PStoreSpec
  Proofs.PStoreProofs Spec.PStoreObs.
Import ListNotations.
Open Scope N_scope.

(* ---- a fetch / allocation that the discipline admits hands out an object ---- *)
Lemma step_ok_fetch_obj s k :
  step_ok s (PFetch k) = true -> exists o c, snd (ps_step s (PFetch k)) = PObj o c.
Proof.
  unfold step_ok. cbn [ps_step].
  destruct (lru_step (ps_cache s) (OGet k)) as [c1 [ | [o|] | ]]; cbn [snd];
    try (intros _; eauto; fail);
    destruct (lru_step (ps_cache s) (OSet k (ps_next s) false)) as [c2 [[|] ev| |]]; cbn [snd];
    intros H; try discriminate; eauto.
Qed.

Lemma step_ok_alloc_obj s k c :
  step_ok s (PAlloc k c) = true -> exists o c', snd (ps_step s (PAlloc k c)) = PObj o c'.
Proof.
  unfold step_ok. cbn [ps_step].
  destruct (lru_step (ps_cache s) (OSet k (ps_next s) false)) as [c2 [[|] ev| |]]; cbn [snd];
    intros H; try discriminate; eauto.
Qed.

(* ---- the objects the caller holds ---- *)
Definition holds (seen : list N) (held : amap) : Prop :=
  forall k, In k seen -> aget k held <> None.

Lemma holds_aset seen held k o : holds seen held -> holds (k :: seen) (aset k o held).
Proof.
  intros H k' [<-|Hin].
  - rewrite aget_aset_same. discriminate.
  - destruct (N.eq_dec k k') as [<-|Hne]; [rewrite aget_aset_same; discriminate|].
    rewrite aget_aset_other by exact Hne. apply H. exact Hin.
Qed.

Lemma existsb_eqb_In k l : existsb (N.eqb k) l = true -> In k l.
Proof.
  intros H. apply existsb_exists in H as (x & Hin & E). apply N.eqb_eq in E. subst. exact Hin.
Qed.

(* ---- one caller-level operation that is translated to a store operation ---- *)
Lemma hrun_some s held h op r :
  match h with
  | HFetch k => Some (PFetch k)
  | HAlloc k c => Some (PAlloc k c)
  | HModify k c => match aget k held with Some o => Some (PModify k o c) | None => None end
  | HFlush ord => Some (PFlush ord)
  end = Some op ->
  let s1 := fst (ps_step s op) in
  let out := snd (ps_step s op) in
  let held1 := match h, out with
               | HFetch k, PObj o _ | HAlloc k _, PObj o _ => aset k o held
               | _, _ => held
               end in
  hrun s held (h :: r) = (op :: fst (hrun s1 held1 r), out :: snd (hrun s1 held1 r)).
Proof.
  intros E. cbn [hrun]. rewrite E. destruct (ps_step s op) as [s1 out]. cbn [fst snd].
  destruct (hrun s1 _ r) as [ps os]. reflexivity.
Qed.

(* the oracle's reference map moves like the reference of C16 on a translated operation *)
Definition href_step (m : amap) (h : hop) : amap :=
  match h with HAlloc k c => aset k c m | HModify k c => aset k c m | _ => m end.

Lemma href_ok_cons m h r o ro :
  href_ok m (h :: r) (o :: ro) =
  (match h, o with HFetch k, PObj _ c => N.eqb c (ref_get k m) | _, _ => true end) &&
  href_ok (href_step m h) r ro.
Proof. reflexivity. Qed.

(* ---- the oracle accepts every output list that agrees with the model's, from any state that
   satisfies the invariant of C16 ---- *)
Lemma href_accepts_model ops : forall s held m pend seen obs,
  PInv s m pend -> holds seen held ->
  mods_follow_fetch seen ops = true ->
  ok_run s pend (fst (hrun s held ops)) = true ->
  list_eqb pout_eqb (snd (hrun s held ops)) obs = true ->
  href_ok m ops obs = true.
Proof.
  induction ops as [|h r IH]; intros s held m pend seen obs HI Hh Hm Hok Hag.
  - cbn in Hag. destruct obs; [reflexivity | discriminate].
  - (* every operation is translated: a modify finds its object *)
    assert (Hop : exists op,
      match h with
      | HFetch k => Some (PFetch k)
      | HAlloc k c => Some (PAlloc k c)
      | HModify k c => match aget k held with Some o => Some (PModify k o c) | None => None end
      | HFlush ord => Some (PFlush ord)
      end = Some op /\ ref_step m op = href_step m h).
    { destruct h as [k|k c|k c|ord]; cbn [href_step]; try (eexists; split; reflexivity).
      cbn [mods_follow_fetch] in Hm. apply andb_true_iff in Hm as [Hin _].
      apply existsb_eqb_In in Hin. specialize (Hh k Hin).
      destruct (aget k held) as [o|]; [|congruence]. eexists; split; reflexivity. }
    destruct Hop as (op & Eop & Eref).
    rewrite (hrun_some s held h op r Eop) in Hok, Hag. cbn [fst snd] in Hok, Hag.
    cbn [ok_run] in Hok. apply andb_true_iff in Hok as [Hok Hrest]. apply andb_true_iff in Hok as [Hso Hres].
    rewrite forallb_forall in Hres.
    pose proof (step_inv s m pend op HI Hso Hres) as H1. rewrite Eref in H1.
    destruct obs as [|o ro]; [cbn in Hag; discriminate|].
    cbn [list_eqb] in Hag. apply andb_true_iff in Hag as [Ho Hag].
    rewrite href_ok_cons. apply andb_true_iff. split.
    + (* what this step returned *)
      destruct h as [k|k c|k c|ord]; try (destruct o; reflexivity).
      inversion Eop; subst op. destruct o as [o' c'| |]; try reflexivity.
      pose proof (fetch_returns_view s k) as Hf.
      destruct (snd (ps_step s (PFetch k))) as [o1 c1| |]; cbn [pout_eqb] in Ho; try discriminate.
      apply N.eqb_eq in Ho. subst c'. rewrite Hf. apply N.eqb_eq. apply (pi_view _ _ _ HI).
    + (* the rest of the run *)
      destruct h as [k|k c|k c|ord].
      * inversion Eop; subst op. destruct (step_ok_fetch_obj s k Hso) as (o1 & c1 & E1).
        rewrite E1 in Hrest, Hag.
        apply (IH _ _ _ _ (k :: seen) ro H1 (holds_aset seen held k o1 Hh)); auto.
      * inversion Eop; subst op. destruct (step_ok_alloc_obj s k c Hso) as (o1 & c1 & E1).
        rewrite E1 in Hrest, Hag.
        apply (IH _ _ _ _ (k :: seen) ro H1 (holds_aset seen held k o1 Hh)); auto.
      * cbn [mods_follow_fetch] in Hm. apply andb_true_iff in Hm as [_ Hm].
        apply (IH _ _ _ _ seen ro H1 Hh); auto.
      * apply (IH _ _ _ _ seen ro H1 Hh); auto.
Qed.

(* the oracle accepts the model's own outputs *)
Theorem oracle_accepts_model : forall cap ops,
  mods_follow_fetch [] ops = true ->
  ps_spec (cap, ops, snd (hrun (ps_init cap) [] ops)) = true.
Proof.
  intros cap ops Hm. unfold ps_spec.
  destruct (in_discipline (cap, ops, snd (hrun (ps_init cap) [] ops))) eqn:Ed; [|reflexivity].
  cbn [negb orb]. unfold in_discipline in Ed.
  apply (href_accepts_model ops (ps_init cap) [] [] [] []); auto.
  - apply PInv_init.
  - intros k [].
  - generalize (snd (hrun (ps_init cap) [] ops)). clear.
    induction l as [|a l IH]; cbn; [reflexivity|]. rewrite IH, andb_true_r.
    destruct a; cbn; auto. apply N.eqb_refl.
Qed.

(* "PM = [] implies PS = []" for one case *)
Theorem agreement_implies_acceptance : forall c : pcase,
  mods_held c = true -> ps_model_agrees c = true -> ps_spec c = true.
Proof.
  intros [[cap ops] obs] Hm Hag. unfold mods_held in Hm. unfold ps_spec, ps_model_agrees in *.
  destruct (in_discipline (cap, ops, obs)) eqn:Ed; [|reflexivity].
  cbn [negb orb] in *. unfold in_discipline in Ed.
  apply (href_accepts_model ops (ps_init cap) [] [] [] [] obs); auto.
  - apply PInv_init.
  - intros k [].
Qed.

(* the hypothesis is needed: the caller "modifies" page 1 without holding an object for it (the
   model and the Go driver do nothing), then fetches it: the model reads the all-zero page, the
   oracle's reference expects 5; the run is within the discipline *)
Example oracle_rejects_model_without_mods_held :
  let ops := [HModify 1 5; HFetch 1] in
  let c := (3%nat, ops, snd (hrun (ps_init 3) [] ops)) in
  in_discipline c = true /\ ps_model_agrees c = true /\ mods_held c = false /\ ps_spec c = false /\
  snd (hrun (ps_init 3) [] ops) = [PUnit; PObj 1 0].
Proof. vm_compute. repeat split; reflexivity. Qed.
