(* Crash theory, part 4: old records are inert. `rec_inert s w`: replaying record w on store s
   changes nothing - its page carries an LSN at least w's (skipped), or w is an insert whose
   page is still the root of its tree and whose key is stored in that tree (the re-attempted
   insert fails with "key exists", which replay tolerates). The property holds for a record in
   the store right after the operation that logged it, and every later operation keeps it. *)
From Coq Require Import Arith Lia Bool List NArith Permutation.
From Mkdb Require Import Model.Engine Proofs.TreeProofs Proofs.StoreInv Proofs.CrashBase Proofs.CrashPages
  Proofs.CrashRedo Gen.Params.
Import ListNotations.
Local Open Scope N_scope.

Definition rec_inert (s : store) (w : walentry) : Prop :=
  w_lsn w < nextLSN s /\ (w_op w = OpInsert -> w_cell w <= lastKey s) /\
  exists b n, page_in (forest s) (w_page w) b n /\
    (w_lsn w <= t_lsn n \/
     (w_op w = OpInsert /\ b = true /\ In (w_cell w) (keys_of (all_cells n)))).

Definition LogInv (s : store) (log : list walentry) : Prop := Forall (rec_inert s) log.

(* ---------- a stored key makes insertKey fail with errKeyAlreadyExists ---------- *)
Lemma key_exists_leaf k t :
  existsb (fun c => N.eqb (lc_key c) k) (leaf_cells (descend k t)) = true -> key_exists k t = true.
Proof.
  induction t as [off l d cells hl hr ls rs | off l d kids rgt IHk IHr] using tree_ind2; [auto|].
  rewrite key_exists_node, descend_node. intros H. apply orb_true_iff. right.
  revert H. apply (Forall_kids_child (fun c =>
    existsb (fun c0 => N.eqb (lc_key c0) k) (leaf_cells (descend k c)) = true -> key_exists k c = true)); [|exact IHr].
  exact IHk.
Qed.

Lemma key_exists_stored t h lo hi k :
  wf ML MI h lo hi t -> In k (keys_of (all_cells t)) -> key_exists k t = true.
Proof.
  intros Hw Hin. apply in_map_iff in Hin as (c & <- & Hc).
  destruct (descend_finds ML MI t h lo hi c Hw Hc) as [A _].
  apply key_exists_leaf. apply existsb_exists. exists c. split; [exact A | apply N.eqb_refl].
Qed.

Lemma keyup_id s k : k <= lastKey s ->
  mkStore (forest s) (N.max (lastKey s) k) (ptRoot s) (nextFree s) (nextLSN s) = s.
Proof. destruct s as [f lk pt nf nl]. cbn. intros H. f_equal. lia. Qed.

(* C (one record): an inert record is a no-op of replay *)
Lemma replay_one_inert s w : Good s -> rec_inert s w -> replay_one s w = RCont s.
Proof.
  intros [[Hw Hn Hk] _] (Hlt & Hkb & b & n & Hpi & Hd). unfold replay_one.
  rewrite (bump_id s (w_lsn w) Hlt), (bkey_id s w Hkb). rewrite (find_node_complete _ _ _ _ Hn Hpi).
  destruct (N.leb_spec (w_lsn w) (t_lsn n)) as [Hle|Hgt]; [reflexivity|].
  destruct Hd as [Hd|(Hop & Hb & Hkey)]; [lia|]. rewrite Hop. subst b. cbn [negb].
  destruct Hpi as (t & Ht & Hin & Hp & Hb).
  rewrite Forall_forall in Hw, Hk. pose proof (Hw t Ht) as Wt.
  assert (n = t).
  { apply root_node_unique; [apply Wt | exact Hin |]. symmetry in Hb. apply N.eqb_eq in Hb. congruence. }
  subst n. destruct Wt as [[h Hs] _ _ _].
  unfold tree_insert. rewrite (key_exists_stored t h 0 None _ Hs Hkey).
  f_equal. apply keyup_id.
  specialize (Hk t Ht). rewrite Forall_forall in Hk.
  apply Hk; unfold tree_keys; apply in_or_app; right; exact Hkey.
Qed.

(* C: a log of inert records replays to the same store *)
Theorem replay_inert s log : Good s -> LogInv s log -> replay s log = RCont s.
Proof.
  intros G H. induction H as [|w r Hw _ IH]; [reflexivity|].
  cbn [replay]. rewrite (replay_one_inert s w G Hw). exact IH.
Qed.

(* ---------- inertness does not look at dirty flags ---------- *)
Lemma rec_inert_seq a b w : seq a b -> w_lsn w < nextLSN a -> (w_op w = OpInsert -> w_cell w <= lastKey a) ->
  rec_inert b w -> rec_inert a w.
Proof.
  intros [Hf _ _] Hlt Hkb (_ & _ & bb & n & Hpi & Hd). split; [exact Hlt|]. split; [exact Hkb|].
  destruct (page_in_fclean (forest b) (forest a) _ _ _ (eq_sym Hf) Hpi) as (n' & Hpa & En).
  exists bb, n'. split; [exact Hpa|].
  rewrite <- (erase_lsn n'), <- (erase_cells false n'), En, erase_lsn, erase_cells. exact Hd.
Qed.

(* ---------- later operations keep a record inert ---------- *)
Lemma touch_cell_keys pg k lsn g t :
  (forall x, lc_key (g x) = lc_key x) ->
  keys_of (all_cells (touch_leaf pg k lsn g t)) = keys_of (all_cells t).
Proof.
  intros Hg. rewrite touch_cells. unfold all_cells.
  induction (leaves t) as [|l L IH]; [reflexivity|].
  cbn [flat_map]. rewrite !keys_of_app, IH. f_equal.
  destruct (N.eqb (t_off l) pg); [apply map_cell_keys; exact Hg | reflexivity].
Qed.

Lemma inert_touch_gen s pg k g l nl w :
  (forall x, lc_key (g x) = lc_key x) -> Good s -> nextLSN s <= l + 1 -> nextLSN s <= nl -> rec_inert s w ->
  rec_inert (mkStore (touch_forest pg k l g (forest s)) (lastKey s) (ptRoot s) (nextFree s) nl) w.
Proof.
  intros Hg [[_ Hn _] [_ Hl]] Hll Hnl' (Hlt & Hkb & b & n & Hpi & Hd). split; [cbn [nextLSN]; lia|].
  split; [exact Hkb|]. cbn [forest].
  destruct Hpi as (t & Ht & Hin & Hp & Hb).
  assert (G : forall f, In t f -> exists t' n', In t' (touch_forest pg k l g f) /\ In n' (nodes t') /\
               t_off n' = t_off n /\ t_off t' = t_off t /\ t_lsn n <= t_lsn n' /\
               (n = t -> n' = t') /\ keys_of (all_cells n') = keys_of (all_cells n)).
  { assert (Hlsn : forall x, t_lsn x < nextLSN s -> t_lsn x <= t_lsn (touch_leaf pg k l g x)).
    { intros x Hx. destruct (touch_lsn pg k l g x) as [X|X]; rewrite X; lia. }
    assert (Hnl : t_lsn n < nextLSN s).
    { rewrite Forall_forall in Hl. specialize (Hl t Ht). rewrite Forall_forall in Hl. apply Hl. exact Hin. }
    induction f as [|a f IH]; intros Hf; [contradiction|]. cbn [touch_forest]. destruct Hf as [->|Hf].
    - destruct (has_page pg t).
      + exists (touch_leaf pg k l g t), (touch_leaf pg k l g n).
        split; [left; reflexivity|]. split; [rewrite touch_nodes; apply in_map; exact Hin|].
        rewrite !touch_off. repeat split; auto; [intros ->; reflexivity | apply touch_cell_keys; exact Hg].
      + exists t, n. split; [left; reflexivity|]. repeat split; auto. lia.
    - destruct (has_page pg a).
      + exists t, n. split; [right; exact Hf|]. repeat split; auto. lia.
      + destruct (IH Hf) as (t' & n' & A & B). exists t', n'. split; [right; exact A | exact B]. }
  destruct (G (forest s) Ht) as (t' & n' & A & B & C & D & F & H1 & H2).
  exists (N.eqb (t_off t') (w_page w)), n'. split.
  + exists t'. repeat split; auto. congruence.
  + destruct Hd as [Hd|(X & Y & Z)]; [left; lia|]. right. split; [exact X|]. split; [|rewrite H2; exact Z].
    rewrite D, <- Hb. exact Y.
Qed.

Lemma inert_touch s pg k g w :
  (forall x, lc_key (g x) = lc_key x) -> Good s -> rec_inert s w ->
  rec_inert (mkStore (touch_forest pg k (nextLSN s) g (forest s)) (lastKey s) (ptRoot s) (nextFree s) (nextLSN s + 1)) w.
Proof. intros Hg G H. apply inert_touch_gen; auto; lia. Qed.

Lemma tree_insert_cells s t k lsn v t' nf :
  SInv s -> In t (forest s) -> Forall (fun x => x < k) (tree_keys t) ->
  tree_insert ML MI PS MV t k lsn v (nextFree s) = TOk (t', nf) ->
  all_cells t' = all_cells t ++ [mkLC k false v].
Proof.
  intros [Hw _ _] Hin Hk Hi. rewrite Forall_forall in Hw. specialize (Hw t Hin).
  destruct (Nat.leb_spec (length v) MV) as [Hlen|Hlen].
  2:{ destruct (tree_insert_too_large t k lsn v (nextFree s) Hlen) as [e He]. congruence. }
  destruct (tree_insert_ok ML MI PS MV ML_ge MI_ge PS_pos (nextFree s) t k lsn v Hw Hk Hlen)
    as (t2 & f2 & E2 & _ & C2 & _).
  rewrite Hi in E2. inversion E2; subst. exact C2.
Qed.

Lemma sinv_keys_lt s t : SInv s -> In t (forest s) -> Forall (fun x => x < lastKey s + 1) (tree_keys t).
Proof.
  intros [_ _ Hk] Hin. rewrite Forall_forall in Hk. eapply Forall_impl; [|apply Hk; exact Hin]. cbn. intros; lia.
Qed.

Lemma inert_bt_insert s root v w :
  Good s -> rec_inert s w -> rec_inert (fst (bt_insert s root v)) w.
Proof.
  intros [Hs [_ Hl]] (Hlt & Hkb & b & n & Hpi & Hd). unfold bt_insert, get_tree.
  destruct (find_root root (forest s)) as [tr|] eqn:Ef; [|cbn [fst]; split; [exact Hlt | split; [exact Hkb | eauto]]].
  destruct (find_root_split _ _ _ Ef) as (l1 & l2 & Hf & Ho & _ & Hrep).
  assert (Htr : In tr (forest s)) by (rewrite Hf; apply in_or_app; right; left; reflexivity).
  destruct (tree_insert ML MI PS MV tr (lastKey s + 1) (nextLSN s) v (nextFree s)) as [[t' nf]|e] eqn:Ei; cbn [fst].
  2:{ split; [cbn [nextLSN]; lia|]. split; [cbn [lastKey]; intros Hins; specialize (Hkb Hins); lia | cbn [forest]; eauto]. }
  split; [cbn [nextLSN]; lia|]. split; [cbn [lastKey]; intros Hins; specialize (Hkb Hins); lia|]. cbn [forest]. rewrite Hrep.
  destruct Hpi as (t & Ht & Hin & Hp & Hb).
  assert (Hcase : t = tr \/ In t (l1 ++ t' :: l2)).
  { rewrite Hf in Ht. apply in_app_or in Ht as [H|[H|H]]; [right|left; auto|right].
    - apply in_or_app. left. exact H.
    - apply in_or_app. right. right. exact H. }
  destruct Hcase as [->|Ht'].
  2:{ exists b, n. split; [exists t; auto | exact Hd]. }
  destruct (tree_insert_nodes _ _ _ _ _ _ _ Ei) as (F & _ & R).
  assert (Hnl : t_lsn n < nextLSN s).
  { rewrite Forall_forall in Hl. specialize (Hl tr Htr). rewrite Forall_forall in Hl. apply Hl. exact Hin. }
  assert (Hin' : In t' (l1 ++ t' :: l2)) by (apply in_or_app; right; left; reflexivity).
  destruct Hd as [Hd|(Hop & -> & Hkey)].
  - destruct (F n Hin) as (n' & A & B & C).
    exists (N.eqb (t_off t') (w_page w)), n'. split; [exists t'; repeat split; auto; congruence|].
    left. destruct C as [C|C]; rewrite C; lia.
  - assert (n = tr).
    { destruct Hs as [Hw _ _]. rewrite Forall_forall in Hw.
      apply root_node_unique; [apply (Hw tr Htr) | exact Hin |]. symmetry in Hb. apply N.eqb_eq in Hb. congruence. }
    subst n. destruct R as [R|(l & A & B & C & _)].
    + exists true, t'. split.
      * exists t'. repeat split; auto; [apply root_in_nodes | congruence | rewrite R; exact Hb].
      * right. split; [exact Hop|]. split; [reflexivity|].
        rewrite (tree_insert_cells s tr _ _ _ _ _ Hs Htr (sinv_keys_lt s tr Hs Htr) Ei), keys_of_app.
        apply in_or_app. left. exact Hkey.
    + exists (N.eqb (t_off t') (w_page w)), l. split; [exists t'; repeat split; auto; congruence|].
      left. lia.
Qed.

Lemma page_in_app f g p b n : page_in f p b n -> page_in (f ++ g) p b n.
Proof. intros (t & A & B). exists t. split; [apply in_or_app; left; exact A | exact B]. Qed.

Lemma inert_create_page s w : rec_inert s w -> rec_inert (fst (create_page s)) w.
Proof.
  intros (Hlt & Hkb & b & n & Hpi & Hd). unfold create_page. cbn [fst]. split; [exact Hlt|]. split; [exact Hkb|].
  exists b, n. split; [apply page_in_app; exact Hpi | exact Hd].
Qed.

Lemma inert_ptroot s pt w : rec_inert s w -> rec_inert (mkStore (forest s) (lastKey s) pt (nextFree s) (nextLSN s)) w.
Proof. intros H. exact H. Qed.

Lemma inert_flush s w : rec_inert s w -> rec_inert (flush s) w.
Proof.
  intros H. apply (rec_inert_seq (flush s) s w (seq_flush s)); [| |exact H]; destruct H as (H1 & H2 & _); assumption.
Qed.

(* Good and a log of inert records: closed under the primitives, hence kept by every statement *)
Definition GL (log : list walentry) (s : store) : Prop := Good s /\ LogInv s log.

Lemma gl_map (log : list walentry) s s' :
  Good s' -> (forall w, rec_inert s w -> rec_inert s' w) -> LogInv s log -> GL log s'.
Proof. intros G H L. split; [exact G|]. eapply Forall_impl; [|exact L]. exact H. Qed.

Lemma run_stmt_gl log s st : GL log s -> GL log (e_store (run_stmt s st)).
Proof.
  apply (run_stmt_closed (GL log)).
  - intros s0 root v [G L]. apply (gl_map log s0); [apply good_bt_insert; exact G | | exact L].
    intros w. apply inert_bt_insert. exact G.
  - intros s0 pg k g Hg [G L]. apply (gl_map log s0); [apply good_touch; assumption | | exact L].
    intros w. apply inert_touch; assumption.
  - intros s0 [G L]. apply (gl_map log s0); [apply good_create_page; exact G | | exact L].
    intros w. apply inert_create_page.
  - intros s0 pt [G L]. apply (gl_map log s0); [apply good_ptroot; exact G | | exact L]. intros w H. exact H.
  - intros s0 [G L]. apply (gl_map log s0); [apply good_flush; exact G | | exact L]. intros w. apply inert_flush.
Qed.

Lemma st_insert_gl log s name cols vals : GL log s -> GL log (fst (st_insert s name cols vals)).
Proof.
  apply (st_insert_closed (GL log)).
  - intros s0 root v [G L]. apply (gl_map log s0); [apply good_bt_insert; exact G | | exact L].
    intros w. apply inert_bt_insert. exact G.
  - intros s0 pg k g Hg [G L]. apply (gl_map log s0); [apply good_touch; assumption | | exact L].
    intros w. apply inert_touch; assumption.
Qed.

(* ---------- what the row operations do and log ---------- *)
Definition touched (b : store) (pg key : N) (g : leafcell -> leafcell) : store :=
  mkStore (touch_forest pg key (nextLSN b) g (forest b)) (lastKey b) (ptRoot b) (nextFree b) (nextLSN b + 1).

Lemma update_page_table_shape b newroot name b2 ws :
  Good b -> update_page_table b newroot name = (b2, Ok ws) ->
  exists pg key bs, leaf_has (forest b) pg key /\ (MV <? length bs)%nat = false /\
    b2 = touched b pg key (upd_fun bs) /\ ws = [mkWal OpUpdate (nextLSN b) pg key bs].
Proof.
  intros G. unfold update_page_table.
  destruct (get_tree b (ptRoot b)) as [pt|e|] eqn:Eg; cbn [bind]; try discriminate.
  destruct (get_tree_in _ _ _ Eg) as [Hin _].
  rewrite (scan_right_leaves_okP _ _ (good_wft b pt G Hin)). cbn [of_tres bind].
  destruct (pt_find_row name (leaves pt)) as [[[[pg c] m]|]|e|] eqn:Ef; try discriminate.
  destruct (encode_tuple pageTableSchema _) as [bs|e|]; try discriminate.
  destruct (Nat.ltb MV (length bs)) eqn:Emv; [discriminate|].
  intros H. inversion H; subst. clear H.
  destruct (pt_find_row_some _ _ _ _ _ Ef) as (l & Hl & Hp & Hc).
  exists pg, (lc_key c), bs. repeat split; auto.
  exists pt, l. repeat split; auto. apply in_map. exact Hc.
Qed.

Lemma st_update_shape b name rowid cols vals b1 ws :
  Good b -> st_update b name rowid cols vals = (b1, Ok ws) ->
  (b1 = b /\ ws = []) \/
  exists pg bs, leaf_has (forest b) pg rowid /\ (MV <? length bs)%nat = false /\
    b1 = touched b pg rowid (upd_fun bs) /\ ws = [mkWal OpUpdate (nextLSN b) pg rowid bs].
Proof.
  intros G. unfold st_update. destruct (upd_bad_cols _ _ _); [discriminate|]. unfold st_update0.
  destruct (is_sys_table name); [discriminate|].
  destruct (rel_offset b name) as [off|e|]; cbn [bind]; try discriminate.
  destruct (get_tree b off) as [t|e|] eqn:Eg; cbn [bind]; try discriminate.
  destruct (rel_schema b name) as [sch|e|]; cbn [bind]; try discriminate.
  destruct (get_tree_in _ _ _ Eg) as [Hin _].
  rewrite (scan_right_leaves_okP _ _ (good_wft b t G Hin)). cbn [of_tres bind].
  destruct (find _ _) as [[pg c]|] eqn:Ef.
  2:{ intros H. inversion H; subst. left. auto. }
  destruct (bind (decode_tuple sch (lc_val c) []) _) as [bs|e|]; try discriminate.
  destruct (Nat.ltb MV (length bs)) eqn:Emv; [discriminate|].
  intros H. inversion H; subst. clear H. right.
  apply find_some in Ef as [Hfin Hpred]. cbn [snd] in Hpred. apply andb_true_iff in Hpred as [Hkey _].
  apply N.eqb_eq in Hkey. apply in_flat_map in Hfin as (l & Hl & Hpc).
  apply in_map_iff in Hpc as (c' & E & Hc). inversion E; subst.
  exists (t_off l), bs. repeat split; auto.
  exists t, l. repeat split; auto. apply in_map. exact Hc.
Qed.

Lemma st_delete_shape b name rowid b1 ws :
  st_delete b name rowid = (b1, Ok ws) ->
  exists pg, leaf_has (forest b) pg rowid /\
    b1 = touched b pg rowid del_fun /\ ws = [mkWal OpDelete (nextLSN b) pg rowid []].
Proof.
  unfold st_delete. destruct (is_sys_table name); [discriminate|].
  destruct (rel_offset b name) as [off|e|]; cbn [bind]; try discriminate.
  destruct (get_tree b off) as [t|e|] eqn:Eg; try discriminate.
  destruct (get_tree_in _ _ _ Eg) as [Hin _].
  destruct (find_cell rowid t) as [[pg c]|] eqn:Ef; [|discriminate].
  intros H. inversion H; subst. clear H. exists pg. repeat split; auto.
  unfold find_cell in Ef. pose proof (descend_in_leaves rowid t) as Hd.
  destruct (descend rowid t) as [off' l d cells hl hr ls rs|] eqn:Ed; [|discriminate].
  destruct (find _ cells) as [c'|] eqn:Efc; [|discriminate].
  destruct (lc_deleted c'); [discriminate|]. inversion Ef; subst.
  apply find_some in Efc as [Hc Hk]. apply N.eqb_eq in Hk.
  exists t, (TLeaf pg l d cells hl hr ls rs). repeat split; auto.
  cbn [leaf_cells]. rewrite <- Hk. apply in_map. exact Hc.
Qed.

(* ---------- a fresh record is inert in the store its operation produced ---------- *)
Lemma est_touch b pg key g op bs :
  op <> OpInsert -> Good b -> leaf_has (forest b) pg key ->
  rec_inert (touched b pg key g) (mkWal op (nextLSN b) pg key bs).
Proof.
  intros Hop [[_ Hn _] _] (t & l & Ht & Hl & Hp & Hk). split; [cbn; lia|]. split; [cbn; intros; contradiction|].
  cbn [w_page w_lsn touched forest].
  assert (Hpi : page_in (forest b) pg (N.eqb (t_off t) pg) l).
  { exists t. repeat split; auto. apply leaves_sub_nodes. exact Hl. }
  exists (N.eqb (t_off t) pg), (touch_leaf pg key (nextLSN b) g l).
  split; [apply touch_forest_page; assumption|]. left.
  pose proof (leaves_is_leaf _ _ Hl) as Hleaf. destruct l as [off ll d cells hl hr ls rs|]; [|contradiction].
  cbn [t_off] in Hp. rewrite (touch_leaf_at _ _ _ _ _ _ _ _ _ _ _ _ Hp). cbn. lia.
Qed.

Lemma est_insert b root v b1 k lsn newroot :
  Good b -> bt_insert b root v = (b1, Ok (k, lsn, newroot)) ->
  rec_inert b1 (mkWal OpInsert lsn root k v).
Proof.
  intros [Hs _]. unfold bt_insert, get_tree.
  destruct (find_root root (forest b)) as [tr|] eqn:Ef; [|discriminate].
  destruct (find_root_split _ _ _ Ef) as (l1 & l2 & Hf & Ho & _ & Hrep).
  assert (Htr : In tr (forest b)) by (rewrite Hf; apply in_or_app; right; left; reflexivity).
  destruct (tree_insert ML MI PS MV tr (lastKey b + 1) (nextLSN b) v (nextFree b)) as [[t' nf]|e] eqn:Ei;
    [|destruct e; discriminate].
  intros H. inversion H; subst. clear H. split; [cbn; lia|]. split; [cbn; intros; lia|].
  cbn [w_page w_lsn w_op w_cell forest]. rewrite Hrep.
  assert (Hin' : In t' (l1 ++ t' :: l2)) by (apply in_or_app; right; left; reflexivity).
  destruct (tree_insert_nodes _ _ _ _ _ _ _ Ei) as (_ & _ & R).
  destruct R as [R|(l & A & B & C & _)].
  - exists true, t'. split; [exists t'; repeat split; auto; [apply root_in_nodes | rewrite R, N.eqb_refl; reflexivity]|].
    right. split; [reflexivity|]. split; [reflexivity|].
    rewrite (tree_insert_cells b tr _ _ _ _ _ Hs Htr (sinv_keys_lt b tr Hs Htr) Ei), keys_of_app.
    apply in_or_app. right. left. reflexivity.
  - exists (N.eqb (t_off t') (t_off tr)), l. split; [exists t'; repeat split; auto|]. left. lia.
Qed.

(* ---------- the log invariant through whole statements ---------- *)
Lemma gl_app log ws s : GL log s -> LogInv s ws -> GL (log ++ ws) s.
Proof. intros [G L] H. split; [exact G | apply Forall_app; split; assumption]. Qed.

Lemma gl_touched log b pg key g op bs :
  op <> OpInsert -> (forall x, lc_key (g x) = lc_key x) -> GL log b -> leaf_has (forest b) pg key ->
  GL (log ++ [mkWal op (nextLSN b) pg key bs]) (touched b pg key g).
Proof.
  intros Hop Hg [G L] Hh. apply gl_app.
  - apply (gl_map log b); [apply good_touch; assumption | | exact L]. intros w. apply inert_touch; assumption.
  - constructor; [|constructor]. apply est_touch; assumption.
Qed.

Lemma log_st_insert log b name cols vals b2 ws :
  GL log b -> st_insert b name cols vals = (b2, Ok ws) -> GL (log ++ ws) b2.
Proof.
  intros HG Hst.
  destruct (st_insert_shape _ _ _ _ _ _ Hst) as (off & bs & b1 & k & lsn & nr & _ & Hpre & Hbt & Hcase).
  assert (H1 : GL (log ++ [mkWal OpInsert lsn off k bs]) b1).
  { destruct HG as [G L]. apply gl_app.
    - replace b1 with (fst (bt_insert b off bs)) by (rewrite Hbt; reflexivity).
      apply (gl_map log b); [apply good_bt_insert; exact G | | exact L]. intros w. apply inert_bt_insert. exact G.
    - constructor; [|constructor]. eapply est_insert; eauto. }
  destruct Hcase as [(-> & -> & ->)|(Hne & ws' & Hup & ->)]; [exact H1|].
  destruct (update_page_table_shape b1 nr name b2 ws' (proj1 H1) Hup) as (pg & key & bs' & Hh & _ & -> & ->).
  change (log ++ mkWal OpInsert lsn off k bs :: [mkWal OpUpdate (nextLSN b1) pg key bs'])
    with (log ++ [mkWal OpInsert lsn off k bs] ++ [mkWal OpUpdate (nextLSN b1) pg key bs']).
  rewrite app_assoc. apply gl_touched; [discriminate | reflexivity | exact H1 | exact Hh].
Qed.

Lemma log_st_update log b name rowid cols vals b1 ws :
  GL log b -> st_update b name rowid cols vals = (b1, Ok ws) -> GL (log ++ ws) b1.
Proof.
  intros HG Hst. destruct (st_update_shape _ _ _ _ _ _ _ (proj1 HG) Hst) as [(-> & ->)|(pg & bs & Hh & _ & -> & ->)].
  - rewrite app_nil_r. exact HG.
  - apply gl_touched; [discriminate | reflexivity | exact HG | exact Hh].
Qed.

Lemma log_st_delete log b name rowid b1 ws :
  GL log b -> st_delete b name rowid = (b1, Ok ws) -> GL (log ++ ws) b1.
Proof.
  intros HG Hst. destruct (st_delete_shape _ _ _ _ _ Hst) as (pg & Hh & -> & ->).
  apply gl_touched; [discriminate | reflexivity | exact HG | exact Hh].
Qed.

Lemma log_insert_rows rows : forall log b name cols batch n b' B m,
  GL (log ++ batch) b -> insert_rows b name cols rows batch n = (b', B, OOk m) -> GL (log ++ B) b'.
Proof.
  induction rows as [|r rest IH]; intros log b name cols batch n b' B m HG H.
  - cbn in H. inversion H; subst. exact HG.
  - cbn [insert_rows] in H. destruct (st_insert b name cols r) as [b1 [ws|e|]] eqn:Est; try discriminate.
    apply (IH log b1 name cols (batch ++ ws) (S n) b' B m); [|exact H].
    rewrite app_assoc. eapply log_st_insert; eauto.
Qed.

Lemma log_update_rows ids : forall log b name cols vals batch b' B m,
  GL (log ++ batch) b -> update_rows b name cols vals ids batch = (b', B, OOk m) -> GL (log ++ B) b'.
Proof.
  induction ids as [|k rest IH]; intros log b name cols vals batch b' B m HG H.
  - cbn in H. inversion H; subst. exact HG.
  - cbn [update_rows] in H. destruct (st_update b name k cols vals) as [b1 [ws|e|]] eqn:Est; try discriminate.
    apply (IH log b1 name cols vals (batch ++ ws) b' B m); [|exact H].
    rewrite app_assoc. eapply log_st_update; eauto.
Qed.

Lemma log_delete_rows ids : forall log b name batch n b' B m,
  GL (log ++ batch) b -> delete_rows b name ids batch n = (b', B, OOk m) -> GL (log ++ B) b'.
Proof.
  induction ids as [|k rest IH]; intros log b name batch n b' B m HG H.
  - cbn in H. inversion H; subst. exact HG.
  - cbn [delete_rows] in H. destruct (st_delete b name k) as [b1 [ws|e|]] eqn:Est; try discriminate.
    apply (IH log b1 name (batch ++ ws) (S n) b' B m); [|exact H].
    rewrite app_assoc. eapply log_st_delete; eauto.
Qed.

(* every statement, successful or not: the store stays Good and the log as FlushWALBatch leaves
   it (extended by the batch iff the statement succeeded) stays inert *)
Theorem log_stmt log s st :
  GL log s ->
  GL (if is_ok (e_out (run_stmt s st)) then log ++ e_batch (run_stmt s st) else log) (e_store (run_stmt s st)).
Proof.
  intros HG. destruct (is_ok (e_out (run_stmt s st))) eqn:Eok; [|apply run_stmt_gl; exact HG].
  pose proof (run_stmt_gl log s st HG) as Hdef.
  destruct st; cbn [run_stmt] in *; try (cbn [e_batch]; rewrite app_nil_r; exact Hdef).
  - destruct (st_create_table s name _) as [s1 [u|e|]]; cbn [e_batch e_store] in *; rewrite app_nil_r; exact Hdef.
  - destruct (first_err _ rows) as [u|e|]; try (cbn [e_batch e_store] in *; rewrite app_nil_r; exact Hdef).
    destruct (insert_rows s table cols rows [] 0) as [[b' B] o] eqn:E. cbn [e_out e_batch e_store] in *.
    destruct o; try discriminate. eapply log_insert_rows; [|exact E]. rewrite app_nil_r. exact HG.
  - destruct (existsb _ sets); [cbn [e_batch e_store] in *; rewrite app_nil_r; exact Hdef|].
    destruct (where_ids s table where_) as [ids|e|]; try (cbn [e_batch e_store] in *; rewrite app_nil_r; exact Hdef).
    destruct (first_err _ ids) as [u|e|]; try (cbn [e_batch e_store] in *; rewrite app_nil_r; exact Hdef).
    destruct (update_rows s table _ _ ids []) as [[b' B] o] eqn:E. cbn [e_out e_batch e_store] in *.
    destruct o; try discriminate. eapply log_update_rows; [|exact E]. rewrite app_nil_r. exact HG.
  - destruct (where_ids s table where_) as [ids|e|]; try (cbn [e_batch e_store] in *; rewrite app_nil_r; exact Hdef).
    destruct (delete_rows s table ids [] 0) as [[b' B] o] eqn:E. cbn [e_out e_batch e_store] in *.
    destruct o; try discriminate. eapply log_delete_rows; [|exact E]. rewrite app_nil_r. exact HG.
Qed.
