(* C12: the oracle of the page-codec check accepts what the model computes.

   Spec/PageCodecSpec.v has two boolean functions per kind of case:
     pc_model_agrees / hdr_model_agrees  (MM) - Go's encode / decode / fetch results equal the model's
     pc_spec_accepts / hdr_spec_accepts  (SM) - the property judged on Go's results alone
   Here: MM = true implies SM = true, for every case (any node, any observation, no size bound), so
   an SM verdict is never a false alarm on code that conforms to the model, and every SM rejection
   contradicts C12_roundtrip / C12_logical / C12_through_file / C12_header for conforming code.
   No hypothesis on the case is needed: where the theorems have a hypothesis (admissible, encodable,
   header_ok) the oracle tests the same boolean and accepts when it is false. *)
From Coq Require Import Ascii NArith Bool Lia Arith List Init.Byte.
From Mkdb Require Import Model.CaseLib Model.PageCodec Spec.PageCodecSpec Proofs.BytesProofs
  Proofs.CodecBaseProofs Proofs.PageCodecProofs.
Import ListNotations.
Open Scope N_scope.

(* ---- the comparison functions are equality ---- *)
Lemma bytes_eqb_spec a b : bytes_eqb a b = true <-> a = b.
Proof. unfold bytes_eqb. apply list_eqb_spec. exact Ascii.eqb_eq. Qed.

Lemma leafcell_eqb_spec a b : leafcell_eqb a b = true <-> a = b.
Proof.
  destruct a as [k d v], b as [k' d' v']. unfold leafcell_eqb. cbn [lc_key lc_deleted lc_val].
  rewrite !andb_true_iff, N.eqb_eq, Bool.eqb_true_iff, bytes_eqb_spec.
  split; [intros [[-> ->] ->]; reflexivity | intros E; inversion E; auto].
Qed.

Lemma icell_eqb_spec a b : icell_eqb a b = true <-> a = b.
Proof.
  destruct a as [k o], b as [k' o']. unfold icell_eqb. cbn [ic_key ic_off].
  rewrite !andb_true_iff, !N.eqb_eq.
  split; [intros [-> ->]; reflexivity | intros E; inversion E; auto].
Qed.

Lemma option_eqb_spec {A} (eqb : A -> A -> bool) :
  (forall x y, eqb x y = true <-> x = y) -> forall a b, option_eqb eqb a b = true <-> a = b.
Proof.
  intros H [x|] [y|]; cbn [option_eqb]; try (split; discriminate); [|tauto].
  rewrite H. split; [intros ->; reflexivity | intros E; inversion E; reflexivity].
Qed.

Lemma Nlist_eqb_spec a b : list_eqb N.eqb a b = true <-> a = b.
Proof. apply list_eqb_spec. exact N.eqb_eq. Qed.

Lemma rawnode_eqb_eq a b : rawnode_eqb a b = true -> a = b.
Proof.
  destruct a, b; cbn [rawnode_eqb]; try discriminate;
    rewrite !andb_true_iff, !N.eqb_eq, ?Bool.eqb_true_iff, Nlist_eqb_spec.
  - rewrite (list_eqb_spec _ (option_eqb_spec _ leafcell_eqb_spec)).
    intros [[[[[[[-> ->] ->] ->] ->] ->] ->] ->]. reflexivity.
  - rewrite (list_eqb_spec _ (option_eqb_spec _ icell_eqb_spec)).
    intros [[[[-> ->] ->] ->] ->]. reflexivity.
Qed.

Lemma node_eqb_refl n : node_eqb n n = true.
Proof.
  destruct n; cbn [node_eqb]; rewrite !andb_true_iff, !N.eqb_eq, ?Bool.eqb_true_iff, Nlist_eqb_spec.
  - rewrite (list_eqb_spec _ leafcell_eqb_spec). tauto.
  - rewrite (list_eqb_spec _ icell_eqb_spec). tauto.
Qed.

Lemma lview_eqb_refl v : lview_eqb v v = true.
Proof.
  destruct v; cbn [lview_eqb]; rewrite !andb_true_iff, !N.eqb_eq, ?Bool.eqb_true_iff.
  - rewrite (list_eqb_spec _ leafcell_eqb_spec). tauto.
  - rewrite (list_eqb_spec _ icell_eqb_spec). tauto.
Qed.

(* ---- what agreement with the model says about an observation ---- *)
Lemma dec_matches_Ok r o : dec_matches (Ok r) o = true -> o = DOk r.
Proof.
  destruct o; cbn [dec_matches]; try discriminate. intros H. apply rawnode_eqb_eq in H. congruence.
Qed.

(* "Go returned a node, nil error, and the node is n with its slot array cut to the live cells" *)
Definition reads_truncate (n : node) (o : dec_obs) : Prop :=
  exists r, o = DOk r /\ node_of_raw r = Ok (truncate n).

Lemma same_node_of_truncate n o : admissible n = true -> reads_truncate n o -> same_node n o = true.
Proof.
  intros Ha (r & -> & Hr). cbn [same_node]. rewrite Hr, (admissible_truncate n Ha). apply node_eqb_refl.
Qed.

Lemma same_logical_of_truncate n o : encodable n = true -> reads_truncate n o -> same_logical n o = true.
Proof.
  intros He (r & -> & Hr). cbn [same_logical]. rewrite Hr.
  destruct (truncate_logical n He) as [Hl Hn]. rewrite Hl.
  destruct (logical n) as [v|]; [apply lview_eqb_refl | contradiction].
Qed.

(* fetch of a cold store whose file is exactly the page: ReadAt(pageSize bytes at 0) *)
Lemma page_at_whole page : N.of_nat (length page) = pageSize -> page_at page 0 = page.
Proof.
  intros H. assert (E : write_at [] 0 page = page).
  { unfold write_at. cbn [N.to_nat firstn zeros repeat Nat.sub length app Nat.add].
    rewrite skipn_nil. apply app_nil_r. }
  pose proof (page_at_write_at [] 0 page H) as P. rewrite E in P. exact P.
Qed.

Lemma res_bind_Ok {A B} (m : res A) (f : A -> res B) b :
  (let* x := m in f x) = Ok b -> exists a, m = Ok a /\ f a = Ok b.
Proof. destruct m; cbn; try discriminate. eauto. Qed.

(* the core: on an unedited case with an encodable node, agreement with the model means Go wrote
   one page and both read paths returned the truncated node (C12_logical; C12_roundtrip and
   C12_through_file when the node is admissible) *)
Lemma agreement_unedited c :
  unedited c = true -> encodable (pc_node c) = true -> pc_model_agrees c = true ->
  one_page (pc_enc c) = true /\ reads_truncate (pc_node c) (pc_dec c) /\
  (pc_fetch c = DSkip \/ reads_truncate (pc_node c) (pc_fetch c)).
Proof.
  destruct c as [n raw patch trunc enc dec fetch]. unfold unedited, pc_model_agrees.
  cbn [pc_node pc_raw pc_patch pc_trunc pc_enc pc_dec pc_fetch].
  destruct raw; [discriminate|]. destruct patch; [|discriminate]. destruct trunc; [discriminate|].
  intros _ He.
  destruct (decode_encode_truncate n He) as (page & Henc & Hsz & Hpg & Hkind). rewrite Henc.
  destruct enc as [g| | |]; try discriminate.
  destruct (bytes_eqb page (expand g)) eqn:Eb; [|discriminate]. apply bytes_eqb_spec in Eb.
  cbn [apply_trunc apply_patch fold_left]. rewrite (page_at_whole page Hsz).
  rewrite andb_true_iff. intros [Hd Hf]. split; [|split].
  - cbn [one_page]. rewrite <- Eb. apply N.eqb_eq. exact Hsz.
  - assert (Hk : exists r, (if is_leaf n then decode_leaf_raw page else decode_internal_raw page) = Ok r /\
                           node_of_raw r = Ok (truncate n)).
    { destruct n; cbn [is_leaf]; [unfold decode_leaf in Hkind | unfold decode_internal in Hkind];
        apply res_bind_Ok in Hkind; exact Hkind. }
    destruct Hk as (r & E & Hr). rewrite E in Hd. exists r. split; [apply dec_matches_Ok; exact Hd | exact Hr].
  - unfold decode_page in Hpg. apply res_bind_Ok in Hpg. destruct Hpg as (r & E & Hr). rewrite E in Hf.
    destruct fetch as [r'|e| |]; [| | |left; reflexivity]; right; exists r; (split; [apply dec_matches_Ok; exact Hf | exact Hr]).
Qed.

Lemma fetch_clause (f : dec_obs -> bool) o :
  (o = DSkip \/ f o = true) ->
  match o with DOk r => f (DOk r) | DErr e => f (DErr e) | DPanic => f DPanic | DSkip => true end = true.
Proof. intros [->|H]; [reflexivity|]. destruct o; try exact H. reflexivity. Qed.

Theorem pc_agreement_implies_acceptance c : pc_model_agrees c = true -> pc_spec_accepts c = true.
Proof.
  intros H. unfold pc_spec_accepts.
  destruct (unedited c) eqn:U; [cbn [negb]|reflexivity].
  destruct (admissible (pc_node c)) eqn:Ha.
  - destruct (agreement_unedited c U (admissible_encodable _ Ha) H) as (H1 & H2 & H3).
    rewrite H1, (same_node_of_truncate _ _ Ha H2). cbn [andb].
    apply (fetch_clause (same_node (pc_node c))). destruct H3 as [H3|H3]; [left; exact H3|right].
    apply same_node_of_truncate; assumption.
  - destruct (encodable (pc_node c)) eqn:He; [|reflexivity].
    destruct (agreement_unedited c U He H) as (H1 & H2 & H3).
    rewrite H1, (same_logical_of_truncate _ _ He H2). cbn [andb].
    apply (fetch_clause (same_logical (pc_node c))). destruct H3 as [H3|H3]; [left; exact H3|right].
    apply same_logical_of_truncate; assumption.
Qed.

(* ---- file header (C12_header) ---- *)
Theorem hdr_agreement_implies_acceptance c : hdr_model_agrees c = true -> hdr_spec_accepts c = true.
Proof.
  unfold hdr_model_agrees, hdr_spec_accepts. rewrite andb_true_iff. intros [Hb Hd].
  destruct (header_ok (hc_hdr c)) eqn:Hok; [|reflexivity].
  apply bytes_eqb_spec in Hb. rewrite <- Hb in *.
  rewrite encode_header_length, N.eqb_refl. cbn [andb].
  rewrite <- (app_nil_r (encode_header (hc_hdr c))), (header_roundtrip _ [] Hok) in Hd.
  destruct (hc_back c); [exact Hd | discriminate].
Qed.

(* ---- the model's own behaviour as a case (for the non-vacuity examples) ---- *)
Definition obs_of (m : res rawnode) : dec_obs :=
  match m with
  | Ok r => DOk r
  | Err ShortRead => DErr XEof
  | Err BadNodeType => DErr XBadType
  | Err _ => DErr XOther
  | Panic => DPanic
  end.

Definition lit (p : bytes) : list chunk := [Bs (map byte_of_ascii p)].

Lemma expand_lit p : expand (lit p) = p.
Proof.
  unfold lit. cbn [expand]. rewrite app_nil_r, map_map. rewrite <- (map_id p) at 2.
  apply map_ext. exact ascii_of_byte_of_ascii.
Qed.

(* encode, decode directly, write to an empty file and fetch from a cold store - as the model does it *)
Definition pc_self_case (n : node) : pc_case :=
  match encode_node n with
  | Ok p => mkPC n None [] None (EOk (lit p))
                 (obs_of (if is_leaf n then decode_leaf_raw p else decode_internal_raw p))
                 (obs_of (decode_page_raw (page_at p 0)))
  | _ => mkPC n None [] None EPanic DSkip DSkip
  end.

Definition hdr_self_case (h : header) : hdr_case :=
  mkHC h (lit (encode_header h))
       (match decode_header (encode_header h) with Ok h' => Some h' | _ => None end).
