(* Crash theory, part 1: stores up to dirty flags (and, where stated, page LSNs).
   `erase el t` clears every dirty flag of t and, when el = true, every page LSN as well;
   `clean_tree` (Model/Store.v, what a flush does) is `erase false`. Every function of the tree
   and store models either ignores the erased fields (readers) or commutes with the erasure
   (writers). `seq` = equal up to dirty flags, same catalog root, same allocation frontier. *)
From Coq Require Import Arith Lia Bool List NArith Permutation.
From Mkdb Require Import Model.Engine Proofs.TreeProofs Proofs.StoreInv Gen.Params.
Import ListNotations.
Local Open Scope N_scope.

Fixpoint erase (el : bool) (t : tree) : tree :=
  match t with
  | TLeaf off l _ cells hl hr ls rs => TLeaf off (if el then 0 else l) false cells hl hr ls rs
  | TNode off l _ kids rgt =>
      TNode off (if el then 0 else l) false
        ((fix go (ks : list (N * tree)) : list (N * tree) :=
            match ks with [] => [] | (sp, c) :: r => (sp, erase el c) :: go r end) kids)
        (erase el rgt)
  end.

Definition ekids (el : bool) (kids : list (N * tree)) : list (N * tree) :=
  map (fun sc => (fst sc, erase el (snd sc))) kids.

Lemma erase_node el off l d kids rgt :
  erase el (TNode off l d kids rgt) =
  TNode off (if el then 0 else l) false (ekids el kids) (erase el rgt).
Proof.
  cbn [erase]. f_equal. unfold ekids. induction kids as [|[s c] r IH]; [reflexivity|].
  cbn [map fst snd]. f_equal. exact IH.
Qed.

Lemma clean_is_erase t : clean_tree t = erase false t.
Proof.
  induction t as [off l d cells hl hr ls rs | off l d kids rgt IHk IHr] using tree_ind2; [reflexivity|].
  rewrite clean_tree_node, erase_node, IHr. f_equal. unfold ekids.
  induction kids as [|[s c] r IH]; [reflexivity|].
  inversion IHk as [|? ? Hc Hr]; subst. cbn [snd] in Hc. cbn [map fst snd]. rewrite Hc, (IH Hr). reflexivity.
Qed.

Lemma erase_off el t : t_off (erase el t) = t_off t.
Proof. destruct t; [reflexivity | rewrite erase_node; reflexivity]. Qed.

Lemma erase_lsn t : t_lsn (erase false t) = t_lsn t.
Proof. destruct t; [reflexivity | rewrite erase_node; reflexivity]. Qed.

Lemma ekids_length el kids : length (ekids el kids) = length kids.
Proof. apply map_length. Qed.

Lemma ekids_app el a b : ekids el (a ++ b) = ekids el a ++ ekids el b.
Proof. apply map_app. Qed.

Lemma map_kids_ext (f g : tree -> tree) kids :
  Forall (fun sc => f (snd sc) = g (snd sc)) kids ->
  map (fun sc : N * tree => (fst sc, f (snd sc))) kids = map (fun sc => (fst sc, g (snd sc))) kids.
Proof.
  induction 1 as [|[s c] r Hc _ IH]; [reflexivity|]. cbn [map fst snd] in *. rewrite Hc, IH. reflexivity.
Qed.

Lemma map_kids_map (f g : tree -> tree) kids :
  map (fun sc : N * tree => (fst sc, f (snd sc))) (map (fun sc => (fst sc, g (snd sc))) kids) =
  map (fun sc => (fst sc, f (g (snd sc)))) kids.
Proof. rewrite map_map. apply map_ext. intros [s c]. reflexivity. Qed.

Lemma erase_idem el t : erase el (erase el t) = erase el t.
Proof.
  induction t as [off l d cells hl hr ls rs | off l d kids rgt IHk IHr] using tree_ind2.
  - cbn. destruct el; reflexivity.
  - rewrite !erase_node, IHr. f_equal; [destruct el; reflexivity|]. unfold ekids.
    rewrite map_kids_map. apply (map_kids_ext (fun t => erase el (erase el t)) (erase el)). exact IHk.
Qed.

Lemma ekids_idem el kids : ekids el (ekids el kids) = ekids el kids.
Proof.
  unfold ekids. rewrite map_kids_map. apply (map_kids_ext (fun t => erase el (erase el t)) (erase el)).
  apply Forall_forall. intros. apply erase_idem.
Qed.

Lemma erase_true_false t : erase true (erase false t) = erase true t.
Proof.
  induction t as [off l d cells hl hr ls rs | off l d kids rgt IHk IHr] using tree_ind2; [reflexivity|].
  rewrite !erase_node, IHr. f_equal. unfold ekids.
  rewrite map_kids_map. apply (map_kids_ext (fun t => erase true (erase false t)) (erase true)). exact IHk.
Qed.

(* ---------- views ---------- *)
Lemma erase_leaves el t : leaves (erase el t) = map (erase el) (leaves t).
Proof.
  induction t as [off l d cells hl hr ls rs | off l d kids rgt IHk IHr] using tree_ind2; [reflexivity|].
  rewrite erase_node, !leaves_node, map_app, IHr. f_equal.
  unfold kids_leaves, ekids. induction kids as [|[s c] r IH]; [reflexivity|].
  inversion IHk as [|? ? Hc Hr]; subst. cbn [snd] in Hc.
  cbn [map flat_map fst snd]. rewrite map_app, Hc, (IH Hr). reflexivity.
Qed.

Lemma erase_nodes el t : nodes (erase el t) = map (erase el) (nodes t).
Proof.
  induction t as [off l d cells hl hr ls rs | off l d kids rgt IHk IHr] using tree_ind2; [reflexivity|].
  rewrite (nodes_node off l d kids rgt). cbn [map]. rewrite erase_node, nodes_node. f_equal.
  rewrite map_app, IHr. f_equal.
  unfold kids_nodes, ekids. induction kids as [|[s c] r IH]; [reflexivity|].
  inversion IHk as [|? ? Hc Hr]; subst. cbn [snd] in Hc.
  cbn [map flat_map fst snd]. rewrite map_app, Hc, (IH Hr). reflexivity.
Qed.

Lemma erase_offsets el t : offsets_of (erase el t) = offsets_of t.
Proof.
  unfold offsets_of. rewrite erase_nodes, map_map. apply map_ext. intros. apply erase_off.
Qed.

Lemma erase_leaf_cells el l : leaf_cells (erase el l) = leaf_cells l.
Proof. destruct l; [reflexivity | rewrite erase_node; reflexivity]. Qed.

Lemma erase_cells el t : all_cells (erase el t) = all_cells t.
Proof.
  unfold all_cells. rewrite erase_leaves, flat_map_concat_map, map_map, <- flat_map_concat_map.
  apply flat_map_ext. intros. apply erase_leaf_cells.
Qed.

Lemma erase_seps el t : seps (erase el t) = seps t.
Proof.
  induction t as [off l d cells hl hr ls rs | off l d kids rgt IHk IHr] using tree_ind2; [reflexivity|].
  rewrite erase_node, !seps_node, IHr. f_equal.
  unfold kids_seps, ekids. induction kids as [|[s c] r IH]; [reflexivity|].
  inversion IHk as [|? ? Hc Hr]; subst. cbn [snd] in Hc.
  cbn [map flat_map fst snd]. rewrite Hc, (IH Hr). reflexivity.
Qed.

Lemma erase_keys el t : tree_keys (erase el t) = tree_keys t.
Proof. unfold tree_keys. rewrite erase_seps, erase_cells. reflexivity. Qed.

(* ---------- descent ---------- *)
Lemma child_for_ekids el k kids rgt :
  child_for k (ekids el kids) (erase el rgt) = erase el (child_for k kids rgt).
Proof.
  induction kids as [|[s c] r IH]; [reflexivity|].
  cbn [ekids map fst snd child_for]. destruct (N.ltb k s); [reflexivity | exact IH].
Qed.

Lemma sep_hit_ekids el k kids : sep_hit k (ekids el kids) = sep_hit k kids.
Proof.
  induction kids as [|[s c] r IH]; [reflexivity|]. cbn [ekids map fst snd sep_hit]. f_equal. exact IH.
Qed.

Lemma child_for_in k kids rgt :
  child_for k kids rgt = rgt \/ In (child_for k kids rgt) (map snd kids).
Proof.
  induction kids as [|[s c] r IH]; [left; reflexivity|]. cbn [child_for map snd].
  destruct (N.ltb k s); [right; left; reflexivity|]. destruct IH as [H|H]; [left; exact H | right; right; exact H].
Qed.

Lemma Forall_kids_child (P : tree -> Prop) k kids rgt :
  Forall (fun sc => P (snd sc)) kids -> P rgt -> P (child_for k kids rgt).
Proof.
  intros Hk Hr. destruct (child_for_in k kids rgt) as [->|H]; [exact Hr|].
  apply in_map_iff in H as (sc & <- & Hin). rewrite Forall_forall in Hk. apply Hk. exact Hin.
Qed.

Lemma erase_key_exists el t : forall k, key_exists k (erase el t) = key_exists k t.
Proof.
  induction t as [off l d cells hl hr ls rs | off l d kids rgt IHk IHr] using tree_ind2; intros k; [reflexivity|].
  rewrite erase_node, !key_exists_node, sep_hit_ekids, child_for_ekids. f_equal.
  apply (Forall_kids_child (fun c => key_exists k (erase el c) = key_exists k c)); [|apply IHr].
  eapply Forall_impl; [|exact IHk]. cbn. intros sc H. apply H.
Qed.

Lemma erase_on_right_spine el t : forall k, on_right_spine k (erase el t) = on_right_spine k t.
Proof.
  induction t as [off l d cells hl hr ls rs | off l d kids rgt IH]; intros k; [reflexivity|].
  rewrite erase_node. cbn [on_right_spine]. rewrite IH. f_equal.
  unfold ekids. induction kids as [|[s c] r IHk]; [reflexivity|]. cbn [map forallb fst snd]. rewrite IHk. reflexivity.
Qed.

Lemma erase_descend el t : forall k, descend k (erase el t) = erase el (descend k t).
Proof.
  induction t as [off l d cells hl hr ls rs | off l d kids rgt IHk IHr] using tree_ind2; intros k; [reflexivity|].
  rewrite erase_node, !descend_node, child_for_ekids.
  apply (Forall_kids_child (fun c => descend k (erase el c) = erase el (descend k c))); [|apply IHr].
  eapply Forall_impl; [|exact IHk]. cbn. intros sc H. apply H.
Qed.

Lemma erase_find_cell el t k : find_cell k (erase el t) = find_cell k t.
Proof.
  unfold find_cell. rewrite erase_descend. destruct (descend k t); [reflexivity|].
  rewrite erase_node. reflexivity.
Qed.

Lemma erase_has_page el pg t : has_page pg (erase el t) = has_page pg t.
Proof. unfold has_page. rewrite erase_offsets. reflexivity. Qed.

Lemma erase_leftmost el t : leftmost (erase el t) = option_map (erase el) (leftmost t).
Proof.
  induction t as [off l d cells hl hr ls rs | off l d kids rgt IHk IHr] using tree_ind2; [reflexivity|].
  rewrite erase_node. destruct kids as [|[s c] r]; [reflexivity|].
  cbn [ekids map fst snd leftmost]. inversion IHk; subst. assumption.
Qed.

Lemma erase_rightmost el t : rightmost (erase el t) = erase el (rightmost t).
Proof.
  induction t as [off l d cells hl hr ls rs | off l d kids rgt IH]; [reflexivity|].
  rewrite erase_node. cbn [rightmost]. exact IH.
Qed.

(* ---------- scans by sibling pointers ---------- *)
Definition map_tres {A B} (f : A -> B) (r : tres A) : tres B :=
  match r with TOk a => TOk (f a) | TErr e => TErr e end.

Lemma find_map_off el off (L : list tree) :
  find (fun l => N.eqb (t_off l) off) (map (erase el) L) =
  option_map (erase el) (find (fun l => N.eqb (t_off l) off) L).
Proof.
  induction L as [|a L IH]; [reflexivity|]. cbn [map find]. rewrite erase_off.
  destruct (N.eqb (t_off a) off); [reflexivity | exact IH].
Qed.

Lemma erase_find_leaf el off t : find_leaf off (erase el t) = option_map (erase el) (find_leaf off t).
Proof. unfold find_leaf. rewrite erase_leaves. apply find_map_off. Qed.

Lemma erase_chain_right el root : forall fuel cur,
  chain_right fuel (erase el root) (erase el cur) = map_tres (map (erase el)) (chain_right fuel root cur).
Proof.
  induction fuel as [|f IH]; intros cur; [reflexivity|].
  destruct cur as [off l d cells hl hr ls rs | off l d kids rgt]; [|rewrite erase_node; reflexivity].
  cbn [erase chain_right]. destruct hr; [|reflexivity].
  rewrite erase_find_leaf. destruct (find_leaf rs root) as [nxt|]; [|reflexivity].
  cbn [option_map]. rewrite IH. destruct (chain_right f root nxt); reflexivity.
Qed.

Lemma erase_scan_right_leaves el t :
  scan_right_leaves (erase el t) = map_tres (map (erase el)) (scan_right_leaves t).
Proof.
  unfold scan_right_leaves. rewrite erase_leftmost, erase_leaves, map_length.
  destruct (leftmost t) as [l|]; [|reflexivity]. cbn [option_map]. apply erase_chain_right.
Qed.

Lemma flat_map_leaf_cells_erase el ls :
  flat_map leaf_cells (map (erase el) ls) = flat_map leaf_cells ls.
Proof.
  rewrite flat_map_concat_map, map_map, <- flat_map_concat_map.
  apply flat_map_ext. intros. apply erase_leaf_cells.
Qed.

Lemma erase_scan_right el t : scan_right (erase el t) = scan_right t.
Proof.
  unfold scan_right. rewrite erase_scan_right_leaves.
  destruct (scan_right_leaves t); [|reflexivity]. cbn [map_tres]. rewrite flat_map_leaf_cells_erase. reflexivity.
Qed.

(* ---------- writers: insertion ---------- *)
Definition erase_res (el : bool) (r : ins_res) : ins_res :=
  match r with
  | IFit t => IFit (erase el t)
  | ISplit l s r => ISplit (erase el l) s (erase el r)
  end.

Lemma ekids_firstn el n kids : ekids el (firstn n kids) = firstn n (ekids el kids).
Proof. unfold ekids. symmetry. apply firstn_map. Qed.

Lemma ekids_skipn el n kids : ekids el (skipn n kids) = skipn n (ekids el kids).
Proof. unfold ekids. symmetry. apply skipn_map. Qed.

Lemma ekids_nth el kids n :
  nth_error (ekids el kids) n = option_map (fun sc => (fst sc, erase el (snd sc))) (nth_error kids n).
Proof. unfold ekids. apply nth_error_map. Qed.

Lemma erase_ins_right el t : forall k lsn v free,
  erase_res el (fst (ins_right ML MI PS (erase el t) k lsn v free)) =
  erase_res el (fst (ins_right ML MI PS t k lsn v free)) /\
  snd (ins_right ML MI PS (erase el t) k lsn v free) = snd (ins_right ML MI PS t k lsn v free).
Proof.
  induction t as [off l d cells hl hr ls rs | off l d kids rgt IH]; intros k lsn v free.
  - cbn [erase ins_right]. destruct (Nat.ltb _ ML); cbn [fst snd erase_res erase]; split; reflexivity.
  - rewrite erase_node. cbn [ins_right]. destruct (IH k lsn v free) as [E1 E2].
    destruct (ins_right ML MI PS (erase el rgt) k lsn v free) as [[r1|l1 s1 r1] f1];
    destruct (ins_right ML MI PS rgt k lsn v free) as [[r2|l2 s2 r2] f2];
      cbn [fst snd erase_res] in E1, E2; try discriminate; subst f1.
    + inversion E1 as [E]. cbn [fst snd erase_res]. split; [|reflexivity].
      rewrite !erase_node. f_equal. f_equal; [destruct el; reflexivity| |exact E].
      apply ekids_idem.
    + inversion E1 as [[El Es Er]]. subst s1.
      assert (Hlen : length (ekids el kids ++ [(s2, l1)]) = length (kids ++ [(s2, l2)]))
        by (rewrite !app_length, ekids_length; reflexivity).
      rewrite !Hlen.
      destruct (Nat.ltb (length (kids ++ [(s2, l2)])) MI).
      * cbn [fst snd erase_res]. split; [|reflexivity]. rewrite !erase_node. f_equal. f_equal; [|exact Er].
        rewrite !ekids_app. f_equal.
        -- apply ekids_idem.
        -- cbn [ekids map fst snd]. rewrite El. reflexivity.
      * set (mid := (length (kids ++ [(s2, l2)]) / 2)%nat).
        assert (Ek : ekids el (ekids el kids ++ [(s2, l1)]) = ekids el (kids ++ [(s2, l2)])).
        { rewrite !ekids_app. f_equal.
          - apply ekids_idem.
          - cbn [ekids map fst snd]. rewrite El. reflexivity. }
        pose proof (ekids_nth el (ekids el kids ++ [(s2, l1)]) mid) as N1.
        pose proof (ekids_nth el (kids ++ [(s2, l2)]) mid) as N2.
        rewrite Ek in N1. rewrite N2 in N1. clear N2.
        destruct (nth_error (ekids el kids ++ [(s2, l1)]) mid) as [[ms1 mc1]|] eqn:En1;
        destruct (nth_error (kids ++ [(s2, l2)]) mid) as [[ms2 mc2]|] eqn:En2;
          cbn [option_map fst snd] in N1; try discriminate.
        -- inversion N1 as [[Ems Emc]]. cbn [fst snd erase_res]. split; [|reflexivity].
           rewrite !erase_node. f_equal.
           ++ f_equal; [|symmetry; exact Emc]. rewrite !ekids_firstn, Ek. reflexivity.
           ++ f_equal; [|exact Er]. rewrite !ekids_skipn, Ek. reflexivity.
        -- exfalso. apply nth_error_None in En2.
           assert (0 < length (kids ++ [(s2, l2)]))%nat by (rewrite app_length; cbn; lia).
           pose proof (Nat.div_lt (length (kids ++ [(s2, l2)])) 2 H ltac:(lia)). unfold mid in En2. lia.
Qed.

Lemma erase_tree_insert el t k lsn v free :
  match tree_insert ML MI PS MV (erase el t) k lsn v free, tree_insert ML MI PS MV t k lsn v free with
  | TOk (t1, f1), TOk (t2, f2) => erase el t1 = erase el t2 /\ f1 = f2 /\ t_off t1 = t_off t2
  | TErr e1, TErr e2 => e1 = e2
  | _, _ => False
  end.
Proof.
  unfold tree_insert. rewrite erase_key_exists, erase_on_right_spine.
  destruct (key_exists k t); [reflexivity|].
  destruct (negb (on_right_spine k t)); [reflexivity|].
  destruct (Nat.ltb MV (length v)); [reflexivity|].
  destruct (erase_ins_right el t k lsn v free) as [E1 E2].
  destruct (ins_right ML MI PS (erase el t) k lsn v free) as [[r1|l1 s1 r1] f1];
  destruct (ins_right ML MI PS t k lsn v free) as [[r2|l2 s2 r2] f2];
    cbn [fst snd erase_res] in E1, E2; try discriminate; subst f1.
  - injection E1 as E. split; [exact E|]. split; [reflexivity|].
    rewrite <- (erase_off el r1), <- (erase_off el r2), E. reflexivity.
  - injection E1 as El Es Er. subst s1. split; [|split; reflexivity].
    rewrite !erase_node. cbn [ekids map fst snd]. rewrite El, Er. reflexivity.
Qed.

(* ---------- writers: in-place cell changes ---------- *)
Lemma erase_touch_leaf el pg k lsn g t :
  erase el (touch_leaf pg k lsn g (erase el t)) = erase el (touch_leaf pg k lsn g t).
Proof.
  induction t as [off l d cells hl hr ls rs | off l d kids rgt IHk IHr] using tree_ind2.
  - cbn [erase touch_leaf]. destruct (N.eqb off pg); cbn [erase]; [reflexivity|]. destruct el; reflexivity.
  - rewrite erase_node, !touch_leaf_node, !erase_node, IHr. f_equal; [destruct el; reflexivity|].
    unfold ekids. rewrite !map_kids_map.
    rewrite (map_kids_map (fun t => erase el (touch_leaf pg k lsn g t)) (erase el)).
    apply (map_kids_ext (fun t => erase el (touch_leaf pg k lsn g (erase el t))) (fun t => erase el (touch_leaf pg k lsn g t))).
    exact IHk.
Qed.

(* ---------- forests ---------- *)
Definition fclean (f : list tree) : list tree := map (erase false) f.

Lemma flush_forest s : forest (flush s) = fclean (forest s).
Proof. unfold flush, fclean. cbn [set_forest forest]. apply map_ext. intros. apply clean_is_erase. Qed.

Lemma fclean_idem f : fclean (fclean f) = fclean f.
Proof. unfold fclean. rewrite map_map. apply map_ext. intros. apply erase_idem. Qed.

(* equal up to dirty flags *)
Record seq (a b : store) : Prop := mkSeq {
  seq_forest : fclean (forest a) = fclean (forest b);
  seq_pt : ptRoot a = ptRoot b;
  seq_free : nextFree a = nextFree b
}.

Lemma seq_refl s : seq s s.
Proof. constructor; reflexivity. Qed.
Lemma seq_sym a b : seq a b -> seq b a.
Proof. intros [A B C]. constructor; auto. Qed.
Lemma seq_trans a b c : seq a b -> seq b c -> seq a c.
Proof. intros [A B C] [D E F]. constructor; congruence. Qed.

Lemma seq_flush s : seq (flush s) s.
Proof. constructor; [rewrite flush_forest; apply fclean_idem | reflexivity | reflexivity]. Qed.

Lemma flush_flush s : flush (flush s) = flush s.
Proof.
  destruct s as [f lk pt nf nl]. unfold flush, set_forest. cbn [forest lastKey ptRoot nextFree nextLSN]. f_equal.
  rewrite map_map. apply map_ext. intros t. rewrite !clean_is_erase. apply erase_idem.
Qed.

(* element-wise view of fclean equality *)
Lemma fclean_eq_cons_inv a f g :
  fclean (a :: f) = fclean g -> exists b g', g = b :: g' /\ erase false a = erase false b /\ fclean f = fclean g'.
Proof.
  destruct g as [|b g']; [discriminate|]. cbn [fclean map]. intros H. inversion H. eauto.
Qed.

Lemma fclean_find_root off : forall f g,
  fclean f = fclean g ->
  match find_root off f, find_root off g with
  | Some t1, Some t2 => erase false t1 = erase false t2
  | None, None => True
  | _, _ => False
  end.
Proof.
  unfold find_root. induction f as [|a f IH]; intros g H.
  - destruct g; [exact I | discriminate].
  - apply fclean_eq_cons_inv in H as (b & g' & -> & Hab & Hfg). cbn [find].
    assert (Eo : t_off a = t_off b) by (rewrite <- (erase_off false a), Hab; apply erase_off).
    rewrite Eo. destruct (N.eqb (t_off b) off); [exact Hab | apply IH; exact Hfg].
Qed.

Lemma fclean_replace_root off t1 t2 : forall f g,
  fclean f = fclean g -> erase false t1 = erase false t2 ->
  fclean (replace_root off t1 f) = fclean (replace_root off t2 g).
Proof.
  induction f as [|a f IH]; intros g H Ht.
  - destruct g; [reflexivity | discriminate].
  - apply fclean_eq_cons_inv in H as (b & g' & -> & Hab & Hfg). cbn [replace_root].
    assert (Eo : t_off a = t_off b) by (rewrite <- (erase_off false a), Hab; apply erase_off).
    rewrite Eo. destruct (N.eqb (t_off b) off); cbn [fclean map]; f_equal; auto.
Qed.

Lemma fclean_touch_forest pg k lsn g : forall f h,
  fclean f = fclean h -> fclean (touch_forest pg k lsn g f) = fclean (touch_forest pg k lsn g h).
Proof.
  induction f as [|a f IH]; intros h H.
  - destruct h; [reflexivity | discriminate].
  - apply fclean_eq_cons_inv in H as (b & h' & -> & Hab & Hfh). cbn [touch_forest].
    assert (Ep : has_page pg a = has_page pg b).
    { rewrite <- (erase_has_page false pg a), Hab. apply erase_has_page. }
    rewrite Ep. destruct (has_page pg b); cbn [fclean map]; f_equal; auto.
    rewrite <- (erase_touch_leaf false pg k lsn g a), Hab. apply erase_touch_leaf.
Qed.

(* ---------- readers on stores ---------- *)
Lemma seq_get_tree a b off : seq a b ->
  match get_tree a off, get_tree b off with
  | Ok t1, Ok t2 => erase false t1 = erase false t2
  | Err e1, Err e2 => e1 = e2
  | _, _ => False
  end.
Proof.
  intros [H _ _]. unfold get_tree. pose proof (fclean_find_root off _ _ H) as F.
  destruct (find_root off (forest a)), (find_root off (forest b)); auto; contradiction.
Qed.

Lemma scan_right_eq t1 t2 : erase false t1 = erase false t2 -> scan_right t1 = scan_right t2.
Proof. intros H. rewrite <- (erase_scan_right false t1), H. apply erase_scan_right. Qed.

Lemma seq_rel_offset a b name : seq a b -> rel_offset a name = rel_offset b name.
Proof.
  intros H. unfold rel_offset. rewrite (seq_pt _ _ H).
  pose proof (seq_get_tree a b (ptRoot b) H) as G.
  destruct (get_tree a (ptRoot b)) as [t1|e1|], (get_tree b (ptRoot b)) as [t2|e2|]; try contradiction; cbn [bind].
  - rewrite (scan_right_eq _ _ G). reflexivity.
  - subst. reflexivity.
Qed.

Lemma seq_rel_schema a b name : seq a b -> rel_schema a name = rel_schema b name.
Proof.
  intros H. unfold rel_schema. rewrite (seq_rel_offset a b _ H).
  destruct (rel_offset b schemaTableName) as [off|e|]; cbn [bind]; try reflexivity.
  pose proof (seq_get_tree a b off H) as G.
  destruct (get_tree a off) as [t1|e1|], (get_tree b off) as [t2|e2|]; try contradiction; cbn [bind].
  - rewrite (scan_right_eq _ _ G). reflexivity.
  - subst. reflexivity.
Qed.

Lemma seq_st_fetch a b name : seq a b -> st_fetch a name = st_fetch b name.
Proof.
  intros H. unfold st_fetch. rewrite (seq_rel_offset a b _ H), (seq_rel_schema a b _ H).
  destruct (rel_offset b name) as [off|e|]; cbn [bind]; try reflexivity.
  destruct (rel_schema b name) as [sch|e|]; cbn [bind]; try reflexivity.
  pose proof (seq_get_tree a b off H) as G.
  destruct (get_tree a off) as [t1|e1|], (get_tree b off) as [t2|e2|]; try contradiction; cbn [bind].
  - rewrite (scan_right_eq _ _ G). reflexivity.
  - subst. reflexivity.
Qed.

(* A. stores equal up to dirty flags answer every SELECT * alike *)
Theorem seq_abs a b : seq a b -> abs a = abs b.
Proof.
  intros H. unfold abs, all_tables. rewrite (seq_pt _ _ H).
  pose proof (seq_get_tree a b (ptRoot b) H) as G.
  assert (F : forall ns, fetch_all a ns = fetch_all b ns).
  { induction ns as [|n r IH]; [reflexivity|]. cbn [fetch_all]. rewrite (seq_st_fetch a b n H), IH. reflexivity. }
  destruct (get_tree a (ptRoot b)) as [t1|e1|], (get_tree b (ptRoot b)) as [t2|e2|]; try contradiction; cbn [bind].
  - rewrite (scan_right_eq _ _ G). destruct (of_tres (scan_right t2)); cbn [bind]; try reflexivity.
    destruct (table_names a0); cbn [bind]; auto.
  - subst. reflexivity.
Qed.

(* ---------- the same for equality up to dirty flags AND page LSNs ---------- *)
Section UpTo.
Variable el : bool.

Record seqg (a b : store) : Prop := mkSeqg {
  sg_forest : map (erase el) (forest a) = map (erase el) (forest b);
  sg_pt : ptRoot a = ptRoot b;
  sg_free : nextFree a = nextFree b
}.

Lemma seqg_refl s : seqg s s.
Proof. constructor; reflexivity. Qed.
Lemma seqg_sym a b : seqg a b -> seqg b a.
Proof. intros [A B C]. constructor; auto. Qed.
Lemma seqg_trans a b c : seqg a b -> seqg b c -> seqg a c.
Proof. intros [A B C] [D E F]. constructor; congruence. Qed.

Lemma ger_find_root off : forall f g,
  map (erase el) f = map (erase el) g ->
  match find_root off f, find_root off g with
  | Some t1, Some t2 => erase el t1 = erase el t2
  | None, None => True
  | _, _ => False
  end.
Proof.
  unfold find_root. induction f as [|a f IH]; intros g H.
  - destruct g; [exact I | discriminate].
  - destruct g as [|b g']; [discriminate|]. cbn [map] in H. inversion H as [[Hab Hfg]]. cbn [find].
    assert (Eo : t_off a = t_off b) by (rewrite <- (erase_off el a), Hab; apply erase_off).
    rewrite Eo. destruct (N.eqb (t_off b) off); [exact Hab | apply IH; exact Hfg].
Qed.

Lemma seqg_get_tree a b off : seqg a b ->
  match get_tree a off, get_tree b off with
  | Ok t1, Ok t2 => erase el t1 = erase el t2
  | Err e1, Err e2 => e1 = e2
  | _, _ => False
  end.
Proof.
  intros [H _ _]. unfold get_tree. pose proof (ger_find_root off _ _ H) as F.
  destruct (find_root off (forest a)), (find_root off (forest b)); auto; contradiction.
Qed.

Lemma scan_right_eqg t1 t2 : erase el t1 = erase el t2 -> scan_right t1 = scan_right t2.
Proof. intros H. rewrite <- (erase_scan_right el t1), H. apply erase_scan_right. Qed.

Lemma seqg_rel_offset a b name : seqg a b -> rel_offset a name = rel_offset b name.
Proof.
  intros H. unfold rel_offset. rewrite (sg_pt _ _ H).
  pose proof (seqg_get_tree a b (ptRoot b) H) as G.
  destruct (get_tree a (ptRoot b)) as [t1|e1|], (get_tree b (ptRoot b)) as [t2|e2|]; try contradiction; cbn [bind].
  - rewrite (scan_right_eqg _ _ G). reflexivity.
  - subst. reflexivity.
Qed.

Lemma seqg_rel_schema a b name : seqg a b -> rel_schema a name = rel_schema b name.
Proof.
  intros H. unfold rel_schema. rewrite (seqg_rel_offset a b _ H).
  destruct (rel_offset b schemaTableName) as [off|e|]; cbn [bind]; try reflexivity.
  pose proof (seqg_get_tree a b off H) as G.
  destruct (get_tree a off) as [t1|e1|], (get_tree b off) as [t2|e2|]; try contradiction; cbn [bind].
  - rewrite (scan_right_eqg _ _ G). reflexivity.
  - subst. reflexivity.
Qed.

Lemma seqg_st_fetch a b name : seqg a b -> st_fetch a name = st_fetch b name.
Proof.
  intros H. unfold st_fetch. rewrite (seqg_rel_offset a b _ H), (seqg_rel_schema a b _ H).
  destruct (rel_offset b name) as [off|e|]; cbn [bind]; try reflexivity.
  destruct (rel_schema b name) as [sch|e|]; cbn [bind]; try reflexivity.
  pose proof (seqg_get_tree a b off H) as G.
  destruct (get_tree a off) as [t1|e1|], (get_tree b off) as [t2|e2|]; try contradiction; cbn [bind].
  - rewrite (scan_right_eqg _ _ G). reflexivity.
  - subst. reflexivity.
Qed.

Theorem seqg_abs a b : seqg a b -> abs a = abs b.
Proof.
  intros H. unfold abs, all_tables. rewrite (sg_pt _ _ H).
  pose proof (seqg_get_tree a b (ptRoot b) H) as G.
  assert (F : forall ns, fetch_all a ns = fetch_all b ns).
  { induction ns as [|n r IH]; [reflexivity|]. cbn [fetch_all]. rewrite (seqg_st_fetch a b n H), IH. reflexivity. }
  destruct (get_tree a (ptRoot b)) as [t1|e1|], (get_tree b (ptRoot b)) as [t2|e2|]; try contradiction; cbn [bind].
  - rewrite (scan_right_eqg _ _ G). destruct (of_tres (scan_right t2)); cbn [bind]; try reflexivity.
    destruct (table_names a0); cbn [bind]; auto.
  - subst. reflexivity.
Qed.
End UpTo.

(* equal up to dirty flags and page LSNs *)
Definition seqL := seqg true.

Lemma seq_seqL a b : seq a b -> seqL a b.
Proof.
  intros [A B C]. constructor; auto. unfold fclean in A.
  rewrite <- (map_ext _ _ erase_true_false (forest a)), <- (map_ext _ _ erase_true_false (forest b)).
  rewrite <- (map_map (erase false) (erase true) (forest a)), <- (map_map (erase false) (erase true) (forest b)), A.
  reflexivity.
Qed.

Theorem seqL_abs a b : seqL a b -> abs a = abs b.
Proof. apply seqg_abs. Qed.

(* an in-place change stamped with a different LSN differs only in that LSN *)
Lemma erase_touch_lsn pg k l1 l2 g t :
  erase true (touch_leaf pg k l1 g t) = erase true (touch_leaf pg k l2 g t).
Proof.
  induction t as [off l d cells hl hr ls rs | off l d kids rgt IHk IHr] using tree_ind2.
  - cbn [touch_leaf]. destruct (N.eqb off pg); reflexivity.
  - rewrite !touch_leaf_node, !erase_node, IHr. f_equal. unfold ekids. rewrite !map_kids_map.
    apply (map_kids_ext (fun t => erase true (touch_leaf pg k l1 g t)) (fun t => erase true (touch_leaf pg k l2 g t))).
    exact IHk.
Qed.

Lemma erase_touch_forest_lsn pg k l1 l2 g f :
  map (erase true) (touch_forest pg k l1 g f) = map (erase true) (touch_forest pg k l2 g f).
Proof.
  induction f as [|t f IH]; [reflexivity|]. cbn [touch_forest].
  destruct (has_page pg t); cbn [map]; f_equal; [apply erase_touch_lsn | exact IH].
Qed.
