(* Arithmetic facts about the constants of Gen/Params.v (regenerated from the Go sources on
   every run). They are re-proved here by computation on the CURRENT values; the codec theorems
   use the constants only through these facts (the constants are opaque in the proofs), so a
   changed constant either keeps every fact true - and the theorems remain valid for the new
   layout - or breaks a fact / theorem visibly. *)
From Coq Require Import NArith ZArith Lia List String.
From Mkdb Require Import Gen.Params.
Open Scope N_scope.

(* freeSize is a uint16 *)
Lemma pageSize_u16 : pageSize < 65536.
Proof. now vm_compute. Qed.

(* the header sizes are the sums of the field widths the encoders write *)
Lemma leaf_header_layout : leafNodeHeaderSize = 1 + 8 + 8 + 1 + 1 + 8 + 8 + 4 + 2.
Proof. now vm_compute. Qed.
Lemma internal_header_layout : internalNodeHeaderSize = 1 + 8 + 8 + 8 + 4 + 2.
Proof. now vm_compute. Qed.
Lemma offset_elem_layout : offsetElemSize = 2.
Proof. now vm_compute. Qed.
Lemma leaf_cell_layout : leafNodeCellSize = 4 + 1 + 4 + maxValueSize.
Proof. now vm_compute. Qed.
Lemma node_cell_layout : nodeCellSize = 4 + 8.
Proof. now vm_compute. Qed.

(* a node at maximum occupancy with maximum-size values fits a page *)
Lemma leaf_fits : leafNodeHeaderSize + maxLeafNodeCells * (offsetElemSize + leafNodeCellSize) <= pageSize.
Proof. now vm_compute. Qed.
Lemma internal_fits : internalNodeHeaderSize + maxInternalNodeCells * (offsetElemSize + nodeCellSize) <= pageSize.
Proof. now vm_compute. Qed.

(* capacities are the largest such numbers (the derivation in page.go) *)
Lemma leaf_capacity_tight : pageSize < leafNodeHeaderSize + (maxLeafNodeCells + 1) * (offsetElemSize + leafNodeCellSize).
Proof. now vm_compute. Qed.
Lemma internal_capacity_tight : pageSize < internalNodeHeaderSize + (maxInternalNodeCells + 1) * (offsetElemSize + nodeCellSize).
Proof. now vm_compute. Qed.

Lemma maxLeaf_ge_2 : 2 <= maxLeafNodeCells.
Proof. now vm_compute. Qed.
Lemma maxInternal_ge_2 : 2 <= maxInternalNodeCells.
Proof. now vm_compute. Qed.
(* slot numbers are uint16 *)
Lemma maxLeaf_u16 : maxLeafNodeCells < 65536.
Proof. now vm_compute. Qed.
Lemma maxInternal_u16 : maxInternalNodeCells < 65536.
Proof. now vm_compute. Qed.

(* the node tags are distinct bytes *)
Lemma tagLeaf_byte : tagLeafNode < 256.
Proof. now vm_compute. Qed.
Lemma tagInternal_byte : tagInternalNode < 256.
Proof. now vm_compute. Qed.
Lemma tags_distinct : tagInternalNode <> tagLeafNode.
Proof. now vm_compute. Qed.

(* WAL op codes are distinct bytes *)
Lemma walops_bytes : code_OpInsert < 256 /\ code_OpUpdate < 256 /\ code_OpDelete < 256.
Proof. now vm_compute. Qed.
Lemma walops_distinct : code_OpInsert <> code_OpUpdate /\ code_OpInsert <> code_OpDelete /\ code_OpUpdate <> code_OpDelete.
Proof. now vm_compute. Qed.

(* the first pages follow the header page *)
Lemma page_table_offsets : initialPageTableOffset = pageSize /\ initialSchemaTableOffset = 2 * pageSize.
Proof. now vm_compute. Qed.
