(* C03 / C04 without the hypotheses (H1) `stmt_atomic` and (H2) `stmt_moves_ok`: crashes inside a
   log append (`EvCrashInLog st j`) and crashes inside a flush (`EvTornFlush W`) are events of the
   H-free boolean histories `hist_ok2` (Proofs/HistNoH1.v). What makes this possible is
   MovesFromRep.RInv_step for these two events: the refinement invariant `SelfOk (mem y) /\ exists d,
   Rep (mem y) d` holds again after the recovery they perform -
     EvTornFlush: the recovered cache equals the lost one up to dirty flags (torn_flush_inv);
     EvCrashInLog: the recovered cache equals, up to dirty flags and page LSNs (`prefix_state`), the
       store after the first i row operations of the statement, which represents the database
       after INSERT of the first i rows / UPDATE or DELETE of the first i matching ids
       (MovesFromRep.prefix_rep), and `Rep` / `SelfOk` do not look at dirty flags, page LSNs or the
       counters lastKey / nextLSN (MovesFromRep.Rep_upto, SelfOk_upto; the part of `Rep` that does
       look at the counters, SInv, comes from `Good` of the recovered store).
   This file: the glue between `hist_ok2` and the theorems of CrashHist.v / CrashPrefix.v. The only
   hypotheses left on the events are the boolean ones of `ev_ok2`: literals are Go values
   (RefineMain.stmt_ok) and the allocation frontier after the statement is <= 2^63 (OFFMAX), for
   EvStmt st and EvCrashInLog st j alike; nothing for EvFlush / EvCrash / EvTornFlush W. No
   further side condition was needed. *)
From Coq Require Import Arith Lia Bool List NArith ZArith String.
From Mkdb Require Import Model.Engine Spec.TableSpec Spec.HistObs Proofs.StoreInv Proofs.RefineRep
  Proofs.RefineCat Proofs.RefineMain Proofs.CrashBase Proofs.CrashPages Proofs.CrashRedo Proofs.CrashLog Proofs.CrashMain Proofs.CrashPrefix
  Proofs.CrashTorn Proofs.CrashTornInv Proofs.CrashHist Proofs.MovesFromRep Proofs.HistNoH1 Gen.Params.
Import ListNotations.
Local Open Scope N_scope.

(* ---------- from the boolean hypothesis to the ones of the crash theorems ---------- *)
Theorem hist_ok2_hist_ok evs : hist_ok2 init_sys evs = true -> hist_ok init_sys evs.
Proof. intros H. apply hist_ok1_sound. apply hist_ok2_sound. exact H. Qed.

Theorem hist_ok2_RInv evs y os :
  hist_ok2 init_sys evs = true -> run_events init_sys evs = (SOk y, os) -> RInv y.
Proof. intros H R. exact (RInv_run evs init_sys y os RInv_init (hist_ok2_sound evs H) R). Qed.

Theorem hist_ok2_reachable evs y os :
  hist_ok2 init_sys evs = true -> run_events init_sys evs = (SOk y, os) -> reachable_c y.
Proof. intros H R. exists evs, os. split; [apply hist_ok2_hist_ok; exact H | exact R]. Qed.

Lemma ev_ok2_ev_ok y ev : RInv y -> ev_ok2 y ev = true -> CrashHist.ev_ok y ev.
Proof. intros HI H. apply ev_ok1_ev_ok; [exact HI | apply ev_ok2_ok1; assumption]. Qed.

(* (H1) and (H2) for the statement that is being logged when the process dies *)
Lemma ev_ok2_cil_stmt_ok evs y os st j :
  hist_ok2 init_sys evs = true -> run_events init_sys evs = (SOk y, os) ->
  ev_ok2 y (EvCrashInLog st j) = true -> CrashMain.stmt_ok (mem y) st.
Proof. intros H R Hev. exact (ev_ok2_ev_ok y (EvCrashInLog st j) (hist_ok2_RInv evs y os H R) Hev). Qed.

Lemma run_events_snoc evs : forall y y' os ev y1 o,
  run_events y evs = (SOk y', os) -> step y' ev = (SOk y1, o) -> run_events y (evs ++ [ev]) = (SOk y1, os ++ [o]).
Proof.
  induction evs as [|a r IH]; intros y y' os ev y1 o Hr Hs.
  - cbn in Hr. inversion Hr; subst. cbn [app run_events]. rewrite Hs. reflexivity.
  - cbn [app run_events] in *. destruct (step y a) as [[y2|e|] o2] eqn:Es; try discriminate.
    destruct (run_events y2 r) as [fin os'] eqn:Er. inversion Hr; subst.
    rewrite (IH y2 y' os' ev y1 o Er Hs). reflexivity.
Qed.

(* ---------- C03 ---------- *)
Theorem crash_in_log_noH evs y os st m j :
  hist_ok2 init_sys evs = true -> run_events init_sys evs = (SOk y, os) ->
  ev_ok2 y (EvCrashInLog st j) = true -> is_dml st = true -> e_out (run_stmt (mem y) st) = OOk m ->
  let i := started (op_sizes (mem y) st) j in
  exists y',
    step y (EvCrashInLog st j) = (SOk y', None) /\
    wal y' = wal y ++ firstn j (e_batch (run_stmt (mem y) st)) /\ disk y' = mem y' /\
    prefix_state (mem y') (run_rows (mem y) st i) /\
    abs (mem y') = abs (run_rows (mem y) st i).
Proof.
  intros H R Hev Hd Ho. cbv zeta.
  destruct (ev_ok2_cil_stmt_ok evs y os st j H R Hev) as [_ Hmv].
  destruct (crash_in_log y st m j (reachable_inv_c y (hist_ok2_reachable evs y os H R)) Hd Hmv Ho)
    as (y' & A & B & C & D & E & _). eauto 10.
Qed.

(* a crash inside a log append is total along these histories, and the extended history is one of
   them again *)
Theorem crash_in_log_continues_noH evs y os st j :
  hist_ok2 init_sys evs = true -> run_events init_sys evs = (SOk y, os) ->
  ev_ok2 y (EvCrashInLog st j) = true ->
  exists y1 os1, run_events init_sys (evs ++ [EvCrashInLog st j]) = (SOk y1, os1) /\
                 hist_ok2 init_sys (evs ++ [EvCrashInLog st j]) = true.
Proof.
  intros H R Hev.
  pose proof (hist_ok2_RInv evs y os H R) as (HI2 & _).
  pose proof (ev_ok2_cil_stmt_ok evs y os st j H R Hev) as Hok.
  assert (Hstep : exists y1, step y (EvCrashInLog st j) = (SOk y1, None)).
  { destruct HI2 as [HI _]. destruct Hok as [Hat Hmv]. cbn [step].
    destruct (e_flushed (run_stmt (mem y) st)) eqn:Efl.
    - destruct (flushed_shape _ _ Efl) as [Eok Eb].
      destruct HI as (r & Hrep & Hseq & Gr & HGL).
      pose proof (log_stmt (wal y) (mem y) st HGL) as HL. rewrite Eok, Eb, app_nil_r in HL.
      rewrite Eok, Eb, firstn_nil, app_nil_r. unfold recover. cbn [disk wal].
      rewrite (replay_inert _ _ (proj1 HL) (proj2 HL)). eauto.
    - destruct (is_ok (e_out (run_stmt (mem y) st))) eqn:Eok.
      + destruct (e_out (run_stmt (mem y) st)) as [m| |] eqn:Eo; try discriminate.
        assert (Hd : is_dml st = true) by (apply (ok_unflushed_is_dml (mem y)); [rewrite Eo; reflexivity | exact Efl]).
        destruct (crash_in_log y st m j HI Hd Hmv Eo) as (y' & Hst & _). cbn [step] in Hst. rewrite Eo, Efl in Hst.
        cbn [is_ok]. eauto.
      + destruct (inv_recover y HI) as (r & _ & Hrec & _). unfold recover in *. cbn [disk wal].
        destruct (replay (disk y) (wal y)); inversion Hrec; eauto. }
  destruct Hstep as (y1 & Hs). exists y1, (os ++ [None]).
  split; [exact (run_events_snoc evs init_sys y os _ y1 None R Hs) | exact (hist_ok2_snoc evs init_sys y os _ H R Hev)].
Qed.

(* ---------- C04 ---------- *)
Theorem torn_flush_recovers_noH evs y os W d :
  hist_ok2 init_sys evs = true -> run_events init_sys evs = (SOk y, os) -> torn_disk y W = Some d ->
  exists y', recover (mkSys d d (wal y)) = Ok y' /\ step y (EvTornFlush W) = (SOk y', None) /\
             seq (mem y') (mem y) /\ abs (mem y') = abs (mem y) /\ Good (mem y').
Proof.
  intros H R T.
  destruct (torn_flush_recovers y W d (hist_ok2_reachable evs y os H R) T) as (y' & A & B & C & D & G & _).
  eauto 8.
Qed.

Theorem torn_flush_continues_noH evs y os W y' :
  hist_ok2 init_sys evs = true -> run_events init_sys evs = (SOk y, os) -> step y (EvTornFlush W) = (SOk y', None) ->
  exists os', hist_ok2 init_sys (evs ++ [EvTornFlush W]) = true /\
              run_events init_sys (evs ++ [EvTornFlush W]) = (SOk y', os').
Proof.
  intros H R Hs. exists (os ++ [None]).
  split; [exact (hist_ok2_snoc evs init_sys y os (EvTornFlush W) H R eq_refl) | exact (run_events_snoc evs init_sys y os _ y' None R Hs)].
Qed.

Theorem torn_twice_noH evs y os W d g' W2 d2 :
  hist_ok2 init_sys evs = true -> run_events init_sys evs = (SOk y, os) ->
  torn_disk y W = Some d -> replay d (wal y) = RCont g' ->
  torn_disk (mkSys g' d (wal y)) W2 = Some d2 ->
  torn_disk y (W ++ W2) = Some d2 /\
  exists y', recover (mkSys d2 d2 (wal y)) = Ok y' /\ seq (mem y') (mem y) /\ abs (mem y') = abs (mem y).
Proof.
  intros H R T Hr T2.
  pose proof (hist_ok2_reachable evs y os H R) as Hy.
  destruct (reachable_inv2 y Hy) as [HI HT].
  pose proof (torn_twice y W d g' W2 d2 HI HT T Hr T2) as T3. split; [exact T3|].
  destruct (torn_flush_recovers y (W ++ W2) d2 Hy T3) as (y' & A & B & C & _). eauto.
Qed.

(* along every such history - crashes inside log appends and inside flushes included - the cache
   represents a database of the specification *)
Theorem hist_ok2_rep_all evs y os :
  hist_ok2 init_sys evs = true -> run_events init_sys evs = (SOk y, os) ->
  SelfOk (mem y) /\ exists d, Rep (mem y) d.
Proof. exact (hist_ok2_rep evs y os). Qed.
