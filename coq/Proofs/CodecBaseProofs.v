(* Reader lemmas shared by the codec proofs: each decoder step applied to the bytes its
   encoder step wrote, followed by anything, returns the value and the rest. *)
From Coq Require Import Ascii NArith ZArith Bool Lia Arith List.
From Mkdb Require Import Model.CodecBase Proofs.BytesProofs.
Import ListNotations.
Open Scope N_scope.

Lemma pow_w8 : 256 ^ N.of_nat 1 = w8.   Proof. reflexivity. Qed.
Lemma pow_w16 : 256 ^ N.of_nat 2 = w16. Proof. reflexivity. Qed.
Lemma pow_w32 : 256 ^ N.of_nat 4 = w32. Proof. reflexivity. Qed.
Lemma pow_w64 : 256 ^ N.of_nat 8 = w64. Proof. reflexivity. Qed.

Lemma rd_u_app w n rest : n < 256 ^ N.of_nat w -> rd_u w (le_enc w n ++ rest) = Ok (n, rest).
Proof. intros H. unfold rd_u. rewrite read_u_app by exact H. reflexivity. Qed.

Lemma rd_u1_app n rest : n < w8 -> rd_u 1 (le_enc 1 n ++ rest) = Ok (n, rest).
Proof. intros H. apply rd_u_app. rewrite pow_w8. exact H. Qed.
Lemma rd_u2_app n rest : n < w16 -> rd_u 2 (le_enc 2 n ++ rest) = Ok (n, rest).
Proof. intros H. apply rd_u_app. rewrite pow_w16. exact H. Qed.
Lemma rd_u4_app n rest : n < w32 -> rd_u 4 (le_enc 4 n ++ rest) = Ok (n, rest).
Proof. intros H. apply rd_u_app. rewrite pow_w32. exact H. Qed.
Lemma rd_u8_app n rest : n < w64 -> rd_u 8 (le_enc 8 n ++ rest) = Ok (n, rest).
Proof. intros H. apply rd_u_app. rewrite pow_w64. exact H. Qed.

Lemma rd_bool_app b rest : rd_bool (enc_bool b ++ rest) = Ok (b, rest).
Proof. unfold rd_bool. rewrite read_bool_enc. reflexivity. Qed.

Lemma rd_u_short w bs : (length bs < w)%nat -> rd_u w bs = Err ShortRead.
Proof.
  intros H. unfold rd_u, read_u. destruct (take w bs) as [[h r]|] eqn:E; [|reflexivity].
  apply take_some in E. destruct E as [-> E]. rewrite app_length in H. lia.
Qed.

Lemma read_blob_app v rest : read_blob (N.of_nat (length v)) (v ++ rest) = Ok (v, rest).
Proof.
  unfold read_blob. destruct (v ++ rest) as [|b r] eqn:E.
  - apply app_eq_nil in E. destruct E as [-> ->]. reflexivity.
  - rewrite <- E. clear E b r.
    replace (N.to_nat (N.min (N.of_nat (length v)) (N.of_nat (length (v ++ rest))))) with (length v)
      by (rewrite app_length; lia).
    replace (N.to_nat (N.of_nat (length v) - N.of_nat (length (v ++ rest)))) with O
      by (rewrite app_length; lia).
    rewrite firstn_app, firstn_all, Nat.sub_diag, firstn_O.
    rewrite skipn_app, skipn_all, Nat.sub_diag. cbn [zeros repeat skipn app].
    rewrite !app_nil_r. reflexivity.
Qed.

Lemma flat_map_le_enc_length w l : length (flat_map (le_enc w) l) = (w * length l)%nat.
Proof.
  induction l as [|x r IH]; cbn [flat_map length]; [lia|].
  rewrite app_length, le_enc_length, IH. lia.
Qed.

Lemma rd_u_list_app w : forall l fuel rest,
  Forall (fun x => x < 256 ^ N.of_nat w) l -> (length l <= fuel)%nat ->
  rd_u_list w fuel (N.of_nat (length l)) (flat_map (le_enc w) l ++ rest) = Ok (l, rest).
Proof.
  induction l as [|x r IH]; intros fuel rest Hall Hfuel.
  - destruct fuel; reflexivity.
  - destruct fuel as [|fuel]; [cbn [length] in Hfuel; lia|].
    cbn [rd_u_list length flat_map].
    destruct (N.eqb_spec (N.of_nat (S (length r))) 0) as [E|_]; [lia|].
    inversion Hall as [|? ? Hx Hr]; subst.
    rewrite <- app_assoc, rd_u_app by exact Hx.
    replace (N.of_nat (S (length r)) - 1) with (N.of_nat (length r)) by lia.
    rewrite IH by (try exact Hr; cbn [length] in Hfuel; lia). reflexivity.
Qed.

(* ---- slot arrays ---- *)

Lemma set_nth_length {A} (x : A) : forall l i, length (set_nth i x l) = length l.
Proof. induction l as [|y r IH]; intros [|i]; cbn [set_nth length]; auto. Qed.

Lemma set_nth_same {A} (x : A) : forall l i, (i < length l)%nat -> nth_error (set_nth i x l) i = Some x.
Proof.
  induction l as [|y r IH]; intros [|i] H; cbn [length] in H; try lia; cbn [set_nth nth_error]; auto.
  apply IH. lia.
Qed.

Lemma set_nth_other {A} (x : A) : forall l i j, i <> j -> nth_error (set_nth i x l) j = nth_error l j.
Proof.
  induction l as [|y r IH]; intros [|i] [|j] H; cbn [set_nth nth_error]; auto; try congruence.
Qed.

Lemma nth_error_ext' {A} : forall (l1 l2 : list A), (forall j, nth_error l1 j = nth_error l2 j) -> l1 = l2.
Proof.
  induction l1 as [|x r IH]; intros [|y r2] H; auto.
  - specialize (H O). discriminate.
  - specialize (H O). discriminate.
  - pose proof (H O) as H0. cbn in H0. inversion H0; subst. f_equal. apply IH. intros j. exact (H (S j)).
Qed.

Lemma nth_error_firstn' {A} : forall k (l : list A) j, (j < k)%nat -> nth_error (firstn k l) j = nth_error l j.
Proof.
  induction k as [|k IH]; intros l j H; [lia|]. destruct l as [|x r]; [reflexivity|].
  destruct j as [|j]; cbn [firstn nth_error]; auto. apply IH. lia.
Qed.

Lemma nth_error_map' {A B} (f : A -> B) : forall l j, nth_error (map f l) j = option_map f (nth_error l j).
Proof. induction l as [|x r IH]; intros [|j]; cbn [map nth_error option_map]; auto. Qed.

Lemma sequence_map_Some {A} (l : list A) : sequence (map Some l) = Some l.
Proof. induction l as [|x r IH]; cbn [map sequence]; [reflexivity|]. rewrite IH. reflexivity. Qed.
