(* C01 refinement, part 6: the initial database, flush, and CREATE TABLE (catalog growth, with
   root moves of sys_schema recorded in sys_pages and of sys_pages recorded in the header). *)
From Coq Require Import Arith Lia Bool List NArith ZArith String Sorted Permutation.
From Mkdb Require Import Model.Engine Spec.TableSpec Spec.HistObs Proofs.TreeProofs Proofs.StoreInv
  Proofs.BytesProofs Proofs.TupleProofs Proofs.RefineForest Proofs.RefineCodec Proofs.RefineRep
  Proofs.RefineCat Proofs.RefineDML Gen.Params.
Import ListNotations.
Local Open Scope N_scope.
Local Open Scope string_scope.
Local Open Scope list_scope.

(* ====================== the fresh database ====================== *)
Lemma Rep_init : Rep (fst create_db) [].
Proof.
  constructor; [apply create_db_inv | constructor; constructor|].
  remember (fst create_db) as s0 eqn:E. vm_compute in E.
  match type of E with _ = mkStore [?a; ?b] _ _ _ _ =>
    exists a, b, [("sys_pages", 4096); ("sys_schema", 8192)], 8192 end.
  subst s0. constructor.
  - reflexivity.
  - repeat constructor.
  - repeat (constructor; [split; [reflexivity | apply Nat.leb_le; vm_compute; reflexivity]|]). constructor.
  - reflexivity.
  - cbn. constructor; [intros [X|[]]; discriminate | constructor; [intros [] | constructor]].
  - right. left. reflexivity.
  - reflexivity.
  - repeat constructor.
  - repeat constructor.
  - intros t [].
Qed.

(* ====================== flush ====================== *)
Lemma find_root_clean o f : find_root o (map clean_tree f) = option_map clean_tree (find_root o f).
Proof.
  unfold find_root. induction f as [|t f IH]; [reflexivity|]. cbn [map find]. rewrite clean_off.
  destruct (N.eqb (t_off t) o); [reflexivity | exact IH].
Qed.

Lemma Rep_flush s d : Rep s d -> Rep (flush s) d.
Proof.
  intros [Hinv Hok (pt & sc & ents & osc & HC)]. constructor; [apply flush_inv; exact Hinv | exact Hok|].
  exists (clean_tree pt), (clean_tree sc), ents, osc.
  destruct HC as [A1 A2 A3 A4 A5 A6 A7 A8 A9 A10].
  constructor; unfold flush; cbn [set_forest forest ptRoot]; rewrite ?find_root_clean, ?clean_cells; auto.
  - rewrite A1. reflexivity.
  - rewrite A7. reflexivity.
  - intros t Ht. destruct (A10 t Ht) as (o & tr & X1 & X2 & X3).
    exists o, (clean_tree tr). split; [exact X1|]. split; [rewrite find_root_clean, X2; reflexivity|].
    unfold TableRep, scan_tree in *. rewrite clean_cells. exact X3.
Qed.

(* ====================== a sys_schema row is appended for the last table ====================== *)
Lemma sc_entries_last d0 n sch fd :
  sc_entries (sys_db ++ d0 ++ [mkTbl n (sch ++ [fd]) []]) =
  sc_entries (sys_db ++ d0 ++ [mkTbl n sch []]) ++ [(n, fd)].
Proof.
  rewrite !sc_entries_app. rewrite <- !app_assoc. do 2 f_equal.
  unfold sc_entries. cbn [flat_map tb_name tb_schema]. rewrite !app_nil_r. rewrite map_app. reflexivity.
Qed.

Lemma names_last (d0 : db) n sch1 sch2 :
  map tb_name (d0 ++ [mkTbl n sch1 []]) = map tb_name (d0 ++ [mkTbl n sch2 []]).
Proof. rewrite !map_app. reflexivity. Qed.

Lemma Cat_schema_step s s' d0 n sch fd pt pt' sc sc' ents osc osc' k :
  SInv s -> DbOk (d0 ++ [mkTbl n sch []]) ->
  Cat s (d0 ++ [mkTbl n sch []]) pt sc ents osc ->
  ptRoot s' = ptRoot s ->
  (osc' = osc \/ nextFree s <= osc') -> osc' < OFFMAX ->
  find_root (ptRoot s) (forest s') = Some pt' ->
  PtCells (all_cells pt') (map (upd "sys_schema" osc') ents) ->
  find_root osc' (forest s') = Some sc' ->
  all_cells sc' = all_cells sc ++ [mkLC k false (enc_sce (n, fd))] -> sc_fits (n, fd) ->
  (forall x, x <> osc -> x <> osc' -> x <> ptRoot s -> find_root x (forest s') = find_root x (forest s)) ->
  Cat s' (d0 ++ [mkTbl n (sch ++ [fd]) []]) pt' sc' (map (upd "sys_schema" osc') ents) osc'.
Proof.
  intros Hinv Hok HC Hpt Ho' Hmax Hpt' Hcells Hsc' Hsccells Hfit Hframe.
  set (d := d0 ++ [mkTbl n sch []]) in *.
  pose proof (cat_names_NoDup d ents Hok (c_names _ _ _ _ _ _ HC)) as Hnd.
  pose proof (c_osc _ _ _ _ _ _ HC) as Hosc.
  assert (Hfresh : forall n2 o2, In (n2, o2) ents -> n2 <> "sys_pages" -> n2 <> "sys_schema" ->
                                 o2 <> osc /\ o2 <> osc' /\ o2 <> ptRoot s).
  { intros n2 o2 H2 Hs2 Hne. split; [|split].
    - eapply (cat_offsets_distinct s d pt sc ents osc Hok HC n2 o2 "sys_schema" osc); eauto. discriminate.
    - destruct Ho' as [->|Hge].
      + eapply (cat_offsets_distinct s d pt sc ents osc Hok HC n2 o2 "sys_schema" osc); eauto. discriminate.
      + destruct (cat_entry_tree s d pt sc ents osc n2 o2 Hok HC H2 Hs2) as (tr2 & Hr2).
        pose proof (find_root_bound s o2 tr2 Hinv Hr2). lia.
    - eapply (cat_offset_not_ptroot s d pt sc ents osc HC); eauto. }
  constructor.
  - rewrite Hpt. exact Hpt'.
  - exact Hcells.
  - pose proof (c_ptfits _ _ _ _ _ _ HC) as Hf. rewrite Forall_forall in *. intros e Hin.
    apply in_map_iff in Hin as (e0 & <- & Hin0). unfold upd.
    destruct (String.eqb_spec (fst e0) "sys_schema") as [E|E]; [|auto].
    destruct e0 as [n0 o0]. cbn [fst] in E. subst n0. eapply pt_fits_offset; [apply (Hf _ Hin0) | exact Hmax].
  - rewrite map_upd_fst, (c_names _ _ _ _ _ _ HC). unfold d. rewrite (names_last d0 n sch (sch ++ [fd])). reflexivity.
  - rewrite Hpt, tl_map.
    pose proof (c_names _ _ _ _ _ _ HC) as Hnm. pose proof (c_offs _ _ _ _ _ _ HC) as Hoffs.
    destruct ents as [|[n0 o0] rest]; [contradiction|]. cbn [tl map fst] in *.
    inversion Hnm as [[Hn0 Hrest]]. subst n0. inversion Hnd as [|? ? Hna Hnd']; subst.
    destruct Hosc as [E|Hosc]; [inversion E|].
    apply (NoDup_upd_offsets (ptRoot s) rest "sys_schema" osc osc' Hnd' Hoffs Hosc).
    destruct Ho' as [->|Hge]; [left; reflexivity | right].
    intros [X|X].
    + pose proof (find_root_bound s _ pt Hinv (c_pt _ _ _ _ _ _ HC)). lia.
    + apply in_map_iff in X as ([n2 o2] & X1 & X2). cbn [snd] in X1. subst o2.
      assert (Hn2 : n2 <> "sys_pages").
      { intros ->. apply Hna. change "sys_pages" with (fst ("sys_pages", osc')). apply in_map. exact X2. }
      destruct (cat_entry_tree s d pt sc (("sys_pages", o0) :: rest) osc n2 osc' Hok HC (or_intror X2) Hn2) as (tr2 & Hr2).
      pose proof (find_root_bound s osc' tr2 Hinv Hr2). lia.
  - eapply in_map_upd_self. exact Hosc.
  - exact Hsc'.
  - rewrite sc_entries_last. unfold ScCells. rewrite Hsccells.
    apply Forall2_app; [apply (c_sccells _ _ _ _ _ _ HC)|]. constructor; [split; reflexivity | constructor].
  - rewrite sc_entries_last. apply Forall_app. split; [apply (c_scfits _ _ _ _ _ _ HC)|]. constructor; [exact Hfit | constructor].
  - intros t2 H2.
    assert (H2' : exists t0, In t0 d /\ tb_name t0 = tb_name t2 /\ tb_rows t0 = tb_rows t2 /\
                             (t0 = t2 \/ (tb_rows t2 = [] /\ tb_rows t0 = []))).
    { apply in_app_or in H2 as [H2|[<-|[]]].
      - exists t2. split; [apply in_or_app; left; exact H2|]. auto.
      - exists (mkTbl n sch []). split; [apply in_or_app; right; left; reflexivity|]. cbn. auto. }
    destruct H2' as (t0 & Hin0 & Hn0 & Hrows0 & Hcase).
    destruct (c_tabs _ _ _ _ _ _ HC t0 Hin0) as (o2 & tr2 & He2 & Hr2 & Hrep2).
    assert (Hs2 : tb_name t0 <> "sys_pages" /\ tb_name t0 <> "sys_schema").
    { pose proof (d_nonsys _ Hok) as X. rewrite Forall_forall in X. specialize (X t0 Hin0). apply is_sys_false in X. exact X. }
    destruct Hs2 as [Hs2a Hs2b].
    destruct (Hfresh _ _ He2 Hs2a Hs2b) as (X1 & X2 & X3).
    exists o2, tr2. split; [rewrite <- Hn0; apply in_map_upd_other; auto|]. split; [rewrite (Hframe o2 X1 X2 X3); exact Hr2|].
    destruct Hcase as [->|[E1 E2]]; [exact Hrep2|].
    unfold TableRep in *. rewrite E1. rewrite E2 in Hrep2. inversion Hrep2. constructor.
Qed.

Lemma DbOk_last d0 n sch sch' :
  DbOk (d0 ++ [mkTbl n sch []]) -> NoDup (names sch') -> DbOk (d0 ++ [mkTbl n sch' []]).
Proof.
  intros [A B C] Hnd. constructor.
  - rewrite (names_last d0 n sch' sch). exact A.
  - apply Forall_app in B as [B1 B2]. apply Forall_app. split; [exact B1|]. inversion B2; subst. constructor; auto.
  - apply Forall_app in C as [C1 C2]. apply Forall_app. split; [exact C1|]. constructor; [exact Hnd | constructor].
Qed.

Lemma NoDup_app_l {A} (a b : list A) : NoDup (a ++ b) -> NoDup a.
Proof. apply NoDup_app_remove_r. Qed.

(* insertSchemaTable's loop *)
Lemma insert_schema_rows_rep n fds : forall s d0 sch root s',
  Rep s (d0 ++ [mkTbl n sch []]) -> rel_offset s "sys_schema" = Ok root ->
  NoDup (names (sch ++ fds)) -> nextFree s' <= OFFMAX ->
  insert_schema_rows s root n fds = (s', Ok tt) ->
  Rep s' (d0 ++ [mkTbl n (sch ++ fds) []]).
Proof.
  induction fds as [|fd fds IH]; intros s d0 sch root s' HR Hroot Hnd Hmax Hrun.
  - cbn [insert_schema_rows] in Hrun. inversion Hrun; subst. rewrite app_nil_r. exact HR.
  - cbn [insert_schema_rows] in Hrun.
    replace (sch ++ fd :: fds) with ((sch ++ [fd]) ++ fds) by (rewrite <- app_assoc; reflexivity).
    change [("table_name", VStr n); ("field_name", VStr (fd_name fd));
            ("field_type", VInt (code_of_coltype (fd_type fd))); ("field_length", VInt (fd_len fd))]
      with (sc_tuple (n, fd)) in Hrun.
    destruct (encode_tuple schemaTableSchema (sc_tuple (n, fd))) as [bs|e|] eqn:Eenc; try (inversion Hrun; fail).
    destruct (encode_sc_tuple (n, fd) bs Eenc) as [-> Hi32]. cbn [snd] in Hi32.
    pose proof HR as [Hinv Hok (pt & sc & ents & osc & HC)].
    assert (osc = root).
    { pose proof (cat_rel_offset_in s _ pt sc ents osc Hinv Hok HC _ _ (c_osc _ _ _ _ _ _ HC)) as X. congruence. }
    subst osc.
    destruct (bt_insert s root (enc_sce (n, fd))) as [s1 [[[k lsn] nr]|e|]] eqn:Ebt; try (inversion Hrun; fail).
    destruct (bt_insert_spec s root _ sc Hinv (c_sc _ _ _ _ _ _ HC) s1 k lsn nr Ebt)
      as (sc' & Hinv1 & -> & -> & -> & Hlk & Hptr & Hnf & Hlsn & Hlen & Hrt & Hcells & Hfind & Hframe).
    assert (Hfit : sc_fits (n, fd)) by (apply sc_fits_intro; assumption).
    assert (Hnd1 : NoDup (names (sch ++ [fd]))).
    { unfold names in *. rewrite map_app in *. cbn [map] in *.
      change (map fd_name sch ++ fd_name fd :: map fd_name fds) with (map fd_name sch ++ [fd_name fd] ++ map fd_name fds) in Hnd.
      rewrite app_assoc in Hnd. apply NoDup_app_l in Hnd. exact Hnd. }
    assert (Hnd2 : NoDup (names ((sch ++ [fd]) ++ fds))) by (rewrite <- app_assoc; exact Hnd).
    clear Hnd.
    assert (Hok1 : DbOk (d0 ++ [mkTbl n (sch ++ [fd]) []])) by (eapply DbOk_last; eauto).
    assert (Hrs : root <> ptRoot s).
    { eapply (cat_offset_not_ptroot s _ pt sc ents root HC); [apply (c_osc _ _ _ _ _ _ HC) | discriminate]. }
    pose proof (find_root_bound s _ pt Hinv (c_pt _ _ _ _ _ _ HC)) as Hptb.
    destruct (N.eqb_spec (t_off sc') root) as [Esame|Emoved].
    + (* sys_schema's root stayed *)
      assert (Hmax1 : nextFree s1 <= OFFMAX).
      { pose proof (insert_schema_rows_inv fds s1 root n Hinv1) as _.
        assert (X : nextFree s1 <= nextFree s').
        { clear - Hrun. revert s1 root Hrun. induction fds as [|f fds IHf]; intros s1 root Hrun.
          - cbn in Hrun. inversion Hrun; subst. lia.
          - cbn [insert_schema_rows] in Hrun.
            destruct (encode_tuple _ _) as [bs|e|]; try (inversion Hrun; fail).
            pose proof (bt_insert_free_mono s1 root bs) as M1.
            destruct (bt_insert s1 root bs) as [s2 [[[k l] nr]|e|]]; cbn [fst] in M1; try (inversion Hrun; fail).
            destruct (N.eqb nr root); [specialize (IHf _ _ Hrun); lia|].
            pose proof (update_page_table_free s2 nr schemaTableName) as M2.
            destruct (update_page_table s2 nr schemaTableName) as [s3 [ws|e|]]; cbn [fst] in M2; try (inversion Hrun; fail).
            specialize (IHf _ _ Hrun). lia. }
        lia. }
      assert (HR1 : Rep s1 (d0 ++ [mkTbl n (sch ++ [fd]) []])).
      { constructor; [exact Hinv1 | exact Hok1|]. exists pt, sc', ents, root.
        rewrite <- (map_upd_same "sys_schema" root ents (cat_names_NoDup _ ents Hok (c_names _ _ _ _ _ _ HC)) (c_osc _ _ _ _ _ _ HC)).
        eapply (Cat_schema_step s s1 d0 n sch fd pt pt sc sc' ents root root); eauto.
        - pose proof (find_root_bound s1 _ sc' Hinv1 Hfind). unfold OFFMAX in *. lia.
        - rewrite Hframe by congruence. apply (c_pt _ _ _ _ _ _ HC).
        - rewrite (map_upd_same "sys_schema" root ents (cat_names_NoDup _ ents Hok (c_names _ _ _ _ _ _ HC)) (c_osc _ _ _ _ _ _ HC)).
          apply (c_ptcells _ _ _ _ _ _ HC).
        - rewrite <- Esame. exact Hfind.
        - intros x X1 _ _. apply Hframe; congruence. }
      assert (Hroot1 : rel_offset s1 "sys_schema" = Ok root).
      { assert (Hpt1 : find_root (ptRoot s1) (forest s1) = Some pt).
        { rewrite Hptr, Hframe by congruence. apply (c_pt _ _ _ _ _ _ HC). }
        rewrite (rel_offset_cat s1 pt ents "sys_schema" Hinv1 Hpt1 (c_ptcells _ _ _ _ _ _ HC) (c_ptfits _ _ _ _ _ _ HC)).
        rewrite (find_assoc_unique _ root ents (cat_names_NoDup _ ents Hok (c_names _ _ _ _ _ _ HC)) (c_osc _ _ _ _ _ _ HC)). reflexivity. }
      replace (N.eqb (t_off sc') root) with true in Hrun by (symmetry; apply N.eqb_eq; exact Esame).
      exact (IH s1 d0 (sch ++ [fd]) root s' HR1 Hroot1 Hnd2 Hmax Hrun).
    + (* sys_schema's root moved: its sys_pages row is rewritten *)
      destruct Hrt as [Hrt|Hrt]; [contradiction|].
      replace (N.eqb (t_off sc') root) with false in Hrun by (symmetry; apply N.eqb_neq; exact Emoved).
      assert (Hpt1 : find_root (ptRoot s1) (forest s1) = Some pt).
      { rewrite Hptr, Hframe by (try congruence; lia). apply (c_pt _ _ _ _ _ _ HC). }
      destruct (update_page_table s1 (t_off sc') schemaTableName) as [s2 [ws2|e|]] eqn:Eup; try (inversion Hrun; fail).
      destruct (update_page_table_spec s1 pt ents "sys_schema" root (t_off sc') Hinv1 Hpt1
                  (c_ptcells _ _ _ _ _ _ HC) (c_ptfits _ _ _ _ _ _ HC)
                  (cat_names_NoDup _ ents Hok (c_names _ _ _ _ _ _ HC)) (c_osc _ _ _ _ _ _ HC) s2 ws2 Eup)
        as (pt' & Hinv2 & Hptr2 & Hnf2 & Hlk2 & Hpt2 & Hframe2 & Hcells2).
      assert (Hmax2 : nextFree s2 <= OFFMAX).
      { assert (X : nextFree s2 <= nextFree s').
        { clear - Hrun. revert Hrun. generalize (t_off sc'). generalize s2. clear. induction fds as [|f fds IHf]; intros s1 root Hrun.
          - cbn in Hrun. inversion Hrun; subst. lia.
          - cbn [insert_schema_rows] in Hrun.
            destruct (encode_tuple _ _) as [bs|e|]; try (inversion Hrun; fail).
            pose proof (bt_insert_free_mono s1 root bs) as M1.
            destruct (bt_insert s1 root bs) as [s2 [[[k l] nr]|e|]]; cbn [fst] in M1; try (inversion Hrun; fail).
            destruct (N.eqb nr root); [specialize (IHf _ _ Hrun); lia|].
            pose proof (update_page_table_free s2 nr schemaTableName) as M2.
            destruct (update_page_table s2 nr schemaTableName) as [s3 [ws|e|]]; cbn [fst] in M2; try (inversion Hrun; fail).
            specialize (IHf _ _ Hrun). lia. }
        lia. }
      assert (HC2 : Cat s2 (d0 ++ [mkTbl n (sch ++ [fd]) []]) pt' sc' (map (upd "sys_schema" (t_off sc')) ents) (t_off sc')).
      { eapply (Cat_schema_step s s2 d0 n sch fd pt pt' sc sc' ents root (t_off sc')); eauto.
        - congruence.
        - pose proof (find_root_bound s1 _ sc' Hinv1 Hfind). unfold OFFMAX in *. lia.
        - rewrite <- Hptr. exact Hpt2.
        - rewrite Hframe2 by (rewrite Hptr; lia). exact Hfind.
        - intros x X1 X2 X3. rewrite Hframe2 by congruence. apply Hframe; assumption. }
      assert (HR2 : Rep s2 (d0 ++ [mkTbl n (sch ++ [fd]) []])).
      { constructor; [exact Hinv2 | exact Hok1|]. eauto. }
      assert (Hroot2 : rel_offset s2 "sys_schema" = Ok (t_off sc')).
      { apply (cat_rel_offset_in s2 _ pt' sc' _ (t_off sc') Hinv2 Hok1 HC2). apply (c_osc _ _ _ _ _ _ HC2). }
      exact (IH s2 d0 (sch ++ [fd]) (t_off sc') s' HR2 Hroot2 Hnd2 Hmax Hrun).
Qed.

(* ====================== CREATE TABLE ====================== *)
Lemma insert_schema_rows_free_mono n fds : forall s root,
  nextFree s <= nextFree (fst (insert_schema_rows s root n fds)).
Proof.
  induction fds as [|f fds IH]; intros s root; cbn [insert_schema_rows fst]; [lia|].
  destruct (encode_tuple _ _) as [bs|e|]; cbn [fst]; try lia.
  pose proof (bt_insert_free_mono s root bs) as M1.
  destruct (bt_insert s root bs) as [s2 [[[k l] nr]|e|]]; cbn [fst] in *; try exact M1.
  destruct (N.eqb nr root); [specialize (IH s2 root); lia|].
  pose proof (update_page_table_free s2 nr schemaTableName) as M2.
  destruct (update_page_table s2 nr schemaTableName) as [s3 [ws|e|]]; cbn [fst] in *; try lia.
  specialize (IH s3 nr). lia.
Qed.

Lemma NoDup_new_offsets (p nr pg : N) (offs : list N) :
  NoDup (p :: offs) -> Forall (fun o => o < pg) (p :: offs) -> nr <> pg ->
  (nr = p \/ pg < nr) -> NoDup (nr :: offs ++ [pg]).
Proof.
  intros Hnd Hb Hne Hcase. inversion Hnd as [|? ? Hp Hoffs]; subst. inversion Hb as [|? ? Hpb Hob]; subst.
  rewrite Forall_forall in Hob.
  assert (H1 : NoDup (offs ++ [pg])).
  { clear - Hoffs Hob. induction offs as [|a offs IH]; cbn [app]; [constructor; [intros []|constructor]|].
    inversion Hoffs; subst. constructor.
    - intros X. apply in_app_or in X as [X|[X|[]]]; [contradiction|]. specialize (Hob a (or_introl eq_refl)). lia.
    - apply IH; auto. intros x Hx. apply Hob. right. exact Hx. }
  constructor; [|exact H1]. intros X. apply in_app_or in X as [X|[X|[]]]; [|congruence].
  destruct Hcase as [->|Hgt]; [contradiction|]. specialize (Hob nr X). lia.
Qed.

(* createPage + insertPageTable: the table is registered with no columns yet *)
Lemma create_register_rep s d n s2 :
  Rep s d -> is_sys n = false -> find_tbl n d = None -> nextFree s2 <= OFFMAX ->
  insert_page_table (fst (create_page s)) (nextFree s) n = (s2, Ok tt) ->
  Rep s2 (d ++ [mkTbl n [] []]).
Proof.
  intros HR Hsys Hf Hmax2 Eip. pose proof HR as [Hinv Hok (pt & sc & ents & osc & HC)].
  pose proof (create_page_inv s Hinv) as Hinv1. pose proof (create_page_find s Hinv) as Hcp.
  destruct (create_page s) as [s1 pg] eqn:Ecp. cbn [fst] in Hinv1, Hcp, Eip.
  assert (Es1 : ptRoot s1 = ptRoot s /\ nextFree s1 = nextFree s + PS /\ lastKey s1 = lastKey s).
  { unfold create_page in Ecp. inversion Ecp; subst. cbn. auto. }
  destruct Es1 as (Hptr1 & Hnf1 & Hlk1).
  pose proof (insert_page_table_inv s1 (nextFree s) n Hinv1) as Hinv2. rewrite Eip in Hinv2. cbn [fst] in Hinv2.
  unfold insert_page_table in Eip.
  change [("table_name", VStr n); ("file_offset", VInt (Z.of_N (nextFree s)))] with (pt_tuple (n, nextFree s)) in Eip.
  rewrite encode_pt_tuple in Eip.
  destruct (bt_insert s1 (ptRoot s1) (enc_pte (n, nextFree s))) as [s2' [[[k lsn] nr]|e|]] eqn:Ebt; try (inversion Eip; fail).
  inversion Eip; subst s2. clear Eip.
  pose proof (find_root_bound s _ pt Hinv (c_pt _ _ _ _ _ _ HC)) as Hptb.
  assert (Hpt1 : find_root (ptRoot s1) (forest s1) = Some pt).
  { rewrite Hptr1, Hcp. destruct (N.eqb_spec (nextFree s) (ptRoot s)); [lia|]. apply (c_pt _ _ _ _ _ _ HC). }
  destruct (bt_insert_spec s1 (ptRoot s1) _ pt Hinv1 Hpt1 s2' k lsn nr Ebt)
    as (pt' & Hinv2' & -> & -> & -> & Hlk & Hptr & Hnf & Hlsn & Hlen & Hrt & Hcells & Hfind & Hframe).
  set (s2 := mkStore (forest s2') (lastKey s2') (t_off pt') (nextFree s2') (nextLSN s2')) in *.
  cbn [nextFree s2] in Hmax2.
  set (T0 := mkTbl n [] []).
  assert (Hpgmax : nextFree s < OFFMAX) by (pose proof PS_pos; lia).
  assert (Hold : forall n2 o2, In (n2, o2) ents -> n2 <> "sys_pages" ->
                 o2 < nextFree s /\ o2 <> ptRoot s /\ find_root o2 (forest s2') = find_root o2 (forest s)).
  { intros n2 o2 H2 Hs2. destruct (cat_entry_tree s d pt sc ents osc n2 o2 Hok HC H2 Hs2) as (tr2 & Hr2).
    pose proof (find_root_bound s o2 tr2 Hinv Hr2) as B.
    pose proof (cat_offset_not_ptroot s d pt sc ents osc HC _ _ H2 Hs2) as B2.
    split; [exact B|]. split; [exact B2|].
    pose proof PS_pos.
    rewrite Hframe; [|congruence|destruct Hrt as [Hrt|Hrt]; [congruence|lia]].
    rewrite Hcp. destruct (N.eqb_spec (nextFree s) o2); [lia | reflexivity]. }
  assert (Hok2 : DbOk (d ++ [T0])).
  { destruct Hok as [A B C]. constructor.
    - rewrite map_app. cbn [map T0 tb_name]. apply find_tbl_None in Hf.
      clear - A Hf. induction (map tb_name d) as [|x l IH]; cbn [app]; [constructor; [intros []|constructor]|].
      inversion A; subst. constructor.
      + intros X. apply in_app_or in X as [X|[X|[]]]; [contradiction|]. apply Hf. left. symmetry. exact X.
      + apply IH; auto. intros X. apply Hf. right. exact X.
    - apply Forall_app. split; [exact B|]. constructor; [exact Hsys | constructor].
    - apply Forall_app. split; [exact C|]. constructor; [constructor | constructor]. }
  assert (HC2 : Cat s2 (d ++ [T0]) pt' sc (ents ++ [(n, nextFree s)]) osc).
  { pose proof (c_names _ _ _ _ _ _ HC) as Hnm.
    constructor; unfold s2; cbn [ptRoot forest].
    - exact Hfind.
    - unfold PtCells. rewrite Hcells. apply Forall2_app; [apply (c_ptcells _ _ _ _ _ _ HC)|].
      constructor; [split; reflexivity | constructor].
    - apply Forall_app. split; [apply (c_ptfits _ _ _ _ _ _ HC)|]. constructor; [|constructor].
      apply pt_fits_intro; [exact Hlen | exact Hpgmax].
    - rewrite !map_app, Hnm. reflexivity.
    - destruct ents as [|[n0 o0] rest]; [discriminate Hnm|]. cbn [app tl]. rewrite map_app. cbn [map snd].
      pose proof (c_offs _ _ _ _ _ _ HC) as Hoffs. cbn [tl] in Hoffs.
      apply (NoDup_new_offsets (ptRoot s) (t_off pt') (nextFree s) (map snd rest) Hoffs).
      + constructor; [exact Hptb|]. rewrite Forall_forall. intros x Hx. apply in_map_iff in Hx as ([n2 o2] & <- & Hx).
        assert (n2 <> "sys_pages").
        { pose proof (cat_names_NoDup d _ Hok Hnm) as X. cbn [map fst] in X. inversion X as [|? ? Hna _]; subst.
          cbn [map fst] in Hnm. inversion Hnm; subst n0. intros ->. apply Hna.
          change "sys_pages" with (fst ("sys_pages", o2)). apply in_map. exact Hx. }
        destruct (Hold n2 o2 (or_intror Hx) H) as [B _]. exact B.
      + pose proof PS_pos. destruct Hrt as [Hrt|Hrt]; [rewrite Hrt, Hptr1; lia | lia].
      + destruct Hrt as [Hrt|Hrt]; [left; congruence | right; pose proof PS_pos; lia].
    - apply in_or_app. left. apply (c_osc _ _ _ _ _ _ HC).
    - destruct (Hold _ _ (c_osc _ _ _ _ _ _ HC) ltac:(discriminate)) as (_ & _ & X). rewrite X. apply (c_sc _ _ _ _ _ _ HC).
    - rewrite app_assoc, sc_entries_app. unfold T0 at 1. cbn [sc_entries flat_map tb_schema map app]. rewrite app_nil_r.
      apply (c_sccells _ _ _ _ _ _ HC).
    - rewrite app_assoc, sc_entries_app. unfold T0 at 1. cbn [sc_entries flat_map tb_schema map app]. rewrite app_nil_r.
      apply (c_scfits _ _ _ _ _ _ HC).
    - intros t2 H2. apply in_app_or in H2 as [H2|[<-|[]]].
      + destruct (c_tabs _ _ _ _ _ _ HC t2 H2) as (o2 & tr2 & He2 & Hr2 & Hrep2).
        assert (tb_name t2 <> "sys_pages").
        { pose proof (d_nonsys _ Hok) as X. rewrite Forall_forall in X. specialize (X t2 H2). apply is_sys_false in X. tauto. }
        destruct (Hold _ _ He2 H) as (_ & _ & X).
        exists o2, tr2. split; [apply in_or_app; left; exact He2|]. split; [rewrite X; exact Hr2 | exact Hrep2].
      + exists (nextFree s), (TLeaf (nextFree s) 0 true [] false false 0 0). cbn [T0 tb_name tb_schema tb_rows].
        split; [apply in_or_app; right; left; reflexivity|]. split; [|constructor].
        pose proof PS_pos.
        rewrite Hframe; [| rewrite Hptr1; lia | destruct Hrt as [Hrt|Hrt]; [rewrite Hrt, Hptr1; lia | lia]].
        rewrite Hcp, N.eqb_refl. reflexivity. }
  constructor; eauto.
Qed.

(* trees may be added to the forest *)
Lemma Rep_extend s s' d :
  Rep s d -> SInv s' -> ptRoot s' = ptRoot s ->
  (forall o tr, find_root o (forest s) = Some tr -> find_root o (forest s') = Some tr) ->
  Rep s' d.
Proof.
  intros [Hinv Hok (pt & sc & ents & osc & HC)] Hinv' Hp Hf. constructor; auto.
  exists pt, sc, ents, osc. destruct HC as [A1 A2 A3 A4 A5 A6 A7 A8 A9 A10]. constructor; rewrite ?Hp; auto.
  intros t Ht. destruct (A10 t Ht) as (o & tr & X1 & X2 & X3). exists o, tr. auto.
Qed.

Lemma create_page_extend s : SInv s ->
  forall o tr, find_root o (forest s) = Some tr -> find_root o (forest (fst (create_page s))) = Some tr.
Proof.
  intros Hinv o tr H. rewrite (create_page_find s Hinv). pose proof (find_root_bound s o tr Hinv H).
  destruct (N.eqb_spec (nextFree s) o); [lia | exact H].
Qed.

(* a failing insertPageTable leaves the new page allocated and nothing else changed *)
Lemma create_register_err_rep s d n s2 e :
  Rep s d -> insert_page_table (fst (create_page s)) (nextFree s) n = (s2, Err e) -> Rep s2 d.
Proof.
  intros HR Eip. pose proof HR as [Hinv Hok _].
  pose proof (create_page_inv s Hinv) as Hinv1. pose proof (create_page_extend s Hinv) as Hcp.
  pose proof (insert_page_table_inv (fst (create_page s)) (nextFree s) n Hinv1) as Hinv2. rewrite Eip in Hinv2. cbn [fst] in Hinv2.
  assert (Hp1 : ptRoot (fst (create_page s)) = ptRoot s) by reflexivity.
  unfold insert_page_table in Eip.
  destruct (encode_tuple _ _) as [bs|e0|]; [|inversion Eip; subst; apply (Rep_extend s _ d HR Hinv2 Hp1 Hcp)|inversion Eip].
  destruct (bt_insert (fst (create_page s)) (ptRoot (fst (create_page s))) bs) as [s2' [[[k lsn] nr]|e1|]] eqn:Ebt; inversion Eip; subst.
  destruct (bt_insert_err _ _ _ _ _ Ebt) as (A & B & _).
  apply (Rep_extend s s2 d HR Hinv2); [congruence|]. intros o tr H. rewrite A. apply Hcp. exact H.
Qed.

Lemma names_distinct_NoDup l : names_distinct l = true -> NoDup l.
Proof.
  induction l as [|a r IH]; intros H; [constructor|]. cbn [names_distinct] in H.
  apply andb_true_iff in H as [A B]. constructor; [|auto].
  intros Hin. apply negb_true_iff in A. assert (X : existsb (String.eqb a) r = true).
  { apply existsb_exists. exists a. split; [exact Hin | apply String.eqb_refl]. }
  congruence.
Qed.

Lemma st_create_table0_rep s d n fds s' :
  Rep s d -> is_sys n = false -> NoDup (names fds) -> nextFree s' <= OFFMAX ->
  st_create_table0 s n fds = (s', Ok tt) ->
  find_tbl n d = None /\ Rep s' (d ++ [mkTbl n fds []]).
Proof.
  intros HR Hsys Hnd Hmax Hrun. pose proof HR as [Hinv Hok (pt & sc & ents & osc & HC)].
  unfold st_create_table0 in Hrun.
  destruct (find_tbl n d) as [t|] eqn:Hf.
  { exfalso. destruct (find_tbl_In _ _ _ Hf) as [Hin Hn].
    destruct (c_tabs _ _ _ _ _ _ HC t Hin) as (o & tr & He & _). rewrite Hn in He.
    rewrite (cat_rel_offset_in s d pt sc ents osc Hinv Hok HC _ _ He) in Hrun. inversion Hrun. }
  split; [reflexivity|].
  rewrite (cat_rel_offset_none s d pt sc ents osc Hinv HC n Hsys Hf) in Hrun.
  pose proof (create_register_rep s d n) as Hreg.
  destruct (create_page s) as [s1 pg] eqn:Ecp.
  assert (pg = nextFree s) by (unfold create_page in Ecp; inversion Ecp; reflexivity). subst pg. cbn [fst] in Hreg.
  destruct (insert_page_table s1 (nextFree s) n) as [s2 [[]|e|]] eqn:Eip; try (inversion Hrun; fail).
  unfold insert_schema_table in Hrun.
  assert (Hmax2 : nextFree s2 <= OFFMAX).
  { destruct (rel_offset s2 schemaTableName) as [off|e|]; cbn [bind] in Hrun; try (inversion Hrun; fail).
    destruct (get_tree s2 off) as [x|e|]; cbn [bind] in Hrun; try (inversion Hrun; fail).
    pose proof (insert_schema_rows_free_mono n fds s2 off) as X. rewrite Hrun in X. cbn [fst] in X. lia. }
  pose proof (Hreg s2 HR Hsys Hf Hmax2 eq_refl) as HR2.
  pose proof HR2 as [Hinv2 Hok2 (pt2 & sc2 & ents2 & osc2 & HC2)].
  pose proof (cat_rel_offset_in s2 _ pt2 sc2 _ osc2 Hinv2 Hok2 HC2 _ _ (c_osc _ _ _ _ _ _ HC2)) as Eosc.
  unfold schemaTableName in Hrun. rewrite Eosc in Hrun. cbn [bind] in Hrun.
  unfold get_tree in Hrun. rewrite (c_sc _ _ _ _ _ _ HC2) in Hrun. cbn [bind] in Hrun.
  exact (insert_schema_rows_rep n fds s2 d [] osc2 s' HR2 Eosc Hnd Hmax Hrun).
Qed.

(* a successful CREATE TABLE has pairwise distinct column names: the code refuses the others *)
Lemma st_create_table_rep s d n fds s' :
  Rep s d -> is_sys n = false -> nextFree s' <= OFFMAX ->
  st_create_table s n fds = (s', Ok tt) ->
  names_distinct (names fds) = true /\ find_tbl n d = None /\ Rep s' (d ++ [mkTbl n fds []]).
Proof.
  intros HR Hsys Hmax Hrun. apply st_create_table_ok_inv in Hrun as (Hd & _ & Hrun). fold (names fds) in Hd.
  split; [exact Hd|]. eapply st_create_table0_rep; eauto. apply names_distinct_NoDup. exact Hd.
Qed.
