(* What io_classification_ok = true means, declaratively (Spec/IoSpec.v). *)
From Coq Require Import List Bool String.
From Mkdb Require Import Spec.IoSpec.
Import ListNotations.
Local Open Scope string_scope.

Lemma is_nil_true {A} (l : list A) : is_nil l = true -> l = [].
Proof. destruct l; [reflexivity|discriminate]. Qed.

Lemma silent_not_lock c : mem c silent_classes = true -> mem c lock_classes = false.
Proof.
  intros Hc. unfold mem, silent_classes, lock_classes in *. cbn [existsb] in *.
  repeat match type of Hc with
         | (_ || _) = true => apply orb_true_iff in Hc; destruct Hc as [Hc|Hc]
         end; try discriminate;
  apply String.eqb_eq in Hc; subst c; reflexivity.
Qed.

(* a callee the extraction treats as "touches / changes cached state only" reaches no write of
   the data file, no write of the log and no operation on the lock *)
Theorem silent_reaches_nothing : forall sites rd rl rk cls f c,
  io_classification_ok sites rd rl rk cls = true ->
  In (f, c) cls -> mem c silent_classes = true ->
  lookup f rd = Some [] /\ lookup f rl = Some [] /\ lookup f rk = Some [].
Proof.
  intros sites rd rl rk cls f c Hok Hin Hc.
  unfold io_classification_ok in Hok. apply andb_true_iff in Hok. destruct Hok as [Hcls _].
  rewrite forallb_forall in Hcls. specialize (Hcls _ Hin). unfold class_ok in Hcls.
  rewrite (silent_not_lock c Hc) in Hcls.
  destruct (lookup f rd) as [d|]; [|discriminate].
  destruct (lookup f rl) as [l|]; [|discriminate].
  destruct (lookup f rk) as [k|]; [|discriminate].
  rewrite Hc in Hcls. apply andb_true_iff in Hcls. destruct Hcls as [Hdl Hk].
  apply andb_true_iff in Hdl. destruct Hdl as [Hd Hlg].
  apply is_nil_true in Hd. apply is_nil_true in Hlg. apply is_nil_true in Hk. subst. repeat split; reflexivity.
Qed.

(* the callee treated as the page write / header write reaches exactly that site, not the log, not the lock *)
Theorem writers_reach_exactly : forall sites rd rl rk cls f,
  io_classification_ok sites rd rl rk cls = true ->
  (In (f, "PageWrite") cls -> exists d, lookup f rd = Some d /\ list_eqb d [page_write_site] = true /\
                                        lookup f rl = Some [] /\ lookup f rk = Some []) /\
  (In (f, "HeaderWrite") cls -> exists d, lookup f rd = Some d /\ list_eqb d [header_write_site] = true /\
                                          lookup f rl = Some [] /\ lookup f rk = Some []).
Proof.
  intros sites rd rl rk cls f Hok.
  unfold io_classification_ok in Hok. apply andb_true_iff in Hok. destruct Hok as [Hcls _].
  rewrite forallb_forall in Hcls.
  split; intro Hin; specialize (Hcls _ Hin); unfold class_ok in Hcls; cbn in Hcls;
    destruct (lookup f rd) as [d|]; try discriminate;
    destruct (lookup f rl) as [l|]; try discriminate;
    destruct (lookup f rk) as [k|]; try discriminate;
    apply andb_true_iff in Hcls; destruct Hcls as [Hdl Hk];
    apply andb_true_iff in Hdl; destruct Hdl as [Hd Hl];
    apply is_nil_true in Hl; apply is_nil_true in Hk; subst l k;
    exists d; auto.
Qed.

(* every write through a file handle and every lock operation anywhere in the package is inside a
   function of the matching class *)
Theorem every_write_site_is_classified : forall sites rd rl rk cls f m t,
  io_classification_ok sites rd rl rk cls = true ->
  In (f, m, t) sites -> mem m read_only_methods = false ->
  exists c, lookup f cls = Some c /\
            (c = "PageWrite" \/ c = "HeaderWrite" \/ c = "LogAppend" \/ (c = "inlined" /\ t = "lock")).
Proof.
  intros sites rd rl rk cls f m t Hok Hin Hm.
  unfold io_classification_ok in Hok. apply andb_true_iff in Hok. destruct Hok as [_ Hs].
  rewrite forallb_forall in Hs. specialize (Hs _ Hin). unfold site_ok in Hs. rewrite Hm in Hs.
  destruct (lookup f cls) as [c|]; [|discriminate]. exists c. split; [reflexivity|].
  destruct (String.eqb t "data") eqn:Et.
  - apply orb_true_iff in Hs. destruct Hs as [Hs|Hs]; apply andb_true_iff in Hs; destruct Hs as [Hc _];
      apply String.eqb_eq in Hc; auto.
  - destruct (String.eqb t "lock") eqn:Ek.
    + apply String.eqb_eq in Hs. apply String.eqb_eq in Ek. auto 6.
    + apply andb_true_iff in Hs. destruct Hs as [Hc _]. apply String.eqb_eq in Hc. auto.
Qed.
