(* Lemmas about Model/Tree.v: in-order cell list after insertion along the right spine,
   well-formedness (C11), sibling chain = tree order, point lookup. *)
From Coq Require Import Arith Lia Bool List NArith.
From Mkdb Require Import Model.Tree.
Import ListNotations.
Local Open Scope N_scope.

(* ---------- induction principle that reaches the children in `kids` ---------- *)
Section TreeInd.
Variable P : tree -> Prop.
Hypothesis Hleaf : forall off lsn d cells hl hr ls rs, P (TLeaf off lsn d cells hl hr ls rs).
Hypothesis Hnode : forall off lsn d kids rgt,
  Forall (fun sc => P (snd sc)) kids -> P rgt -> P (TNode off lsn d kids rgt).

Fixpoint tree_ind2 (t : tree) : P t :=
  match t with
  | TLeaf off lsn d cells hl hr ls rs => Hleaf off lsn d cells hl hr ls rs
  | TNode off lsn d kids rgt =>
      Hnode off lsn d kids rgt
        ((fix go (l : list (N * tree)) : Forall (fun sc => P (snd sc)) l :=
            match l with
            | [] => Forall_nil _
            | sc :: r => Forall_cons sc (tree_ind2 (snd sc)) (go r)
            end) kids)
        (tree_ind2 rgt)
  end.
End TreeInd.

(* ---------- unfolding lemmas for the nested fixpoints ---------- *)
Definition kids_leaves (kids : list (N * tree)) : list tree := flat_map (fun sc => leaves (snd sc)) kids.
Definition kids_nodes (kids : list (N * tree)) : list tree := flat_map (fun sc => nodes (snd sc)) kids.

Lemma leaves_node off lsn d kids rgt :
  leaves (TNode off lsn d kids rgt) = kids_leaves kids ++ leaves rgt.
Proof.
  cbn [leaves]. f_equal. induction kids as [|[s c] r IH]; [reflexivity|].
  unfold kids_leaves in *. cbn [flat_map snd]. f_equal. exact IH.
Qed.

Lemma nodes_node off lsn d kids rgt :
  nodes (TNode off lsn d kids rgt) = TNode off lsn d kids rgt :: kids_nodes kids ++ nodes rgt.
Proof.
  cbn [nodes]. f_equal. f_equal. induction kids as [|[s c] r IH]; [reflexivity|].
  unfold kids_nodes in *. cbn [flat_map snd]. f_equal. exact IH.
Qed.

Definition kids_cells (kids : list (N * tree)) : list leafcell := flat_map (fun sc => all_cells (snd sc)) kids.

Lemma all_cells_leaf off lsn d cells hl hr ls rs :
  all_cells (TLeaf off lsn d cells hl hr ls rs) = cells.
Proof. unfold all_cells. cbn. apply app_nil_r. Qed.

Lemma kids_cells_flat kids : flat_map leaf_cells (kids_leaves kids) = kids_cells kids.
Proof.
  induction kids as [|[s c] r IH]; [reflexivity|].
  cbn [kids_leaves kids_cells flat_map snd]. rewrite flat_map_app. f_equal. exact IH.
Qed.

Lemma all_cells_node off lsn d kids rgt :
  all_cells (TNode off lsn d kids rgt) = kids_cells kids ++ all_cells rgt.
Proof.
  unfold all_cells. rewrite leaves_node, flat_map_app, kids_cells_flat. reflexivity.
Qed.

Lemma kids_cells_app a b : kids_cells (a ++ b) = kids_cells a ++ kids_cells b.
Proof. unfold kids_cells. apply flat_map_app. Qed.

Lemma kids_leaves_app a b : kids_leaves (a ++ b) = kids_leaves a ++ kids_leaves b.
Proof. unfold kids_leaves. apply flat_map_app. Qed.

Lemma kids_nodes_app a b : kids_nodes (a ++ b) = kids_nodes a ++ kids_nodes b.
Proof. unfold kids_nodes. apply flat_map_app. Qed.

(* ---------- insert_cell with a key above every key is an append ---------- *)
Lemma insert_cell_append c cells :
  Forall (fun x => lc_key x < lc_key c) cells -> insert_cell c cells = cells ++ [c].
Proof.
  induction 1 as [|x r Hx _ IH]; [reflexivity|].
  cbn [insert_cell app]. apply N.ltb_lt in Hx. rewrite Hx, IH. reflexivity.
Qed.

Section WithParams.
Variables (ml mi : nat) (ps : N) (maxval : nat).
Hypothesis Hml : (2 <= ml)%nat.
Hypothesis Hmi : (3 <= mi)%nat.

Notation ins_right := (ins_right ml mi ps).

(* what a result of ins_right holds, in order *)
Definition res_cells (r : ins_res) : list leafcell :=
  match r with
  | IFit t => all_cells t
  | ISplit l _ r => all_cells l ++ all_cells r
  end.

Definition res_leaves (r : ins_res) : list tree :=
  match r with
  | IFit t => leaves t
  | ISplit l _ r => leaves l ++ leaves r
  end.

Lemma split_list_mid {A} (l : list A) mid x :
  nth_error l mid = Some x -> l = firstn mid l ++ x :: skipn (S mid) l.
Proof.
  revert mid. induction l as [|a l IH]; intros [|m] H; cbn in *; try discriminate.
  - inversion H; reflexivity.
  - f_equal. apply IH. exact H.
Qed.

(* (1) the in-order cell list after inserting above the maximum is the old list plus the
   new cell: through leaf splits, internal splits, at any height *)
Lemma ins_right_cells t : forall k lsn v free,
  Forall (fun x => lc_key x < k) (all_cells (rightmost t)) ->
  res_cells (fst (ins_right t k lsn v free)) = all_cells t ++ [mkLC k false v].
Proof.
  induction t as [off l d cells hl hr ls rs | off l d kids rgt IH]; intros k lsn v free Hmax.
  - cbn [rightmost] in Hmax. rewrite all_cells_leaf in Hmax.
    cbn [Tree.ins_right]. rewrite (insert_cell_append (mkLC k false v) cells) by exact Hmax.
    destruct (Nat.ltb _ ml); cbn [fst res_cells]; rewrite !all_cells_leaf.
    + reflexivity.
    + apply firstn_skipn.
  - cbn [rightmost] in Hmax. specialize (IH k lsn v free Hmax).
    cbn [Tree.ins_right]. destruct (Tree.ins_right ml mi ps rgt k lsn v free) as [[r'|lft sep r'] f] eqn:E;
      cbn [fst res_cells] in IH.
    + cbn [fst res_cells]. rewrite !all_cells_node, IH, app_assoc. reflexivity.
    + destruct (Nat.ltb _ mi) eqn:Efit.
      * cbn [fst res_cells]. rewrite !all_cells_node, kids_cells_app.
        cbn [kids_cells flat_map snd]. rewrite app_nil_r, <- !app_assoc, IH. reflexivity.
      * destruct (nth_error (kids ++ [(sep, lft)]) (length (kids ++ [(sep, lft)]) / 2)) as [[msep mchild]|] eqn:En.
        -- cbn [fst res_cells]. rewrite !all_cells_node.
           pose proof (split_list_mid _ _ _ En) as Hs.
           assert (Hk : kids_cells (kids ++ [(sep, lft)]) =
                        kids_cells (firstn (length (kids ++ [(sep, lft)]) / 2) (kids ++ [(sep, lft)])) ++
                        all_cells mchild ++
                        kids_cells (skipn (S (length (kids ++ [(sep, lft)]) / 2)) (kids ++ [(sep, lft)]))).
           { rewrite Hs at 1. rewrite kids_cells_app. cbn [kids_cells flat_map snd]. reflexivity. }
           rewrite <- !app_assoc.
           replace (kids_cells kids ++ all_cells rgt ++ [mkLC k false v])
             with (kids_cells (kids ++ [(sep, lft)]) ++ all_cells r').
           2:{ rewrite kids_cells_app. cbn [kids_cells flat_map snd]. rewrite app_nil_r, <- app_assoc, IH. reflexivity. }
           rewrite Hk, <- !app_assoc. reflexivity.
        -- exfalso. apply nth_error_None in En.
           assert (0 < length (kids ++ [(sep, lft)]))%nat by (rewrite app_length; cbn; lia).
           pose proof (Nat.div_lt (length (kids ++ [(sep, lft)])) 2 H ltac:(lia)). lia.
Qed.

End WithParams.

(* ====================== well-formedness (C11) ====================== *)
From Coq Require Import Sorted.

Definition below (hi : option N) (x : N) : Prop := match hi with None => True | Some h => x < h end.
(* separators may touch the upper bound (the subtree between them is then empty) *)
Definition sep_le (hi : option N) (x : N) : Prop := match hi with None => True | Some h => x <= h end.

Definition keys_of (cs : list leafcell) : list N := map lc_key cs.

Fixpoint wf_kids (W : N -> option N -> tree -> Prop) (lo : N) (hi : option N)
         (kids : list (N * tree)) (rgt : tree) : Prop :=
  match kids with
  | [] => W lo hi rgt
  | (s, c) :: r => lo <= s /\ sep_le hi s /\ W lo (Some s) c /\ wf_kids W s hi r rgt
  end.

Section WF.
Variables (ml mi : nat).

(* wf h lo hi t: t has uniform leaf depth h, every key k satisfies lo <= k < hi, keys are
   strictly ascending inside each leaf, each separator bounds its neighbours, every node is
   below capacity, internal nodes have at least one separator *)
Fixpoint wf (h : nat) (lo : N) (hi : option N) (t : tree) {struct t} : Prop :=
  match t with
  | TLeaf _ _ _ cells _ _ _ _ =>
      h = O /\ StronglySorted N.lt (keys_of cells) /\
      Forall (fun c => lo <= lc_key c /\ below hi (lc_key c)) cells /\ (length cells < ml)%nat
  | TNode _ _ _ kids rgt =>
      match h with
      | O => False
      | S h' =>
          kids <> [] /\ (length kids < mi)%nat /\
          (fix go (lo : N) (l : list (N * tree)) : Prop :=
             match l with
             | [] => wf h' lo hi rgt
             | (s, c) :: r => lo <= s /\ sep_le hi s /\ wf h' lo (Some s) c /\ go s r
             end) lo kids
      end
  end.

Lemma wf_node h' lo hi off lsn d kids rgt :
  wf (S h') lo hi (TNode off lsn d kids rgt) <->
  kids <> [] /\ (length kids < mi)%nat /\ wf_kids (wf h') lo hi kids rgt.
Proof.
  cbn [wf].
  assert (E : forall l lo0,
    (fix go (lo : N) (l : list (N * tree)) : Prop :=
       match l with
       | [] => wf h' lo hi rgt
       | (s, c) :: r => lo <= s /\ sep_le hi s /\ wf h' lo (Some s) c /\ go s r
       end) lo0 l <-> wf_kids (wf h') lo0 hi l rgt).
  { induction l as [|[s c] r IH]; intros lo0; cbn [wf_kids]; [tauto|]. rewrite IH. tauto. }
  rewrite E. tauto.
Qed.

Lemma wf_node_O lo hi off lsn d kids rgt : ~ wf O lo hi (TNode off lsn d kids rgt).
Proof. cbn. tauto. Qed.

Lemma below_weaken hi x y : x <= y -> below hi y -> below hi x.
Proof. destruct hi; cbn; [lia | auto]. Qed.

(* widening the bounds *)
Lemma wf_weaken t : forall h lo lo' hi,
  lo' <= lo -> wf h lo hi t -> wf h lo' hi t.
Proof.
  induction t as [off l d cells hl hr ls rs | off l d kids rgt IHk IHr] using tree_ind2;
    intros h lo lo' hi Hle H.
  - cbn [wf] in *. destruct H as (H0 & H1 & H2 & H3). repeat split; auto.
    eapply Forall_impl; [|exact H2]. cbn. intros c [A B]. split; [lia|auto].
  - destruct h as [|h']; [exact (wf_node_O _ _ _ _ _ _ _ H)|].
    apply wf_node in H. apply wf_node. destruct H as (Hne & Hlen & Hk). repeat split; auto.
    destruct kids as [|[s c] r]; [congruence|].
    cbn [wf_kids] in *. destruct Hk as (A & B & C & D). repeat split; auto; [lia|].
    inversion IHk as [|? ? Hc _]; subst. cbn in Hc. eapply Hc; eauto.
Qed.

End WF.

(* ---------- list lemmas on strictly sorted key lists ---------- *)
Lemma SSorted_app_inv (l1 l2 : list N) :
  StronglySorted N.lt (l1 ++ l2) ->
  StronglySorted N.lt l1 /\ StronglySorted N.lt l2 /\ (forall x y, In x l1 -> In y l2 -> x < y).
Proof.
  induction l1 as [|a l1 IH]; cbn; intros H.
  - repeat split; [constructor | exact H | intros x y []].
  - inversion H as [|? ? Hs Hf]; subst. destruct (IH Hs) as (A & B & C).
    rewrite Forall_app in Hf. destruct Hf as [Hf1 Hf2].
    repeat split; [constructor; auto | auto |].
    intros x y [->|Hx] Hy; [rewrite Forall_forall in Hf2; auto | auto].
Qed.

Lemma SSorted_app (l1 l2 : list N) :
  StronglySorted N.lt l1 -> StronglySorted N.lt l2 ->
  (forall x y, In x l1 -> In y l2 -> x < y) -> StronglySorted N.lt (l1 ++ l2).
Proof.
  induction l1 as [|a l1 IH]; cbn; intros H1 H2 H; [exact H2|].
  inversion H1 as [|? ? Hs Hf]; subst. constructor.
  - apply IH; auto.
  - rewrite Forall_app. split; [exact Hf|]. rewrite Forall_forall. intros y Hy. apply H; auto.
Qed.

Lemma keys_of_app a b : keys_of (a ++ b) = keys_of a ++ keys_of b.
Proof. apply map_app. Qed.

Lemma last_lo_snoc {A} (l : list A) x d : last (l ++ [x]) d = x.
Proof. apply last_last. Qed.

Definition last_lo (lo : N) (kids : list (N * tree)) : N := last (map fst kids) lo.

Section WFKids.
Variable W : N -> option N -> tree -> Prop.

Lemma last_lo_cons lo s c r : last_lo lo ((s, c) :: r) = last_lo s r.
Proof.
  unfold last_lo. cbn [map fst]. destruct r as [|[s' c'] r']; [reflexivity|].
  cbn [map fst last]. generalize (map fst r') as l. intros l.
  revert s'. induction l as [|x l IH]; intros s'; [reflexivity|]. cbn [last]. destruct l; [reflexivity|]. apply (IH x).
Qed.

Lemma wf_kids_rgt kids : forall lo hi rgt,
  wf_kids W lo hi kids rgt -> W (last_lo lo kids) hi rgt /\ lo <= last_lo lo kids.
Proof.
  induction kids as [|[s c] r IH]; intros lo hi rgt H.
  - cbn in *. split; [exact H | lia].
  - cbn [wf_kids] in H. destruct H as (A & B & C & D). rewrite last_lo_cons.
    destruct (IH _ _ _ D) as [E F]. split; [exact E | lia].
Qed.

Lemma wf_kids_replace_rgt kids : forall lo hi rgt r',
  wf_kids W lo hi kids rgt -> W (last_lo lo kids) hi r' -> wf_kids W lo hi kids r'.
Proof.
  induction kids as [|[s c] r IH]; intros lo hi rgt r' H H'.
  - cbn in *. exact H'.
  - cbn [wf_kids] in *. destruct H as (A & B & C & D). rewrite last_lo_cons in H'.
    repeat split; auto. eapply IH; eauto.
Qed.

Lemma wf_kids_snoc kids : forall lo rgt sep lft r',
  wf_kids W lo None kids rgt ->
  W (last_lo lo kids) (Some sep) lft -> last_lo lo kids <= sep -> W sep None r' ->
  wf_kids W lo None (kids ++ [(sep, lft)]) r'.
Proof.
  induction kids as [|[s c] r IH]; intros lo rgt sep lft r' H Hl Hle Hr.
  - cbn in *. repeat split; auto.
  - cbn [wf_kids app] in *. destruct H as (A & B & C & D). rewrite last_lo_cons in Hl, Hle.
    repeat split; auto. eapply IH; eauto.
Qed.

Lemma wf_kids_split a : forall lo m mc b r,
  wf_kids W lo None (a ++ (m, mc) :: b) r ->
  wf_kids W lo (Some m) a mc /\ wf_kids W m None b r /\ lo <= m.
Proof.
  induction a as [|[s c] a' IH]; intros lo m mc b r H.
  - cbn [app wf_kids] in *. destruct H as (A & _ & C & D). repeat split; auto.
  - cbn [app wf_kids] in *. destruct H as (A & _ & C & D).
    destruct (IH _ _ _ _ _ D) as (E & F & G). repeat split; auto; cbn; lia.
Qed.

End WFKids.

Section WFIns.
Variables (ml mi : nat) (ps : N).
Hypothesis Hml : (2 <= ml)%nat.
Hypothesis Hmi : (3 <= mi)%nat.

Notation wf := (wf ml mi).

Definition res_wf (h : nat) (lo : N) (r : ins_res) : Prop :=
  match r with
  | IFit t => wf h lo None t
  | ISplit l sep r => wf h lo (Some sep) l /\ wf h sep None r /\ lo <= sep
  end.

Lemma div2_bounds n : (2 <= n)%nat -> (1 <= n / 2 < n)%nat.
Proof.
  intros H. split.
  - apply Nat.div_le_lower_bound; lia.
  - apply Nat.div_lt; lia.
Qed.

Lemma on_right_spine_node k off l d kids rgt :
  on_right_spine k (TNode off l d kids rgt) = true ->
  Forall (fun sc => fst sc <= k) kids /\ on_right_spine k rgt = true.
Proof.
  cbn [on_right_spine]. rewrite andb_true_iff, forallb_forall. intros [H1 H2]. split; [|exact H2].
  rewrite Forall_forall. intros sc Hin. specialize (H1 sc Hin).
  rewrite negb_true_iff, N.ltb_ge in H1. exact H1.
Qed.

Lemma last_lo_le k lo kids :
  lo <= k -> Forall (fun sc : N * tree => fst sc <= k) kids -> last_lo lo kids <= k.
Proof.
  revert lo. induction kids as [|[s c] r IH]; intros lo Hlo H; [exact Hlo|].
  rewrite last_lo_cons. inversion H; subst. apply IH; auto.
Qed.

Lemma leaf_split_wf lo cells' off lsn free hl ls :
  StronglySorted N.lt (keys_of cells') ->
  Forall (fun c => lo <= lc_key c) cells' ->
  length cells' = ml ->
  let mid := (length cells' / 2)%nat in
  wf O lo (Some (first_key (skipn mid cells'))) (TLeaf off lsn true (firstn mid cells') hl true ls free) /\
  wf O (first_key (skipn mid cells')) None (TLeaf free lsn true (skipn mid cells') true false off 0) /\
  lo <= first_key (skipn mid cells').
Proof.
  intros Hs Hlo Hlen mid.
  assert (Hmid : (1 <= mid < ml)%nat) by (unfold mid; rewrite Hlen; apply div2_bounds; exact Hml).
  pose proof (firstn_skipn mid cells') as Hsplit.
  destruct (skipn mid cells') as [|x hi] eqn:Ehi.
  { exfalso. assert (length (skipn mid cells') = 0%nat) by (rewrite Ehi; reflexivity).
    rewrite skipn_length in H. lia. }
  cbn [first_key].
  rewrite <- Hsplit, keys_of_app in Hs. apply SSorted_app_inv in Hs as (S1 & S2 & S3).
  rewrite <- Hsplit in Hlo. apply Forall_app in Hlo as [L1 L2].
  assert (Hlen1 : length (firstn mid cells') = mid) by (apply firstn_length_le; lia).
  assert (Hlen2 : (length (x :: hi) = ml - mid)%nat).
  { rewrite <- Ehi, skipn_length. lia. }
  repeat split.
  - exact S1.
  - rewrite Forall_forall in *. intros c Hc. split; [apply L1; exact Hc|]. cbn.
    apply S3; [apply in_map; exact Hc | left; reflexivity].
  - rewrite Hlen1. lia.
  - exact S2.
  - cbn [keys_of map] in S2. inversion S2 as [|? ? _ Hf]; subst.
    constructor; [cbn; split; [lia|exact I]|].
    rewrite Forall_forall in *. intros c Hc. split; [|exact I].
    apply N.lt_le_incl. apply Hf. apply in_map. exact Hc.
  - rewrite Hlen2. lia.
  - inversion L2; subst. assumption.
Qed.

Lemma ins_right_wf t : forall h lo k lsn v free,
  wf h lo None t -> lo <= k -> on_right_spine k t = true ->
  Forall (fun x => lc_key x < k) (all_cells (rightmost t)) ->
  res_wf h lo (fst (ins_right ml mi ps t k lsn v free)).
Proof.
  induction t as [off l d cells hl hr ls rs | off l d kids rgt IH]; intros h lo k lsn v free Hwf Hlo Hsp Hmax.
  - cbn [rightmost] in Hmax. rewrite all_cells_leaf in Hmax.
    cbn [wf] in Hwf. destruct Hwf as (Hh & Hs & Hb & Hlen). subst h.
    cbn [ins_right]. rewrite (insert_cell_append (mkLC k false v) cells) by exact Hmax.
    assert (Hs' : StronglySorted N.lt (keys_of (cells ++ [mkLC k false v]))).
    { rewrite keys_of_app. apply SSorted_app; [exact Hs | repeat constructor |].
      intros x y Hx [<-|[]]. cbn. apply in_map_iff in Hx as (c & <- & Hc).
      rewrite Forall_forall in Hmax. apply Hmax; exact Hc. }
    assert (Hb' : Forall (fun c => lo <= lc_key c) (cells ++ [mkLC k false v])).
    { apply Forall_app. split; [eapply Forall_impl; [|exact Hb]; cbn; tauto | repeat constructor; exact Hlo]. }
    destruct (Nat.ltb_spec (length (cells ++ [mkLC k false v])) ml) as [Hfit|Hfull]; cbn [fst res_wf].
    + cbn [wf]. repeat split; auto.
      eapply Forall_impl; [|exact Hb']. cbn. intros; split; [assumption|exact I].
    + apply leaf_split_wf; auto. rewrite app_length in *. cbn [length] in *. lia.
  - destruct h as [|h']; [exfalso; exact (wf_node_O _ _ _ _ _ _ _ _ _ Hwf)|].
    apply wf_node in Hwf. destruct Hwf as (Hne & Hlen & Hk).
    apply on_right_spine_node in Hsp as [Hseps Hsp'].
    cbn [rightmost] in Hmax.
    destruct (wf_kids_rgt _ _ _ _ _ Hk) as [Hr Hlo'].
    pose proof (last_lo_le k lo kids Hlo Hseps) as Hlast.
    specialize (IH h' (last_lo lo kids) k lsn v free Hr Hlast Hsp' Hmax).
    cbn [ins_right].
    destruct (ins_right ml mi ps rgt k lsn v free) as [[r'|lft sep r'] f] eqn:E; cbn [fst res_wf] in IH.
    + cbn [fst res_wf]. apply wf_node. repeat split; auto.
      eapply wf_kids_replace_rgt; eauto.
    + destruct IH as (Il & Ir & Ile).
      assert (Hk' : wf_kids (wf h') lo None (kids ++ [(sep, lft)]) r').
      { eapply wf_kids_snoc; eauto. }
      destruct (Nat.ltb_spec (length (kids ++ [(sep, lft)])) mi) as [Hfit|Hfull].
      * cbn [fst res_wf]. apply wf_node. repeat split; auto.
        destruct kids; discriminate.
      * assert (Hlen' : length (kids ++ [(sep, lft)]) = mi).
        { rewrite app_length in *. cbn [length] in *. lia. }
        assert (Hmid : (1 <= length (kids ++ [(sep, lft)]) / 2 < mi)%nat).
        { rewrite Hlen'. apply div2_bounds. lia. }
        set (kids' := kids ++ [(sep, lft)]) in *.
        set (mid := (length kids' / 2)%nat) in *.
        destruct (nth_error kids' mid) as [[msep mchild]|] eqn:En.
        2:{ exfalso. apply nth_error_None in En. lia. }
        pose proof (split_list_mid _ _ _ En) as Hs.
        rewrite Hs in Hk'. apply wf_kids_split in Hk' as (A & B & C).
        cbn [fst res_wf].
        assert (L1 : length (firstn mid kids') = mid) by (apply firstn_length_le; lia).
        assert (L2 : (length (skipn (S mid) kids') = mi - S mid)%nat) by (rewrite skipn_length; lia).
        assert (Hmi2 : (mi / 2 + 2 <= mi)%nat).
        { assert (mi = 2 * (mi / 2) + mi mod 2)%nat by (apply Nat.div_mod; lia).
          assert (1 <= mi / 2)%nat by (apply Nat.div_le_lower_bound; lia).
          destruct (Nat.eq_dec (mi / 2) 1) as [E1|E1]; [|lia].
          assert (mi mod 2 < 2)%nat by (apply Nat.mod_upper_bound; lia). lia. }
        assert (Hmid2 : (mid + 2 <= mi)%nat) by (unfold mid; rewrite Hlen'; exact Hmi2).
        clearbody mid.
        split; [|split].
        -- apply wf_node. split; [|split]; [| |exact A].
           ++ intros E0. rewrite E0 in L1. cbn [length] in L1. lia.
           ++ rewrite L1. lia.
        -- apply wf_node. split; [|split]; [| |exact B].
           ++ intros E0. rewrite E0 in L2. cbn [length] in L2. lia.
           ++ rewrite L2. lia.
        -- exact C.
Qed.

End WFIns.

(* ====================== leaves, sibling chain, offsets ====================== *)
From Coq Require Import Permutation.

Lemma leaves_nonempty t : leaves t <> [].
Proof.
  induction t as [off l d cells hl hr ls rs | off l d kids rgt IH]; [discriminate|].
  rewrite leaves_node. intros H. apply app_eq_nil in H as [_ H]. auto.
Qed.

Lemma leaves_last t : leaves t = removelast (leaves t) ++ [rightmost t].
Proof.
  induction t as [off l d cells hl hr ls rs | off l d kids rgt IH]; [reflexivity|].
  rewrite leaves_node. cbn [rightmost].
  rewrite removelast_app by apply leaves_nonempty. rewrite <- app_assoc, <- IH. reflexivity.
Qed.

Section Leaves.
Variables (ml mi : nat) (ps : N).

Lemma ins_right_leaves t : forall k lsn v free,
  res_leaves (fst (ins_right ml mi ps t k lsn v free)) =
  removelast (leaves t) ++ res_leaves (fst (ins_right ml mi ps (rightmost t) k lsn v free)).
Proof.
  induction t as [off l d cells hl hr ls rs | off l d kids rgt IH]; intros k lsn v free.
  - reflexivity.
  - cbn [rightmost]. specialize (IH k lsn v free).
    rewrite leaves_node, removelast_app by apply leaves_nonempty.
    cbn [ins_right].
    destruct (ins_right ml mi ps rgt k lsn v free) as [[r'|lft sep r'] f] eqn:E; cbn [fst res_leaves] in IH.
    + cbn [fst res_leaves]. rewrite leaves_node, IH, app_assoc. reflexivity.
    + destruct (Nat.ltb _ mi).
      * cbn [fst res_leaves]. rewrite leaves_node, kids_leaves_app.
        cbn [kids_leaves flat_map snd]. rewrite app_nil_r, <- !app_assoc. f_equal. exact IH.
      * destruct (nth_error (kids ++ [(sep, lft)]) (length (kids ++ [(sep, lft)]) / 2)) as [[msep mchild]|] eqn:En.
        -- cbn [fst res_leaves]. rewrite !leaves_node.
           pose proof (split_list_mid _ _ _ En) as Hs.
           set (a := firstn (length (kids ++ [(sep, lft)]) / 2) (kids ++ [(sep, lft)])) in *.
           set (b := skipn (S (length (kids ++ [(sep, lft)]) / 2)) (kids ++ [(sep, lft)])) in *.
           assert (Hk : kids_leaves (kids ++ [(sep, lft)]) = kids_leaves a ++ leaves mchild ++ kids_leaves b).
           { rewrite Hs, kids_leaves_app. cbn [kids_leaves flat_map snd]. reflexivity. }
           rewrite <- !app_assoc.
           transitivity (kids_leaves (kids ++ [(sep, lft)]) ++ leaves r').
           ++ rewrite Hk, <- !app_assoc. reflexivity.
           ++ rewrite kids_leaves_app. cbn [kids_leaves flat_map snd].
              rewrite app_nil_r, <- !app_assoc. f_equal. exact IH.
        -- cbn [fst res_leaves]. rewrite leaves_node, <- app_assoc. f_equal.
           (* unreachable branch returns the input unchanged: contradiction via lengths *)
           exfalso. apply nth_error_None in En.
           assert (0 < length (kids ++ [(sep, lft)]))%nat by (rewrite app_length; cbn; lia).
           pose proof (Nat.div_lt (length (kids ++ [(sep, lft)])) 2 H ltac:(lia)). lia.
Qed.

End Leaves.

(* stored sibling fields = in-order neighbours *)
Fixpoint linked (prev : option N) (l : list tree) : Prop :=
  match l with
  | [] => True
  | x :: r =>
      match x with
      | TLeaf off _ _ _ hl hr ls rs =>
          (match prev with None => hl = false | Some p => hl = true /\ ls = p end) /\
          (match r with [] => hr = false | y :: _ => hr = true /\ rs = t_off y end) /\
          linked (Some off) r
      | TNode _ _ _ _ _ => False
      end
  end.

Lemma linked_snoc_replace pre : forall p off a b c a' b' c' hl hr ls rs,
  linked p (pre ++ [TLeaf off a b c hl hr ls rs]) ->
  linked p (pre ++ [TLeaf off a' b' c' hl hr ls rs]).
Proof.
  induction pre as [|x pre IH]; intros p off a b c a' b' c' hl hr ls rs H.
  - cbn in *. exact H.
  - cbn [app linked] in *. destruct x as [xo xa xb xc xhl xhr xls xrs|]; [|contradiction].
    destruct H as (H1 & H2 & H3). split; [exact H1|]. split.
    + destruct pre; cbn [app] in *; exact H2.
    + eapply IH; eauto.
Qed.

Lemma linked_snoc_split pre : forall p off a b c a' b' c' a'' b'' c'' hl hr ls rs free z,
  linked p (pre ++ [TLeaf off a b c hl hr ls rs]) ->
  linked p (pre ++ [TLeaf off a' b' c' hl true ls free; TLeaf free a'' b'' c'' true false off z]).
Proof.
  induction pre as [|x pre IH]; intros p off a b c a' b' c' a'' b'' c'' hl hr ls rs free z H.
  - cbn in *. destruct H as (H1 & H2 & _). repeat split; auto.
  - cbn [app linked] in *. destruct x as [xo xa xb xc xhl xhr xls xrs|]; [|contradiction].
    destruct H as (H1 & H2 & H3). split; [exact H1|]. split.
    + destruct pre; cbn [app] in *; exact H2.
    + eapply IH; eauto.
Qed.

(* ---------- offsets ---------- *)
Definition res_offsets (r : ins_res) : list N :=
  match r with
  | IFit t => offsets_of t
  | ISplit l _ r => offsets_of l ++ offsets_of r
  end.

Definition kids_offsets (kids : list (N * tree)) : list N := flat_map (fun sc => offsets_of (snd sc)) kids.

Lemma offsets_node off lsn d kids rgt :
  offsets_of (TNode off lsn d kids rgt) = off :: kids_offsets kids ++ offsets_of rgt.
Proof.
  unfold offsets_of. rewrite nodes_node. cbn [map t_off]. f_equal. rewrite map_app. f_equal.
  unfold kids_nodes, kids_offsets. induction kids as [|[s c] r IH]; [reflexivity|].
  cbn [flat_map snd]. rewrite map_app, IH. reflexivity.
Qed.

Lemma kids_offsets_app a b : kids_offsets (a ++ b) = kids_offsets a ++ kids_offsets b.
Proof. unfold kids_offsets. apply flat_map_app. Qed.

Fixpoint alloc_seq (ps free : N) (n : nat) : list N :=
  match n with O => [] | S m => free :: alloc_seq ps (free + ps) m end.

Lemma alloc_seq_snoc ps free n : alloc_seq ps free (S n) = alloc_seq ps free n ++ [free + ps * N.of_nat n].
Proof.
  revert free. induction n as [|n IH]; intros free.
  - cbn. rewrite N.mul_0_r, N.add_0_r. reflexivity.
  - cbn [alloc_seq app] in *. f_equal. rewrite IH. f_equal. f_equal. lia.
Qed.

Lemma alloc_seq_bounds ps free n x :
  0 < ps -> In x (alloc_seq ps free n) -> free <= x < free + ps * N.of_nat n.
Proof.
  intros Hps. revert free. induction n as [|n IH]; intros free; [intros []|].
  cbn [alloc_seq]. intros [<-|H].
  - split; [lia|]. rewrite Nat2N.inj_succ. lia.
  - apply IH in H. rewrite Nat2N.inj_succ. lia.
Qed.

Lemma alloc_seq_NoDup ps free n : 0 < ps -> NoDup (alloc_seq ps free n).
Proof.
  intros Hps. revert free. induction n as [|n IH]; intros free; [constructor|].
  cbn [alloc_seq]. constructor; [|apply IH].
  intros H. apply (alloc_seq_bounds ps (free + ps) n free Hps) in H. lia.
Qed.

Section Offsets.
Variables (ml mi : nat) (ps : N).

(* the result holds exactly the old page offsets plus freshly allocated consecutive ones *)
Lemma ins_right_offsets t : forall k lsn v free,
  exists n, Permutation (res_offsets (fst (ins_right ml mi ps t k lsn v free)))
                        (offsets_of t ++ alloc_seq ps free n) /\
            snd (ins_right ml mi ps t k lsn v free) = free + ps * N.of_nat n.
Proof.
  induction t as [off l d cells hl hr ls rs | off l d kids rgt IH]; intros k lsn v free.
  - cbn [ins_right]. destruct (Nat.ltb _ ml); cbn [fst snd res_offsets].
    + exists O. cbn. split; [reflexivity | lia].
    + exists 1%nat. cbn. split; [reflexivity | lia].
  - destruct (IH k lsn v free) as (n & Hp & Hf). cbn [ins_right].
    destruct (ins_right ml mi ps rgt k lsn v free) as [[r'|lft sep r'] f] eqn:E;
      cbn [fst snd res_offsets] in Hp, Hf.
    + exists n. cbn [fst snd res_offsets]. rewrite !offsets_node. split; [|exact Hf].
      cbn [app]. constructor. rewrite <- app_assoc. apply Permutation_app_head. exact Hp.
    + destruct (Nat.ltb _ mi).
      * exists n. cbn [fst snd res_offsets]. rewrite !offsets_node, kids_offsets_app. split; [|exact Hf].
        cbn [kids_offsets flat_map snd app]. constructor. rewrite app_nil_r, <- !app_assoc.
        apply Permutation_app_head. exact Hp.
      * destruct (nth_error (kids ++ [(sep, lft)]) (length (kids ++ [(sep, lft)]) / 2)) as [[msep mchild]|] eqn:En.
        -- exists (S n). cbn [fst snd res_offsets]. rewrite !offsets_node. split.
           2:{ rewrite Hf, Nat2N.inj_succ. lia. }
           pose proof (split_list_mid _ _ _ En) as Hs.
           set (a := firstn (length (kids ++ [(sep, lft)]) / 2) (kids ++ [(sep, lft)])) in *.
           set (b := skipn (S (length (kids ++ [(sep, lft)]) / 2)) (kids ++ [(sep, lft)])) in *.
           assert (Hk : kids_offsets kids ++ offsets_of lft = kids_offsets a ++ offsets_of mchild ++ kids_offsets b).
           { transitivity (kids_offsets (kids ++ [(sep, lft)])).
             - rewrite kids_offsets_app. cbn [kids_offsets flat_map snd]. rewrite app_nil_r. reflexivity.
             - rewrite Hs, kids_offsets_app. cbn [kids_offsets flat_map snd]. reflexivity. }
           rewrite alloc_seq_snoc, <- Hf. cbn [app].
           constructor.
           (* goal: (ka ++ om) ++ f :: kb ++ or'  ~  (kk ++ org) ++ alloc n ++ [f] *)
           apply Permutation_trans with (f :: (kids_offsets a ++ offsets_of mchild) ++ kids_offsets b ++ offsets_of r').
           { symmetry. apply Permutation_middle. }
           apply Permutation_trans with (f :: (kids_offsets kids ++ offsets_of rgt) ++ alloc_seq ps free n).
           2:{ rewrite (app_assoc (kids_offsets kids ++ offsets_of rgt)). apply Permutation_cons_append. }
           constructor.
           replace ((kids_offsets a ++ offsets_of mchild) ++ kids_offsets b ++ offsets_of r')
             with (kids_offsets kids ++ offsets_of lft ++ offsets_of r').
           2:{ rewrite (app_assoc (kids_offsets kids)), Hk, <- !app_assoc. reflexivity. }
           rewrite <- app_assoc. apply Permutation_app_head. exact Hp.
        -- exfalso. apply nth_error_None in En.
           assert (0 < length (kids ++ [(sep, lft)]))%nat by (rewrite app_length; cbn; lia).
           pose proof (Nat.div_lt (length (kids ++ [(sep, lft)])) 2 H ltac:(lia)). lia.
Qed.

End Offsets.

(* ====================== scans by sibling pointers = tree order ====================== *)

Lemma find_nodup {A} (f : A -> N) (L : list A) x :
  NoDup (map f L) -> In x L -> find (fun l => N.eqb (f l) (f x)) L = Some x.
Proof.
  induction L as [|a L IH]; cbn; intros Hnd Hin; [contradiction|].
  inversion Hnd as [|? ? Hn Hd]; subst.
  destruct Hin as [->|Hin].
  - rewrite N.eqb_refl. reflexivity.
  - destruct (N.eqb_spec (f a) (f x)) as [E|_]; [|auto].
    exfalso. apply Hn. rewrite E. apply in_map. exact Hin.
Qed.

Definition is_leaf (t : tree) : Prop := match t with TLeaf _ _ _ _ _ _ _ _ => True | _ => False end.

Lemma linked_all_leaves l : forall p, linked p l -> Forall is_leaf l.
Proof.
  induction l as [|x r IH]; intros p H; [constructor|].
  cbn [linked] in H. destruct x; [|contradiction]. destruct H as (_ & _ & H).
  constructor; [exact I | eapply IH; eauto].
Qed.

Lemma chain_right_ok root : forall post pre cur fuel p,
  leaves root = pre ++ cur :: post ->
  NoDup (map t_off (leaves root)) ->
  linked p (cur :: post) ->
  (length post < fuel)%nat ->
  chain_right fuel root cur = TOk (cur :: post).
Proof.
  induction post as [|nxt post IH]; intros pre cur fuel p HL Hnd Hlk Hfuel.
  - destruct fuel as [|f]; [lia|]. cbn [linked] in Hlk.
    destruct cur as [off a b c hl hr ls rs|]; [|contradiction].
    destruct Hlk as (_ & -> & _). reflexivity.
  - destruct fuel as [|f]; [cbn in Hfuel; lia|]. cbn [linked] in Hlk.
    destruct cur as [off a b c hl hr ls rs|]; [|contradiction].
    destruct Hlk as (_ & [-> ->] & Hrest). cbn [chain_right].
    unfold find_leaf. rewrite (find_nodup t_off (leaves root) nxt Hnd).
    2:{ rewrite HL. apply in_or_app; right; right; left; reflexivity. }
    rewrite (IH (pre ++ [TLeaf off a b c hl true ls (t_off nxt)]) nxt f (Some off)); auto.
    + rewrite HL, <- app_assoc. reflexivity.
    + cbn [length] in Hfuel. lia.
Qed.

(* the left chain is easier to state on the reversed list *)
Fixpoint rlinked (l : list tree) : Prop :=
  (* l is a reversed prefix: head = current leaf, tail = the leaves to its left, nearest first *)
  match l with
  | [] => True
  | x :: r =>
      match x with
      | TLeaf off _ _ _ hl hr ls rs =>
          (match r with [] => hl = false | y :: _ => hl = true /\ ls = t_off y end) /\ rlinked r
      | TNode _ _ _ _ _ => False
      end
  end.

Lemma linked_rlinked_acc l : forall acc p,
  linked p l -> rlinked acc ->
  (match acc with [] => p = None | y :: _ => p = Some (t_off y) end) ->
  rlinked (rev l ++ acc).
Proof.
  induction l as [|x r IH]; intros acc p Hl Hacc Hp.
  - cbn. exact Hacc.
  - cbn [linked] in Hl. destruct x as [off a b c hl hr ls rs|]; [|contradiction].
    destruct Hl as (H1 & H2 & H3). cbn [rev]. rewrite <- app_assoc. cbn [app].
    apply (IH (TLeaf off a b c hl hr ls rs :: acc) (Some off)); auto.
    cbn [rlinked]. split; [|exact Hacc].
    destruct acc as [|y acc']; subst p; exact H1.
Qed.

Lemma linked_rlinked l : linked None l -> rlinked (rev l).
Proof.
  intros H. pose proof (linked_rlinked_acc l [] None H I eq_refl) as R.
  rewrite app_nil_r in R. exact R.
Qed.

Lemma chain_left_rev root : forall post pre cur fuel,
  rev (leaves root) = pre ++ cur :: post ->
  NoDup (map t_off (leaves root)) ->
  rlinked (cur :: post) ->
  (length post < fuel)%nat ->
  chain_left fuel root cur = TOk (cur :: post).
Proof.
  induction post as [|nxt post IH]; intros pre cur fuel HL Hnd Hlk Hfuel.
  - destruct fuel as [|f]; [lia|]. cbn [rlinked] in Hlk.
    destruct cur as [off a b c hl hr ls rs|]; [|contradiction].
    destruct Hlk as (-> & _). reflexivity.
  - destruct fuel as [|f]; [cbn in Hfuel; lia|]. cbn [rlinked] in Hlk.
    destruct cur as [off a b c hl hr ls rs|]; [|contradiction].
    destruct Hlk as ([-> ->] & Hrest). cbn [chain_left].
    unfold find_leaf. rewrite (find_nodup t_off (leaves root) nxt Hnd).
    2:{ apply in_rev. rewrite HL. apply in_or_app; right; right; left; reflexivity. }
    rewrite (IH (pre ++ [TLeaf off a b c true hr (t_off nxt) rs]) nxt f); auto.
    + rewrite HL, <- app_assoc. reflexivity.
    + cbn [length] in Hfuel. lia.
Qed.

Section Lookup.
Variables (ml mi : nat).
Notation wf := (wf ml mi).

Lemma wf_bounds t : forall h lo hi,
  wf h lo hi t -> Forall (fun c => lo <= lc_key c /\ below hi (lc_key c)) (all_cells t).
Proof.
  induction t as [off l d cells hl hr ls rs | off l d kids rgt IHk IHr] using tree_ind2; intros h lo hi H.
  - rewrite all_cells_leaf. cbn [wf] in H. tauto.
  - destruct h as [|h']; [exfalso; exact (wf_node_O _ _ _ _ _ _ _ _ _ H)|].
    apply wf_node in H as (_ & _ & Hk). rewrite all_cells_node.
    clear - IHk IHr Hk. revert lo Hk. induction kids as [|[s c] r IH]; intros lo Hk.
    + cbn in *. apply (IHr _ _ _ Hk).
    + cbn [wf_kids] in Hk. destruct Hk as (A & B & C & D).
      inversion IHk as [|? ? Hc Hr]; subst. cbn [snd] in Hc.
      cbn [kids_cells flat_map snd app]. rewrite <- app_assoc. apply Forall_app. split.
      * eapply Forall_impl; [|apply (Hc _ _ _ C)]. cbn. intros x [X Y]. split; [exact X|].
        destruct hi as [hh|]; cbn in *; [lia|exact I].
      * eapply Forall_impl; [|apply (IH Hr s D)]. cbn. intros x [X Y]. split; [lia|exact Y].
Qed.

Lemma leftmost_hd t : forall h lo hi,
  wf h lo hi t -> exists l rest, leftmost t = Some l /\ leaves t = l :: rest.
Proof.
  induction t as [off l d cells hl hr ls rs | off l d kids rgt IHk IHr] using tree_ind2; intros h lo hi H.
  - cbn. eauto.
  - destruct h as [|h']; [exfalso; exact (wf_node_O _ _ _ _ _ _ _ _ _ H)|].
    apply wf_node in H as (Hne & _ & Hk). destruct kids as [|[s c] r]; [congruence|].
    cbn [wf_kids] in Hk. destruct Hk as (_ & _ & C & _).
    inversion IHk as [|? ? Hc _]; subst. cbn [snd] in Hc.
    destruct (Hc _ _ _ C) as (l0 & rest & E1 & E2).
    rewrite leaves_node. cbn [leftmost kids_leaves flat_map snd]. rewrite E1, E2.
    cbn [app]. eauto.
Qed.

Lemma find_sorted_cell cells c :
  StronglySorted N.lt (keys_of cells) -> In c cells ->
  find (fun x => N.eqb (lc_key x) (lc_key c)) cells = Some c.
Proof.
  induction cells as [|a cells IH]; cbn; intros Hs Hin; [contradiction|].
  inversion Hs as [|? ? Hs' Hf]; subst. destruct Hin as [->|Hin].
  - rewrite N.eqb_refl. reflexivity.
  - destruct (N.eqb_spec (lc_key a) (lc_key c)) as [E|_]; [|auto].
    exfalso. rewrite Forall_forall in Hf. specialize (Hf (lc_key c) (in_map _ _ _ Hin)). lia.
Qed.

(* every stored cell is found by the descent from the root *)
Lemma descend_finds t : forall h lo hi c,
  wf h lo hi t -> In c (all_cells t) -> In c (leaf_cells (descend (lc_key c) t)) /\
                                       In (descend (lc_key c) t) (leaves t).
Proof.
  induction t as [off l d cells hl hr ls rs | off l d kids rgt IHk IHr] using tree_ind2; intros h lo hi c H Hin.
  - rewrite all_cells_leaf in Hin. cbn. auto.
  - destruct h as [|h']; [exfalso; exact (wf_node_O _ _ _ _ _ _ _ _ _ H)|].
    apply wf_node in H as (_ & _ & Hk). rewrite all_cells_node in Hin. rewrite leaves_node.
    cbn [descend].
    clear - IHk IHr Hk Hin. revert lo Hk Hin. induction kids as [|[s c1] r IH]; intros lo Hk Hin.
    + cbn in *. destruct (IHr _ _ _ _ Hk Hin) as [A B]. auto.
    + cbn [wf_kids] in Hk. destruct Hk as (A & B & C & D).
      inversion IHk as [|? ? Hc Hr]; subst. cbn [snd] in Hc.
      cbn [kids_cells flat_map snd] in Hin. rewrite <- app_assoc in Hin.
      cbn [kids_leaves flat_map snd]. rewrite <- app_assoc.
      destruct (N.ltb_spec (lc_key c) s) as [Hlt|Hge].
      * (* routed to c1: c must be there, everything to the right is >= s *)
        apply in_app_or in Hin as [Hin|Hin].
        -- destruct (Hc _ _ _ _ C Hin) as [X Y]. split; [exact X | apply in_or_app; left; exact Y].
        -- exfalso.
           assert (Hb : Forall (fun x => s <= lc_key x) (kids_cells r ++ all_cells rgt)).
           { clear - D IHr Hr. revert s D. induction r as [|[s2 c2] r2 IH2]; intros s D.
             - cbn in *. eapply Forall_impl; [|apply (wf_bounds _ _ _ _ D)]. cbn; tauto.
             - cbn [wf_kids] in D. destruct D as (A & B & C & D').
               inversion Hr as [|? ? _ Hr2]; subst.
               cbn [kids_cells flat_map snd]. rewrite <- app_assoc. apply Forall_app. split.
               + eapply Forall_impl; [|apply (wf_bounds _ _ _ _ C)]. cbn; tauto.
               + eapply Forall_impl; [|apply (IH2 Hr2 s2 D')]. cbn. intros; lia. }
           rewrite Forall_forall in Hb. specialize (Hb c Hin). lia.
      * apply in_app_or in Hin as [Hin|Hin].
        -- exfalso. pose proof (wf_bounds _ _ _ _ C) as Hb. rewrite Forall_forall in Hb.
           destruct (Hb c Hin) as [_ X]. cbn in X. lia.
        -- destruct (IH Hr s D Hin) as [X Y]. split; [exact X | apply in_or_app; right; exact Y].
Qed.

End Lookup.

(* ====================== separators, key existence ====================== *)
Fixpoint seps (t : tree) : list N :=
  match t with
  | TLeaf _ _ _ _ _ _ _ _ => []
  | TNode _ _ _ kids rgt =>
      (fix go (l : list (N * tree)) : list N :=
         match l with [] => [] | (s, c) :: r => s :: seps c ++ go r end) kids ++ seps rgt
  end.

Definition kids_seps (kids : list (N * tree)) : list N := flat_map (fun sc => fst sc :: seps (snd sc)) kids.

Lemma seps_node off lsn d kids rgt : seps (TNode off lsn d kids rgt) = kids_seps kids ++ seps rgt.
Proof.
  cbn [seps]. f_equal. induction kids as [|[s c] r IH]; [reflexivity|].
  unfold kids_seps in *. cbn [flat_map fst snd app]. f_equal. f_equal. exact IH.
Qed.

Lemma kids_seps_app a b : kids_seps (a ++ b) = kids_seps a ++ kids_seps b.
Proof. unfold kids_seps. apply flat_map_app. Qed.

(* every key-like number stored in the tree: separators and cell keys *)
Definition tree_keys (t : tree) : list N := seps t ++ keys_of (all_cells t).

Lemma key_exists_node k off lsn d kids rgt :
  key_exists k (TNode off lsn d kids rgt) =
  sep_hit k kids || key_exists k (child_for k kids rgt).
Proof.
  cbn [key_exists]. f_equal. induction kids as [|[s c] r IH]; [reflexivity|].
  cbn [child_for]. destruct (N.ltb k s); [reflexivity | exact IH].
Qed.

Lemma descend_node k off lsn d kids rgt :
  descend k (TNode off lsn d kids rgt) = descend k (child_for k kids rgt).
Proof.
  cbn [descend]. induction kids as [|[s c] r IH]; [reflexivity|].
  cbn [child_for]. destruct (N.ltb k s); [reflexivity | exact IH].
Qed.

Lemma key_exists_false t : forall k,
  Forall (fun x => x < k) (tree_keys t) -> key_exists k t = false.
Proof.
  induction t as [off l d cells hl hr ls rs | off l d kids rgt IHk IHr] using tree_ind2; intros k H.
  - unfold tree_keys in H. cbn [seps app] in H. rewrite all_cells_leaf in H. cbn [key_exists].
    apply not_true_is_false. intros E. apply existsb_exists in E as (c & Hin & Ec).
    apply N.eqb_eq in Ec. rewrite Forall_forall in H. specialize (H (lc_key c) (in_map _ _ _ Hin)). lia.
  - rewrite key_exists_node. unfold tree_keys in H. rewrite seps_node, all_cells_node, keys_of_app in H.
    apply Forall_app in H as [H1 H2]. apply Forall_app in H1 as [Hks Hrs]. apply Forall_app in H2 as [Hkc Hrc].
    assert (Hsh : sep_hit k kids = false).
    { clear - Hks. induction kids as [|[s c] r IH]; [reflexivity|].
      cbn [kids_seps flat_map fst snd app] in Hks. inversion Hks as [|? ? Hs Hrest]; subst.
      apply Forall_app in Hrest as [_ Hrest]. cbn [sep_hit].
      destruct (N.eqb_spec s k); [lia|]. cbn. apply IH. exact Hrest. }
    rewrite Hsh. cbn [orb].
    clear Hsh. induction kids as [|[s c] r IH].
    + cbn [child_for]. apply IHr. unfold tree_keys. apply Forall_app. auto.
    + cbn [child_for]. inversion IHk as [|? ? Hc Hr']; subst. cbn [snd] in Hc.
      cbn [kids_seps flat_map fst snd app] in Hks. inversion Hks as [|? ? Hs Hrest]; subst.
      apply Forall_app in Hrest as [Hcs Hrest].
      cbn [kids_cells flat_map snd] in Hkc. rewrite keys_of_app in Hkc. apply Forall_app in Hkc as [Hcc Hkc].
      destruct (N.ltb k s).
      * apply Hc. unfold tree_keys. apply Forall_app. auto.
      * apply IH; auto.
Qed.

Lemma on_right_spine_true t : forall k,
  Forall (fun x => x < k) (seps t) -> on_right_spine k t = true.
Proof.
  induction t as [off l d cells hl hr ls rs | off l d kids rgt IH]; intros k H; [reflexivity|].
  rewrite seps_node in H. apply Forall_app in H as [Hk Hr].
  cbn [on_right_spine]. rewrite (IH k Hr), andb_true_r.
  apply forallb_forall. intros [s c] Hin. cbn [fst]. rewrite negb_true_iff, N.ltb_ge.
  rewrite Forall_forall in Hk. apply N.lt_le_incl. apply Hk.
  unfold kids_seps. apply in_flat_map. exists (s, c). split; [exact Hin | left; reflexivity].
Qed.

Lemma rightmost_cells_sub t x : In x (all_cells (rightmost t)) -> In x (all_cells t).
Proof.
  induction t as [off l d cells hl hr ls rs | off l d kids rgt IH]; [auto|].
  cbn [rightmost]. intros H. rewrite all_cells_node. apply in_or_app. right. auto.
Qed.

Section Seps.
Variables (ml mi : nat) (ps : N).

Definition res_keys (r : ins_res) : list N :=
  match r with
  | IFit t => tree_keys t
  | ISplit l s r => s :: tree_keys l ++ tree_keys r
  end.

Lemma first_key_in cells : cells <> [] -> In (first_key cells) (keys_of cells).
Proof. destruct cells; [congruence | left; reflexivity]. Qed.

(* every key or separator of the result is an old one or the inserted key *)
Lemma ins_right_keys t : forall k lsn v free x,
  (2 <= ml)%nat ->
  Forall (fun c => lc_key c < k) (all_cells (rightmost t)) ->
  In x (res_keys (fst (ins_right ml mi ps t k lsn v free))) -> In x (tree_keys t) \/ x = k.
Proof.
  induction t as [off l d cells hl hr ls rs | off l d kids rgt IH]; intros k lsn v free x Hml Hmax Hin.
  - cbn [rightmost] in Hmax. rewrite all_cells_leaf in Hmax.
    cbn [ins_right] in Hin. rewrite (insert_cell_append (mkLC k false v) cells) in Hin by exact Hmax.
    unfold tree_keys. cbn [seps app]. rewrite all_cells_leaf.
    assert (Hall : forall y, In y (keys_of (cells ++ [mkLC k false v])) -> In y (keys_of cells) \/ y = k).
    { intros y Hy. rewrite keys_of_app in Hy. apply in_app_or in Hy as [Hy|[<-|[]]]; auto. }
    destruct (Nat.ltb_spec (length (cells ++ [mkLC k false v])) ml) as [Hfit|Hfull]; cbn [fst res_keys] in Hin.
    + unfold tree_keys in Hin. cbn [seps app] in Hin. rewrite all_cells_leaf in Hin. auto.
    + unfold tree_keys in Hin. cbn [seps app] in Hin. rewrite !all_cells_leaf in Hin.
      set (cells' := cells ++ [mkLC k false v]) in *.
      set (mid := (length cells' / 2)%nat) in *.
      apply Hall. rewrite <- (firstn_skipn mid cells'), keys_of_app.
      destruct Hin as [<-|Hin].
      * apply in_or_app. right. apply first_key_in. intros E.
        assert (length (skipn mid cells') = 0%nat) by (rewrite E; reflexivity).
        rewrite skipn_length in H. assert (mid < length cells')%nat; [|lia].
        apply Nat.div_lt; lia.
      * exact Hin.
  - cbn [rightmost] in Hmax. cbn [ins_right] in Hin.
    unfold tree_keys. rewrite seps_node, all_cells_node, keys_of_app.
    destruct (ins_right ml mi ps rgt k lsn v free) as [[r'|lft sep r'] f] eqn:E.
    + cbn [fst res_keys] in Hin. unfold tree_keys in Hin.
      rewrite seps_node, all_cells_node, keys_of_app in Hin.
      specialize (IH k lsn v free). rewrite E in IH. cbn [fst res_keys] in IH. unfold tree_keys in IH.
      apply in_app_or in Hin as [Hin|Hin]; apply in_app_or in Hin as [Hin|Hin].
      * left. apply in_or_app; left; apply in_or_app; left; exact Hin.
      * destruct (IH x Hml Hmax) as [H|H]; [apply in_or_app; left; exact Hin | | auto].
        left. apply in_app_or in H as [H|H].
        -- apply in_or_app; left; apply in_or_app; right; exact H.
        -- apply in_or_app; right; apply in_or_app; right; exact H.
      * left. apply in_or_app; right; apply in_or_app; left; exact Hin.
      * destruct (IH x Hml Hmax) as [H|H]; [apply in_or_app; right; exact Hin | | auto].
        left. apply in_app_or in H as [H|H].
        -- apply in_or_app; left; apply in_or_app; right; exact H.
        -- apply in_or_app; right; apply in_or_app; right; exact H.
    + specialize (IH k lsn v free). rewrite E in IH. cbn [fst res_keys] in IH.
      (* everything in the result comes from kids, or from (sep, lft, r') which IH covers *)
      assert (Hsrc : forall y, In y (kids_seps (kids ++ [(sep, lft)]) ++ seps r') \/
                               In y (keys_of (kids_cells (kids ++ [(sep, lft)])) ++ keys_of (all_cells r')) ->
                               In y ((kids_seps kids ++ seps rgt) ++ keys_of (kids_cells kids) ++ keys_of (all_cells rgt)) \/ y = k).
      { intros y Hy.
        rewrite kids_seps_app, kids_cells_app, keys_of_app in Hy.
        cbn [kids_seps kids_cells flat_map fst snd] in Hy. rewrite !app_nil_r in Hy.
        assert (Hi : In y (sep :: tree_keys lft ++ tree_keys r') -> In y (tree_keys rgt) \/ y = k) by (intros; apply IH; auto).
        unfold tree_keys in Hi.
        destruct Hy as [Hy|Hy].
        - apply in_app_or in Hy as [Hy|Hy]; [apply in_app_or in Hy as [Hy|Hy]|].
          + left. apply in_or_app; left; apply in_or_app; left; exact Hy.
          + destruct Hi as [H|H]; auto.
            { destruct Hy as [<-|Hy]; [left; reflexivity | right; apply in_or_app; left; apply in_or_app; left; exact Hy]. }
            left. apply in_app_or in H as [H|H].
            * apply in_or_app; left; apply in_or_app; right; exact H.
            * apply in_or_app; right; apply in_or_app; right; exact H.
          + destruct Hi as [H|H]; auto.
            { right. apply in_or_app; right; apply in_or_app; left; exact Hy. }
            left. apply in_app_or in H as [H|H].
            * apply in_or_app; left; apply in_or_app; right; exact H.
            * apply in_or_app; right; apply in_or_app; right; exact H.
        - apply in_app_or in Hy as [Hy|Hy]; [apply in_app_or in Hy as [Hy|Hy]|].
          + left. apply in_or_app; right; apply in_or_app; left; exact Hy.
          + destruct Hi as [H|H]; auto.
            { right. apply in_or_app; left; apply in_or_app; right; exact Hy. }
            left. apply in_app_or in H as [H|H].
            * apply in_or_app; left; apply in_or_app; right; exact H.
            * apply in_or_app; right; apply in_or_app; right; exact H.
          + destruct Hi as [H|H]; auto.
            { right. apply in_or_app; right; apply in_or_app; right; exact Hy. }
            left. apply in_app_or in H as [H|H].
            * apply in_or_app; left; apply in_or_app; right; exact H.
            * apply in_or_app; right; apply in_or_app; right; exact H. }
      destruct (Nat.ltb _ mi).
      * cbn [fst res_keys] in Hin. unfold tree_keys in Hin.
        rewrite seps_node, all_cells_node, keys_of_app in Hin.
        apply Hsrc. apply in_app_or in Hin as [Hin|Hin]; auto.
      * destruct (nth_error (kids ++ [(sep, lft)]) (length (kids ++ [(sep, lft)]) / 2)) as [[msep mchild]|] eqn:En.
        -- pose proof (split_list_mid _ _ _ En) as Hs.
           set (a := firstn (length (kids ++ [(sep, lft)]) / 2) (kids ++ [(sep, lft)])) in *.
           set (b := skipn (S (length (kids ++ [(sep, lft)]) / 2)) (kids ++ [(sep, lft)])) in *.
           cbn [fst res_keys] in Hin. unfold tree_keys in Hin.
           rewrite !seps_node, !all_cells_node, !keys_of_app in Hin.
           apply Hsrc. rewrite Hs, kids_seps_app, kids_cells_app, keys_of_app.
           cbn [kids_seps kids_cells flat_map fst snd]. rewrite keys_of_app.
           destruct Hin as [<-|Hin].
           { left. apply in_or_app; left; apply in_or_app; right; left; reflexivity. }
           apply in_app_or in Hin as [Hin|Hin]; apply in_app_or in Hin as [Hin|Hin];
             apply in_app_or in Hin as [Hin|Hin].
           ++ left. apply in_or_app; left; apply in_or_app; left; exact Hin.
           ++ left. apply in_or_app; left; apply in_or_app; right; right; apply in_or_app; left; exact Hin.
           ++ right. apply in_or_app; left; apply in_or_app; left; exact Hin.
           ++ right. apply in_or_app; left; apply in_or_app; right; apply in_or_app; left; exact Hin.
           ++ left. apply in_or_app; left; apply in_or_app; right; right; apply in_or_app; right; exact Hin.
           ++ left. apply in_or_app; right; exact Hin.
           ++ right. apply in_or_app; left; apply in_or_app; right; apply in_or_app; right; exact Hin.
           ++ right. apply in_or_app; right; exact Hin.
        -- exfalso. apply nth_error_None in En.
           assert (0 < length (kids ++ [(sep, lft)]))%nat by (rewrite app_length; cbn; lia).
           pose proof (Nat.div_lt (length (kids ++ [(sep, lft)])) 2 H ltac:(lia)). lia.
Qed.

End Seps.

(* ====================== the tree-level theorems ====================== *)
Section Top.
Variables (ml mi : nat) (ps : N) (maxval : nat).
Hypothesis Hml : (2 <= ml)%nat.
Hypothesis Hmi : (3 <= mi)%nat.
Hypothesis Hps : 0 < ps.

(* C11's invariant for one tree whose pages all lie below the allocator's next free offset *)
Record WFT (free : N) (t : tree) : Prop := mkWFT {
  wft_shape : exists h, wf ml mi h 0 None t;
  wft_linked : linked None (leaves t);
  wft_nodup : NoDup (offsets_of t);
  wft_bound : Forall (fun o => o < free) (offsets_of t)
}.

Lemma leaves_sub_nodes t x : In x (leaves t) -> In x (nodes t).
Proof.
  induction t as [off l d cells hl hr ls rs | off l d kids rgt IHk IHr] using tree_ind2; [auto|].
  rewrite leaves_node, nodes_node. intros H. right. apply in_app_or in H as [H|H]; apply in_or_app.
  - left. unfold kids_leaves, kids_nodes in *. apply in_flat_map in H as (sc & Hin & Hx).
    apply in_flat_map. exists sc. split; [exact Hin|]. rewrite Forall_forall in IHk. apply IHk; auto.
  - right. auto.
Qed.

Lemma NoDup_app_inv {A} (a b : list A) :
  NoDup (a ++ b) -> NoDup a /\ NoDup b /\ (forall x, In x a -> In x b -> False).
Proof.
  induction a as [|x a IH]; cbn [app]; intros H.
  - repeat split; [constructor | exact H | intros x []].
  - inversion H as [|? ? Hn Hd]; subst. destruct (IH Hd) as (A1 & A2 & A3).
    repeat split.
    + constructor; [|exact A1]. intros Hin. apply Hn. apply in_or_app. left. exact Hin.
    + exact A2.
    + intros y [->|Hy] Hb; [apply Hn; apply in_or_app; right; exact Hb | eapply A3; eauto].
Qed.

Lemma NoDup_app_remove_l {A} (a b : list A) : NoDup (a ++ b) -> NoDup b.
Proof. intros H. apply NoDup_app_inv in H. tauto. Qed.

Lemma NoDup_app_remove_r {A} (a b : list A) : NoDup (a ++ b) -> NoDup a.
Proof. intros H. apply NoDup_app_inv in H. tauto. Qed.

(* leaf offsets are a sub-list (in order) of all offsets: NoDup carries over *)
Lemma leaf_offsets_NoDup t : NoDup (offsets_of t) -> NoDup (map t_off (leaves t)).
Proof.
  induction t as [off l d cells hl hr ls rs | off l d kids rgt IHk IHr] using tree_ind2; intros H.
  - cbn. constructor; [intros []|constructor].
  - rewrite offsets_node in H. inversion H as [|? ? _ Hd]; subst. rewrite leaves_node, map_app.
    apply NoDup_app_remove_l in Hd as Hr. clear H.
    assert (G : forall ks, Forall (fun sc => NoDup (offsets_of (snd sc)) -> NoDup (map t_off (leaves (snd sc)))) ks ->
                NoDup (kids_offsets ks ++ offsets_of rgt) ->
                NoDup (map t_off (kids_leaves ks) ++ map t_off (leaves rgt))).
    { induction ks as [|[s c] r IH]; intros Hall Hnd.
      - cbn in *. apply IHr. exact Hnd.
      - inversion Hall as [|? ? Hc Hrest]; subst. cbn [snd] in Hc.
        cbn [kids_offsets kids_leaves flat_map snd] in *. rewrite map_app, <- !app_assoc in *.
        assert (Hsub : forall x, In x (map t_off (leaves c)) -> In x (offsets_of c)).
        { intros x Hx. apply in_map_iff in Hx as (y & <- & Hy). apply in_map. apply leaves_sub_nodes. exact Hy. }
        assert (Hsub2 : forall ks2 x, In x (map t_off (kids_leaves ks2) ++ map t_off (leaves rgt)) ->
                                     In x (kids_offsets ks2 ++ offsets_of rgt)).
        { intros ks2 x Hx. apply in_app_or in Hx as [Hx|Hx]; apply in_or_app.
          - left. apply in_map_iff in Hx as (y & <- & Hy). unfold kids_leaves in Hy.
            apply in_flat_map in Hy as (sc & Hin & Hy). unfold kids_offsets. apply in_flat_map.
            exists sc. split; [exact Hin|]. apply in_map. apply leaves_sub_nodes. exact Hy.
          - right. apply in_map_iff in Hx as (y & <- & Hy). apply in_map. apply leaves_sub_nodes. exact Hy. }
        clear IHk IHr Hd Hr.
        revert Hnd. generalize (offsets_of c) (map t_off (leaves c)) Hc Hsub. intros oc lc Hc' Hsub' Hnd.
        assert (Hnd1 : NoDup oc) by (eapply NoDup_app_remove_r; eauto).
        assert (Hnd2 : NoDup (kids_offsets r ++ offsets_of rgt)) by (eapply NoDup_app_remove_l; eauto).
        specialize (IH Hrest Hnd2). specialize (Hc' Hnd1).
        clear - Hc' IH Hnd Hsub' Hsub2.
        induction lc as [|a lc IHl]; [exact IH|].
        cbn [app]. inversion Hc' as [|? ? Hna Hlc]; subst. constructor.
        + intros Hin. apply in_app_or in Hin as [Hin|Hin]; [contradiction|].
          apply Hsub2 in Hin.
          assert (In a oc) by (apply Hsub'; left; reflexivity).
          clear - Hnd Hin H. induction oc as [|b oc IHo]; [contradiction|].
          cbn [app] in Hnd. inversion Hnd as [|? ? Hnb Hrest]; subst. destruct H as [->|H].
          * apply Hnb. apply in_or_app. right. exact Hin.
          * apply IHo; auto.
        + apply IHl; auto. intros x Hx. apply Hsub'. right. exact Hx. }
    apply G; [exact IHk | exact Hd].
Qed.

Lemma scan_right_leaves_ok free t : WFT free t -> scan_right_leaves t = TOk (leaves t).
Proof.
  intros [[h Hs] Hl Hn _]. unfold scan_right_leaves.
  destruct (leftmost_hd ml mi t h 0 None Hs) as (l0 & rest & E1 & E2). rewrite E1.
  rewrite (chain_right_ok t rest [] l0 (S (length (leaves t))) None).
  - rewrite E2. reflexivity.
  - rewrite E2. reflexivity.
  - apply leaf_offsets_NoDup. exact Hn.
  - rewrite E2 in Hl. exact Hl.
  - rewrite E2. cbn [length]. lia.
Qed.

Lemma scan_left_leaves_ok free t : WFT free t -> scan_left_leaves t = TOk (rev (leaves t)).
Proof.
  intros [[h Hs] Hl Hn _]. unfold scan_left_leaves.
  pose proof (leaves_last t) as EL.
  assert (ER : rev (leaves t) = rightmost t :: rev (removelast (leaves t))).
  { rewrite EL at 1. rewrite rev_app_distr. reflexivity. }
  rewrite (chain_left_rev t (rev (removelast (leaves t))) [] (rightmost t) (S (length (leaves t)))).
  - rewrite ER. reflexivity.
  - rewrite ER. reflexivity.
  - apply leaf_offsets_NoDup. exact Hn.
  - rewrite <- ER. apply linked_rlinked. exact Hl.
  - rewrite rev_length. rewrite EL at 2. rewrite app_length. cbn [length]. lia.
Qed.

Lemma scan_right_ok free t : WFT free t -> scan_right t = TOk (scan_tree t).
Proof.
  intros H. unfold scan_right. rewrite (scan_right_leaves_ok free t H). reflexivity.
Qed.

(* every stored, live cell is found by point lookup from the root *)
Lemma find_cell_ok free t c :
  WFT free t -> In c (all_cells t) -> lc_deleted c = false ->
  exists pg, find_cell (lc_key c) t = Some (pg, c).
Proof.
  intros [[h Hs] _ _ _] Hin Hlive.
  destruct (descend_finds ml mi t h 0 None c Hs Hin) as [Hc Hleaf].
  unfold find_cell. destruct (descend (lc_key c) t) as [off l d cells hl hr ls rs|] eqn:E; [|contradiction].
  cbn [leaf_cells] in Hc.
  (* the leaf is sorted: it is one of the leaves of a wf tree *)
  assert (Hsorted : StronglySorted N.lt (keys_of cells)).
  { clear - Hs Hleaf. revert h Hs. generalize 0 at 1. generalize (@None N).
    induction t as [o1 l1 d1 c1 hl1 hr1 ls1 rs1 | o1 l1 d1 kids rgt IHk IHr] using tree_ind2; intros hi lo h Hs.
    - cbn in Hleaf. destruct Hleaf as [Heq|[]]. inversion Heq; subst. cbn [wf] in Hs. tauto.
    - destruct h as [|h']; [exfalso; exact (wf_node_O _ _ _ _ _ _ _ _ _ Hs)|].
      apply wf_node in Hs as (_ & _ & Hk). rewrite leaves_node in Hleaf.
      revert lo Hk. induction kids as [|[s c0] r IH]; intros lo Hk.
      + cbn in *. eapply IHr; eauto.
      + cbn [wf_kids] in Hk. destruct Hk as (A & B & C & D).
        inversion IHk as [|? ? Hc0 Hr0]; subst. cbn [snd] in Hc0.
        cbn [kids_leaves flat_map snd] in Hleaf. rewrite <- app_assoc in Hleaf.
        apply in_app_or in Hleaf as [Hl|Hl]; [eapply Hc0; eauto | eapply (IH Hr0 Hl); eauto]. }
  rewrite (find_sorted_cell cells c Hsorted Hc), Hlive. eauto.
Qed.

(* ---- insertion ---- *)
Lemma rightmost_is_leaf t : is_leaf (rightmost t).
Proof. induction t; cbn; auto. Qed.

Lemma NoDup_old_fresh old n free :
  NoDup old -> Forall (fun o => o < free) old -> NoDup (old ++ alloc_seq ps free n).
Proof.
  intros Hn Hb. induction old as [|a old IH]; cbn [app]; [apply alloc_seq_NoDup; exact Hps|].
  inversion Hn as [|? ? Hna Hn']; subst. inversion Hb as [|? ? Ha Hb']; subst.
  constructor; [|apply IH; auto].
  intros Hin. apply in_app_or in Hin as [Hin|Hin]; [contradiction|].
  apply (alloc_seq_bounds ps free n a Hps) in Hin. lia.
Qed.

Lemma bound_old_fresh old n free :
  Forall (fun o => o < free) old ->
  Forall (fun o => o < free + ps * N.of_nat n) (old ++ alloc_seq ps free n).
Proof.
  intros Hb. apply Forall_app. split.
  - eapply Forall_impl; [|exact Hb]. cbn. intros; lia.
  - rewrite Forall_forall. intros x Hx. apply (alloc_seq_bounds ps free n x Hps) in Hx. lia.
Qed.

Lemma linked_res t k lsn v free :
  linked None (leaves t) ->
  linked None (res_leaves (fst (ins_right ml mi ps t k lsn v free))).
Proof.
  intros Hl. rewrite ins_right_leaves. pose proof (leaves_last t) as EL.
  pose proof (rightmost_is_leaf t) as Hleaf.
  destruct (rightmost t) as [off a b cells hl hr ls rs|]; [|contradiction].
  rewrite EL in Hl. cbn [ins_right].
  destruct (Nat.ltb _ ml); cbn [fst res_leaves leaves app].
  - eapply linked_snoc_replace; eauto.
  - eapply linked_snoc_split; eauto.
Qed.

Theorem tree_insert_ok free t k lsn v :
  WFT free t ->
  Forall (fun x => x < k) (tree_keys t) ->
  (length v <= maxval)%nat ->
  exists t' f',
    tree_insert ml mi ps maxval t k lsn v free = TOk (t', f') /\
    WFT f' t' /\
    all_cells t' = all_cells t ++ [mkLC k false v] /\
    Forall (fun x => x <= k) (tree_keys t') /\
    free <= f' /\
    (forall x, In x (offsets_of t') -> In x (offsets_of t) \/ free <= x).
Proof.
  intros [[h Hs] Hl Hn Hb] Hkeys Hlen.
  pose proof Hkeys as Hkeys0.
  unfold tree_keys in Hkeys. apply Forall_app in Hkeys as [Hseps Hcells].
  assert (Hmax : Forall (fun x => lc_key x < k) (all_cells (rightmost t))).
  { rewrite Forall_forall in *. intros x Hx. apply Hcells. apply in_map. apply rightmost_cells_sub. exact Hx. }
  unfold tree_insert.
  rewrite (key_exists_false t k Hkeys0).
  rewrite (on_right_spine_true t k Hseps). cbn [negb].
  destruct (Nat.ltb_spec maxval (length v)) as [Hbad|_]; [lia|].
  pose proof (ins_right_cells ml mi ps Hml Hmi t k lsn v free Hmax) as Hc.
  pose proof (ins_right_wf ml mi ps Hml Hmi t h 0 k lsn v free Hs (N.le_0_l k)
                (on_right_spine_true t k Hseps) Hmax) as Hw.
  pose proof (linked_res t k lsn v free Hl) as Hlk.
  destruct (ins_right_offsets ml mi ps t k lsn v free) as (n & Hperm & Hf).
  pose proof (fun x => ins_right_keys ml mi ps t k lsn v free x Hml Hmax) as Hk.
  assert (Hnd_res : NoDup (res_offsets (fst (ins_right ml mi ps t k lsn v free)))).
  { eapply Permutation_NoDup; [symmetry; exact Hperm|]. apply NoDup_old_fresh; auto. }
  assert (Hbd_res : Forall (fun o => o < free + ps * N.of_nat n)
                           (res_offsets (fst (ins_right ml mi ps t k lsn v free)))).
  { eapply Permutation_Forall; [symmetry; exact Hperm|]. apply bound_old_fresh; auto. }
  assert (Hkeys_res : Forall (fun x => x <= k) (res_keys (fst (ins_right ml mi ps t k lsn v free)))).
  { rewrite Forall_forall. intros x Hx. destruct (Hk x Hx) as [H| ->]; [|lia].
    rewrite Forall_forall in Hkeys0. apply N.lt_le_incl. auto. }
  assert (Hsrc : forall x, In x (res_offsets (fst (ins_right ml mi ps t k lsn v free))) ->
                           In x (offsets_of t) \/ free <= x).
  { intros x Hx. apply (Permutation_in _ Hperm) in Hx. apply in_app_or in Hx as [Hx|Hx]; [auto|].
    right. apply (alloc_seq_bounds ps free n x Hps) in Hx. lia. }
  destruct (ins_right ml mi ps t k lsn v free) as [[t'|lft sep r'] f] eqn:E; cbn [fst snd] in *.
  - exists t', f. split; [reflexivity|]. split; [|split; [exact Hc|split; [exact Hkeys_res|split; [|exact Hsrc]]]].
    + constructor; [eauto | exact Hlk | exact Hnd_res | rewrite Hf; exact Hbd_res].
    + subst f. lia.
  - exists (TNode f lsn true [(sep, lft)] r'), (f + ps).
    destruct Hw as (Wl & Wr & _).
    split; [reflexivity|]. split; [|split; [|split]].
    + constructor.
      * exists (S h). apply wf_node. split; [discriminate|]. split; [cbn; lia|].
        cbn [wf_kids]. split; [lia|]. split; [exact I|]. split; assumption.
      * rewrite leaves_node. cbn [kids_leaves flat_map snd]. rewrite app_nil_r. exact Hlk.
      * rewrite offsets_node. cbn [kids_offsets flat_map snd]. rewrite app_nil_r.
        constructor; [|exact Hnd_res].
        intros Hin. rewrite Forall_forall in Hbd_res. specialize (Hbd_res f Hin). lia.
      * rewrite offsets_node. cbn [kids_offsets flat_map snd]. rewrite app_nil_r.
        constructor; [lia|]. eapply Forall_impl; [|exact Hbd_res]. cbn. intros; lia.
    + rewrite all_cells_node. cbn [kids_cells flat_map snd]. rewrite app_nil_r. exact Hc.
    + unfold tree_keys. rewrite seps_node, all_cells_node, keys_of_app.
      cbn [kids_seps kids_cells flat_map fst snd]. rewrite !app_nil_r.
      cbn [res_keys] in Hkeys_res. unfold tree_keys in Hkeys_res.
      inversion Hkeys_res as [|? ? Hsep Hrest]; subst.
      apply Forall_app in Hrest as [H1 H2]. apply Forall_app in H1 as [H1a H1b]. apply Forall_app in H2 as [H2a H2b].
      cbn [app]. constructor; [exact Hsep|]. repeat (apply Forall_app; split); auto.
    + split; [lia|]. intros x Hx. rewrite offsets_node in Hx.
      cbn [kids_offsets flat_map snd] in Hx. rewrite app_nil_r in Hx.
      destruct Hx as [<-|Hx]; [right; lia | apply Hsrc; exact Hx].
Qed.

End Top.

(* ====================== in-place cell changes (UPDATE / DELETE / redo) ====================== *)
Lemma touch_leaf_node pg k lsn g off l d kids rgt :
  touch_leaf pg k lsn g (TNode off l d kids rgt) =
  TNode off l d (map (fun sc => (fst sc, touch_leaf pg k lsn g (snd sc))) kids) (touch_leaf pg k lsn g rgt).
Proof.
  cbn [touch_leaf]. f_equal. induction kids as [|[s c] r IH]; [reflexivity|].
  cbn [map fst snd]. f_equal. exact IH.
Qed.

Lemma touch_off pg k lsn g t : t_off (touch_leaf pg k lsn g t) = t_off t.
Proof.
  destruct t as [off l d cells hl hr ls rs|off l d kids rgt].
  - cbn [touch_leaf]. destruct (N.eqb off pg); reflexivity.
  - rewrite touch_leaf_node. reflexivity.
Qed.

Lemma touch_leaves pg k lsn g t :
  leaves (touch_leaf pg k lsn g t) = map (touch_leaf pg k lsn g) (leaves t).
Proof.
  induction t as [off l d cells hl hr ls rs | off l d kids rgt IHk IHr] using tree_ind2.
  - cbn [touch_leaf leaves map]. destruct (N.eqb off pg); reflexivity.
  - rewrite touch_leaf_node, !leaves_node, map_app, IHr. f_equal.
    unfold kids_leaves. induction kids as [|[s c] r IH]; [reflexivity|].
    inversion IHk as [|? ? Hc Hr]; subst. cbn [snd] in Hc.
    cbn [map flat_map fst snd]. rewrite map_app, Hc, (IH Hr). reflexivity.
Qed.

Lemma touch_offsets pg k lsn g t : offsets_of (touch_leaf pg k lsn g t) = offsets_of t.
Proof.
  induction t as [off l d cells hl hr ls rs | off l d kids rgt IHk IHr] using tree_ind2.
  - cbn [touch_leaf]. destruct (N.eqb off pg); reflexivity.
  - rewrite touch_leaf_node, !offsets_node, IHr. f_equal. f_equal.
    unfold kids_offsets. induction kids as [|[s c] r IH]; [reflexivity|].
    inversion IHk as [|? ? Hc Hr]; subst. cbn [snd] in Hc.
    cbn [map flat_map fst snd]. rewrite Hc, (IH Hr). reflexivity.
Qed.

Lemma touch_seps pg k lsn g t : seps (touch_leaf pg k lsn g t) = seps t.
Proof.
  induction t as [off l d cells hl hr ls rs | off l d kids rgt IHk IHr] using tree_ind2.
  - cbn [touch_leaf]. destruct (N.eqb off pg); reflexivity.
  - rewrite touch_leaf_node, !seps_node, IHr. f_equal.
    unfold kids_seps. induction kids as [|[s c] r IH]; [reflexivity|].
    inversion IHk as [|? ? Hc Hr]; subst. cbn [snd] in Hc.
    cbn [map flat_map fst snd]. rewrite Hc, (IH Hr). reflexivity.
Qed.

Lemma map_cell_keys k g cells :
  (forall x, lc_key (g x) = lc_key x) -> keys_of (map_cell k g cells) = keys_of cells.
Proof.
  intros Hg. unfold map_cell, keys_of. rewrite map_map. apply map_ext. intros c.
  destruct (N.eqb (lc_key c) k); [apply Hg | reflexivity].
Qed.

Lemma touch_wf ml mi pg k lsn g t :
  (forall x, lc_key (g x) = lc_key x) ->
  forall h lo hi, wf ml mi h lo hi t -> wf ml mi h lo hi (touch_leaf pg k lsn g t).
Proof.
  intros Hg.
  induction t as [off l d cells hl hr ls rs | off l d kids rgt IHk IHr] using tree_ind2; intros h lo hi H.
  - cbn [touch_leaf]. destruct (N.eqb off pg); [|exact H].
    cbn [wf] in *. destruct H as (H0 & H1 & H2 & H3). repeat split; auto.
    + rewrite map_cell_keys by exact Hg. exact H1.
    + unfold map_cell. rewrite Forall_map. eapply Forall_impl; [|exact H2]. cbn. intros c Hc.
      destruct (N.eqb (lc_key c) k); [rewrite Hg|]; exact Hc.
    + unfold map_cell. rewrite map_length. exact H3.
  - destruct h as [|h']; [exfalso; exact (wf_node_O _ _ _ _ _ _ _ _ _ H)|].
    rewrite touch_leaf_node. apply wf_node in H as (Hne & Hlen & Hk). apply wf_node.
    split; [destruct kids; [congruence|discriminate]|]. split; [rewrite map_length; exact Hlen|].
    clear Hne Hlen. revert lo Hk. induction kids as [|[s c] r IH]; intros lo Hk.
    + cbn in *. apply IHr. exact Hk.
    + cbn [wf_kids map fst snd] in *. destruct Hk as (A & B & C & D).
      inversion IHk as [|? ? Hc Hr]; subst. cbn [snd] in Hc. repeat split; auto.
Qed.

Lemma touch_linked pg k lsn g l : forall p,
  linked p l -> linked p (map (touch_leaf pg k lsn g) l).
Proof.
  induction l as [|x r IH]; intros p H; [exact I|].
  cbn [map linked] in *. destruct x as [off a b c hl hr ls rs|]; [|contradiction].
  destruct H as (H1 & H2 & H3).
  assert (E : exists a' b' c', touch_leaf pg k lsn g (TLeaf off a b c hl hr ls rs) = TLeaf off a' b' c' hl hr ls rs).
  { cbn [touch_leaf]. destruct (N.eqb off pg); eauto. }
  destruct E as (a' & b' & c' & ->). split; [exact H1|]. split.
  - destruct r as [|y r']; [exact H2|]. cbn [map]. rewrite touch_off. exact H2.
  - apply IH. exact H3.
Qed.

Lemma touch_WFT ml mi free pg k lsn g t :
  (forall x, lc_key (g x) = lc_key x) ->
  WFT ml mi free t -> WFT ml mi free (touch_leaf pg k lsn g t).
Proof.
  intros Hg [[h Hs] Hl Hn Hb]. constructor.
  - exists h. apply touch_wf; auto.
  - rewrite touch_leaves. apply touch_linked. exact Hl.
  - rewrite touch_offsets. exact Hn.
  - rewrite touch_offsets. exact Hb.
Qed.

(* effect on the in-order cell list: only cells with key k inside leaf pg change *)
Lemma touch_cells pg k lsn g t :
  all_cells (touch_leaf pg k lsn g t) =
  flat_map (fun l => if N.eqb (t_off l) pg then map_cell k g (leaf_cells l) else leaf_cells l) (leaves t).
Proof.
  unfold all_cells. rewrite touch_leaves, flat_map_concat_map, map_map, <- flat_map_concat_map.
  apply flat_map_ext. intros l.
  destruct l as [off a b c hl hr ls rs|off a b kids rgt].
  - cbn [touch_leaf t_off]. destruct (N.eqb off pg); reflexivity.
  - rewrite touch_leaf_node. cbn [leaf_cells t_off]. destruct (N.eqb off pg); reflexivity.
Qed.

Lemma map_cell_id k g cells :
  (forall c, In c cells -> lc_key c <> k) -> map_cell k g cells = cells.
Proof.
  intros H. unfold map_cell. rewrite <- (map_id cells) at 2. apply map_ext_in. intros c Hc.
  destruct (N.eqb_spec (lc_key c) k); [exfalso; eapply H; eauto | reflexivity].
Qed.

(* if leaf pg is the only leaf holding key k, the tree-order cell list changes pointwise *)
Lemma touch_cells_unique pg k lsn g t :
  (forall l c, In l (leaves t) -> In c (leaf_cells l) -> lc_key c = k -> t_off l = pg) ->
  all_cells (touch_leaf pg k lsn g t) = map_cell k g (all_cells t).
Proof.
  intros Hu. rewrite touch_cells. unfold all_cells.
  assert (Hm : forall a b, map_cell k g (a ++ b) = map_cell k g a ++ map_cell k g b)
    by (intros; unfold map_cell; apply map_app).
  induction (leaves t) as [|l L IH]; [reflexivity|].
  cbn [flat_map]. rewrite Hm, <- IH.
  2:{ intros l0 c Hl Hc Hk. apply (Hu l0 c); auto. right. exact Hl. }
  f_equal. destruct (N.eqb_spec (t_off l) pg) as [E|E]; [reflexivity|].
  symmetry. apply map_cell_id. intros c Hc Hk. apply E. apply (Hu l c); auto. left. reflexivity.
Qed.

(* keys are strictly ascending in tree order, across leaves *)
Lemma wf_sorted ml mi t : forall h lo hi,
  wf ml mi h lo hi t -> StronglySorted N.lt (keys_of (all_cells t)).
Proof.
  induction t as [off l d cells hl hr ls rs | off l d kids rgt IHk IHr] using tree_ind2; intros h lo hi H.
  - rewrite all_cells_leaf. cbn [wf] in H. tauto.
  - destruct h as [|h']; [exfalso; exact (wf_node_O _ _ _ _ _ _ _ _ _ H)|].
    apply wf_node in H as (_ & _ & Hk). rewrite all_cells_node.
    revert lo Hk. induction kids as [|[s c] r IH]; intros lo Hk.
    + cbn in *. eapply IHr; eauto.
    + cbn [wf_kids] in Hk. destruct Hk as (A & B & C & D).
      inversion IHk as [|? ? Hc Hr]; subst. cbn [snd] in Hc.
      cbn [kids_cells flat_map snd]. rewrite <- app_assoc, keys_of_app.
      apply SSorted_app; [eapply Hc; eauto | apply (IH Hr s D) |].
      intros x y Hx Hy.
      apply in_map_iff in Hx as (cx & <- & Hcx). apply in_map_iff in Hy as (cy & <- & Hcy).
      pose proof (wf_bounds ml mi _ _ _ _ C) as B1. rewrite Forall_forall in B1.
      destruct (B1 cx Hcx) as [_ Hlt]. cbn in Hlt.
      assert (Hge : s <= lc_key cy).
      { clear - D Hcy IHr Hr. revert s D Hcy. induction r as [|[s2 c2] r2 IH2]; intros s D Hcy.
        - cbn in *. pose proof (wf_bounds ml mi _ _ _ _ D) as B2. rewrite Forall_forall in B2.
          destruct (B2 cy Hcy). assumption.
        - cbn [wf_kids] in D. destruct D as (A & B & C & D').
          cbn [kids_cells flat_map snd] in Hcy. rewrite <- app_assoc in Hcy.
          apply in_app_or in Hcy as [Hcy|Hcy].
          + pose proof (wf_bounds ml mi _ _ _ _ C) as B2. rewrite Forall_forall in B2.
            destruct (B2 cy Hcy). assumption.
          + inversion Hr as [|? ? _ Hr2]; subst. specialize (IH2 Hr2 s2 D' Hcy). lia. }
      lia.
Qed.
