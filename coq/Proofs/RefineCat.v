(* C01 refinement, part 4: how the catalog representation evolves when one table's tree changes
   (possibly moving its root), and updatePageTable. *)
From Coq Require Import Arith Lia Bool List NArith ZArith String Sorted Permutation.
From Mkdb Require Import Model.Engine Spec.TableSpec Spec.HistObs Proofs.TreeProofs Proofs.StoreInv
  Proofs.BytesProofs Proofs.TupleProofs Proofs.RefineForest Proofs.RefineCodec Proofs.RefineRep Gen.Params.
Import ListNotations.
Local Open Scope N_scope.
Local Open Scope string_scope.
Local Open Scope list_scope.

Definition OFFMAX : N := 9223372036854775808.   (* 2^63: file offsets are Go int64 *)

(* ---------- set_rows ---------- *)
Lemma set_rows_names n rows d : map tb_name (set_rows n rows d) = map tb_name d.
Proof.
  induction d as [|a d IH]; [reflexivity|]. cbn [set_rows].
  destruct (String.eqb_spec (tb_name a) n) as [E|E]; cbn [map tb_name]; [congruence | rewrite IH; reflexivity].
Qed.

Lemma set_rows_sc_entries n rows d : sc_entries (set_rows n rows d) = sc_entries d.
Proof.
  induction d as [|a d IH]; [reflexivity|]. cbn [set_rows].
  destruct (String.eqb_spec (tb_name a) n) as [E|E]; cbn [sc_entries flat_map tb_name tb_schema].
  - rewrite E. reflexivity.
  - fold (sc_entries (set_rows n rows d)). fold (sc_entries d). rewrite IH. reflexivity.
Qed.

Lemma in_set_rows n rows d t' :
  NoDup (map tb_name d) -> In t' (set_rows n rows d) ->
  (exists t, In t d /\ tb_name t = n /\ t' = mkTbl n (tb_schema t) rows) \/ (In t' d /\ tb_name t' <> n).
Proof.
  induction d as [|a d IH]; intros Hnd; [contradiction|]. cbn [set_rows].
  cbn [map] in Hnd. inversion Hnd as [|? ? Hna Hnd']; subst.
  destruct (String.eqb_spec (tb_name a) n) as [E|E]; intros [H|H].
  - left. exists a. split; [left; reflexivity|]. auto.
  - right. split; [right; exact H|]. intros E'. apply Hna. rewrite E, <- E'. apply in_map. exact H.
  - subst. right. split; [left; reflexivity | exact E].
  - destruct (IH Hnd' H) as [(t & A & B & C)|[A B]];
      [left; exists t; split; [right; exact A|auto] | right; split; [right; exact A | exact B]].
Qed.

Lemma set_rows_set_rows n r1 r2 d : set_rows n r2 (set_rows n r1 d) = set_rows n r2 d.
Proof.
  induction d as [|a d IH]; [reflexivity|]. cbn [set_rows].
  destruct (String.eqb_spec (tb_name a) n) as [E|E]; cbn [set_rows tb_name tb_schema].
  - rewrite String.eqb_refl. reflexivity.
  - destruct (String.eqb_spec (tb_name a) n); [contradiction|]. rewrite IH. reflexivity.
Qed.

Lemma find_tbl_set_rows n rows d t :
  find_tbl n d = Some t -> find_tbl n (set_rows n rows d) = Some (mkTbl n (tb_schema t) rows).
Proof.
  induction d as [|a d IH]; cbn [find_tbl set_rows]; [discriminate|].
  destruct (String.eqb_spec (tb_name a) n) as [E|E]; intros H.
  - inversion H; subst. cbn [find_tbl tb_name]. rewrite String.eqb_refl. reflexivity.
  - cbn [find_tbl]. destruct (String.eqb_spec (tb_name a) n); [contradiction|]. auto.
Qed.

Lemma DbOk_set_rows n rows d : DbOk d -> DbOk (set_rows n rows d).
Proof.
  intros [A B C]. constructor.
  - rewrite set_rows_names. exact A.
  - clear A C. induction d as [|a d IH]; [constructor|]. inversion B; subst. cbn [set_rows].
    destruct (String.eqb_spec (tb_name a) n) as [E|E]; constructor; auto. cbn [tb_name]. rewrite <- E. assumption.
  - clear A B. induction d as [|a d IH]; [constructor|]. inversion C; subst. cbn [set_rows].
    destruct (String.eqb_spec (tb_name a) n) as [E|E]; constructor; auto.
Qed.

(* ---------- association lists with distinct names ---------- *)
Lemma assoc_fun {B} (L : list (string * B)) n o1 o2 :
  NoDup (map fst L) -> In (n, o1) L -> In (n, o2) L -> o1 = o2.
Proof.
  induction L as [|[n' o'] L IH]; intros Hnd H1 H2; [contradiction|].
  cbn [map fst] in Hnd. inversion Hnd as [|? ? Hna Hnd']; subst.
  destruct H1 as [E1|H1], H2 as [E2|H2].
  - congruence.
  - inversion E1; subst. exfalso. apply Hna. change n with (fst (n, o2)). apply in_map. exact H2.
  - inversion E2; subst. exfalso. apply Hna. change n with (fst (n, o1)). apply in_map. exact H1.
  - eauto.
Qed.

Definition upd (n : string) (o' : N) (e : string * N) : string * N :=
  if String.eqb (fst e) n then (n, o') else e.

Lemma upd_fst n o' e : fst (upd n o' e) = fst e.
Proof. unfold upd. destruct (String.eqb_spec (fst e) n) as [E|E]; [cbn; congruence | reflexivity]. Qed.

Lemma map_upd_fst n o' L : map fst (map (upd n o') L) = map fst L.
Proof. rewrite map_map. apply map_ext. intros e. apply upd_fst. Qed.

Lemma map_upd_notin n o' L : ~ In n (map fst L) -> map (upd n o') L = L.
Proof.
  induction L as [|e L IH]; intros H; [reflexivity|]. cbn [map]. rewrite IH by (intros X; apply H; right; exact X).
  unfold upd. destruct (String.eqb_spec (fst e) n) as [E|E]; [exfalso; apply H; left; exact E | reflexivity].
Qed.

Lemma map_upd_split n o o' (a b : list (string * N)) :
  ~ In n (map fst a) -> ~ In n (map fst b) ->
  map (upd n o') (a ++ (n, o) :: b) = a ++ (n, o') :: b.
Proof.
  intros Ha Hb. rewrite map_app. cbn [map]. rewrite !map_upd_notin by assumption.
  unfold upd. cbn [fst]. rewrite String.eqb_refl. reflexivity.
Qed.

Lemma assoc_split (L : list (string * N)) n o :
  NoDup (map fst L) -> In (n, o) L ->
  exists a b, L = a ++ (n, o) :: b /\ ~ In n (map fst a) /\ ~ In n (map fst b).
Proof.
  intros Hnd Hin. apply in_split in Hin as (a & b & ->). exists a, b. split; [reflexivity|].
  rewrite map_app in Hnd. cbn [map fst] in Hnd. apply NoDup_mid_notin in Hnd. exact Hnd.
Qed.

Lemma map_upd_same n o L : NoDup (map fst L) -> In (n, o) L -> map (upd n o) L = L.
Proof.
  intros Hnd Hin. destruct (assoc_split L n o Hnd Hin) as (a & b & -> & Ha & Hb).
  apply map_upd_split; assumption.
Qed.

Lemma in_map_upd_other n o' L n2 o2 : n2 <> n -> In (n2, o2) L -> In (n2, o2) (map (upd n o') L).
Proof.
  intros Hne Hin. apply in_map_iff. exists (n2, o2). split; [|exact Hin].
  unfold upd. cbn [fst]. destruct (String.eqb_spec n2 n); [contradiction | reflexivity].
Qed.

Lemma in_map_upd_self n o o' L : In (n, o) L -> In (n, o') (map (upd n o') L).
Proof.
  intros Hin. apply in_map_iff. exists (n, o). split; [|exact Hin].
  unfold upd. cbn [fst]. rewrite String.eqb_refl. reflexivity.
Qed.

Lemma NoDup_upd_offsets p (L : list (string * N)) n o o' :
  NoDup (map fst L) -> NoDup (p :: map snd L) -> In (n, o) L ->
  (o' = o \/ ~ In o' (p :: map snd L)) ->
  NoDup (p :: map snd (map (upd n o') L)).
Proof.
  intros Hn Ho Hin Hfresh. destruct (assoc_split L n o Hn Hin) as (a & b & -> & Ha & Hb).
  rewrite (map_upd_split n o o' a b Ha Hb). destruct Hfresh as [->|Hfresh]; [exact Ho|].
  rewrite map_app in *. cbn [map snd] in *.
  change (p :: map snd a ++ o :: map snd b) with ((p :: map snd a) ++ o :: map snd b) in Ho, Hfresh.
  change (p :: map snd a ++ o' :: map snd b) with ((p :: map snd a) ++ o' :: map snd b).
  apply NoDup_remove_1 in Ho as Ho1.
  eapply Permutation_NoDup; [apply Permutation_middle|]. constructor; [|exact Ho1].
  intros X. apply Hfresh. apply in_app_or in X as [X|X]; apply in_or_app; [left | right; right]; exact X.
Qed.

(* ---------- every catalog entry except sys_pages' own names a tree of the forest ---------- *)
Lemma cat_entry_tree s d pt sc ents osc n o :
  DbOk d -> Cat s d pt sc ents osc -> In (n, o) ents -> n <> "sys_pages" ->
  exists tr, find_root o (forest s) = Some tr.
Proof.
  intros Hok HC Hin Hns.
  pose proof (cat_names_NoDup d ents Hok (c_names _ _ _ _ _ _ HC)) as Hnd.
  assert (Hn : In n (map fst ents)) by (change n with (fst (n, o)); apply in_map; exact Hin).
  rewrite (c_names _ _ _ _ _ _ HC) in Hn. destruct Hn as [E|[E|Hn]]; [congruence| |].
  - subst n. rewrite (assoc_fun ents _ o osc Hnd Hin (c_osc _ _ _ _ _ _ HC)). eexists. apply (c_sc _ _ _ _ _ _ HC).
  - apply in_map_iff in Hn as (t & <- & Ht). destruct (c_tabs _ _ _ _ _ _ HC t Ht) as (o2 & tr & He & Hr & _).
    rewrite (assoc_fun ents _ o o2 Hnd Hin He). eauto.
Qed.

Lemma tl_map {A B} (f : A -> B) l : tl (map f l) = map f (tl l).
Proof. destruct l; reflexivity. Qed.

(* ---------- one user table's tree changes; its root stays or moves to a fresh page ---------- *)
Lemma Cat_table_step s s' d pt pt' sc ents osc t o o' tr' rows' :
  SInv s -> DbOk d -> Cat s d pt sc ents osc -> In t d -> In (tb_name t, o) ents ->
  ptRoot s' = ptRoot s ->
  (o' = o \/ nextFree s <= o') -> o' < OFFMAX ->
  find_root (ptRoot s) (forest s') = Some pt' ->
  PtCells (all_cells pt') (map (upd (tb_name t) o') ents) ->
  find_root o' (forest s') = Some tr' -> TableRep (tb_schema t) tr' rows' ->
  (forall x, x <> o -> x <> o' -> x <> ptRoot s -> find_root x (forest s') = find_root x (forest s)) ->
  Cat s' (set_rows (tb_name t) rows' d) pt' sc (map (upd (tb_name t) o') ents) osc.
Proof.
  intros Hinv Hok HC Ht He Hpt Ho' Hmax Hpt' Hcells Htr' Hrep Hframe.
  set (n := tb_name t) in *.
  pose proof (cat_names_NoDup d ents Hok (c_names _ _ _ _ _ _ HC)) as Hnd.
  assert (Hns : n <> "sys_pages" /\ n <> "sys_schema").
  { apply is_sys_false. pose proof (d_nonsys _ Hok) as X. rewrite Forall_forall in X. apply X. exact Ht. }
  destruct Hns as [Hns1 Hns2].
  assert (Hfresh : forall n2 o2, In (n2, o2) ents -> n2 <> "sys_pages" -> n2 <> n -> o2 <> o /\ o2 <> o' /\ o2 <> ptRoot s).
  { intros n2 o2 H2 Hs2 Hne. split; [|split].
    - eapply (cat_offsets_distinct s d pt sc ents osc Hok HC n2 o2 n o); eauto.
    - destruct Ho' as [->|Hge].
      + eapply (cat_offsets_distinct s d pt sc ents osc Hok HC n2 o2 n o); eauto.
      + destruct (cat_entry_tree s d pt sc ents osc n2 o2 Hok HC H2 Hs2) as (tr2 & Hr2).
        pose proof (find_root_bound s o2 tr2 Hinv Hr2). lia.
    - eapply (cat_offset_not_ptroot s d pt sc ents osc HC); eauto. }
  constructor.
  - rewrite Hpt. exact Hpt'.
  - exact Hcells.
  - pose proof (c_ptfits _ _ _ _ _ _ HC) as Hf. rewrite Forall_forall in *. intros e Hin.
    apply in_map_iff in Hin as (e0 & <- & Hin0). unfold upd.
    destruct (String.eqb_spec (fst e0) n) as [E|E]; [|auto].
    destruct e0 as [n0 o0]. cbn [fst] in E. subst n0. eapply pt_fits_offset; [apply (Hf _ Hin0) | exact Hmax].
  - rewrite map_upd_fst, set_rows_names. apply (c_names _ _ _ _ _ _ HC).
  - rewrite Hpt, tl_map.
    pose proof (c_names _ _ _ _ _ _ HC) as Hnm. pose proof (c_offs _ _ _ _ _ _ HC) as Hoffs.
    destruct ents as [|[n0 o0] rest]; [contradiction|]. cbn [tl map fst] in *.
    inversion Hnm as [[Hn0 Hrest]]. subst n0. inversion Hnd as [|? ? _ Hnd']; subst.
    destruct He as [E|He]; [inversion E; congruence|].
    apply (NoDup_upd_offsets (ptRoot s) rest n o o' Hnd' Hoffs He).
    destruct Ho' as [->|Hge]; [left; reflexivity | right].
    intros [X|X].
    + pose proof (find_root_bound s _ pt Hinv (c_pt _ _ _ _ _ _ HC)). lia.
    + apply in_map_iff in X as ([n2 o2] & X1 & X2). cbn [snd] in X1. subst o2.
      assert (Hn2 : n2 <> "sys_pages").
      { intros ->. inversion Hnd as [|? ? Hna _]; subst. apply Hna.
        change "sys_pages" with (fst ("sys_pages", o')). apply in_map. exact X2. }
      destruct (cat_entry_tree s d pt sc (("sys_pages", o0) :: rest) osc n2 o' Hok HC (or_intror X2) Hn2) as (tr2 & Hr2).
      pose proof (find_root_bound s o' tr2 Hinv Hr2). lia.
  - apply in_map_upd_other; [congruence | apply (c_osc _ _ _ _ _ _ HC)].
  - destruct (Hfresh _ _ (c_osc _ _ _ _ _ _ HC) ltac:(discriminate) ltac:(congruence)) as (A & B & C).
    rewrite (Hframe osc A B C). apply (c_sc _ _ _ _ _ _ HC).
  - rewrite sc_entries_app, set_rows_sc_entries, <- sc_entries_app. apply (c_sccells _ _ _ _ _ _ HC).
  - rewrite sc_entries_app, set_rows_sc_entries, <- sc_entries_app. apply (c_scfits _ _ _ _ _ _ HC).
  - intros t2 H2. destruct (in_set_rows n rows' d t2 (d_nodup _ Hok) H2) as [(t0 & A & B & C)|[A B]].
    + assert (t0 = t).
      { pose proof (find_tbl_unique n d t0 (d_nodup _ Hok) A B) as X1.
        pose proof (find_tbl_unique n d t (d_nodup _ Hok) Ht eq_refl) as X2. congruence. }
      subst t0 t2. cbn [tb_name tb_schema tb_rows]. exists o', tr'. split; [|split; [exact Htr' | exact Hrep]].
      eapply in_map_upd_self. exact He.
    + destruct (c_tabs _ _ _ _ _ _ HC t2 A) as (o2 & tr2 & He2 & Hr2 & Hrep2).
      assert (Hs2 : tb_name t2 <> "sys_pages").
      { pose proof (d_nonsys _ Hok) as X. rewrite Forall_forall in X. specialize (X t2 A). apply is_sys_false in X. tauto. }
      destruct (Hfresh _ _ He2 Hs2 B) as (X1 & X2 & X3).
      exists o2, tr2. split; [apply in_map_upd_other; auto|]. split; [|exact Hrep2].
      rewrite (Hframe o2 X1 X2 X3). exact Hr2.
Qed.

(* the same with the root in place: the catalog trees and entries are untouched *)
Lemma Cat_table_same_root s s' d pt sc ents osc t o tr' rows' :
  SInv s -> DbOk d -> Cat s d pt sc ents osc -> In t d -> In (tb_name t, o) ents ->
  ptRoot s' = ptRoot s -> o < OFFMAX ->
  find_root o (forest s') = Some tr' -> TableRep (tb_schema t) tr' rows' ->
  (forall x, x <> o -> find_root x (forest s') = find_root x (forest s)) ->
  Cat s' (set_rows (tb_name t) rows' d) pt sc ents osc.
Proof.
  intros Hinv Hok HC Ht He Hpt Hmax Htr' Hrep Hframe.
  pose proof (cat_names_NoDup d ents Hok (c_names _ _ _ _ _ _ HC)) as Hnd.
  assert (Hns : tb_name t <> "sys_pages").
  { pose proof (d_nonsys _ Hok) as X. rewrite Forall_forall in X. specialize (X t Ht). apply is_sys_false in X. tauto. }
  pose proof (cat_offset_not_ptroot s d pt sc ents osc HC _ _ He Hns) as Hop.
  rewrite <- (map_upd_same (tb_name t) o ents Hnd He).
  eapply (Cat_table_step s s' d pt pt sc ents osc t o o tr' rows'); eauto.
  - rewrite (Hframe (ptRoot s)) by congruence. apply (c_pt _ _ _ _ _ _ HC).
  - rewrite (map_upd_same (tb_name t) o ents Hnd He). apply (c_ptcells _ _ _ _ _ _ HC).
Qed.

(* ---------- updatePageTable ---------- *)
Definition leaf_pairs (ls : list tree) : list (N * leafcell) :=
  flat_map (fun l => map (fun c => (t_off l, c)) (leaf_cells l)) ls.

Fixpoint pt_find_flat (name : string) (pcs : list (N * leafcell)) : res (option (N * leafcell * tuple)) :=
  match pcs with
  | [] => Ok None
  | (pg, c) :: r =>
      if lc_deleted c then pt_find_flat name r else
      do m <- decode_tuple pageTableSchema (lc_val c) [];
      if value_eqb (tget "table_name" m) (VStr name) then Ok (Some (pg, c, m)) else pt_find_flat name r
  end.

Lemma pt_find_row_flat name ls : pt_find_row name ls = pt_find_flat name (leaf_pairs ls).
Proof.
  induction ls as [|l ls IH]; [reflexivity|].
  cbn [pt_find_row leaf_pairs flat_map]. fold (leaf_pairs ls).
  induction (leaf_cells l) as [|c cs IHc]; cbn [map app pt_find_flat]; [exact IH|].
  destruct (lc_deleted c); [exact IHc|].
  destruct (decode_tuple pageTableSchema (lc_val c) []) as [m|e|]; cbn [bind]; try reflexivity.
  destruct (value_eqb _ _); [reflexivity | exact IHc].
Qed.

Lemma leaf_pairs_cells ls : map snd (leaf_pairs ls) = flat_map leaf_cells ls.
Proof.
  induction ls as [|l ls IH]; [reflexivity|]. cbn [leaf_pairs flat_map]. fold (leaf_pairs ls).
  rewrite map_app, IH, map_map. cbn [snd]. rewrite map_id. reflexivity.
Qed.

Lemma leaf_pairs_in ls pg c : In (pg, c) (leaf_pairs ls) -> exists l, In l ls /\ pg = t_off l /\ In c (leaf_cells l).
Proof.
  unfold leaf_pairs. intros H. apply in_flat_map in H as (l & Hl & Hc).
  apply in_map_iff in Hc as (c0 & E & Hc0). inversion E; subst. eauto.
Qed.

(* first-match search over (page, cell) pairs whose cells hold the catalog entries *)
Lemma pt_find_flat_ents name : forall pcs ents o,
  Forall2 (fun pc e => live_val (snd pc) (enc_pte e)) pcs ents -> Forall pt_fits ents ->
  NoDup (map fst ents) -> In (name, o) ents ->
  exists pa pg c pb ea eb,
    pcs = pa ++ (pg, c) :: pb /\ ents = ea ++ (name, o) :: eb /\
    Forall2 (fun pc e => live_val (snd pc) (enc_pte e)) pa ea /\
    Forall2 (fun pc e => live_val (snd pc) (enc_pte e)) pb eb /\
    live_val c (enc_pte (name, o)) /\ ~ In name (map fst ea) /\ ~ In name (map fst eb) /\
    pt_find_flat name pcs = Ok (Some (pg, c, pt_tuple (name, o))).
Proof.
  induction pcs as [|[pg c] pcs IH]; intros ents o HF Hfit Hnd Hin; inversion HF as [|? e ? ents' Hv Hrest]; subst; [contradiction|].
  inversion Hfit as [|? ? He Hfit']; subst. cbn [map fst] in Hnd. inversion Hnd as [|? ? Hna Hnd']; subst.
  cbn [snd] in Hv. destruct Hv as [Hlive Hval].
  cbn [pt_find_flat]. rewrite Hlive, Hval, (decode_pte e He). cbn [bind]. rewrite tget_pt_name. cbn [value_eqb].
  destruct Hin as [E|Hin].
  - subst e. cbn [fst]. rewrite String.eqb_refl.
    exists [], pg, c, pcs, [], ents'. repeat split; auto; constructor.
  - destruct (String.eqb_spec (fst e) name) as [E|E].
    { exfalso. apply Hna. rewrite E. change name with (fst (name, o)). apply in_map. exact Hin. }
    destruct (IH ents' o Hrest Hfit' Hnd' Hin) as (pa & pg' & c' & pb & ea & eb & E1 & E2 & F1 & F2 & Lv & Na & Nb & Hres).
    exists ((pg, c) :: pa), pg', c', pb, (e :: ea), eb. subst pcs ents'.
    split; [reflexivity|]. split; [reflexivity|].
    split; [constructor; [split; assumption | exact F1]|].
    split; [exact F2|]. split; [exact Lv|].
    split; [intros [X|X]; [contradiction | apply Na; exact X]|].
    split; [exact Nb | exact Hres].
Qed.

Lemma Forall2_map_l {A B C} (R : B -> C -> Prop) (f : A -> B) l1 l2 :
  Forall2 (fun x y => R (f x) y) l1 l2 <-> Forall2 R (map f l1) l2.
Proof.
  split.
  - induction 1; cbn [map]; constructor; auto.
  - revert l2. induction l1 as [|x l1 IH]; intros l2 H; inversion H; subst; constructor; auto.
Qed.

Lemma update_page_table_spec s pt ents n o newroot :
  SInv s -> find_root (ptRoot s) (forest s) = Some pt -> PtCells (all_cells pt) ents -> Forall pt_fits ents ->
  NoDup (map fst ents) -> In (n, o) ents ->
  forall s2 ws, update_page_table s newroot n = (s2, Ok ws) ->
  exists pt',
    SInv s2 /\ ptRoot s2 = ptRoot s /\ nextFree s2 = nextFree s /\ lastKey s2 = lastKey s /\
    find_root (ptRoot s) (forest s2) = Some pt' /\
    (forall x, x <> ptRoot s -> find_root x (forest s2) = find_root x (forest s)) /\
    PtCells (all_cells pt') (map (upd n newroot) ents).
Proof.
  intros Hinv Hpt Hcells Hfit Hnd Hin s2 ws Hu.
  pose proof (update_page_table_inv s newroot n Hinv) as Hinv2. rewrite Hu in Hinv2. cbn [fst] in Hinv2.
  pose proof (find_root_WFT s _ pt Hinv Hpt) as Hw.
  unfold update_page_table, get_tree in Hu. rewrite Hpt in Hu. cbn [bind] in Hu.
  rewrite (scan_right_leaves_okP _ _ Hw) in Hu. cbn [of_tres bind] in Hu.
  rewrite pt_find_row_flat in Hu.
  assert (HF : Forall2 (fun pc e => live_val (snd pc) (enc_pte e)) (leaf_pairs (leaves pt)) ents).
  { apply (proj2 (Forall2_map_l (fun c e => live_val c (enc_pte e)) snd _ _)). rewrite leaf_pairs_cells. exact Hcells. }
  destruct (pt_find_flat_ents n _ ents o HF Hfit Hnd Hin)
    as (pa & pg & c & pb & ea & eb & E1 & E2 & F1 & F2 & [Lv Lval] & Na & Nb & Hres).
  rewrite Hres in Hu. rewrite pt_tuple_set in Hu. cbn [fst] in Hu. rewrite encode_pt_tuple in Hu.
  destruct (Nat.ltb MV (List.length (enc_pte (n, newroot)))); [discriminate|].
  inversion Hu; subst s2 ws. clear Hu.
  assert (Hpc : In (pg, c) (leaf_pairs (leaves pt))) by (rewrite E1; apply in_or_app; right; left; reflexivity).
  destruct (leaf_pairs_in _ _ _ Hpc) as (l & Hl & -> & Hc).
  destruct (touch_forest_find (forest s) (ptRoot s) pt (t_off l) (lc_key c) (nextLSN s)
              (fun x => mkLC (lc_key x) (lc_deleted x) (enc_pte (n, newroot)))
              (si_nodup _ Hinv) Hpt (leaf_off_in_offsets pt l Hl)) as [T1 T2].
  eexists. cbn [forest ptRoot nextFree lastKey]. split; [exact Hinv2|].
  do 3 (split; [reflexivity|]). split; [exact T1|]. split; [exact T2|].
  unfold PtCells. rewrite (touch_tree_cells _ pt l c _ _ Hw Hl Hc).
  assert (Eall : all_cells pt = map snd pa ++ c :: map snd pb).
  { unfold all_cells. rewrite <- leaf_pairs_cells, E1, map_app. reflexivity. }
  pose proof (WFT_keys_NoDup _ pt Hw) as Hk. rewrite Eall in *.
  rewrite keys_of_app in Hk. cbn [keys_of map] in Hk. apply NoDup_mid_notin in Hk as [Ka Kb].
  rewrite (map_cell_split (lc_key c) _ (map snd pa) c (map snd pb) eq_refl Ka Kb).
  rewrite E2, (map_upd_split n o newroot ea eb Na Nb).
  apply Forall2_app; [apply (proj1 (Forall2_map_l (fun c e => live_val c (enc_pte e)) snd _ _)); exact F1|].
  constructor; [split; [exact Lv | reflexivity] | apply (proj1 (Forall2_map_l (fun c e => live_val c (enc_pte e)) snd _ _)); exact F2].
Qed.
