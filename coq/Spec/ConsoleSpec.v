(* C20 - specification side: what "the statements that were typed" means, the hypotheses
   of the theorems as boolean predicates, and the comparison functions used by the
   correspondence check (tools/props/c20.py). No proofs in this file. *)
From Coq Require Import List NArith Bool Arith.
From Mkdb Require Import Model.CaseLib Model.Console.
Import ListNotations.
Open Scope N_scope.

Definition pending (l : list N) : list (list N) := fst (split_statements l).

Definition complete (l : list N) : bool := snd (split_statements l).

(* keys that the model covers when typed: everything except Ctrl-C, Ctrl-D and the editing keys *)
Fixpoint clean (p : bool) (ks : list N) : bool :=
  match ks with
  | [] => true
  | k :: r =>
      if p then (if k =? keyPasteEnd then clean false r else clean true r)
      else if k =? keyPasteStart then clean true r
      else negb (k =? keyCtrlC) && negb (k =? keyCtrlD) && negb (is_edit_key k) && clean false r
  end.

(* the text the keys put into the line buffer: Enter counts as one space, typed
   non-printable keys are ignored, every key is taken literally during a paste *)
Fixpoint flat (p : bool) (ks : list N) : list N :=
  match ks with
  | [] => []
  | k :: r =>
      if p then
        if k =? keyPasteEnd then flat false r
        else if k =? keyEnter then 32 :: flat true r else k :: flat true r
      else if k =? keyPasteStart then flat true r
      else if k =? keyEnter then 32 :: flat false r
      else if is_printable k then k :: flat false r else flat false r
  end.

(* (until /repo removed it, handleKey dropped a typed printable key silently while the line held
   exactly 4096 runes - maxLineLength, inherited from x/term - and the theorems carried a hypothesis
   `fits` excluding that; a typed statement longer than that was submitted altered) *)

Definition all_lines (os : list rl_out) : bool := negb (existsb is_stop os).

(* A typed text is a list of keys in which keyEnter (13) marks a line break. *)
Definition brk : N := keyEnter.

(* runes the theorem quantifies over: printable for the terminal, not DEL (= Backspace),
   unchanged by the []rune -> string conversion *)
Definition valid_rune (r : N) : bool :=
  is_printable r && (fix_rune r =? r) && negb (r =? keyBackspace).

(* the buffer text produced by a typed text: every break becomes one space *)
Definition text_of (m : list N) : list N := map (fun k => if k =? brk then 32 else k) m.

(* the text without the breaks *)
Definition nobrk (m : list N) : list N := filter (fun k => negb (k =? brk)) m.

(* wf_from q esc m: m, scanned from the state (quote kind q, esc = the previous rune was a
   backslash inside a literal) of splitStatements, is one statement:
   * it ends with its only ';' outside literals (a ';' inside a literal, escaped or not, does not count);
   * inside a literal a backslash and the rune after it form an escape pair: the second rune may be ANY
     valid rune - the literal's own quote kind, another backslash, ';' - and neither closes the literal
     nor ends the statement (splitStatements: `cur++`); the literal is closed by the first unescaped
     occurrence of its own quote kind, so a literal cannot end in an odd number of backslashes;
   * no line break inside a literal (hence none between a backslash and the escaped rune);
     breaks occur outside literals only;
   * outside literals a backslash is an ordinary rune (splitStatements gives it no meaning there:
     `\'` outside a literal OPENS a literal);
   * all runes are valid. *)
Fixpoint wf_from (q : N) (esc : bool) (m : list N) : bool :=
  match m with
  | [] => false
  | c :: r =>
      if esc then valid_rune c && wf_from q false r
      else if q =? 0 then
        if c =? brk then wf_from 0 false r
        else valid_rune c &&
             (if c =? 59 then match r with [] => true | _ => false end
              else if (c =? 39) || (c =? 34) then wf_from c false r else wf_from 0 false r)
      else valid_rune c &&
           (if c =? 92 then wf_from q true r
            else if c =? q then wf_from 0 false r else wf_from q false r)
  end.

Definition wf_stmt (m : list N) : bool := wf_from 0 false m.

(* the former, narrower hypothesis: literals without any backslash (kept to state that the
   extension is conservative: Proofs/ConsoleProofs.v wf_plain_extends) *)
Fixpoint wf_plain_from (q : N) (m : list N) : bool :=
  match m with
  | [] => false
  | c :: r =>
      if q =? 0 then
        if c =? brk then wf_plain_from 0 r
        else valid_rune c &&
             (if c =? 59 then match r with [] => true | _ => false end
              else if (c =? 39) || (c =? 34) then wf_plain_from c r else wf_plain_from 0 r)
      else valid_rune c && negb (c =? 92) && (if c =? q then wf_plain_from 0 r else wf_plain_from q r)
  end.
Definition wf_plain_stmt (m : list N) : bool := wf_plain_from 0 m.

(* separators between statements: breaks and printable white space *)
Definition wf_sep (sp : list N) : bool :=
  forallb (fun k => (k =? brk) || (valid_rune k && is_space k)) sp.

Definition wf_unit (u : list N * list N) : bool := wf_stmt (fst u) && wf_sep (snd u).

Definition unit_text (u : list N * list N) : list N := text_of (fst u) ++ text_of (snd u).

Definition normalise (m : list N) : list N := trim (text_of m).

(* ---- delivery: chunks of the typed text, each either typed or bracketed-pasted ---- *)
Definition deliver (pcs : list (bool * list N)) : list N :=
  concat (map (fun pc : bool * list N => if fst pc then keyPasteStart :: snd pc ++ [keyPasteEnd] else snd pc) pcs).

(* ---- the script theorem ---- *)
Definition unit_keys (u : list N * list N) : list N := fst u ++ snd u.

Definition script_keys (us : list (list N * list N)) : list N := concat (map unit_keys us).


(* ---- string literals and words of a statement text (for the intactness theorems) ---- *)
Definition cons_head (c : N) (x : list (list N)) : list (list N) :=
  match x with [] => [[c]] | h :: t => (c :: h) :: t end.

(* the quoted literals (with their quotes) met by the scanner of splitStatements; started
   inside a literal, the first element is the rest of that literal *)
Fixpoint lits (s : qstate) (l : list N) : list (list N) :=
  match l with
  | [] => if fst s =? 0 then [] else [[]]
  | c :: r =>
      let s' := fst (step_q s c) in
      if fst s =? 0 then
        if fst s' =? 0 then lits s' r else cons_head c (lits s' r)
      else if fst s' =? 0 then [c] :: lits s' r
      else cons_head c (lits s' r)
  end.
Definition literals (l : list N) : list (list N) := lits q0 l.

(* words: maximal runs without white space outside literals (a literal is part of the
   word it touches); inw = a word is open, its rest is the first element *)
Fixpoint wds (s : qstate) (inw : bool) (l : list N) : list (list N) :=
  match l with
  | [] => if inw then [[]] else []
  | c :: r =>
      let s' := fst (step_q s c) in
      if (fst s =? 0) && is_space c then
        (if inw then [[]] else []) ++ wds s' false r
      else cons_head c (wds s' true r)
  end.
Definition words (l : list N) : list (list N) := wds q0 false l.

(* every line break of m touches white space: the break run it belongs to is preceded by
   a space (or the start) or followed by a space (or the end).  prev = previous non-break
   item was white space (or none) *)
Fixpoint next_sp (m : list N) : bool :=
  match m with
  | [] => true
  | c :: r => if c =? brk then next_sp r else is_space c
  end.
Fixpoint breaks_at_spaces (prev : bool) (m : list N) : bool :=
  match m with
  | [] => true
  | c :: r =>
      if c =? brk then (prev || next_sp r) && breaks_at_spaces prev r
      else breaks_at_spaces (is_space c) r
  end.

(* ---- UTF-8 encoding of the keys of an in-scope delivery (to tie byte chunks to keys) ---- *)
Definition utf8_encode (r : N) : list N :=
  if r <? 128 then [r]
  else if r <? 2048 then [192 + r / 64; 128 + r mod 64]
  else if r <? 65536 then [224 + r / 4096; 128 + (r / 64) mod 64; 128 + r mod 64]
  else [240 + r / 262144; 128 + (r / 4096) mod 64; 128 + (r / 64) mod 64; 128 + r mod 64].

Definition encode_key (k : N) : list N :=
  if k =? keyPasteStart then paste_start_seq
  else if k =? keyPasteEnd then paste_end_seq else utf8_encode k.
Definition encode_keys (ks : list N) : list N := concat (map encode_key ks).

(* ---- correspondence cases ---- *)
Record ccase := mkCase {
  c_chunks : list (list N);                 (* byte chunks handed to Terminal's reader *)
  c_script : option (list (list N * list N) * list (bool * list N));
                                            (* in-scope cases: (statement, separator) units and
                                               the delivery (pasted?, keys) chunks *)
  c_consts : list N;                        (* constants reported by the Go driver *)
  c_obs : list rl_out                       (* what successive ReadLine calls returned *)
}.

Definition out_eqb (a b : rl_out) : bool :=
  match a, b with
  | Line s1 p1, Line s2 p2 => list_eqb list_N_eqb s1 s2 && Bool.eqb p1 p2
  | Eof, Eof => true
  | Unmodelled, Unmodelled => true
  | _, _ => false
  end.

Definition final_enter (pcs : list (bool * list N)) : list N := deliver pcs ++ [keyEnter].

(* MM: the byte-level model, and for in-scope cases also the key-level model, return what Go returned *)
Definition model_agrees (c : ccase) : bool :=
  list_eqb out_eqb (session_bytes (c_chunks c)) (c_obs c) &&
  list_N_eqb (c_consts c) key_consts &&
  match c_script c with
  | None => true
  | Some (us, pcs) => list_eqb out_eqb (session_keys (final_enter pcs)) (c_obs c)
  end.

(* HY: an in-scope case satisfies the hypotheses of C20_submitted, and its bytes are the
   encoding of its keys *)
Definition hyps_hold (c : ccase) : bool :=
  match c_script c with
  | None => true
  | Some (us, pcs) =>
      forallb wf_unit us && list_N_eqb (concat (map snd pcs)) (script_keys us) &&
      list_N_eqb (concat (c_chunks c)) (encode_keys (final_enter pcs))
  end.

(* SM: Go submitted exactly the normalised statements, in order, and then hit end of input *)
Definition spec_accepts (c : ccase) : bool :=
  match c_script c with
  | None => true
  | Some (us, pcs) =>
      list_eqb list_N_eqb (submitted (c_obs c)) (map (fun u => normalise (fst u)) us) &&
      match rev (c_obs c) with
      | Eof :: ls => all_lines ls
      | _ => false
      end
  end.

(* ---- cmd/console/main.go runTerminal (hand-modelled; it needs a tty and is NOT driven by the
   correspondence check):
     for { lines, err := t.ReadLine()
           if err == io.EOF { break } else if err != nil && err != ErrPasteIndicator { return err }
           for _, query := range lines { sess.ExecQuery(query) } }
   (after the fix commit 0ba2bad a pasted line is executed like a typed one; before it, the line
   was dropped and the loop ended). *)
Fixpoint handed_to_engine (os : list rl_out) : list (list N) :=
  match os with
  | Line ss _ :: r => ss ++ handed_to_engine r
  | _ => []
  end.
