(* C13: what "the flusher only sees statement boundaries" means on a trace of Model/Sched.v
   (`safe`, a monitor over events, plus the declarative form `no_write_inside_statement`), and
   the checker `well_bracketed` / `flusher_ok` that is evaluated on the programs extracted from
   the Go source (Gen/Protocol.v). No proofs here. *)
From Coq Require Import List Bool Arith.
From Mkdb Require Import Model.Sched.
Import ListNotations.

(* ------------------------------------------------------------------------------------ *)
(* 1. The checker                                                                        *)
(* ------------------------------------------------------------------------------------ *)
(* abstract position of one thread relative to the lock; the flag of Idle/InEx records that
   the shared section of the current statement is already over *)
Inductive lst := Idle (after : bool) | InSh | InEx (after : bool).

Definition lst_eqb (a b : lst) : bool :=
  match a, b with
  | Idle x, Idle y => Bool.eqb x y
  | InSh, InSh => true
  | InEx x, InEx y => Bool.eqb x y
  | _, _ => false
  end.

Definition is_idle (a : lst) : bool := match a with Idle _ => true | _ => false end.

(* what one action is allowed to do:
   - a shared section is opened only from Idle false: at most ONE shared section per statement,
     never while holding the lock in either mode (sync.RWMutex is not reentrant);
   - Mutate / CacheTouch / LogAppend only inside the shared section;
   - an exclusive section only from Idle (never while holding shared: deadlock);
   - PageWrite / HeaderWrite only inside an exclusive section;
   - unlocks only of what is held. *)
Definition act_chk (a : lst) (x : action) : option lst :=
  match a, x with
  | Idle false, LockShared => Some InSh
  | InSh, Mutate => Some InSh
  | InSh, CacheTouch => Some InSh
  | InSh, LogAppend => Some InSh
  | InSh, UnlockShared => Some (Idle true)
  | Idle b, LockExclusive => Some (InEx b)
  | InEx b, PageWrite => Some (InEx b)
  | InEx b, HeaderWrite => Some (InEx b)
  | InEx b, UnlockExclusive => Some (Idle b)
  | _, _ => None
  end.

(* `chkk p k a`: every path of p from position a is allowed and ends in a position accepted by
   the continuation k. A loop body must come back to the position it started from. *)
Fixpoint chkk (p : prog) (k : lst -> bool) (a : lst) : bool :=
  match p with
  | PSkip => k a
  | PAct x => match act_chk a x with Some b => k b | None => false end
  | PSeq p q => chkk p (chkk q k) a
  | PBranch p q => chkk p k a && chkk q k a
  | PLoop p => k a && chkk p (fun b => lst_eqb b a) a
  end.

(* a statement (or Close) of the session thread: starts and ends without the lock *)
Definition well_bracketed (p : prog) : bool := chkk p is_idle (Idle false).

(* the flusher: additionally never opens a shared section (so it never changes pages) *)
Definition flusher_ok (p : prog) : bool := chkk p (fun b => lst_eqb b (Idle false)) (Idle false).

(* ------------------------------------------------------------------------------------ *)
(* 2. The safety property, as a monitor over the trace                                   *)
(* ------------------------------------------------------------------------------------ *)
Inductive hold := HNone | HSh | HEx.

Definition hold_eqb (a b : hold) : bool :=
  match a, b with HNone, HNone | HSh, HSh | HEx, HEx => true | _, _ => false end.

Record mon := mkMon {
  hs : hold;            (* what the session holds, reconstructed from its lock events *)
  hf : hold;            (* what the flusher holds *)
  opened : bool;        (* the current statement has changed page/cache state and its section is still open *)
  closed : bool         (* ... and that section has been closed (until the next Boundary) *)
}.

Definition mon0 : mon := mkMon HNone HNone false false.

Definition mine (m : mon) (t : tid) : hold := match t with Session => hs m | Flusher => hf m end.
Definition other (m : mon) (t : tid) : hold := match t with Session => hf m | Flusher => hs m end.
Definition set_hold (m : mon) (t : tid) (h : hold) : mon :=
  match t with
  | Session => mkMon h (hf m) (opened m) (closed m)
  | Flusher => mkMon (hs m) h (opened m) (closed m)
  end.

Definition is_session (t : tid) : bool := match t with Session => true | Flusher => false end.

(* None = the trace violates the property at this event.
   (S2) mutual exclusion: the lock is never held exclusively together with any other hold; page
        or cache state is changed only by the session and only while it holds the lock shared;
        pages and the header are written only by a thread that holds the lock exclusively, while
        the other thread holds nothing.
   (S1) statement boundaries: from a statement's first change until the unlock that ends its
        section (`opened`) no page or header is written by anybody; after that unlock
        (`closed`) the same statement makes no further change and no log append - so all its
        changes and its log append lie inside that one window. *)
Definition mon_step (m : mon) (e : event) : option mon :=
  match e with
  | Boundary =>
      if hold_eqb (hs m) HNone then Some (mkMon (hs m) (hf m) false false) else None
  | Ev t a =>
      match a with
      | LockShared =>
          if hold_eqb (mine m t) HNone && negb (hold_eqb (other m t) HEx)
          then Some (set_hold m t HSh) else None
      | LockExclusive =>
          if hold_eqb (mine m t) HNone && hold_eqb (other m t) HNone
          then Some (set_hold m t HEx) else None
      | UnlockShared =>
          if hold_eqb (mine m t) HSh
          then Some (if is_session t && opened m
                     then mkMon HNone (hf m) false true
                     else set_hold m t HNone)
          else None
      | UnlockExclusive =>
          if hold_eqb (mine m t) HEx then Some (set_hold m t HNone) else None
      | Mutate | CacheTouch =>
          if is_session t && hold_eqb (mine m t) HSh && negb (hold_eqb (other m t) HEx)
             && negb (closed m)
          then Some (mkMon (hs m) (hf m) true false) else None
      | LogAppend =>
          if is_session t && negb (closed m) then Some m else None
      | PageWrite | HeaderWrite =>
          if hold_eqb (mine m t) HEx && hold_eqb (other m t) HNone && negb (opened m)
          then Some m else None
      end
  end.

Fixpoint mon_run (m : mon) (tr : list event) : bool :=
  match tr with
  | [] => true
  | e :: r => match mon_step m e with Some m' => mon_run m' r | None => false end
  end.

Definition safe (tr : list event) : bool := mon_run mon0 tr.

(* ------------------------------------------------------------------------------------ *)
(* 3. The statement-boundary part in declarative form (implied by `safe`)                *)
(* ------------------------------------------------------------------------------------ *)
Definition sess_change (e : event) : bool :=
  match e with Ev Session Mutate | Ev Session CacheTouch => true | _ => false end.
Definition sess_change_or_log (e : event) : bool :=
  match e with Ev Session Mutate | Ev Session CacheTouch | Ev Session LogAppend => true | _ => false end.
Definition is_write_ev (e : event) : bool :=
  match e with Ev _ PageWrite | Ev _ HeaderWrite => true | _ => false end.

(* no page or header write (by any thread) lies between a change made by a statement and a
   later change or log append of the SAME statement (no Boundary in between) *)
Definition no_write_inside_statement (tr : list event) : Prop :=
  forall pre e1 mid e2 post,
    tr = pre ++ e1 :: mid ++ e2 :: post ->
    sess_change e1 = true -> sess_change_or_log e2 = true -> ~ In Boundary mid ->
    Forall (fun e => is_write_ev e = false) mid.

(* ------------------------------------------------------------------------------------ *)
(* 4. Correspondence oracle: is an observed call sequence a path of an extracted program? *)
(* ------------------------------------------------------------------------------------ *)
(* Used by the check on the call sequences the Go driver records at the RelationManager
   boundary while the real Evaluate* functions run (StartTxn -> LockShared, Fetch -> CacheTouch,
   Insert/Update/MarkDeleted -> Mutate, FlushWALBatch -> LogAppend, EndTxn -> UnlockShared).
   A test oracle (fuel-bounded backtracking), not used by any theorem. *)
Definition action_eqb (a b : action) : bool :=
  match a, b with
  | LockShared, LockShared | UnlockShared, UnlockShared | LockExclusive, LockExclusive
  | UnlockExclusive, UnlockExclusive | Mutate, Mutate | CacheTouch, CacheTouch
  | LogAppend, LogAppend | PageWrite, PageWrite | HeaderWrite, HeaderWrite => true
  | _, _ => false
  end.

Fixpoint matches (fuel : nat) (p : prog) (tr : list action) (k : list action -> bool) : bool :=
  match fuel with
  | 0 => false
  | S f =>
      match p with
      | PSkip => k tr
      | PAct a => match tr with x :: r => action_eqb a x && k r | [] => false end
      | PSeq p q => matches f p tr (fun r => matches f q r k)
      | PBranch p q => matches f p tr k || matches f q tr k
      | PLoop q => k tr || matches f q tr (fun r => (length r <? length tr) && matches f (PLoop q) r k)
      end
  end.

Definition is_path (p : prog) (tr : list action) : bool :=
  matches (200 + 4 * length tr) p tr (fun r => match r with [] => true | _ => false end).
