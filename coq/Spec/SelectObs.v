(* What the Go driver (harness/engine/zz_verif_select_test.go) reports for one query, and the
   comparison functions evaluated by the correspondence runs:
     mm_select  : model (Model/Select.v) vs. Go
     sm_*       : property oracle (Spec/SelectSpec.v) vs. Go, per property *)
From Coq Require Import ZArith String Bool List Ascii.
From Mkdb Require Import Model.CaseLib Model.Select Spec.SelectSpec.
Import ListNotations.

Inductive gobs :=
| GOk (fields : list field) (rows : list row)
| GErr (e : errkind)
| GPanic
| GTimeout.

Definition sel_case := (db * select_stmt * gobs)%type.

Definition errkind_eqb (a b : errkind) : bool :=
  match a, b with
  | EFieldNotFound, EFieldNotFound | EFieldAmbiguous, EFieldAmbiguous
  | ESortFieldNotFound, ESortFieldNotFound | EIncompatTypeCompare, EIncompatTypeCompare
  | ENonBoolJoinCond, ENonBoolJoinCond | ETableNotExist, ETableNotExist
  | ETmpUnsupported, ETmpUnsupported | EOther, EOther => true
  | _, _ => false
  end.

Definition field_eqb (a b : field) : bool :=
  String.eqb (fst a) (fst b) && String.eqb (snd a) (snd b).
Definition fields_eqb : list field -> list field -> bool := list_eqb field_eqb.

Definition q_off (q : select_stmt) : option nat :=
  if sel_offset_active q then Some (Z.to_nat (sel_offset q)) else None.
Definition q_lim (q : select_stmt) : option nat :=
  if sel_limit_active q then Some (Z.to_nat (sel_limit q)) else None.

(* Model vs. Go. Without ORDER BY the rows must be identical, in order (join and group
   output order are deterministic in Go). With ORDER BY, Go's unstable sort may order ties
   differently and, under OFFSET/LIMIT, return different members of a tie group: Go's rows
   must then be a window of SOME sorted permutation of the model's rows before sorting. *)
Definition mm_select (c : sel_case) : bool :=
  let '(d, q, g) := c in
  match select q d, g with
  | Ok (hdr, out), GOk f r =>
      fields_eqb hdr f &&
      (rows_eqb out r ||
       match sel_from q with
       | tr :: _ =>
           match select_core q d tr with
           | Ok (_, rows, (k :: ks) as keys) => check_window keys (q_off q) (q_lim q) rows r
           | _ => false
           end
       | [] => false
       end)
  | Err e, GErr e' => errkind_eqb e e'
  | Panic _, GPanic => true
  | _, _ => false
  end.

(* placeholders, replaced below by the real oracles *)
Definition sm_c05 (c : sel_case) : bool := true.
Definition wt_c05 (c : sel_case) : bool := true.
Definition sm_c06 (c : sel_case) : bool := true.
Definition wt_c06 (c : sel_case) : bool := true.
Definition sm_c07 (c : sel_case) : bool := true.
Definition wt_c07 (c : sel_case) : bool := true.
Definition sm_c18 (c : sel_case) : bool := true.
