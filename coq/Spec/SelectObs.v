(* What the Go driver (harness/engine/zz_verif_select_test.go) reports for one query, and the
   comparison functions evaluated by the correspondence runs:
     mm_select  : model (Model/Select.v) vs. Go
     sm_*       : property oracle (Spec/SelectSpec.v) vs. Go, per property *)
From Coq Require Import ZArith String Bool List Ascii.
From Mkdb Require Import Model.CaseLib Model.Select Spec.SelectSpec.
Import ListNotations.

Inductive gobs :=
| GOk (fields : list field) (rows : list row)
| GErr (e : errkind)
| GPanic
| GTimeout.

Definition sel_case := (db * select_stmt * gobs)%type.

Definition errkind_eqb (a b : errkind) : bool :=
  match a, b with
  | EFieldNotFound, EFieldNotFound | EFieldAmbiguous, EFieldAmbiguous
  | ESortFieldNotFound, ESortFieldNotFound | EIncompatTypeCompare, EIncompatTypeCompare
  | ENonBoolJoinCond, ENonBoolJoinCond | ETableNotExist, ETableNotExist
  | ETmpUnsupported, ETmpUnsupported | EOther, EOther => true
  | _, _ => false
  end.


(* Model vs. Go. Without ORDER BY the rows must be identical, in order (join and group
   output order are deterministic in Go). With ORDER BY, Go's unstable sort may order ties
   differently and, under OFFSET/LIMIT, return different members of a tie group: Go's rows
   must then be a window of SOME sorted permutation of the model's rows before sorting. *)
Definition mm_select (c : sel_case) : bool :=
  let '(d, q, g) := c in
  match select q d, g with
  | Ok (hdr, out), GOk f r =>
      fields_eqb hdr f &&
      (rows_eqb out r ||
       match sel_from q with
       | tr :: _ =>
           match select_core q d tr with
           | Ok (_, rows, (k :: ks) as keys) => check_window keys (q_offset q) (q_limit q) rows r
           | _ => false
           end
       | [] => false
       end)
  | Err e, GErr e' => errkind_eqb e e'
  | Panic _, GPanic => true
  | _, _ => false
  end.


(* ---------------------------------------------------------------------------------- *)
(* C05: a well-typed single-table query must return rows the verified checker accepts   *)

Definition wt_c05 (c : sel_case) : bool := let '(d, q, _) := c in well_typed q d.

Definition sm_c05 (c : sel_case) : bool :=
  let '(d, q, g) := c in
  if well_typed q d then
    match g with
    | GOk f r => check_select q d (f, r)
    | _ => false
    end
  else true.

(* ---------------------------------------------------------------------------------- *)
(* C06: join queries (no aggregates, no LIMIT/OFFSET): rows as a multiset               *)

Definition vexpr_refs (x : vexpr) : list colref := match x with XCol c => [c] | XLit _ => [] end.
Fixpoint expr_refs (e : expr) : list colref :=
  match e with
  | EVal v => vexpr_refs v
  | EPred l _ r => vexpr_refs l ++ vexpr_refs r
  | EAnd (l, _, r) rhs => vexpr_refs l ++ vexpr_refs r ++ expr_refs rhs
  | EOr l r => expr_refs l ++ expr_refs r
  end.

(* a reference the engine has to reject: no field answers to it (unknown column, or a table
   addressed by its name although it has an alias), or it is unqualified and several fields
   answer to it. (A QUALIFIED reference matching several fields - the same table joined to
   itself without aliases - is outside C06's statement; Go silently takes the first.) *)
Definition must_reject (c : colref) (fs : list field) : bool :=
  match positions_from (ref_names c) fs 0 with
  | [] => true
  | [_] => false
  | _ => String.eqb (cr_qual c) ""
  end.

(* some ON condition that is evaluated on at least one pair of rows mentions such a
   reference: the query must not succeed *)
Fixpoint unresolved_evaluated (d : db) (t : tableref) : bool :=
  match t with
  | TRName _ _ => false
  | TRJoin l _ r cond =>
      unresolved_evaluated d l || unresolved_evaluated d r ||
      match join_sem d l, join_sem d r with
      | Some (lf, (_ :: _)), Some (rf, (_ :: _)) =>
          existsb (fun c => must_reject c (lf ++ rf)) (expr_refs cond)
      | _, _ => false
      end
  end.

Definition plain_query (q : select_stmt) : bool :=
  no_aggregate q && negb (sel_limit_active q) && negb (sel_offset_active q).

(* header, projected rows (multiset), sort keys of a join query *)
Definition sem_joined (q : select_stmt) (d : db) : option (list field * list row * sortkeys) :=
  match sel_from q with
  | [j] =>
      obind (join_sem d j) (fun '(fs, rows) =>
      obind (sem_filter (sel_where q) fs rows) (fun kept =>
      obind (sem_project (sel_list q) fs kept) (fun base =>
      obind (out_header (sel_list q) fs) (fun hdr =>
      obind (sem_sortkeys (sel_sort q) hdr) (fun keys => Some (hdr, base, keys))))))
  | _ => None
  end.

Definition wt_c06 (c : sel_case) : bool :=
  let '(d, q, _) := c in plain_query q && is_some (sem_joined q d).

Definition sm_c06 (c : sel_case) : bool :=
  let '(d, q, g) := c in
  match sel_from q with
  | [j] =>
      match join_sem d j with
      | Some _ =>
          if plain_query q then
            match sem_joined q d with
            | Some (hdr, base, keys) =>
                match g with
                | GOk f r => fields_eqb f hdr && perm_b r base && sortedb keys r
                | _ => false
                end
            | None => true
            end
          else true
      | None =>
          if unresolved_evaluated d j then match g with GOk _ _ => false | _ => true end else true
      end
  | _ => true
  end.

(* ---------------------------------------------------------------------------------- *)
(* C07: aggregate queries (no LIMIT/OFFSET): rows as a multiset, sorted if ORDER BY;   *)
(* an ORDER BY column that cannot be resolved in the result: a refusal, no rows          *)

Definition agg_query_typed (q : select_stmt) (d : db) : bool :=
  negb (sel_limit_active q) && negb (sel_offset_active q) &&
  match agg_input q d with
  | Some (fs, base) => agg_typed (sel_list q) (sel_group q) fs base
  | None => false
  end.

Definition wt_c07 (c : sel_case) : bool := let '(d, q, _) := c in agg_query_typed q d.

(* some ORDER BY column is one the engine has to reject in the header of the result (unknown, or
   unqualified and ambiguous - must_reject above): the query must be refused *)
Definition sort_must_reject (ssl : list sortspec) (hdr : list field) : bool :=
  existsb (fun s => must_reject (ss_key s) hdr) ssl.

Definition sm_c07_with (chk : list derivedcol -> list colref -> list field -> list row -> list row -> bool)
           (c : sel_case) : bool :=
  let '(d, q, g) := c in
  if agg_query_typed q d then
    match agg_input q d with
    | Some (fs, base) =>
        if match out_header (sel_list q) fs with
           | Some hdr => sort_must_reject (sel_sort q) hdr
           | None => false
           end
        then match g with GErr _ => true | _ => false end
        else
          match g with
          | GOk f r =>
              chk (sel_list q) (sel_group q) fs base r &&
              match out_header (sel_list q) fs with
              | Some hdr =>
                  fields_eqb f hdr &&
                  match sem_sortkeys (sel_sort q) hdr with
                  | Some keys => sortedb keys r
                  | None => true
                  end
              | None => true
              end
          | _ => false
          end
    | None => false
    end
  else true.

Definition sm_c07 : sel_case -> bool := sm_c07_with check_agg.
Definition sm_c07_lenient : sel_case -> bool := sm_c07_with check_agg_lenient.

(* ---------------------------------------------------------------------------------- *)
(* C18 (SELECT part): whatever the statement and the data, Go returns rows or an error   *)

Definition sm_c18 (c : sel_case) : bool :=
  let '(_, _, g) := c in
  match g with GPanic | GTimeout => false | _ => true end.

(* the hypotheses of C18_select_no_panic, evaluated on every correspondence case *)
Definition hyp_c18 (c : sel_case) : bool :=
  let '(d, q, _) := c in parser_shape q && db_wf d.
