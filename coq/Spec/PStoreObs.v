(* C16, page-store sub-check: the case type and the two boolean functions the check evaluates
   on every case (`ps_model_agrees` = MM, `ps_spec` = SM, `in_discipline` = scope).
   Originally the PS_HEADER string of tools/props/c16.py; the check imports them from here, the
   theorems about them are in Proofs/PStoreOracle.v and Properties/C16.v. `href_ok` has been
   tightened since (held pages, output kinds: see below). *)
From Mkdb Require Import Model.CaseLib Spec.PStoreSpec.
Open Scope N_scope.
Definition pcase := (nat * list hop * list pout)%type.
(* object identities are not compared: which fetch is a cache miss depends on the (arbitrary) order
   in which a flush visits dirty pages; contents and refusals are *)
Definition pout_eqb (a b : pout) : bool :=
  match a, b with
  | PObj _ c, PObj _ c' => N.eqb c c'
  | PRefused, PRefused | PUnit, PUnit => true
  | _, _ => false
  end.
Definition in_discipline (c : pcase) : bool :=
  let '(cap, ops, _) := c in ok_run (ps_init cap) [] (fst (hrun (ps_init cap) [] ops)).
Definition ps_model_agrees (c : pcase) : bool :=
  let '(cap, ops, obs) := c in
  negb (in_discipline c) || list_eqb pout_eqb (snd (hrun (ps_init cap) [] ops)) obs.
(* the property on the observed behaviour: every fetch returns what the unbounded reference holds.
   `held` = the pages the caller holds an object for (fetched or allocated before): an HModify of
   another page changes nothing - the caller has no object to write through; the model (hrun) and
   the Go driver skip it. Within the discipline every operation must be answered with the kind of
   output the model produces: a fetch with an object whose content is the reference's (a refusal
   inside the discipline is a violation, C16_fetch_sees_reference), an allocation with an object
   holding the content given, a modification and a flush with nothing. *)
Definition is_held (k : N) (held : list N) : bool := existsb (N.eqb k) held.
Fixpoint href_ok (m : amap) (held : list N) (ops : list hop) (obs : list pout) : bool :=
  match ops, obs with
  | [], [] => true
  | op :: r, o :: ro =>
      match op, o with
      | HFetch k, PObj _ c => N.eqb c (ref_get k m)
      | HAlloc _ c, PObj _ c' => N.eqb c' c
      | HModify _ _, PUnit | HFlush _, PUnit => true
      | _, _ => false
      end &&
      href_ok (match op with
               | HAlloc k c => aset k c m
               | HModify k c => if is_held k held then aset k c m else m
               | _ => m
               end)
              (match op with HFetch k | HAlloc k _ => k :: held | _ => held end) r ro
  | _, _ => false
  end.
Definition ps_spec (c : pcase) : bool :=
  let '(cap, ops, obs) := c in negb (in_discipline c) || href_ok [] [] ops obs.
