(* C16, page-store sub-check: the case type and the two boolean functions the check evaluates
   on every case (`ps_model_agrees` = MM, `ps_spec` = SM, `in_discipline` = scope).
   COPIED UNCHANGED from the PS_HEADER string of tools/props/c16.py so that theorems can be stated
   about them (Proofs/PStoreOracle.v, Properties/C16.v); the check should import them from here. *)
From Mkdb Require Import Model.CaseLib Spec.PStoreSpec.
Open Scope N_scope.
Definition pcase := (nat * list hop * list pout)%type.
(* object identities are not compared: which fetch is a cache miss depends on the (arbitrary) order
   in which a flush visits dirty pages; contents and refusals are *)
Definition pout_eqb (a b : pout) : bool :=
  match a, b with
  | PObj _ c, PObj _ c' => N.eqb c c'
  | PRefused, PRefused | PUnit, PUnit => true
  | _, _ => false
  end.
Definition in_discipline (c : pcase) : bool :=
  let '(cap, ops, _) := c in ok_run (ps_init cap) [] (fst (hrun (ps_init cap) [] ops)).
Definition ps_model_agrees (c : pcase) : bool :=
  let '(cap, ops, obs) := c in
  negb (in_discipline c) || list_eqb pout_eqb (snd (hrun (ps_init cap) [] ops)) obs.
(* the property on the observed behaviour: every fetch returns what the unbounded reference holds *)
Fixpoint href_ok (m : amap) (ops : list hop) (obs : list pout) : bool :=
  match ops, obs with
  | [], [] => true
  | op :: r, o :: ro =>
      match op, o with
      | HFetch k, PObj _ c => N.eqb c (ref_get k m)
      | _, _ => true
      end &&
      href_ok (match op with HAlloc k c => aset k c m | HModify k c => aset k c m | _ => m end) r ro
  | _, _ => false
  end.
Definition ps_spec (c : pcase) : bool :=
  let '(cap, ops, obs) := c in negb (in_discipline c) || href_ok [] ops obs.

(* ---- NOT in c16.py: the hypothesis of C16_agreement_implies_acceptance, a syntactic condition on
   the caller-level operation list: a page is modified only after it has been fetched or allocated
   (the caller holds an object for it). `href_ok` applies every HModify to the reference, while the
   model (hrun) and the Go driver skip an HModify of a page the caller holds no object for. ---- *)
Fixpoint mods_follow_fetch (seen : list N) (ops : list hop) : bool :=
  match ops with
  | [] => true
  | HFetch k :: r => mods_follow_fetch (k :: seen) r
  | HAlloc k _ :: r => mods_follow_fetch (k :: seen) r
  | HModify k _ :: r => existsb (N.eqb k) seen && mods_follow_fetch seen r
  | HFlush _ :: r => mods_follow_fetch seen r
  end.
Definition mods_held (c : pcase) : bool := let '(_, ops, _) := c in mods_follow_fetch [] ops.
