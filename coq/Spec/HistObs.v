(* Observation layer for the storage correspondence runs (C01, C02, C03, C11, C14, C16):
   what the Go history driver reports, the same observations computed by the model
   (Model/Engine.v) and by the specification (Spec/TableSpec.v), and their comparison. *)
From Mkdb Require Export Model.Engine Spec.TableSpec Model.CaseLib.
From Coq Require Import Arith.
Local Open Scope N_scope.
Local Open Scope list_scope.
Local Open Scope string_scope.

(* helpers to keep cases.v compact *)
Definition B (l : list N) : bytes := map ascii_of_N l.
Definition VS (l : list N) : value := VStr (string_of_bytes (B l)).

(* ---- what is observed ---- *)
Inductive tobs :=                         (* SELECT * FROM t *)
| TRows (cols : list string) (rows : list (N * row))
| TFail (e : err)
| TPanic.

Inductive pobs :=                         (* one page of a dump *)
| PLeaf (off lsn : N) (dirty hasL hasR : bool) (lsib rsib : N) (cells : list (N * bool * bytes))
| PInt (off lsn : N) (dirty : bool) (right : N) (kids : list (N * N)).

Inductive oobs := OBok | OBerr (e : err) | OBpanic.      (* statement / recovery outcome *)

Inductive hobs :=
| HOut (o : oobs)
| HTables (l : list (string * tobs))
| HDump (hdr : N * N * N * N) (pages : list pobs)        (* lastKey, ptRoot, nextFree, nextLSN *)
| HNone
| HDead.                                                 (* the history ended: recovery failed *)

Inductive hevent :=
| HEv (e : event)
| HReadTables (names : list string)
| HDumpPages.

(* ---- equality ---- *)
Definition row_eqb : row -> row -> bool := list_eqb value_eqb.
Definition idrow_eqb (a b : N * row) : bool := N.eqb (fst a) (fst b) && row_eqb (snd a) (snd b).
Definition bytes_eqb : bytes -> bytes -> bool := list_eqb Ascii.eqb.

Definition tobs_eqb (a b : tobs) : bool :=
  match a, b with
  | TRows c1 r1, TRows c2 r2 => list_eqb String.eqb c1 c2 && list_eqb idrow_eqb r1 r2
  | TFail e1, TFail e2 => err_eqb e1 e2
  | TPanic, TPanic => true
  | _, _ => false
  end.

Definition cell_eqb (a b : N * bool * bytes) : bool :=
  N.eqb (fst (fst a)) (fst (fst b)) && Bool.eqb (snd (fst a)) (snd (fst b)) && bytes_eqb (snd a) (snd b).

Definition pobs_eqb (a b : pobs) : bool :=
  match a, b with
  | PLeaf o1 l1 d1 hl1 hr1 ls1 rs1 c1, PLeaf o2 l2 d2 hl2 hr2 ls2 rs2 c2 =>
      N.eqb o1 o2 && N.eqb l1 l2 && Bool.eqb d1 d2 && Bool.eqb hl1 hl2 && Bool.eqb hr1 hr2 &&
      (* the sibling offset fields are compared only when the flag says they are meaningful *)
      (if hl1 then N.eqb ls1 ls2 else true) && (if hr1 then N.eqb rs1 rs2 else true) &&
      list_eqb cell_eqb c1 c2
  | PInt o1 l1 d1 r1 k1, PInt o2 l2 d2 r2 k2 =>
      N.eqb o1 o2 && N.eqb l1 l2 && Bool.eqb d1 d2 && N.eqb r1 r2 &&
      list_eqb (pair_eqb N.eqb N.eqb) k1 k2
  | _, _ => false
  end.

Definition oobs_eqb (a b : oobs) : bool :=
  match a, b with
  | OBok, OBok => true
  | OBerr x, OBerr y => err_eqb x y
  | OBpanic, OBpanic => true
  | _, _ => false
  end.

Definition hobs_eqb (a b : hobs) : bool :=
  match a, b with
  | HOut x, HOut y => oobs_eqb x y
  | HTables x, HTables y => list_eqb (pair_eqb String.eqb tobs_eqb) x y
  | HDump (a1, a2, a3, a4) p1, HDump (b1, b2, b3, b4) p2 =>
      N.eqb a1 b1 && N.eqb a2 b2 && N.eqb a3 b3 && N.eqb a4 b4 && list_eqb pobs_eqb p1 p2
  | HNone, HNone => true
  | HDead, HDead => true
  | _, _ => false
  end.

(* ---- the model's observations ---- *)
Definition obs_table (s : store) (n : string) : tobs :=
  match st_fetch s n with
  | Ok (rows, fs) => TRows (map f_col fs) rows
  | Err e => TFail e
  | Panic => TPanic
  end.

Definition page_of (t : tree) : pobs :=
  match t with
  | TLeaf off lsn d cells hl hr ls rs =>
      PLeaf off lsn d hl hr ls rs (map (fun c => (lc_key c, lc_deleted c, lc_val c)) cells)
  | TNode off lsn d kids rgt =>
      PInt off lsn d (t_off rgt) (map (fun sc => (fst sc, t_off (snd sc))) kids)
  end.

Definition pobs_off (p : pobs) : N :=
  match p with PLeaf o _ _ _ _ _ _ _ => o | PInt o _ _ _ _ => o end.

Fixpoint insert_sorted (p : pobs) (l : list pobs) : list pobs :=
  match l with
  | [] => [p]
  | q :: r => if N.leb (pobs_off p) (pobs_off q) then p :: q :: r else q :: insert_sorted p r
  end.

(* every page of every tree, ordered by file offset *)
Definition flatten (f : list tree) : list pobs :=
  fold_right insert_sorted [] (map page_of (flat_map nodes f)).

Definition dump_of (s : store) : hobs :=
  HDump (lastKey s, ptRoot s, nextFree s, nextLSN s) (flatten (forest s)).

Definition oobs_of (o : outcome) : oobs :=
  match o with OOk _ => OBok | OErr e => OBerr e | OPanic => OBpanic end.

Fixpoint run_h (y : sys) (evs : list hevent) : list hobs :=
  match evs with
  | [] => []
  | HReadTables ns :: r => HTables (map (fun n => (n, obs_table (mem y) n)) ns) :: run_h y r
  | HDumpPages :: r => dump_of (mem y) :: run_h y r
  | HEv ev :: r =>
      match step y ev with
      | (SOk y1, Some o) => HOut (oobs_of o) :: run_h y1 r
      | (SOk y1, None) => HOut OBok :: run_h y1 r
      | (SFail e, _) => [HOut (OBerr e); HDead]
      | (SPanic, _) => [HOut OBpanic; HDead]
      end
  end.

Definition hcase := (list hevent * list hobs)%type.

Definition model_agrees (c : hcase) : bool :=
  list_eqb hobs_eqb (run_h init_sys (fst c)) (snd c).

(* ---- the specification's verdict on what the implementation reported ---- *)

(* statements of the history whose observed outcome was success, in order *)
Fixpoint acked (evs : list hevent) (obs : list hobs) : list stmt :=
  match evs, obs with
  | HEv (EvStmt st) :: er, HOut OBok :: orr => st :: acked er orr
  | _ :: er, _ :: orr => acked er orr
  | _, _ => []
  end.

(* row ids strictly increasing within a table *)
Fixpoint ids_increasing (ids : list N) : bool :=
  match ids with
  | a :: ((b :: _) as r) => N.ltb a b && ids_increasing r
  | _ => true
  end.

Definition table_matches_spec (d : db) (nt : string * tobs) : bool :=
  let '(n, t) := nt in
  if String.eqb n "sys_pages" || String.eqb n "sys_schema" then true else   (* catalog: model only *)
  match spec_table d n, t with
  | Some (cols, rows), TRows c2 r2 =>
      list_eqb String.eqb cols c2 && list_eqb row_eqb rows (map snd r2) && ids_increasing (map fst r2)
  | None, TFail ETableNotExist => true
  | _, _ => false
  end.

(* row ids are never reused: an id that shows up in a table and was not there at the previous
   read-back of that table must be larger than every id seen anywhere before *)
Definition ids_of (t : tobs) : list N := match t with TRows _ r => map fst r | _ => [] end.

Fixpoint prev_ids (n : string) (seen : list (string * list N)) : list N :=
  match seen with [] => [] | (m, ids) :: r => if String.eqb m n then ids else prev_ids n r end.

Definition fresh_ok (seen : list (string * list N)) (gmax : N) (nt : string * tobs) : bool :=
  let '(n, t) := nt in
  let old := prev_ids n seen in
  forallb (fun i => existsb (N.eqb i) old || N.ltb gmax i) (ids_of t).

Fixpoint set_seen (n : string) (ids : list N) (seen : list (string * list N)) : list (string * list N) :=
  match seen with
  | [] => [(n, ids)]
  | (m, x) :: r => if String.eqb m n then (n, ids) :: r else (m, x) :: set_seen n ids r
  end.

Definition is_sys (n : string) : bool := String.eqb n "sys_pages" || String.eqb n "sys_schema".

(* walks the history; at every table read-back, every table must hold exactly what the
   specification derives from the statements acknowledged so far (whatever flushes, crashes
   and recoveries happened in between); no statement may panic; no recovery may fail; row ids
   are never reused. `cands` = the databases the specification allows at this point (one,
   except after a crash inside a log append, where any row-operation prefix is allowed). *)
Inductive smode := MNormal | MLax | MStrict.
Definition is_lax (m : smode) : bool := match m with MLax => true | _ => false end.

Fixpoint spec_ok (md : smode) (base cands : list db) (seen : list (string * list N)) (gmax : N)
         (evs : list hevent) (obs : list hobs) : bool :=
  (* `base` = the databases allowed if no failing statement ever left anything behind; only
     used when `lax` (diagnosis of the recorded C14 finding): unlogged partial effects of a
     failed statement vanish at a crash unless they were flushed before *)
  match evs, obs with
  | [], [] => true
  | HEv (EvStmt st) :: er, HOut o :: orr =>
      match o with
      | OBok =>
          let c' := flat_map (fun d => ok_dbs (spec_exec d st)) cands in
          let b' := flat_map (fun d => ok_dbs (spec_exec d st)) base in
          negb (Nat.eqb (List.length c') 0) && spec_ok md b' c' seen gmax er orr
      | OBerr _ =>
          (* an erroring statement changes nothing; `lax` also allows a row-operation prefix *)
          (* MStrict (C08): an error is only allowed when the specification rejects the statement too *)
          (match md with
           | MStrict => forallb (fun d => match spec_exec d st with SpecErr _ => true | SpecOk _ => false end) cands
           | _ => true
           end) &&
          spec_ok md base (if is_lax md then cands ++ flat_map (fun d => stmt_prefixes d st) cands else cands) seen gmax er orr
      | OBpanic => false
      end
  | HEv EvFlush :: er, HOut OBok :: orr => spec_ok md base cands seen gmax er orr
  | HEv EvCrash :: er, HOut OBok :: orr =>
      spec_ok md base (if is_lax md then cands ++ base else cands) seen gmax er orr
  | HEv (EvTornFlush _) :: er, HOut OBok :: orr =>
      spec_ok md base (if is_lax md then cands ++ base else cands) seen gmax er orr
  | HEv (EvCrashInLog st _) :: er, HOut OBok :: orr =>
      (* some prefix of the statement's row operations, in order *)
      let c' := flat_map (fun d => stmt_prefixes d st) cands in
      spec_ok md c' c' seen gmax er orr
  | HReadTables _ :: er, HTables l :: orr =>
      let user := filter (fun nt => negb (is_sys (fst nt))) l in
      let c' := filter (fun d => forallb (table_matches_spec d) l) cands in
      negb (Nat.eqb (List.length c') 0) &&
      forallb (fresh_ok seen gmax) user &&
      spec_ok md base c' (fold_left (fun acc nt => set_seen (fst nt) (ids_of (snd nt)) acc) user seen)
              (fold_left N.max (flat_map (fun nt => ids_of (snd nt)) user) gmax) er orr
  | HDumpPages :: er, _ :: orr => spec_ok md base cands seen gmax er orr
  | _, _ => false
  end.

Definition spec_accepts (c : hcase) : bool := spec_ok MNormal [[]] [[]] [] 0 (fst c) (snd c).

(* diagnosis of the recorded C14 finding: would the history be accepted if a failing statement
   were allowed to leave a row-operation prefix behind? *)
Definition spec_accepts_prefix_on_error (c : hcase) : bool := spec_ok MLax [[]] [[]] [] 0 (fst c) (snd c).

(* C08: additionally, every refusal must be one the specification demands *)
Definition spec_accepts_strict (c : hcase) : bool := spec_ok MStrict [[]] [[]] [] 0 (fst c) (snd c).
