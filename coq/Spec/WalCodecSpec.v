(* Correspondence vocabulary for the WAL codec runs (tools/props/c03codec.py): what the Go driver
   observed of wal.flush and wal.read, comparison with Model/WalCodec.v (`wal_model_agrees`) and
   the reader property evaluated on Go's behaviour only (`wal_spec_accepts`: the reader returns
   exactly the records whose frames lie completely inside the log, validLen = their length). *)
From Coq Require Import Init.Byte.
From Mkdb Require Import Model.CaseLib Model.WalCodec Spec.PageCodecSpec.
Open Scope N_scope.

Definition wr (op lsn pg cell : N) (v : list chunk) : walrec := mkWR op lsn pg cell (expand v).

Definition walrec_eqb (a b : walrec) : bool :=
  N.eqb (wr_op a) (wr_op b) && N.eqb (wr_lsn a) (wr_lsn b) && N.eqb (wr_page a) (wr_page b) &&
  N.eqb (wr_cell a) (wr_cell b) && bytes_eqb (wr_val a) (wr_val b).

(* the records Go returned: the first n of the batch (checked by the driver script), or explicit *)
Inductive go_entries := Pfx (n : nat) | Lst (l : list walrec).
Inductive rstat := ROk | RErrEof | RErrOther | RPanic.

Record wal_readobs := mkRO { ro_cut : N; ro_entries : go_entries; ro_valid : N; ro_stat : rstat }.

Record wal_case := mkWC {
  wc_recs : list walrec;
  wc_sync : bool;
  wc_extra : list chunk;
  wc_calls : list (option (list chunk));     (* Some b = Write(b), None = Sync() *)
  wc_reads : list wal_readobs
}.

Definition call_eqb (m : wal_call) (g : option (list chunk)) : bool :=
  match m, g with
  | WWrite b, Some c => bytes_eqb b (expand c)
  | WSync, None => true
  | _, _ => false
  end.

Fixpoint calls_eqb (m : list wal_call) (g : list (option (list chunk))) : bool :=
  match m, g with
  | [], [] => true
  | x :: r, y :: s => call_eqb x y && calls_eqb r s
  | _, _ => false
  end.

Definition entries_of (recs : list walrec) (e : go_entries) : list walrec :=
  match e with Pfx n => firstn n recs | Lst l => l end.

Definition stat_matches (m : res unit) (g : rstat) : bool :=
  match m, g with
  | Ok _, ROk => true
  | Err ShortRead, RErrEof => true
  | Panic, RPanic => true
  | _, _ => false
  end.

Definition wal_model_agrees (c : wal_case) : bool :=
  let calls := flush_calls (wc_sync c) (wc_recs c) in
  calls_eqb calls (wc_calls c) &&
  forallb (fun o =>
    let r := wal_read (firstn (N.to_nat (ro_cut o)) (written calls) ++ expand (wc_extra c)) in
    list_eqb walrec_eqb (rr_entries r) (entries_of (wc_recs c) (ro_entries o)) &&
    N.eqb (rr_valid r) (ro_valid o) && stat_matches (rr_status r) (ro_stat o)) (wc_reads c).

(* frame boundaries as Go wrote them: a record = Write(4-byte length) Write(body) [Sync] *)
Definition frame_size (l b : list chunk) : option N :=
  if (N.of_nat (length (expand l)) =? 4) && (le_dec (expand l) =? N.of_nat (length (expand b)))
  then Some (4 + N.of_nat (length (expand b))) else None.

Fixpoint sizes_sync (g : list (option (list chunk))) : option (list N) :=
  match g with
  | [] => Some []
  | Some l :: Some b :: None :: r =>
      match frame_size l b, sizes_sync r with
      | Some s, Some szs => Some (s :: szs)
      | _, _ => None
      end
  | _ => None
  end.

Fixpoint sizes_nosync (g : list (option (list chunk))) : option (list N) :=
  match g with
  | [] => Some []
  | Some l :: Some b :: r =>
      match frame_size l b, sizes_nosync r with
      | Some s, Some szs => Some (s :: szs)
      | _, _ => None
      end
  | _ => None
  end.

(* number and total length of the frames that lie completely inside the first `cut` bytes *)
Fixpoint complete_prefix (szs : list N) (cut : N) (n : nat) (v : N) : nat * N :=
  match szs with
  | [] => (n, v)
  | s :: r => if v + s <=? cut then complete_prefix r cut (S n) (v + s) else (n, v)
  end.

Definition no_extra (e : list chunk) : bool := match expand e with [] => true | _ => false end.

Definition wal_spec_accepts (c : wal_case) : bool :=
  if forallb rec_ok (wc_recs c) && no_extra (wc_extra c) then
    match (if wc_sync c then sizes_sync (wc_calls c) else sizes_nosync (wc_calls c)) with
    | None => false
    | Some szs =>
        (length szs =? length (wc_recs c))%nat &&
        forallb (fun o =>
          let '(n, v) := complete_prefix szs (ro_cut o) O 0 in
          list_eqb walrec_eqb (entries_of (wc_recs c) (ro_entries o)) (firstn n (wc_recs c)) &&
          N.eqb (ro_valid o) v &&
          match ro_stat o with ROk => true | _ => false end) (wc_reads c)
    end
  else true.
