(* Declarative meaning of SELECT (properties C05, C06, C07) and executable checkers for it.
   Nothing here runs the model of engine/select.go; the only things shared with it are the
   data types (values, rows, fields, the statement tree). The checkers are proved sound and
   complete w.r.t. the declarative specifications in Proofs/Select*.v. *)
From Coq Require Import ZArith String Bool List Ascii Permutation Sorted.
From Mkdb Require Import Model.CaseLib Model.Select.
Import ListNotations.

(* ================================================================================== *)
(* 1. Order of rows under ORDER BY                                                     *)

Definition bool_cmp (x y : bool) : comparison :=
  match x, y with
  | false, true => Lt
  | true, false => Gt
  | _, _ => Eq
  end.

(* a total order on all values: NULL first, then integers, strings, booleans; inside a type
   the natural order (bytewise for strings, false < true) *)
Definition vcmp (a b : value) : comparison :=
  match a, b with
  | VNull, VNull => Eq
  | VNull, _ => Lt
  | _, VNull => Gt
  | VInt x, VInt y => Z.compare x y
  | VInt _, _ => Lt
  | _, VInt _ => Gt
  | VStr x, VStr y => String.compare x y
  | VStr _, _ => Lt
  | _, VStr _ => Gt
  | VBool x, VBool y => bool_cmp x y
  end.

Definition dir_cmp (d : sortdir) (c : comparison) : comparison :=
  match d with SAsc => c | SDesc => CompOpp c end.

Definition sortkeys := list (nat * sortdir).     (* column position in the result, direction *)

(* lexicographic comparison of two rows on the sort keys *)
Fixpoint key_cmp (keys : sortkeys) (r1 r2 : row) : comparison :=
  match keys with
  | [] => Eq
  | (i, d) :: rest =>
      match dir_cmp d (vcmp (nth i r1 VNull) (nth i r2 VNull)) with
      | Eq => key_cmp rest r1 r2
      | c => c
      end
  end.

Definition row_le (keys : sortkeys) (a b : row) : Prop := key_cmp keys a b <> Gt.
Definition row_leb (keys : sortkeys) (a b : row) : bool :=
  match key_cmp keys a b with Gt => false | _ => true end.

Definition SortedBy (keys : sortkeys) (l : list row) : Prop := StronglySorted (row_le keys) l.

Fixpoint sortedb (keys : sortkeys) (l : list row) : bool :=
  match l with
  | [] => true
  | a :: rest =>
      match rest with
      | [] => true
      | b :: _ => row_leb keys a b && sortedb keys rest
      end
  end.

Fixpoint sp_insert (keys : sortkeys) (x : row) (l : list row) : list row :=
  match l with
  | [] => [x]
  | y :: r => if row_leb keys x y then x :: y :: r else y :: sp_insert keys x r
  end.

Definition sp_sort (keys : sortkeys) (l : list row) : list row := fold_right (sp_insert keys) [] l.

(* OFFSET then LIMIT; None = clause absent *)
Definition window (off lim : option nat) (l : list row) : list row :=
  let l1 := match off with Some n => skipn n l | None => l end in
  match lim with Some n => firstn n l1 | None => l1 end.

(* what ORDER BY / OFFSET / LIMIT mean on top of a list `base` of result rows: without sort
   keys the rows keep their order; with sort keys ANY sorted permutation is acceptable *)
Definition OrderedWindow (keys : sortkeys) (off lim : option nat) (base r : list row) : Prop :=
  match keys with
  | [] => r = window off lim base
  | _ => exists s, Permutation s base /\ SortedBy keys s /\ r = window off lim s
  end.

Definition row_eqb : row -> row -> bool := list_eqb value_eqb.
Definition rows_eqb : list row -> list row -> bool := list_eqb row_eqb.

Fixpoint remove1 (x : row) (l : list row) : option (list row) :=
  match l with
  | [] => None
  | y :: r => if row_eqb y x then Some r
              else match remove1 x r with Some r' => Some (y :: r') | None => None end
  end.

(* multiset difference base - r; None when r is not a sub-multiset of base *)
Fixpoint msub (base r : list row) : option (list row) :=
  match r with
  | [] => Some base
  | x :: r' => match remove1 x base with
               | Some b' => msub b' r'
               | None => None
               end
  end.

Definition perm_b (a b : list row) : bool :=
  match msub a b with Some [] => true | _ => false end.

(* r is accepted iff the rows of base that are not in r can be arranged around r: the
   smallest `off` of them in front, the others behind, giving a sorted list whose window is r *)
Definition check_window (keys : sortkeys) (off lim : option nat) (base r : list row) : bool :=
  match keys with
  | [] => rows_eqb r (window off lim base)
  | _ =>
      match msub base r with
      | None => false
      | Some rest =>
          let rs := sp_sort keys rest in
          let n := match off with Some n => n | None => 0%nat end in
          let s := firstn n rs ++ r ++ skipn n rs in
          sortedb keys s && rows_eqb r (window off lim s)
      end
  end.

(* ================================================================================== *)
(* 2. Names, conditions, select-list items                                             *)

Definition obind {A B} (o : option A) (f : A -> option B) : option B :=
  match o with Some a => f a | None => None end.
Definition is_some {A} (o : option A) : bool := match o with Some _ => true | None => false end.

Fixpoint all_some {A} (l : list (option A)) : option (list A) :=
  match l with
  | [] => Some []
  | None :: _ => None
  | Some a :: r => match all_some r with Some r' => Some (a :: r') | None => None end
  end.

(* a reference names a field when the column names agree and the qualifier, if any, is the
   field's table id (the alias when the table has one, the table name otherwise) *)
Definition ref_names (c : colref) (f : field) : bool :=
  String.eqb (snd f) (cr_name c) && (String.eqb (cr_qual c) "" || String.eqb (fst f) (cr_qual c)).

Fixpoint positions_from {A} (p : A -> bool) (l : list A) (i : nat) : list nat :=
  match l with
  | [] => []
  | x :: r => if p x then i :: positions_from p r (S i) else positions_from p r (S i)
  end.

(* a reference is meaningful only when exactly one field answers to it *)
Definition resolve (c : colref) (fs : list field) : option nat :=
  match positions_from (ref_names c) fs 0 with
  | [i] => Some i
  | _ => None
  end.

Definition sem_operand (x : vexpr) (fs : list field) (r : row) : option value :=
  match x with
  | XLit v => Some v
  | XCol c => obind (resolve c fs) (nth_error r)
  end.

(* comparisons are defined on two non-NULL values of the same type; <, <=, >, >= only on
   integers and strings *)
Definition sem_cmp (op : compop) (a b : value) : option bool :=
  match a, b with
  | VInt _, VInt _ | VStr _, VStr _ =>
      Some (match op, vcmp a b with
            | CEq, Eq | CNeq, Lt | CNeq, Gt | CGt, Gt | CLt, Lt
            | CLte, Lt | CLte, Eq | CGte, Gt | CGte, Eq => true
            | _, _ => false
            end)
  | VBool x, VBool y =>
      match op with
      | CEq => Some (Bool.eqb x y)
      | CNeq => Some (negb (Bool.eqb x y))
      | _ => None
      end
  | _, _ => None
  end.

Definition sem_pred (l : vexpr) (op : compop) (r : vexpr) (fs : list field) (rw : row) : option bool :=
  obind (sem_operand l fs rw) (fun a => obind (sem_operand r fs rw) (fun b => sem_cmp op a b)).

(* truth value of a condition on one row: AND binds tighter than OR by the shape of the tree *)
Fixpoint sem_cond (e : expr) (fs : list field) (rw : row) : option bool :=
  match e with
  | EVal (XLit (VBool b)) => Some b
  | EVal _ => None
  | EPred l op r => sem_pred l op r fs rw
  | EAnd (l, op, r) rhs =>
      obind (sem_pred l op r fs rw) (fun a => obind (sem_cond rhs fs rw) (fun b => Some (a && b)))
  | EOr l r =>
      obind (sem_cond l fs rw) (fun a => obind (sem_cond r fs rw) (fun b => Some (a || b)))
  end.

Definition holds (e : expr) (fs : list field) (rw : row) : bool :=
  match sem_cond e fs rw with Some true => true | _ => false end.

(* rows satisfying WHERE, in their original order; None when the condition is ill-typed on
   some row *)
Definition sem_filter (w : option expr) (fs : list field) (rows : list row) : option (list row) :=
  match w with
  | None => Some rows
  | Some e =>
      if forallb (fun rw => is_some (sem_cond e fs rw)) rows then Some (filter (holds e fs) rows)
      else None
  end.

(* value of one non-aggregate select-list item on one row *)
Definition sem_item (p : selprim) (fs : list field) (rw : row) : option value :=
  match p with
  | SPExpr (EVal (XCol c)) => obind (resolve c fs) (nth_error rw)
  | SPExpr (EVal (XLit VNull)) => None
  | SPExpr (EVal (XLit v)) => Some v
  | SPExpr e => option_map VBool (sem_cond e fs rw)
  | _ => None
  end.

Definition is_star (sl : list derivedcol) : bool :=
  match sl with
  | [d] => match dc_prim d with SPStar => true | _ => false end
  | _ => false
  end.

Definition sem_project_row (sl : list derivedcol) (fs : list field) (rw : row) : option row :=
  if is_star sl then Some rw else all_some (map (fun d => sem_item (dc_prim d) fs rw) sl).

Definition sem_project (sl : list derivedcol) (fs : list field) (rows : list row) : option (list row) :=
  all_some (map (sem_project_row sl fs) rows).

(* name of an output column: the alias if there is one; otherwise the column's own name (with
   its table id) for a plain column, "count(..)" / "avg(..)" / "?" for computed columns *)
Definition col_text (c : colref) : string :=
  if String.eqb (cr_qual c) "" then cr_name c else (cr_qual c ++ "." ++ cr_name c)%string.

Definition out_field (d : derivedcol) (fs : list field) : option field :=
  let named (f : field) := if String.eqb (dc_as d) "" then f else (fst f, dc_as d) in
  match dc_prim d with
  | SPExpr (EVal (XCol c)) => option_map named (obind (resolve c fs) (nth_error fs))
  | SPExpr _ => Some (named (""%string, "?"%string))
  | SPCount None => Some (named (""%string, "count(*)"%string))
  | SPCount (Some c) => Some (named (""%string, ("count(" ++ col_text c ++ ")")%string))
  | SPAvg c => Some (named (""%string, ("avg(" ++ col_text c ++ ")")%string))
  | SPStar => None
  end.

Definition out_header (sl : list derivedcol) (fs : list field) : option (list field) :=
  if is_star sl then Some fs else all_some (map (fun d => out_field d fs) sl).

Definition sem_sortkeys (ssl : list sortspec) (hdr : list field) : option sortkeys :=
  all_some (map (fun s => option_map (fun i => (i, ss_dir s)) (resolve (ss_key s) hdr)) ssl).

(* every sort column holds values of one type (NULLs aside): true of every real table *)
Definition same_tag (a b : value) : bool :=
  match a, b with
  | VNull, _ | _, VNull => true
  | VInt _, VInt _ | VStr _, VStr _ | VBool _, VBool _ => true
  | _, _ => false
  end.
Definition col_homog (i : nat) (rows : list row) : bool :=
  forallb (fun r1 => forallb (fun r2 => same_tag (nth i r1 VNull) (nth i r2 VNull)) rows) rows.
Definition keys_homog (keys : sortkeys) (rows : list row) : bool :=
  forallb (fun k => col_homog (fst k) rows) keys.

Definition opt_nat (active : bool) (z : Z) : option nat := if active then Some (Z.to_nat z) else None.
Definition q_offset (q : select_stmt) : option nat := opt_nat (sel_offset_active q) (sel_offset q).
Definition q_limit (q : select_stmt) : option nat := opt_nat (sel_limit_active q) (sel_limit q).
Definition window_ok (q : select_stmt) : bool :=
  (negb (sel_offset_active q) || (0 <=? sel_offset q)%Z) && (negb (sel_limit_active q) || (0 <=? sel_limit q)%Z).

(* ================================================================================== *)
(* 3. C05: single-table SELECT                                                         *)

Definition table_fields (name : string) (alias : option string) (cols : list string) : list field :=
  map (fun c => (match alias with Some a => a | None => name end, c)) cols.

Definition no_aggregate (q : select_stmt) : bool :=
  negb (existsb (fun d => match dc_prim d with SPCount _ | SPAvg _ => true | _ => false end) (sel_list q))
  && match sel_group q with [] => true | _ => false end.

(* header, rows before ORDER BY (= filtered, projected, in table order), sort keys *)
Definition sem_single (q : select_stmt) (d : db) : option (list field * list row * sortkeys) :=
  match sel_from q with
  | [TRName name alias] =>
      obind (fetch d name) (fun '(cols, rows) =>
      let fs := table_fields name alias cols in
      if forallb (fun rw => Nat.eqb (List.length rw) (List.length cols)) rows then
        obind (sem_filter (sel_where q) fs rows) (fun kept =>
        obind (sem_project (sel_list q) fs kept) (fun base =>
        obind (out_header (sel_list q) fs) (fun hdr =>
        obind (sem_sortkeys (sel_sort q) hdr) (fun keys =>
        if keys_homog keys base then Some (hdr, base, keys) else None))))
      else None)
  | _ => None
  end.

Definition nonempty_list (q : select_stmt) : bool :=
  match sel_list q with [] => false | _ => true end.

Definition well_typed (q : select_stmt) (d : db) : bool :=
  nonempty_list q && no_aggregate q && window_ok q && is_some (sem_single q d).

Definition SelectSpec (q : select_stmt) (d : db) (res : list field * list row) : Prop :=
  exists hdr base keys,
    sem_single q d = Some (hdr, base, keys) /\
    fst res = hdr /\
    OrderedWindow keys (q_offset q) (q_limit q) base (snd res).

Definition field_eqb (a b : field) : bool :=
  String.eqb (fst a) (fst b) && String.eqb (snd a) (snd b).
Definition fields_eqb : list field -> list field -> bool := list_eqb field_eqb.

Definition check_select (q : select_stmt) (d : db) (res : list field * list row) : bool :=
  match sem_single q d with
  | Some (hdr, base, keys) =>
      fields_eqb (fst res) hdr && check_window keys (q_offset q) (q_limit q) base (snd res)
  | None => false
  end.

(* ================================================================================== *)
(* 4. C06: joins                                                                       *)

(* [l ++ r | l <- L, r <- R, c (l ++ r)] *)
Definition matching (c : row -> bool) (L R : list row) : list row :=
  flat_map (fun l => filter c (map (fun r => l ++ r) R)) L.

Definition unmatched_left (c : row -> bool) (L R : list row) (nR : nat) : list row :=
  map (fun l => l ++ nulls nR) (filter (fun l => forallb (fun r => negb (c (l ++ r))) R) L).

Definition unmatched_right (c : row -> bool) (L R : list row) (nL : nat) : list row :=
  map (fun r => nulls nL ++ r) (filter (fun r => forallb (fun l => negb (c (l ++ r))) L) R).

(* fields and rows (as a multiset, listed in some order) of a join tree; None when a table is
   missing, a row has the wrong width, or an ON condition is ill-typed on some pair of rows *)
Fixpoint join_sem (d : db) (t : tableref) : option (list field * list row) :=
  match t with
  | TRName name alias =>
      obind (fetch d name) (fun '(cols, rows) =>
      if forallb (fun rw => Nat.eqb (List.length rw) (List.length cols)) rows
      then Some (table_fields name alias cols, rows) else None)
  | TRJoin l jt r cond =>
      obind (join_sem d l) (fun '(lf, L) =>
      obind (join_sem d r) (fun '(rf, R) =>
      let fs := lf ++ rf in
      if forallb (fun lr => forallb (fun rr => is_some (sem_cond cond fs (lr ++ rr))) R) L then
        let c := holds cond fs in
        match jt with
        | JInner => Some (fs, matching c L R)
        | JLeft => Some (fs, matching c L R ++ unmatched_left c L R (List.length rf))
        | JRight => Some (fs, matching c L R ++ unmatched_right c L R (List.length lf))
        | JFull => None
        end
      else None))
  end.

Definition join_tree_ok (j : tableref) (d : db) : bool := is_some (join_sem d j).

Definition JoinSpec (j : tableref) (d : db) (res : list field * list row) : Prop :=
  exists fs base, join_sem d j = Some (fs, base) /\ fst res = fs /\ Permutation (snd res) base.

Definition check_join (j : tableref) (d : db) (res : list field * list row) : bool :=
  match join_sem d j with
  | Some (fs, base) => fields_eqb (fst res) fs && perm_b (snd res) base
  | None => false
  end.

(* ================================================================================== *)
(* 5. C07: COUNT / AVG / GROUP BY                                                      *)

(* a GROUP BY column denotes a plain select-list column: same spelling, or its alias, or its
   bare column name *)
Definition denotes (g : colref) (d : derivedcol) : bool :=
  match dc_prim d with
  | SPExpr (EVal (XCol c)) =>
      (String.eqb (cr_qual c) (cr_qual g) && String.eqb (cr_name c) (cr_name g))
      || String.eqb (dc_as d) (cr_name g)
      || (String.eqb (cr_qual g) "" && String.eqb (cr_name c) (cr_name g))
  | _ => false
  end.

Definition is_plain (d : derivedcol) : bool :=
  match dc_prim d with SPExpr (EVal (XCol _)) => true | _ => false end.

(* an aggregate query in the sense of C07: every select item is a plain column, COUNT or AVG;
   every plain column is denoted by some GROUP BY column and every GROUP BY column denotes
   exactly one plain column (so: grouping columns = plain columns of the select list) *)
Definition agg_shape (sl : list derivedcol) (gb : list colref) : bool :=
  forallb (fun d => match dc_prim d with
                    | SPExpr (EVal (XCol _)) => existsb (fun g => denotes g d) gb
                    | SPCount _ | SPAvg _ => true
                    | _ => false
                    end) sl
  && forallb (fun g => Nat.eqb (List.length (filter (denotes g) sl)) 1) gb
  && negb (match sl with [] => true | _ => false end).

(* source column (position in fs) of every select item that has one *)
Definition item_col (d : derivedcol) (fs : list field) : option (option nat) :=
  match dc_prim d with
  | SPExpr (EVal (XCol c)) | SPAvg c | SPCount (Some c) => option_map Some (resolve c fs)
  | SPCount None => Some None
  | _ => None
  end.

(* grouping values = values of the plain select-list columns, in select-list order: of a row
   of the input (through the columns the items name) and of a row of the output *)
Definition key_of_base (sl : list derivedcol) (fs : list field) (rw : row) : list value :=
  flat_map (fun d => match dc_prim d with
                     | SPExpr (EVal (XCol c)) =>
                         match resolve c fs with Some i => [nth i rw VNull] | None => [] end
                     | _ => []
                     end) sl.

Fixpoint key_of_out (sl : list derivedcol) (o : row) : list value :=
  match sl, o with
  | d :: sl', v :: o' => if is_plain d then v :: key_of_out sl' o' else key_of_out sl' o'
  | _, _ => []
  end.

Definition key_eqb : list value -> list value -> bool := list_eqb value_eqb.

Definition int_of (v : value) : Z := match v with VInt z => z | _ => 0%Z end.

(* a is a nearest integer to s / n (either neighbour on an exact tie); 0 for an empty group *)
Definition avg_ok (s n a : Z) : bool :=
  if (n =? 0)%Z then (a =? 0)%Z else (2 * Z.abs (n * a - s) <=? n)%Z.

Definition cell_ok (d : derivedcol) (fs : list field) (grp : list row) (v : value) : bool :=
  match dc_prim d with
  | SPExpr (EVal (XCol c)) =>
      match resolve c fs, grp with
      | Some i, g :: _ => value_eqb v (nth i g VNull)
      | _, _ => false
      end
  | SPCount None => value_eqb v (VInt (Z.of_nat (List.length grp)))
  | SPCount (Some c) =>
      match resolve c fs with
      | Some i => value_eqb v (VInt (Z.of_nat (List.length
                     (filter (fun g => negb (value_eqb (nth i g VNull) VNull)) grp))))
      | None => false
      end
  | SPAvg c =>
      match resolve c fs, v with
      | Some i, VInt a =>
          avg_ok (fold_right Z.add 0%Z (map (fun g => int_of (nth i g VNull)) grp))
                 (Z.of_nat (List.length grp)) a
      | _, _ => false
      end
  | _ => false
  end.

Fixpoint cells_ok (sl : list derivedcol) (fs : list field) (grp : list row) (o : row) : bool :=
  match sl, o with
  | [], [] => true
  | d :: sl', v :: o' => cell_ok d fs grp v && cells_ok sl' fs grp o'
  | _, _ => false
  end.

Definition group_of (sl : list derivedcol) (fs : list field) (base : list row) (k : list value) : list row :=
  filter (fun rw => key_eqb (key_of_base sl fs rw) k) base.

(* AVG arguments are integers *)
Definition avg_args_int (sl : list derivedcol) (fs : list field) (base : list row) : bool :=
  forallb (fun d => match dc_prim d with
                    | SPAvg c => match resolve c fs with
                                 | Some i => forallb (fun rw => match nth i rw VNull with VInt _ => true | _ => false end) base
                                 | None => false
                                 end
                    | _ => true
                    end) sl.

Definition agg_typed (sl : list derivedcol) (gb : list colref) (fs : list field) (base : list row) : bool :=
  agg_shape sl gb && forallb (fun d => is_some (item_col d fs)) sl && avg_args_int sl fs base
  && forallb (fun rw => Nat.eqb (List.length rw) (List.length fs)) base.

Fixpoint nodup_keys (ks : list (list value)) : bool :=
  match ks with
  | [] => true
  | k :: r => negb (existsb (key_eqb k) r) && nodup_keys r
  end.

(* the same cell test, but an AVG cell of a group of three or more rows only has to be an
   integer (used to isolate the known running-average finding) *)
Definition cell_ok_lenient (d : derivedcol) (fs : list field) (grp : list row) (v : value) : bool :=
  match dc_prim d with
  | SPAvg _ => (3 <=? List.length grp)%nat && match v with VInt _ => true | _ => false end || cell_ok d fs grp v
  | _ => cell_ok d fs grp v
  end.
Fixpoint cells_ok_lenient (sl : list derivedcol) (fs : list field) (grp : list row) (o : row) : bool :=
  match sl, o with
  | [], [] => true
  | d :: sl', v :: o' => cell_ok_lenient d fs grp v && cells_ok_lenient sl' fs grp o'
  | _, _ => false
  end.

Definition cells_test := list derivedcol -> list field -> list row -> row -> bool.

(* out is an acceptable aggregate result for `base` (rows after FROM / WHERE):
   without GROUP BY exactly one row, computed over all of base (all zeros when base is empty);
   with GROUP BY the rows carry pairwise different grouping values, the grouping values that
   occur in out are exactly those that occur in base, and every row is computed over the rows
   of base that have its grouping values *)
Definition AggSpecG (cells : cells_test) (sl : list derivedcol) (gb : list colref) (fs : list field)
           (base out : list row) : Prop :=
  match gb with
  | [] => exists o, out = [o] /\ cells sl fs base o = true
  | _ =>
      NoDup (map (key_of_out sl) out) /\
      (forall k, In k (map (key_of_out sl) out) <-> In k (map (key_of_base sl fs) base)) /\
      (forall o, In o out -> cells sl fs (group_of sl fs base (key_of_out sl o)) o = true)
  end.

Definition AggSpec := AggSpecG cells_ok.
Definition AggSpecLenient := AggSpecG cells_ok_lenient.

Definition check_agg_g (cells : cells_test) (sl : list derivedcol) (gb : list colref) (fs : list field)
           (base out : list row) : bool :=
  match gb with
  | [] => match out with [o] => cells sl fs base o | _ => false end
  | _ =>
      nodup_keys (map (key_of_out sl) out)
      && forallb (fun o => existsb (fun rw => key_eqb (key_of_out sl o) (key_of_base sl fs rw)) base) out
      && forallb (fun rw => existsb (fun o => key_eqb (key_of_out sl o) (key_of_base sl fs rw)) out) base
      && forallb (fun o => cells sl fs (group_of sl fs base (key_of_out sl o)) o) out
  end.

Definition check_agg := check_agg_g cells_ok.
Definition check_agg_lenient := check_agg_g cells_ok_lenient.

(* rows an aggregate query works on: FROM (any join tree) then WHERE, as a multiset *)
Definition agg_input (q : select_stmt) (d : db) : option (list field * list row) :=
  match sel_from q with
  | [j] => obind (join_sem d j) (fun '(fs, rows) =>
           obind (sem_filter (sel_where q) fs rows) (fun kept => Some (fs, kept)))
  | _ => None
  end.

(* ================================================================================== *)
(* 6. C18: what real inputs look like                                                  *)

(* the shape sql.Parser guarantees for a SELECT: the select list is not empty, `*` only as
   the whole select list, LIMIT and OFFSET are not negative *)
Definition star_alone (sl : list derivedcol) : bool :=
  match sl with
  | [] => false
  | [_] => true
  | l => forallb (fun d => match dc_prim d with SPStar => false | _ => true end) l
  end.

Definition parser_shape (q : select_stmt) : bool :=
  star_alone (sel_list q) && (0 <=? sel_limit q)%Z && (0 <=? sel_offset q)%Z.

Fixpoint compatb (a b : row) : bool :=
  match a, b with
  | [], [] => true
  | x :: a', y :: b' => same_tag x y && compatb a' b'
  | _, _ => false
  end.

(* what storage.Fetch returns: one value per column in every row, and every column holds
   values of one Go type (or nil) *)
Definition table_wf (t : table) : bool :=
  let '(_, cols, rows) := t in
  forallb (fun r => Nat.eqb (List.length r) (List.length cols)) rows
  && forallb (fun r1 => forallb (fun r2 => compatb r1 r2) rows) rows.

Definition db_wf (d : db) : bool := forallb table_wf d.
