(* Declarative meaning of SELECT (properties C05, C06, C07) and executable checkers for it.
   Nothing here runs the model of engine/select.go; the only things shared with it are the
   data types (values, rows, fields, the statement tree). The checkers are proved sound and
   complete w.r.t. the declarative specifications in Proofs/Select*.v. *)
From Coq Require Import ZArith String Bool List Ascii Permutation Sorted.
From Mkdb Require Import Model.CaseLib Model.Select.
Import ListNotations.

(* ================================================================================== *)
(* 1. Order of rows under ORDER BY                                                     *)

Definition bool_cmp (x y : bool) : comparison :=
  match x, y with
  | false, true => Lt
  | true, false => Gt
  | _, _ => Eq
  end.

(* a total order on all values: NULL first, then integers, strings, booleans; inside a type
   the natural order (bytewise for strings, false < true) *)
Definition vcmp (a b : value) : comparison :=
  match a, b with
  | VNull, VNull => Eq
  | VNull, _ => Lt
  | _, VNull => Gt
  | VInt x, VInt y => Z.compare x y
  | VInt _, _ => Lt
  | _, VInt _ => Gt
  | VStr x, VStr y => String.compare x y
  | VStr _, _ => Lt
  | _, VStr _ => Gt
  | VBool x, VBool y => bool_cmp x y
  end.

Definition dir_cmp (d : sortdir) (c : comparison) : comparison :=
  match d with SAsc => c | SDesc => CompOpp c end.

Definition sortkeys := list (nat * sortdir).     (* column position in the result, direction *)

(* lexicographic comparison of two rows on the sort keys *)
Fixpoint key_cmp (keys : sortkeys) (r1 r2 : row) : comparison :=
  match keys with
  | [] => Eq
  | (i, d) :: rest =>
      match dir_cmp d (vcmp (nth i r1 VNull) (nth i r2 VNull)) with
      | Eq => key_cmp rest r1 r2
      | c => c
      end
  end.

Definition row_le (keys : sortkeys) (a b : row) : Prop := key_cmp keys a b <> Gt.
Definition row_leb (keys : sortkeys) (a b : row) : bool :=
  match key_cmp keys a b with Gt => false | _ => true end.

Definition SortedBy (keys : sortkeys) (l : list row) : Prop := StronglySorted (row_le keys) l.

Fixpoint sortedb (keys : sortkeys) (l : list row) : bool :=
  match l with
  | [] => true
  | a :: rest =>
      match rest with
      | [] => true
      | b :: _ => row_leb keys a b && sortedb keys rest
      end
  end.

Fixpoint sp_insert (keys : sortkeys) (x : row) (l : list row) : list row :=
  match l with
  | [] => [x]
  | y :: r => if row_leb keys x y then x :: y :: r else y :: sp_insert keys x r
  end.

Definition sp_sort (keys : sortkeys) (l : list row) : list row := fold_right (sp_insert keys) [] l.

(* OFFSET then LIMIT; None = clause absent *)
Definition window (off lim : option nat) (l : list row) : list row :=
  let l1 := match off with Some n => skipn n l | None => l end in
  match lim with Some n => firstn n l1 | None => l1 end.

(* what ORDER BY / OFFSET / LIMIT mean on top of a list `base` of result rows: without sort
   keys the rows keep their order; with sort keys ANY sorted permutation is acceptable *)
Definition OrderedWindow (keys : sortkeys) (off lim : option nat) (base r : list row) : Prop :=
  match keys with
  | [] => r = window off lim base
  | _ => exists s, Permutation s base /\ SortedBy keys s /\ r = window off lim s
  end.

Definition row_eqb : row -> row -> bool := list_eqb value_eqb.
Definition rows_eqb : list row -> list row -> bool := list_eqb row_eqb.

Fixpoint remove1 (x : row) (l : list row) : option (list row) :=
  match l with
  | [] => None
  | y :: r => if row_eqb y x then Some r
              else match remove1 x r with Some r' => Some (y :: r') | None => None end
  end.

(* multiset difference base - r; None when r is not a sub-multiset of base *)
Fixpoint msub (base r : list row) : option (list row) :=
  match r with
  | [] => Some base
  | x :: r' => match remove1 x base with
               | Some b' => msub b' r'
               | None => None
               end
  end.

Definition perm_b (a b : list row) : bool :=
  match msub a b with Some [] => true | _ => false end.

(* r is accepted iff the rows of base that are not in r can be arranged around r: the
   smallest `off` of them in front, the others behind, giving a sorted list whose window is r *)
Definition check_window (keys : sortkeys) (off lim : option nat) (base r : list row) : bool :=
  match keys with
  | [] => rows_eqb r (window off lim base)
  | _ =>
      match msub base r with
      | None => false
      | Some rest =>
          let rs := sp_sort keys rest in
          let n := match off with Some n => n | None => 0%nat end in
          let s := firstn n rs ++ r ++ skipn n rs in
          sortedb keys s && rows_eqb r (window off lim s)
      end
  end.
