(* Reference semantics of the page store with an unbounded cache: a plain map. *)
From Mkdb Require Export Model.PStore.
Open Scope N_scope.

Definition ref_step (m : amap) (op : pop) : amap :=
  match op with
  | PFetch _ => m
  | PAlloc k c => aset k c m
  | PModify k _ c => aset k c m
  | PFlush _ => m
  end.

Definition ref_get (k : N) (m : amap) : N := match aget k m with Some c => c | None => 0 end.

(* ---- caller-level operations: the caller modifies the object it got from its latest fetch /
   allocation of that page (it does not name objects) ---- *)
Inductive hop := HFetch (k : N) | HAlloc (k c : N) | HModify (k c : N) | HFlush (order : list N).

Fixpoint hrun (s : pstore) (held : amap) (ops : list hop) : list pop * list pout :=
  match ops with
  | [] => ([], [])
  | h :: r =>
      let op := match h with
                | HFetch k => Some (PFetch k)
                | HAlloc k c => Some (PAlloc k c)
                | HModify k c => match aget k held with Some o => Some (PModify k o c) | None => None end
                | HFlush ord => Some (PFlush ord)
                end in
      match op with
      | None => let '(ps, os) := hrun s held r in (ps, PUnit :: os)
      | Some op =>
          let '(s1, out) := ps_step s op in
          let held1 := match h, out with
                       | HFetch k, PObj o _ | HAlloc k _, PObj o _ => aset k o held
                       | _, _ => held
                       end in
          let '(ps, os) := hrun s1 held1 r in (op :: ps, out :: os)
      end
  end.
