(* Soundness conditions for the classification BY NAME that tools/gen_protocol uses when it
   extracts the lock protocol (Gen/Protocol.v), evaluated on the static census of file I/O sites
   and the call graph of package storage (Gen/IoSites.v, regenerated from the Go source by
   tools/gen_protocol/iosites.go with go/types on every run).

   The extraction turns a call on a relation service / file store into one action chosen by the
   callee's name. That is sound for property C13 only if
     - a callee classified CacheTouch, Mutate or ignored can reach NO write of the data file and NO
       write of the log, through any chain of calls inside package storage;
     - the callee classified PageWrite reaches exactly the page write, the one classified
       HeaderWrite exactly the header write, and neither reaches the log;
     - the callee classified LogAppend reaches only the log writes of wal.flush and no data write;
     - an INLINED callee (its body is read by the translator) reaches nothing but those known sites;
     - every write site in the package lies in a function with the matching class.
     - only INLINED callees (lockShared, unlockShared, lockExclusive, unlockExclusive and what calls them:
       StartTxn, EndTxn, flushPages, ...) can reach an operation on the reader/writer lock fileStore.mtx:
       a callee whose body the translator does not read must not lock or unlock anything (a second RLock
       inside a statement deadlocks against a waiting flusher);
   A handle that escapes (an alias of fileStore.file / wal.reader) counts as a write site of the
   function it escapes in, so none of the above can reach it either. *)
From Coq Require Import List Bool String.
Import ListNotations.
Local Open Scope string_scope.

Fixpoint lookup {A : Type} (k : string) (l : list (string * A)) : option A :=
  match l with
  | [] => None
  | (k', v) :: r => if String.eqb k k' then Some v else lookup k r
  end.

Definition mem (s : string) (l : list string) : bool := existsb (String.eqb s) l.

Definition is_nil {A : Type} (l : list A) : bool := match l with [] => true | _ => false end.

Fixpoint list_eqb (a b : list string) : bool :=
  match a, b with
  | [], [] => true
  | x :: a', y :: b' => String.eqb x y && list_eqb a' b'
  | _, _ => false
  end.

Definition page_write_site : string := "fileStore.update/WriteAt".
Definition header_write_site : string := "fileStore.save/WriteAt".
Definition log_write_sites : list string := ["wal.flush/Sync"; "wal.flush/Write"].
Definition known_sites : list string := page_write_site :: header_write_site :: log_write_sites.

Definition lock_classes : list string := ["LockExclusive"; "LockShared"; "UnlockExclusive"; "UnlockShared"].
Definition silent_classes : list string := ["CacheTouch"; "Mutate"; "ignored"].
Definition read_only_methods : list string := ["Read"; "ReadAt"; "Close"; "Stat"; "Name"; "Fd"; "init"].

Definition reach_table := list (string * list string).

(* one classified callee *)
Definition class_ok (rd rl rk : reach_table) (fc : string * string) : bool :=
  let (f, c) := fc in
  if mem c lock_classes then true        (* methods of sync.RWMutex, not functions of the package *)
  else match lookup f rd, lookup f rl, lookup f rk with
       | Some d, Some l, Some k =>
           if mem c silent_classes then is_nil d && is_nil l && is_nil k
           else if String.eqb c "PageWrite" then list_eqb d [page_write_site] && is_nil l && is_nil k
           else if String.eqb c "HeaderWrite" then list_eqb d [header_write_site] && is_nil l && is_nil k
           else if String.eqb c "LogAppend" then is_nil d && negb (is_nil l) && forallb (fun s => mem s log_write_sites) l && is_nil k
           else if String.eqb c "inlined" then forallb (fun s => mem s known_sites) (d ++ l)
           else false
       | _, _, _ => false                  (* a classified name that is not a function of the package *)
       end.

(* one use of a file handle *)
Definition site_ok (cls : list (string * string)) (s : string * string * string) : bool :=
  let '(f, m, t) := s in
  if mem m read_only_methods then true
  else match lookup f cls with
       | Some c =>
           if String.eqb t "data" then
             (String.eqb c "PageWrite" && String.eqb (f ++ "/" ++ m) page_write_site) ||
             (String.eqb c "HeaderWrite" && String.eqb (f ++ "/" ++ m) header_write_site)
           else if String.eqb t "lock" then String.eqb c "inlined"
           else String.eqb c "LogAppend" && mem (f ++ "/" ++ m) log_write_sites
       | None => false
       end.

Definition io_classification_ok (sites : list (string * string * string)) (rd rl rk : reach_table)
                                (cls : list (string * string)) : bool :=
  forallb (class_ok rd rl rk) cls && forallb (site_ok cls) sites.
