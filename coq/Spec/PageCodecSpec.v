(* Correspondence vocabulary for C12 (and the WAL codec runs): compact byte literals, observed
   results of the Go driver (harness/storage/zz_verif_codec_test.go), comparison with the model
   (`pc_model_agrees`) and the property oracle evaluated on what Go returned (`pc_spec_accepts`,
   which runs neither the model encoder nor the model decoder). *)
From Coq Require Import Init.Byte.
From Mkdb Require Import Model.CaseLib Model.PageCodec.
Open Scope N_scope.

(* page bytes as written by the driver: runs of zero bytes and literal stretches *)
Inductive chunk := Zr (n : N) | Bs (l : list Byte.byte).

Fixpoint expand (cs : list chunk) : bytes :=
  match cs with
  | [] => []
  | Zr n :: r => zeros (N.to_nat n) ++ expand r
  | Bs l :: r => map ascii_of_byte l ++ expand r
  end.

Definition lc (k : N) (d : bool) (v : list chunk) : leafcell := mkLC k d (expand v).

Definition ascii_eqb (a b : ascii) : bool := N.eqb (N_of_ascii a) (N_of_ascii b).
Definition bytes_eqb : bytes -> bytes -> bool := list_eqb Ascii.eqb.

Definition leafcell_eqb (a b : leafcell) : bool :=
  N.eqb (lc_key a) (lc_key b) && Bool.eqb (lc_deleted a) (lc_deleted b) && bytes_eqb (lc_val a) (lc_val b).
Definition icell_eqb (a b : icell) : bool := N.eqb (ic_key a) (ic_key b) && N.eqb (ic_off a) (ic_off b).

Definition node_eqb (a b : node) : bool :=
  match a, b with
  | NLeaf o l hl hr ls rs offs cs, NLeaf o' l' hl' hr' ls' rs' offs' cs' =>
      N.eqb o o' && N.eqb l l' && Bool.eqb hl hl' && Bool.eqb hr hr' && N.eqb ls ls' && N.eqb rs rs' &&
      list_eqb N.eqb offs offs' && list_eqb leafcell_eqb cs cs'
  | NInternal o l r offs cs, NInternal o' l' r' offs' cs' =>
      N.eqb o o' && N.eqb l l' && N.eqb r r' && list_eqb N.eqb offs offs' && list_eqb icell_eqb cs cs'
  | _, _ => false
  end.

Definition rawnode_eqb (a b : rawnode) : bool :=
  match a, b with
  | RLeaf o l hl hr ls rs offs cs, RLeaf o' l' hl' hr' ls' rs' offs' cs' =>
      N.eqb o o' && N.eqb l l' && Bool.eqb hl hl' && Bool.eqb hr hr' && N.eqb ls ls' && N.eqb rs rs' &&
      list_eqb N.eqb offs offs' && list_eqb (option_eqb leafcell_eqb) cs cs'
  | RInternal o l r offs cs, RInternal o' l' r' offs' cs' =>
      N.eqb o o' && N.eqb l l' && N.eqb r r' && list_eqb N.eqb offs offs' &&
      list_eqb (option_eqb icell_eqb) cs cs'
  | _, _ => false
  end.

Definition lview_eqb (a b : lview) : bool :=
  match a, b with
  | LVLeaf o l hl hr ls rs cs, LVLeaf o' l' hl' hr' ls' rs' cs' =>
      N.eqb o o' && N.eqb l l' && Bool.eqb hl hl' && Bool.eqb hr hr' && N.eqb ls ls' && N.eqb rs rs' &&
      list_eqb leafcell_eqb cs cs'
  | LVInternal o l r cs, LVInternal o' l' r' cs' =>
      N.eqb o o' && N.eqb l l' && N.eqb r r' && list_eqb icell_eqb cs cs'
  | _, _ => false
  end.

(* ---- observations ---- *)
Inductive enc_obs := EOk (page : list chunk) | EPanic | EErr | ENone.
Inductive err_obs := XEof | XBadType | XOther.
Inductive dec_obs := DOk (r : rawnode) | DErr (e : err_obs) | DPanic | DSkip.

Record pc_case := mkPC {
  pc_node : node;                       (* node handed to encode; its kind also selects the direct decoder *)
  pc_raw : option (list chunk);         (* Some: these bytes are the page, nothing is encoded *)
  pc_patch : list (N * N);              (* (position, byte) edits applied before decoding *)
  pc_trunc : option N;                  (* keep only this many bytes *)
  pc_enc : enc_obs;
  pc_dec : dec_obs;                     (* btreeNode.decode on the bytes *)
  pc_fetch : dec_obs                    (* through the file and fileStore.fetch of a cold store *)
}.

Definition apply_patch (p : list (N * N)) (bs : bytes) : bytes :=
  fold_left (fun acc e => set_nth (N.to_nat (fst e)) (ascii_of_N (snd e)) acc) p bs.

Definition apply_trunc (t : option N) (bs : bytes) : bytes :=
  match t with Some k => firstn (N.to_nat k) bs | None => bs end.

Definition is_leaf (n : node) : bool := match n with NLeaf _ _ _ _ _ _ _ _ => true | _ => false end.

Definition dec_matches (m : res rawnode) (o : dec_obs) : bool :=
  match m, o with
  | Ok r, DOk r' => rawnode_eqb r r'
  | Err ShortRead, DErr XEof => true
  | Err BadNodeType, DErr XBadType => true
  | Panic, DPanic => true
  | _, _ => false
  end.

Definition pc_model_agrees (c : pc_case) : bool :=
  let page :=
    match pc_raw c with
    | Some r => match pc_enc c with ENone => Some (expand r) | _ => None end
    | None =>
        match encode_node (pc_node c), pc_enc c with
        | Ok p, EOk g => if bytes_eqb p (expand g) then Some p else None
        | Panic, EPanic => Some []
        | _, _ => None
        end
    end in
  match page with
  | None => false
  | Some p =>
      match pc_raw c, pc_enc c with
      | None, EPanic => match pc_dec c, pc_fetch c with DSkip, DSkip => true | _, _ => false end
      | _, _ =>
          let p' := apply_trunc (pc_trunc c) (apply_patch (pc_patch c) p) in
          dec_matches (if is_leaf (pc_node c) then decode_leaf_raw p' else decode_internal_raw p') (pc_dec c) &&
          match pc_fetch c with
          | DSkip => true
          | o => dec_matches (decode_page_raw (page_at p' 0)) o
          end
      end
  end.

(* ---- the property, on Go's observed behaviour only ---- *)
Definition same_node (n : node) (o : dec_obs) : bool :=
  match o with
  | DOk r => match node_of_raw r with Ok n' => node_eqb n n' | _ => false end
  | _ => false
  end.

Definition same_logical (n : node) (o : dec_obs) : bool :=
  match o with
  | DOk r => match node_of_raw r with
             | Ok n' => match logical n, logical n' with
                        | Some a, Some b => lview_eqb a b
                        | _, _ => false
                        end
             | _ => false
             end
  | _ => false
  end.

Definition unedited (c : pc_case) : bool :=
  match pc_raw c, pc_patch c, pc_trunc c with None, [], None => true | _, _, _ => false end.

Definition one_page (e : enc_obs) : bool :=
  match e with EOk g => N.of_nat (length (expand g)) =? pageSize | _ => false end.

Definition pc_spec_accepts (c : pc_case) : bool :=
  if negb (unedited c) then true
  else if admissible (pc_node c) then
    one_page (pc_enc c) && same_node (pc_node c) (pc_dec c) &&
    match pc_fetch c with DSkip => true | o => same_node (pc_node c) o end
  else if encodable (pc_node c) then
    one_page (pc_enc c) && same_logical (pc_node c) (pc_dec c) &&
    match pc_fetch c with DSkip => true | o => same_logical (pc_node c) o end
  else true.

(* ---- file header ---- *)
Record hdr_case := mkHC { hc_hdr : header; hc_bytes : list chunk; hc_back : option header }.

Definition header_eqb (a b : header) : bool :=
  N.eqb (h_lastKey a) (h_lastKey b) && N.eqb (h_pageTableRoot a) (h_pageTableRoot b) &&
  N.eqb (h_nextFree a) (h_nextFree b) && N.eqb (h_nextLSN a) (h_nextLSN b).

Definition hdr_model_agrees (c : hdr_case) : bool :=
  bytes_eqb (encode_header (hc_hdr c)) (expand (hc_bytes c)) &&
  match decode_header (expand (hc_bytes c)), hc_back c with
  | Ok h, Some h' => header_eqb h h'
  | Err _, None => true
  | _, _ => false
  end.

Definition hdr_spec_accepts (c : hdr_case) : bool :=
  if header_ok (hc_hdr c) then
    (N.of_nat (length (expand (hc_bytes c))) =? headerSize) &&
    match hc_back c with Some h' => header_eqb (hc_hdr c) h' | None => false end
  else true.
