(* C19 - specification side: which records are accepted, what row an accepted record becomes,
   and the comparison functions used by the correspondence check (tools/props/c19.py).
   No proofs in this file. *)
From Coq Require Import List ZArith String Ascii Bool Arith.
From Mkdb Require Import Model.CaseLib Model.Value Model.Csv.
Import ListNotations.
Open Scope Z_scope.

(* ---- the row an accepted record becomes, cell by cell ---- *)

(* the value a mapped field contributes: \N is NULL whatever the type, otherwise the field
   converted to the destination column type *)
Definition cellval (oty : option coltype) (f : string) : value :=
  if String.eqb f null_marker then VNull
  else match oty with
       | Some ty => match conv ty f with Some v => v | None => VNull end
       | None => VNull
       end.

(* the field mapped to table column `name`: the LAST destination column with that name
   (cols, tys, srcs are the parallel lists -dest-cols, colTypes, -src-cols); None = not mapped *)
Fixpoint cell (name : string) (cols : list string) (tys : list coltype) (srcs : list nat)
              (rec : list string) : option value :=
  match cols, srcs with
  | c :: cs, ix :: ss =>
      match cell name cs (tl tys) ss rec with
      | Some x => Some x
      | None => if String.eqb c name then Some (cellval (hd_error tys) (nth ix rec ""%string)) else None
      end
  | _, _ => None
  end.

(* one value per table column, in schema order; unmapped columns are NULL *)
Definition convert (c : cfg) (sch : schema) (rec : list string) : row :=
  map (fun fd => match cell (fd_name fd) (eff_cols sch (dstCols c)) (colTypes c) (srcCols c) rec with
                 | Some v => v
                 | None => VNull
                 end) sch.

(* ---- which records are accepted ---- *)
Definition is_some {A} (o : option A) : bool := match o with Some _ => true | None => false end.

(* every mapped field is \N or convertible for its destination type *)
Fixpoint convertible (tys : list coltype) (srcs : list nat) (rec : list string) : bool :=
  match srcs with
  | [] => true
  | ix :: ss =>
      (let f := nth ix rec ""%string in
       String.eqb f null_marker || match tys with ty :: _ => is_some (conv ty f) | [] => false end)
      && convertible (tl tys) ss rec
  end.

(* a value fits its column: NULL, or of the column's kind, INT within 32 bits *)
Definition value_fits (ty : coltype) (v : value) : bool :=
  match v, ty with
  | VNull, _ => true
  | VInt z, TInt => (int32_min <=? z) && (z <=? int32_max)
  | VInt _, TBigInt => true
  | VStr _, TVarchar => true
  | VBool _, TBoolean => true
  | _, _ => false
  end.

Fixpoint row_fits (sch : schema) (r : row) : bool :=
  match sch, r with
  | fd :: sch', v :: r' => value_fits (fd_type fd) v && row_fits sch' r'
  | _, _ => true
  end.

Definition accepted (c : cfg) (sch : schema) (rec : list string) : bool :=
  (max_idx (srcCols c) <? List.length rec)%nat &&
  convertible (colTypes c) (srcCols c) rec &&
  Nat.eqb (List.length (eff_cols sch (dstCols c))) (List.length (srcCols c)) &&
  cols_ok (map fd_name sch) (eff_cols sch (dstCols c)) [] &&    (* destination columns exist, each once *)
  row_fits sch (convert c sch rec) &&
  (enc_size sch (convert c sch rec) <=? maxValueSize).

Definition event_accepted (c : cfg) (sch : schema) (ev : rd_event) : bool :=
  match ev with RRecord rec => accepted c sch rec | _ => false end.

(* the reader events the loop looks at: up to and including the first non-ParseError *)
Fixpoint until_stop (evs : list rd_event) : list rd_event :=
  match evs with
  | [] => []
  | ROtherErr :: _ => [ROtherErr]
  | e :: r => e :: until_stop r
  end.

Fixpoint accepted_records (c : cfg) (sch : schema) (evs : list rd_event) : list (list string) :=
  match evs with
  | [] => []
  | RRecord rec :: r => if accepted c sch rec then rec :: accepted_records c sch r else accepted_records c sch r
  | _ :: r => accepted_records c sch r
  end.

Definition is_ok (o : out_event) : bool := match o with EvOk => true | _ => false end.

(* cfg.colTypes[i] exists for every source column *)
Definition no_panic (c : cfg) : bool := (List.length (srcCols c) <=? List.length (colTypes c))%nat.

(* ---- correspondence cases ---- *)
Inductive gev := GOk | GErr (e : err_class) | GOther.     (* what the driver saw on the channels *)

Record icase := mkImport {
  i_dst : list string;
  i_src : list nat;
  i_explicit : list coltype;          (* colTypes to use when the catalog lookup fails *)
  i_reader : list rd_event;           (* what csv.Reader delivered (oracle) *)
  i_catalog : bool;                   (* Go: colDataTypes succeeded *)
  i_coltypes : list coltype;          (* Go: cfg.colTypes used *)
  i_events : list gev;                (* Go: channel events in order of arrival *)
  i_table : list row;                 (* Go: SELECT * afterwards *)
  i_atoi : list (string * option Z)   (* Go: strconv.Atoi = ParseInt(.,10,64) on the fields *)
}.

Record ccase := mkCase { c_schema : schema; c_imports : list icase }.

Definition err_eqb (a b : err_class) : bool :=
  match a, b with
  | ErrMalformed, ErrMalformed | ErrColCount, ErrColCount | ErrType, ErrType
  | ErrIntRange, ErrIntRange | ErrTooLarge, ErrTooLarge | ErrColumns, ErrColumns => true
  | _, _ => false
  end.

Definition ev_eqb (m : out_event) (g : gev) : bool :=
  match m, g with
  | EvOk, GOk => true
  | EvErr a, GErr b => err_eqb a b
  | _, _ => false
  end.

Definition row_eqb : row -> row -> bool := list_eqb value_eqb.
Definition table_eqb : list row -> list row -> bool := list_eqb row_eqb.

Fixpoint list_eqb2 {A B} (eqb : A -> B -> bool) (l1 : list A) (l2 : list B) : bool :=
  match l1, l2 with
  | [], [] => true
  | x :: r1, y :: r2 => eqb x y && list_eqb2 eqb r1 r2
  | _, _ => false
  end.

Definition cfg_of (sch : schema) (i : icase) : option cfg :=
  match col_data_types sch (i_dst i) with
  | Some ts => if i_catalog i then Some (mkCfg ts (i_dst i) (i_src i)) else None
  | None => if i_catalog i then None else Some (mkCfg (i_explicit i) (i_dst i) (i_src i))
  end.

(* MM: the model (catalog lookup, strconv, import loop, storage acceptance) predicts what Go did *)
Fixpoint model_imports (sch : schema) (tbl : list row) (is : list icase) : bool :=
  match is with
  | [] => true
  | i :: r =>
      match cfg_of sch i with
      | None => false
      | Some c =>
          list_eqb coltype_eqb (colTypes c) (i_coltypes i) &&
          forallb (fun p => option_eqb Z.eqb (parse_int (fst p)) (snd p)) (i_atoi i) &&
          let '(os, t) := import c sch (i_reader i) tbl in
          list_eqb2 ev_eqb os (i_events i) && table_eqb t (i_table i) && model_imports sch t r
      end
  end.

Definition model_agrees (c : ccase) : bool := model_imports (c_schema c) [] (c_imports c).

(* SM: the property on Go's own observations: the table after an import is the table before
   it followed by the converted accepted records, once each, in input order; there is one
   ok/err event per reader event looked at, ok exactly for the accepted records *)
Definition gev_ok (g : gev) : bool := match g with GOk => true | _ => false end.

(* the column types the oracle judges with: the table's own types when the destination columns
   resolve in the schema (a wrong answer of Go's colDataTypes is then judged against the real
   types, not trusted); only when the lookup fails - the driver then builds the configuration
   from explicit types - the types Go reported having used *)
Definition judged_types (sch : schema) (i : icase) : list coltype :=
  match col_data_types sch (i_dst i) with
  | Some ts => ts
  | None => i_coltypes i
  end.

Fixpoint spec_imports (sch : schema) (before : list row) (is : list icase) : bool :=
  match is with
  | [] => true
  | i :: r =>
      let c := mkCfg (judged_types sch i) (i_dst i) (i_src i) in
      let evs := until_stop (i_reader i) in
      (negb (no_panic c) ||
       (table_eqb (i_table i) (before ++ map (convert c sch) (accepted_records c sch evs)) &&
        list_eqb Bool.eqb (map gev_ok (i_events i)) (map (event_accepted c sch) evs))) &&
      spec_imports sch (i_table i) r
  end.

(* the makeConfig route: Go accepted the mapping iff the model does *)
Definition config_case := (schema * list string * list Z * bool)%type.
Definition config_agrees (c : config_case) : bool :=
  let '(sch, dst, src, go_ok) := c in
  Bool.eqb (match make_config sch dst src with Some _ => true | None => false end) go_ok.
(* the property: a mapping that would make the import goroutine index out of range is not accepted *)
Definition config_safe (c : config_case) : bool :=
  let '(sch, dst, src, go_ok) := c in
  negb go_ok || (forallb (fun z => (0 <=? z)%Z) src && (List.length src <=? List.length dst)%nat).

Definition spec_accepts (c : ccase) : bool := spec_imports (c_schema c) [] (c_imports c).
