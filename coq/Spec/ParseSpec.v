(* Specification side of C10 (parsing is faithful): how a statement tree is written as a token
   list - `render`, a function of the tree and of the optional-spelling choices `ropts`, chosen per
   occurrence - and which trees are in the grammar (`wf_stmt`). `renders o s toks` is the relation
   "toks is the spelling of s under the choices o". Nothing here refers to the parser except
   `validate_group_by` (wf says: the select list and GROUP BY are consistent in the sense that
   parser.go validateGroupByFields accepts) and `atoi` (numerals are spelled so that strconv.Atoi
   reads the number back, whatever the spelling: "7", "007", ...).

   Tokens are the classified tokens of Model/Parser.v: (kind, text) with the text kept only for
   IDENT / INT / STR. Keyword case, white space, line breaks and quoting of identifiers are below
   this level: they are the lexer's business (C10_keyword_case and the correspondence run, which
   renders to TEXT). *)
From Coq Require Import ZArith String Ascii List Bool.
From Mkdb Require Import Model.Value Model.Ast Model.Lexer Model.Parser.
Import ListNotations.
Local Open Scope string_scope.
Local Open Scope list_scope.
Local Open Scope Z_scope.

Record ropts := mkOpts {
  o_num : Z -> string;          (* spelling of each integer literal *)
  o_as : list bool;             (* per select item (by position): write AS before the alias *)
  o_inner : list bool;          (* per join (leftmost = 0): write INNER for an inner join *)
  o_asc : list bool;            (* per sort key: write ASC for an ascending key *)
  o_gsep : list bool;           (* per GROUP BY separator: comma (true) or white space only *)
  o_offset_first : bool;        (* OFFSET m LIMIT n instead of LIMIT n OFFSET m *)
  o_empty_cols : bool;          (* INSERT INTO t () VALUES ... when no column is named *)
  o_show : option string;       (* SHOW <identifier spelled like "databases"> instead of SHOW DATABASE *)
  o_semi : bool                 (* a trailing ; *)
}.

(* association-list numeral spelling used by the correspondence run *)
Definition num_of (l : list (Z * string)) (z : Z) : string :=
  match find (fun p => Z.eqb (fst p) z) l with
  | Some p => snd p
  | None => ""
  end.

Definition K (k : tk) : ptok := (k, "").
Definition r_ident (s : string) : ptok := (KIdent, s).

Definition r_colref (c : colref) : list ptok :=
  if String.eqb (cr_qual c) "" then [r_ident (cr_name c)]
  else [r_ident (cr_qual c); K KDot; r_ident (cr_name c)].

Definition r_value (o : ropts) (v : value) : list ptok :=
  match v with
  | VInt z => [(KInt, o_num o z)]
  | VStr s => [(KStr, s)]
  | VBool true => [K KTrue]
  | VBool false => [K KFalse]
  | VNull => []
  end.

Definition r_vexpr (o : ropts) (v : vexpr) : list ptok :=
  match v with
  | XLit x => r_value o x
  | XCol c => r_colref c
  end.

Definition r_op (op : compop) : ptok :=
  K (match op with CEq => KEq | CNeq => KNeq | CGt => KGt | CLt => KLt | CLte => KLte | CGte => KGte end).

(* infix, no parentheses (the grammar has none): AND chains nest to the right, OR of AND chains
   nests to the right *)
Fixpoint r_expr (o : ropts) (e : expr) : list ptok :=
  match e with
  | EVal v => r_vexpr o v
  | EPred l op r => r_vexpr o l ++ [r_op op] ++ r_vexpr o r
  | EAnd p rhs => let '(l, op, r) := p in r_vexpr o l ++ [r_op op] ++ r_vexpr o r ++ [K KAnd] ++ r_expr o rhs
  | EOr l r => r_expr o l ++ [K KOr] ++ r_expr o r
  end.

Definition r_prim (o : ropts) (p : selprim) : list ptok :=
  match p with
  | SPStar => [K KAstrsk]
  | SPCount None => [K KCount; K KLparen; K KAstrsk; K KRparen]
  | SPCount (Some c) => [K KCount; K KLparen] ++ r_colref c ++ [K KRparen]
  | SPAvg c => [K KAvg; K KLparen] ++ r_colref c ++ [K KRparen]
  | SPExpr e => r_expr o e
  end.

Definition r_item (o : ropts) (i : nat) (d : derivedcol) : list ptok :=
  r_prim o (dc_prim d) ++
  (if String.eqb (dc_as d) "" then []
   else (if nth i (o_as o) false then [K KAs] else []) ++ [r_ident (dc_as d)]).

Fixpoint r_items (o : ropts) (i : nat) (ds : list derivedcol) : list ptok :=
  match ds with
  | [] => []
  | d :: rest => r_item o i d ++ match rest with [] => [] | _ => K KComma :: r_items o (S i) rest end
  end.

Fixpoint join_count (t : tableref) : nat :=
  match t with
  | TRName _ _ => O
  | TRJoin l _ _ _ => S (join_count l)
  end.

Definition r_jt (o : ropts) (i : nat) (jt : jointype) : list ptok :=
  match jt with
  | JLeft => [K KLeft]
  | JRight => [K KRight]
  | JInner => if nth i (o_inner o) false then [K KInner] else []
  | JFull => []
  end.

Fixpoint r_tref (o : ropts) (t : tableref) : list ptok :=
  match t with
  | TRName n a => r_ident n :: match a with Some x => [r_ident x] | None => [] end
  | TRJoin l jt r c =>
      r_tref o l ++ r_jt o (join_count l) jt ++ [K KJoin] ++ r_tref o r ++ [K KOn] ++ r_expr o c
  end.

Definition r_where (o : ropts) (w : option expr) : list ptok :=
  match w with
  | Some e => K KWhere :: r_expr o e
  | None => []
  end.

Fixpoint r_group (o : ropts) (i : nat) (cols : list colref) : list ptok :=
  match cols with
  | [] => []
  | c :: rest =>
      r_colref c ++
      match rest with
      | [] => []
      | _ => (if nth i (o_gsep o) false then [K KComma] else []) ++ r_group o (S i) rest
      end
  end.

Definition r_sortspec (o : ropts) (i : nat) (s : sortspec) : list ptok :=
  r_colref (ss_key s) ++
  match ss_dir s with
  | SDesc => [K KDesc]
  | SAsc => if nth i (o_asc o) false then [K KAsc] else []
  end.

Fixpoint r_sorts (o : ropts) (i : nat) (ss : list sortspec) : list ptok :=
  match ss with
  | [] => []
  | s :: rest => r_sortspec o i s ++ match rest with [] => [] | _ => K KComma :: r_sorts o (S i) rest end
  end.

Definition r_limit (o : ropts) (s : select_stmt) : list ptok :=
  let lim := if sel_limit_active s then [K KLimit; (KInt, o_num o (sel_limit s))] else [] in
  let off := if sel_offset_active s then [K KOffset; (KInt, o_num o (sel_offset s))] else [] in
  if o_offset_first o then off ++ lim else lim ++ off.

Definition r_select (o : ropts) (s : select_stmt) : list ptok :=
  K KSelect :: r_items o 0 (sel_list s) ++
  match sel_from s with
  | tr :: _ =>
      K KFrom :: r_tref o tr ++ r_where o (sel_where s) ++
      match sel_group s with
      | [] => []
      | g => K KGroup :: K KBy :: r_group o 0 g
      end
  | [] => []
  end ++
  match sel_sort s with
  | [] => []
  | ss => K KOrder :: K KBy :: r_sorts o 0 ss
  end ++
  r_limit o s.

Fixpoint r_names (l : list string) : list ptok :=
  match l with
  | [] => []
  | n :: rest => r_ident n :: match rest with [] => [] | _ => K KComma :: r_names rest end
  end.

Fixpoint r_values (o : ropts) (l : list value) : list ptok :=
  match l with
  | [] => []
  | v :: rest => r_value o v ++ match rest with [] => [] | _ => K KComma :: r_values o rest end
  end.

Fixpoint r_rows (o : ropts) (l : list (list value)) : list ptok :=
  match l with
  | [] => []
  | r :: rest =>
      K KLparen :: r_values o r ++ K KRparen :: match rest with [] => [] | _ => K KComma :: r_rows o rest end
  end.

Fixpoint r_sets (o : ropts) (l : list (string * vexpr)) : list ptok :=
  match l with
  | [] => []
  | (c, v) :: rest =>
      r_ident c :: K KEq :: r_vexpr o v ++ match rest with [] => [] | _ => K KComma :: r_sets o rest end
  end.

Definition r_sqltype (o : ropts) (t : sqltype) : list ptok :=
  match t with
  | STNumeric => [K KTInt]
  | STBigInt => [K KTBigint]
  | STBoolean => [K KTBool]
  | STVarchar n => [K KTVarchar; K KLparen; (KInt, o_num o n); K KRparen]
  end.

Fixpoint r_coldefs (o : ropts) (l : list coldef) : list ptok :=
  match l with
  | [] => []
  | d :: rest =>
      r_ident (cd_name d) :: r_sqltype o (cd_type d) ++
      match rest with [] => [] | _ => K KComma :: r_coldefs o rest end
  end.

Definition r_stmt (o : ropts) (s : stmt) : list ptok :=
  match s with
  | SSelect sel => r_select o sel
  | SCreateTable name cols =>
      K KCreate :: K KTable :: r_ident name :: K KLparen :: r_coldefs o cols ++ [K KRparen]
  | SCreateDatabase name => [K KCreate; K KDatabase; r_ident name]
  | SShowDatabase =>
      K KShow ::
      match o_show o with
      | Some t => if String.eqb (lower_ascii t) "databases" then [(KIdent, t)] else [K KDatabase]
      | None => [K KDatabase]
      end
  | SUse name => [K KUse; r_ident name]
  | SInsert table cols rows =>
      K KInsert :: K KInto :: r_ident table ::
      match cols with
      | [] => if o_empty_cols o then [K KLparen; K KRparen] else []
      | _ => K KLparen :: r_names cols ++ [K KRparen]
      end ++ K KValues :: r_rows o rows
  | SUpdate table sets w => K KUpdate :: r_ident table :: K KSet :: r_sets o sets ++ r_where o w
  | SDelete table w => K KDelete :: K KFrom :: r_ident table :: r_where o w
  end.

(* a trailing semicolon is a token of kind KOther *)
Definition render (o : ropts) (s : stmt) : list ptok :=
  r_stmt o s ++ (if o_semi o then [K KOther] else []).

Definition renders (o : ropts) (s : stmt) (toks : list ptok) : Prop := toks = render o s.

(* ---- the grammar: which trees have a spelling ---- *)

(* the numeral chosen for z reads back as z (hence z fits int64) *)
Definition num_ok (o : ropts) (z : Z) : bool :=
  match atoi (o_num o z) with
  | Some z' => Z.eqb z' z
  | None => false
  end.

Definition wf_value (o : ropts) (v : value) : bool :=
  match v with
  | VInt z => num_ok o z
  | VStr _ | VBool _ => true
  | VNull => false                        (* no NULL literal in the grammar *)
  end.

Definition wf_vexpr (o : ropts) (v : vexpr) : bool :=
  match v with
  | XLit x => wf_value o x
  | XCol _ => true                        (* any IDENT texts; qualifier "" = unqualified *)
  end.

(* an AND chain: comparisons joined by AND, nested to the right; the last element may be a bare
   value (the parser accepts `a = 1 AND b`); AND's left operand is always a comparison *)
Fixpoint wf_and (o : ropts) (e : expr) : bool :=
  match e with
  | EVal v => wf_vexpr o v
  | EPred l _ r => wf_vexpr o l && wf_vexpr o r
  | EAnd p rhs => let '(l, _, r) := p in wf_vexpr o l && wf_vexpr o r && wf_and o rhs
  | EOr _ _ => false
  end.

(* a search condition: AND chains joined by OR, nested to the right (AND binds tighter) *)
Fixpoint wf_or (o : ropts) (e : expr) : bool :=
  match e with
  | EOr l r => wf_and o l && wf_or o r
  | _ => wf_and o e
  end.

Definition wf_prim (o : ropts) (p : selprim) : bool :=
  match p with
  | SPStar => false                       (* the asterisk only as the whole select list *)
  | SPCount _ | SPAvg _ => true
  | SPExpr e => wf_or o e
  end.

(* joins are left-deep with a table name on the right; no FULL join in the grammar *)
Fixpoint wf_tref (o : ropts) (t : tableref) : bool :=
  match t with
  | TRName _ _ => true
  | TRJoin l jt r c =>
      wf_tref o l &&
      match jt with JFull => false | _ => true end &&
      match r with TRName _ _ => true | _ => false end &&
      wf_or o c
  end.

Definition wf_where (o : ropts) (w : option expr) : bool :=
  match w with Some e => wf_or o e | None => true end.

Definition wf_limit (o : ropts) (active : bool) (z : Z) : bool :=
  if active then num_ok o z && (0 <=? z) else Z.eqb z 0.

(* the select list: the asterisk alone (no alias), or one or more items none of which is one *)
Definition wf_items (o : ropts) (ds : list derivedcol) : bool :=
  match ds with
  | [] => false
  | [d] => match dc_prim d with SPStar => String.eqb (dc_as d) "" | p => wf_prim o p end
  | _ => forallb (fun d => wf_prim o (dc_prim d)) ds
  end.

(* everything about a SELECT except the GROUP BY / select list consistency *)
Definition wf_select_syn (o : ropts) (s : select_stmt) : bool :=
  wf_items o (sel_list s) &&
  match sel_from s with
  | [] =>
      (* without FROM nothing else can follow the select list *)
      match sel_where s, sel_group s, sel_sort s with
      | None, [], [] => negb (sel_limit_active s) && negb (sel_offset_active s)
      | _, _, _ => false
      end
  | [tr] => wf_tref o tr && wf_where o (sel_where s)
  | _ => false
  end &&
  wf_limit o (sel_limit_active s) (sel_limit s) &&
  wf_limit o (sel_offset_active s) (sel_offset s).

Definition group_by_consistent (s : select_stmt) : bool :=
  match validate_group_by (sel_list s) (sel_group s) with None => true | Some _ => false end.

Definition wf_select (o : ropts) (s : select_stmt) : bool :=
  wf_select_syn o s && group_by_consistent s.

Definition wf_sqltype (o : ropts) (t : sqltype) : bool :=
  match t with STVarchar n => num_ok o n | _ => true end.

(* `semantic` = also require the GROUP BY consistency that validateGroupByFields enforces *)
Definition wf_stmt_gen (semantic : bool) (o : ropts) (s : stmt) : bool :=
  match s with
  | SSelect sel => wf_select_syn o sel && (negb semantic || group_by_consistent sel)
  | SCreateTable _ cols => forallb (fun d => wf_sqltype o (cd_type d)) cols
  | SCreateDatabase _ | SShowDatabase | SUse _ => true
  | SInsert _ _ rows => forallb (forallb (wf_value o)) rows
  | SUpdate _ sets w => forallb (fun p => wf_vexpr o (snd p)) sets && wf_where o w
  | SDelete _ w => wf_where o w
  end.

Definition wf_stmt : ropts -> stmt -> bool := wf_stmt_gen true.

(* written in standard form, GROUP BY consistency not required *)
Definition wf_stmt_syn : ropts -> stmt -> bool := wf_stmt_gen false.

(* ---- correspondence run (tools/props/c10.py): a generated tree, the choices used to write it
        as text, what the Go scanner+wrapper made of the text, and what Go parsed ---- *)
From Mkdb Require Import Model.CaseLib Spec.ParseObs.

Scheme Equality for tk.

Definition ptok_eqb (a b : ptok) : bool := tk_beq (fst a) (fst b) && String.eqb (snd a) (snd b).

Definition c10_case := (stmt * ropts * list rawtok * gout)%type.

(* SM: the implementation parsed the text to exactly the generated tree *)
Definition c10_spec (c : c10_case) : bool :=
  let '(s, _, _, g) := c in
  match g with GOk s' => stmt_eqb s s' | _ => false end.

(* MM: the model, run on the raw tokens of the same text, agrees with the implementation *)
Definition c10_model (c : c10_case) : bool :=
  let '(_, _, raws, g) := c in out_agrees (parse_pipeline raws) g.

(* the case lies inside the theorem: the tree is well formed under the choices, and the text the
   generator wrote lexes to exactly `render o s` *)
Definition c10_in_scope (c : c10_case) : bool :=
  let '(s, o, raws, _) := c in
  wf_stmt o s && list_eqb ptok_eqb (render o s) (map classify (wrap raws)).
