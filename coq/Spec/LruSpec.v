(* Property-level oracle for C15, stated directly on observed behaviour (what the Go
   driver reports): it does not run the model. One step is accepted iff it is what a
   least-recently-used cache that never evicts dirty entries and refuses only when full of
   dirty entries may do. *)
From Coq Require Import List NArith Bool Arith.
From Mkdb Require Import Model.CaseLib Model.Lru.
Import ListNotations.
Open Scope N_scope.

Definition res := list (N * N * bool).     (* resident list, most recently used first *)

Definition rkey (e : N * N * bool) : N := fst (fst e).
Definition rdirty (e : N * N * bool) : bool := snd e.

Definition ent_eqb (a b : N * N * bool) : bool :=
  N.eqb (fst (fst a)) (fst (fst b)) && N.eqb (snd (fst a)) (snd (fst b)) && Bool.eqb (snd a) (snd b).

Definition res_eqb : res -> res -> bool := list_eqb ent_eqb.

Fixpoint has_key (k : N) (l : res) : bool :=
  match l with [] => false | e :: r => N.eqb (rkey e) k || has_key k r end.

Fixpoint without (k : N) (l : res) : res :=
  match l with [] => [] | e :: r => if N.eqb (rkey e) k then r else e :: without k r end.

Fixpoint lookup_res (k : N) (l : res) : option (N * N * bool) :=
  match l with [] => None | e :: r => if N.eqb (rkey e) k then Some e else lookup_res k r end.

Fixpoint nodup_keys (l : res) : bool :=
  match l with [] => true | e :: r => negb (has_key (rkey e) r) && nodup_keys r end.

(* entries strictly behind key k in the list (less recently used than k) *)
Fixpoint behind (k : N) (l : res) : res :=
  match l with [] => [] | e :: r => if N.eqb (rkey e) k then r else behind k r end.

Definition all_dirty (l : res) : bool := forallb rdirty l.

Definition set_flag_res (k : N) (d : bool) (l : res) : res :=
  map (fun e => if N.eqb (rkey e) k then (fst e, d) else e) l.

Definition step_ok (c : nat) (pre : res) (o : lru_op) (out : lru_out) (post : res) : bool :=
  (length post <=? c)%nat && nodup_keys post &&
  match o, out with
  | OSet k v d, RSet true None =>
      (has_key k pre || (length pre <? c)%nat) &&
      res_eqb post ((k, v, d) :: without k pre)
  | OSet k v d, RSet true (Some x) =>
      negb (has_key k pre) && (length pre =? c)%nat &&
      match lookup_res x pre with
      | Some e => negb (rdirty e)                       (* the victim is clean *)
      | None => false
      end &&
      all_dirty (behind x pre) &&                       (* and is the LRU clean entry *)
      res_eqb post ((k, v, d) :: without x pre)
  | OSet k v d, RSet false None =>
      negb (has_key k pre) && (length pre =? c)%nat && all_dirty pre && res_eqb post pre
  | OGet k, RGet (Some v) =>
      match lookup_res k pre with
      | Some e => N.eqb (snd (fst e)) v && res_eqb post (e :: without k pre)
      | None => false
      end
  | OGet k, RGet None => negb (has_key k pre) && res_eqb post pre
  | ODirty k, RNone => res_eqb post (set_flag_res k true pre)
  | OClean k, RNone => res_eqb post (set_flag_res k false pre)
  | _, _ => false
  end.

Fixpoint trace_ok (c : nat) (pre : res) (ops : list lru_op) (obs : list (lru_out * res)) : bool :=
  match ops, obs with
  | [], [] => true
  | o :: ops', (out, post) :: obs' => step_ok c pre o out post && trace_ok c post ops' obs'
  | _, _ => false
  end.

(* ---- comparison of a Go trace with the model's trace ---- *)
Definition out_eqb (a b : lru_out) : bool :=
  match a, b with
  | RSet x e1, RSet y e2 => Bool.eqb x y && option_eqb N.eqb e1 e2
  | RGet x, RGet y => option_eqb N.eqb x y
  | RNone, RNone => true
  | _, _ => false
  end.

Definition obs_eqb (a b : lru_out * res) : bool := out_eqb (fst a) (fst b) && res_eqb (snd a) (snd b).

Definition lru_case := (nat * list lru_op * list (lru_out * res))%type.

Definition model_agrees (cs : lru_case) : bool :=
  let '(c, ops, obs) := cs in list_eqb obs_eqb (lru_trace (lru_init c) ops) obs.

Definition spec_accepts (cs : lru_case) : bool :=
  let '(c, ops, obs) := cs in trace_ok c [] ops obs.

(* ---- long runs at large capacities: the driver reports every return value but the resident list
   only at the end (a list of 10^4 entries after each of 10^4 steps would be 10^8 numbers) ---- *)
Definition lru_sparse_case := (nat * list lru_op * list lru_out * res)%type.

Definition model_agrees_sparse (cs : lru_sparse_case) : bool :=
  let '(c, ops, outs, fin) := cs in
  let '(s, mouts) := lru_run (lru_init c) ops in
  list_eqb out_eqb mouts outs && res_eqb (resident s) fin.
