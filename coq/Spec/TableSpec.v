(* The "plain in-memory model" of C01/C02/C03/C14: a database is a list of tables, a table a
   list of rows in insertion order. No pages, no ids, no log. A statement either succeeds and
   has its whole effect, or fails and has none. Row ids are not predicted: the observation
   oracle only requires them to be strictly increasing and never reused (ids_ok below). *)
From Mkdb Require Export Model.Ast Model.Expr.
From Coq Require Import Arith.
Local Open Scope list_scope.

Record tbl := mkTbl { tb_name : string; tb_schema : schema; tb_rows : list row }.
Definition db := list tbl.

Fixpoint find_tbl (n : string) (d : db) : option tbl :=
  match d with [] => None | t :: r => if String.eqb (tb_name t) n then Some t else find_tbl n r end.

Fixpoint set_rows (n : string) (rows : list row) (d : db) : db :=
  match d with
  | [] => []
  | t :: r => if String.eqb (tb_name t) n then mkTbl n (tb_schema t) rows :: r else t :: set_rows n rows r
  end.

(* ---- value / row validity as the property states it ---- *)
Definition int32_ok (z : Z) : bool := ((-2147483648 <=? z) && (z <=? 2147483647))%Z.

Definition value_ok (t : coltype) (v : value) : option err :=
  match v, t with
  | VNull, _ => None
  | VInt z, TInt => if int32_ok z then None else Some EIntRange
  | VInt _, TBigInt => None
  | VStr _, TVarchar => None
  | VBool _, TBoolean => None
  | _, _ => Some ETypeMismatch
  end.

(* encoded size of a row: one NULL flag per column, then 4 / 8 / 1 / 4+len bytes *)
Definition value_size (t : coltype) (v : value) : nat :=
  match v with
  | VNull => 1
  | VInt _ => match t with TInt => 5 | _ => 9 end
  | VBool _ => 2
  | VStr s => 5 + String.length s
  end.

Fixpoint row_size (sch : schema) (r : row) : nat :=
  match sch, r with
  | fd :: sr, v :: vr => value_size (fd_type fd) v + row_size sr vr
  | _, _ => 0
  end.

Fixpoint row_err (sch : schema) (r : row) : option err :=
  match sch, r with
  | fd :: sr, v :: vr => match value_ok (fd_type fd) v with Some e => Some e | None => row_err sr vr end
  | _, _ => None
  end.

Definition max_row_size : nat := 400.

Definition check_row (sch : schema) (r : row) : option err :=
  match row_err sch r with
  | Some e => Some e
  | None => if (max_row_size <? row_size sch r)%nat then Some ERowTooLarge else None
  end.

(* the row an INSERT with column list `cols` and values `vals` denotes: each schema column
   takes the value given for it, NULL if not named. Column lists naming an unknown column or a
   column twice are refused (cols_err) before build_row is used, so its behaviour on them
   (last value wins, unknown names ignored) is never observable. *)
Fixpoint assoc_last (c : string) (cols : list string) (vals : list value) (acc : value) : value :=
  match cols, vals with
  | x :: cr, v :: vr => assoc_last c cr vr (if String.eqb x c then v else acc)
  | _, _ => acc
  end.

Definition build_row (sch : schema) (cols : list string) (vals : list value) (base : row) : row :=
  map (fun p => assoc_last (fd_name (fst p)) cols vals (snd p)) (combine sch base).

Definition null_row (sch : schema) : row := map (fun _ => VNull) sch.

Definition fields_of (sch : schema) : list field := map (fun fd => mkFld "" (fd_name fd)) sch.

Inductive sres := SpecOk (d : db) | SpecErr (e : err).

Fixpoint insert_all (sch : schema) (cols : list string) (rows : list (list value)) : res (list row) :=
  match rows with
  | [] => Ok []
  | vals :: rest =>
      let cols' := match cols with [] => map fd_name sch | _ => cols end in
      if negb (Nat.eqb (length cols') (length vals)) then Err EColCount else
      match cols_err (map fd_name sch) cols' [] with Some e => Err e | None =>
      let r := build_row sch cols' vals (null_row sch) in
      match check_row sch r with
      | Some e => Err e
      | None => do more <- insert_all sch cols rest; Ok (r :: more)
      end end
  end.

Definition matches (w : option expr) (sch : schema) (r : row) : res bool :=
  match w with
  | None => Ok true
  | Some e => do v <- evaluate e (fields_of sch) r;
              match v with VBool b => Ok b | _ => Ok false end
  end.

Fixpoint update_all (w : option expr) (sch : schema) (cols : list string) (vals : list value)
         (rows : list row) : res (list row) :=
  match rows with
  | [] => Ok []
  | r :: rest =>
      do m <- matches w sch r;
      do more <- update_all w sch cols vals rest;
      if m then
        match cols_err (map fd_name sch) cols [] with Some e => Err e | None =>
        let r' := build_row sch cols vals r in
        match check_row sch r' with Some e => Err e | None => Ok (r' :: more) end end
      else Ok (r :: more)
  end.

Fixpoint delete_all (w : option expr) (sch : schema) (rows : list row) : res (list row) :=
  match rows with
  | [] => Ok []
  | r :: rest =>
      do m <- matches w sch r;
      do more <- delete_all w sch rest;
      Ok (if m then more else r :: more)
  end.

Definition spec_fielddef (c : coldef) : fielddef :=
  match cd_type c with
  | STNumeric => mkField TInt (cd_name c) 0
  | STBigInt => mkField TBigInt (cd_name c) 0
  | STVarchar n => mkField TVarchar (cd_name c) n
  | STBoolean => mkField TBoolean (cd_name c) 0
  end.

(* one statement: the new database if it succeeds; an error (and no change) otherwise *)
Definition spec_exec (d : db) (st : stmt) : sres :=
  match st with
  | SCreateTable n cols =>
      if negb (names_distinct (map cd_name cols)) then SpecErr EOther else
      match find_tbl n d with
      | Some _ => SpecErr ETableExists
      | None => SpecOk (d ++ [mkTbl n (map spec_fielddef cols) []])
      end
  | SInsert n cols rows =>
      match find_tbl n d with
      | None => SpecErr ETableNotExist
      | Some t => match insert_all (tb_schema t) cols rows with
                  | Ok new => SpecOk (set_rows n (tb_rows t ++ new) d)
                  | Err e => SpecErr e
                  | Panic => SpecErr EOther
                  end
      end
  | SUpdate n sets w =>
      match find_tbl n d with
      | None => SpecErr ETableNotExist
      | Some t =>
          if existsb (fun sv => match snd sv with XCol _ => true | _ => false end) sets
          then SpecErr ETmpUnsupported else
          let vals := map (fun sv => match snd sv with XLit v => v | _ => VNull end) sets in
          match update_all w (tb_schema t) (map fst sets) vals (tb_rows t) with
          | Ok rows => SpecOk (set_rows n rows d)
          | Err e => SpecErr e
          | Panic => SpecErr EOther
          end
      end
  | SDelete n w =>
      match find_tbl n d with
      | None => SpecErr ETableNotExist
      | Some t => match delete_all w (tb_schema t) (tb_rows t) with
                  | Ok rows => SpecOk (set_rows n rows d)
                  | Err e => SpecErr e
                  | Panic => SpecErr EOther
                  end
      end
  | _ => SpecErr EOther
  end.

(* a history of statements: failed ones change nothing *)
Fixpoint spec_run (d : db) (sts : list stmt) : db :=
  match sts with
  | [] => d
  | st :: r => match spec_exec d st with SpecOk d' => spec_run d' r | SpecErr _ => spec_run d r end
  end.

Definition spec_table (d : db) (n : string) : option (list string * list row) :=
  match find_tbl n d with
  | Some t => Some (map fd_name (tb_schema t), tb_rows t)
  | None => None
  end.

(* ---- row-operation prefixes of one statement (C03): the states in which only the first i
   row operations of the statement, in the order the statement applies them, have happened ---- *)
Fixpoint update_first (i : nat) (w : option expr) (sch : schema) (cols : list string) (vals : list value)
         (rows : list row) : res (list row) :=
  match rows with
  | [] => Ok []
  | r :: rest =>
      do m <- matches w sch r;
      if m then
        match i with
        | O => Ok (r :: rest)
        | S i' => do more <- update_first i' w sch cols vals rest; Ok (build_row sch cols vals r :: more)
        end
      else do more <- update_first i w sch cols vals rest; Ok (r :: more)
  end.

Fixpoint delete_first (i : nat) (w : option expr) (sch : schema) (rows : list row) : res (list row) :=
  match rows with
  | [] => Ok []
  | r :: rest =>
      do m <- matches w sch r;
      if m then
        match i with
        | O => Ok (r :: rest)
        | S i' => delete_first i' w sch rest
        end
      else do more <- delete_first i w sch rest; Ok (r :: more)
  end.

Definition ok_dbs (r : sres) : list db := match r with SpecOk d => [d] | SpecErr _ => [] end.

Definition stmt_prefixes (d : db) (st : stmt) : list db :=
  match st with
  | SInsert n cols rows =>
      flat_map (fun i => ok_dbs (spec_exec d (SInsert n cols (firstn i rows)))) (seq 0 (S (length rows)))
  | SUpdate n sets w =>
      match find_tbl n d with
      | None => [d]
      | Some t =>
          let vals := map (fun sv => match snd sv with XLit v => v | _ => VNull end) sets in
          flat_map (fun i => match update_first i w (tb_schema t) (map fst sets) vals (tb_rows t) with
                             | Ok rows => [set_rows n rows d] | _ => [] end)
                   (seq 0 (S (length (tb_rows t))))
      end
  | SDelete n w =>
      match find_tbl n d with
      | None => [d]
      | Some t =>
          flat_map (fun i => match delete_first i w (tb_schema t) (tb_rows t) with
                             | Ok rows => [set_rows n rows d] | _ => [] end)
                   (seq 0 (S (length (tb_rows t))))
      end
  | SCreateTable n cols =>
      (* a table registered with the first i columns *)
      d :: flat_map (fun i => ok_dbs (spec_exec d (SCreateTable n (firstn i cols)))) (seq 0 (S (length cols)))
  | _ => [d] ++ ok_dbs (spec_exec d st)
  end.
