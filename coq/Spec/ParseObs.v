(* Observations of the Go SQL front end as written into cases.v by tools/props/c09.py / c10.py,
   boolean equality on statement trees, and the comparison functions of the correspondence runs
   (MM = model vs Go, SM = property oracle on what Go returned). No proofs needed by the
   theorems live here; stmt_eqb is proved sound in Proofs/ParseObsFacts (so that "equal" below
   means Leibniz equality of trees). *)
From Coq Require Import ZArith String Ascii List Bool.
From Mkdb Require Import Model.CaseLib Model.Value Model.Ast Model.Lexer Model.Parser.
Import ListNotations.
Local Open Scope string_scope.
Local Open Scope list_scope.
Local Open Scope Z_scope.

(* byte strings that are not printable ASCII are written as byte lists *)
Fixpoint sb (l : list N) : string :=
  match l with
  | [] => EmptyString
  | n :: r => String (ascii_of_N n) (sb r)
  end.

(* ---- boolean equality of trees ---- *)
Definition colref_eqb (a b : colref) : bool :=
  String.eqb (cr_qual a) (cr_qual b) && String.eqb (cr_name a) (cr_name b).

Definition vexpr_eqb (a b : vexpr) : bool :=
  match a, b with
  | XLit x, XLit y => value_eqb x y
  | XCol x, XCol y => colref_eqb x y
  | _, _ => false
  end.

Definition compop_eqb (a b : compop) : bool :=
  match a, b with
  | CEq, CEq | CNeq, CNeq | CGt, CGt | CLt, CLt | CLte, CLte | CGte, CGte => true
  | _, _ => false
  end.

Fixpoint expr_eqb (a b : expr) : bool :=
  match a, b with
  | EVal x, EVal y => vexpr_eqb x y
  | EPred l1 o1 r1, EPred l2 o2 r2 => vexpr_eqb l1 l2 && compop_eqb o1 o2 && vexpr_eqb r1 r2
  | EAnd (l1, o1, r1) x, EAnd (l2, o2, r2) y =>
      vexpr_eqb l1 l2 && compop_eqb o1 o2 && vexpr_eqb r1 r2 && expr_eqb x y
  | EOr l1 r1, EOr l2 r2 => expr_eqb l1 l2 && expr_eqb r1 r2
  | _, _ => false
  end.

Definition selprim_eqb (a b : selprim) : bool :=
  match a, b with
  | SPStar, SPStar => true
  | SPCount x, SPCount y => option_eqb colref_eqb x y
  | SPAvg x, SPAvg y => colref_eqb x y
  | SPExpr x, SPExpr y => expr_eqb x y
  | _, _ => false
  end.

Definition derivedcol_eqb (a b : derivedcol) : bool :=
  selprim_eqb (dc_prim a) (dc_prim b) && String.eqb (dc_as a) (dc_as b).

Definition jointype_eqb (a b : jointype) : bool :=
  match a, b with
  | JFull, JFull | JLeft, JLeft | JRight, JRight | JInner, JInner => true
  | _, _ => false
  end.

Fixpoint tableref_eqb (a b : tableref) : bool :=
  match a, b with
  | TRName n1 a1, TRName n2 a2 => String.eqb n1 n2 && option_eqb String.eqb a1 a2
  | TRJoin l1 j1 r1 c1, TRJoin l2 j2 r2 c2 =>
      tableref_eqb l1 l2 && jointype_eqb j1 j2 && tableref_eqb r1 r2 && expr_eqb c1 c2
  | _, _ => false
  end.

Definition sortdir_eqb (a b : sortdir) : bool :=
  match a, b with SAsc, SAsc | SDesc, SDesc => true | _, _ => false end.

Definition sortspec_eqb (a b : sortspec) : bool :=
  colref_eqb (ss_key a) (ss_key b) && sortdir_eqb (ss_dir a) (ss_dir b).

Definition select_eqb (a b : select_stmt) : bool :=
  list_eqb derivedcol_eqb (sel_list a) (sel_list b) &&
  list_eqb tableref_eqb (sel_from a) (sel_from b) &&
  option_eqb expr_eqb (sel_where a) (sel_where b) &&
  list_eqb colref_eqb (sel_group a) (sel_group b) &&
  list_eqb sortspec_eqb (sel_sort a) (sel_sort b) &&
  Bool.eqb (sel_limit_active a) (sel_limit_active b) &&
  Bool.eqb (sel_offset_active a) (sel_offset_active b) &&
  Z.eqb (sel_limit a) (sel_limit b) && Z.eqb (sel_offset a) (sel_offset b).

Definition sqltype_eqb (a b : sqltype) : bool :=
  match a, b with
  | STNumeric, STNumeric | STBigInt, STBigInt | STBoolean, STBoolean => true
  | STVarchar x, STVarchar y => Z.eqb x y
  | _, _ => false
  end.

Definition coldef_eqb (a b : coldef) : bool :=
  String.eqb (cd_name a) (cd_name b) && sqltype_eqb (cd_type a) (cd_type b).

Definition stmt_eqb (a b : stmt) : bool :=
  match a, b with
  | SSelect x, SSelect y => select_eqb x y
  | SCreateTable n1 c1, SCreateTable n2 c2 => String.eqb n1 n2 && list_eqb coldef_eqb c1 c2
  | SCreateDatabase x, SCreateDatabase y => String.eqb x y
  | SShowDatabase, SShowDatabase => true
  | SUse x, SUse y => String.eqb x y
  | SInsert t1 c1 r1, SInsert t2 c2 r2 =>
      String.eqb t1 t2 && list_eqb String.eqb c1 c2 && list_eqb (list_eqb value_eqb) r1 r2
  | SUpdate t1 s1 w1, SUpdate t2 s2 w2 =>
      String.eqb t1 t2 && list_eqb (pair_eqb String.eqb vexpr_eqb) s1 s2 && option_eqb expr_eqb w1 w2
  | SDelete t1 w1, SDelete t2 w2 => String.eqb t1 t2 && option_eqb expr_eqb w1 w2
  | _, _ => false
  end.

(* ---- what the Go driver observed ---- *)
Inductive gout :=
| GOk (s : stmt)
| GErr (class : Z)          (* numbering of class_of_err below; 11 = an error the driver could not classify *)
| GPanic
| GTimeout
| GUnrep.                   (* Go returned a tree that Model/Ast.v cannot express *)

Definition class_of_err (e : perr) : Z :=
  match e with
  | ESyntax => 1 | EUnexpected => 2 | ENegLimit => 3 | ENegOffset => 4
  | EInvalidGroupBy => 5 | EAmbiguousGroupBy => 6 | EAtoi => 7 | EAvgNeedsColumn => 8
  | ETmpUnsupported => 9 | EUnsupportedToken => 10
  end.

(* outcome class: 0 ok, 1..11 errors, 100 panic, 101 timeout, 102 model ran out of fuel *)
Definition class_of (r : pres stmt) : Z :=
  match r with
  | POk _ => 0
  | PErr e => class_of_err e
  | PPanic _ => 100
  | PFuel => 102
  end.

Definition out_agrees (r : pres stmt) (g : gout) : bool :=
  match r, g with
  | POk s, GOk s' => stmt_eqb s s'
  | PErr e, GErr c => Z.eqb (class_of_err e) c
  | PPanic _, GPanic => true
  | _, _ => false
  end.

Definition token_eqb (a b : token) : bool :=
  Z.eqb (t_type a) (t_type b) && String.eqb (t_text a) (t_text b).

(* SM of C09: the implementation neither panicked nor hung *)
Definition no_crash (g : gout) : bool :=
  match g with GPanic | GTimeout => false | _ => true end.

(* ---- mode "parse": raw tokens, the TokenList parseSQL built, outcome ---- *)
Definition parse_case := (list rawtok * list token * gout)%type.

Definition parse_case_model (c : parse_case) : bool :=
  let '(raws, toks, g) := c in
  raw_ok raws && list_eqb token_eqb (wrap raws) toks && out_agrees (parse_pipeline raws) g.

Definition parse_case_spec (c : parse_case) : bool :=
  let '(_, _, g) := c in no_crash g.

(* ---- mode "tokens": a token list fed to sql.Parser directly ---- *)
Definition tokens_case := (list token * gout)%type.

Definition tokens_case_model (c : tokens_case) : bool :=
  let '(toks, g) := c in out_agrees (parse_tokens toks) g.

Definition tokens_case_spec (c : tokens_case) : bool := no_crash (snd c).

(* ---- mode "enum": all sequences prefix ++ s, s of length n over vocab, in lexicographic
        order; Go's outcome classes run-length encoded ---- *)
Fixpoint seqs {A} (vocab : list A) (n : nat) : list (list A) :=
  match n with
  | O => [[]]
  | S m => let sub := seqs vocab m in flat_map (fun t => map (cons t) sub) vocab
  end.

Fixpoint expand_rle (rle : list (Z * N)) : list Z :=
  match rle with
  | [] => []
  | (c, k) :: r => N.iter k (cons c) (expand_rle r)
  end.

Definition enum_case := (list token * nat * list token * list (Z * N))%type.

Definition enum_bad (c : enum_case) : list nat :=
  let '(vocab, n, prefix, rle) := c in
  let ss := seqs vocab n in
  let cls := expand_rle rle in
  if Nat.eqb (length ss) (length cls) then
    bad_idx (fun p => Z.eqb (class_of (parse_tokens (prefix ++ fst p))) (snd p)) (combine ss cls)
  else [0%nat].

Definition enum_case_model (c : enum_case) : bool :=
  match enum_bad c with [] => true | _ => false end.

Definition enum_case_spec (c : enum_case) : bool :=
  let '(_, _, _, rle) := c in forallb (fun p => negb (Z.eqb (fst p) 100 || Z.eqb (fst p) 101)) rle.
