(* Observation layer and specification oracle for C17 (databases, USE, restarts). *)
From Mkdb Require Export Model.Session Spec.HistObs.
Local Open Scope list_scope.
Local Open Scope string_scope.

Inductive shev :=
| ShEv (e : sevent)
| ShRead (names : list string).       (* SELECT * of these tables in the selected database *)

Inductive shobs :=
| ShOut (o : sout)
| ShDone (ok : bool)                  (* tick / restart: succeeded? *)
| ShTables (l : list (string * tobs))
| ShNoDB                              (* read attempted with no database selected *)
| ShDead.

Definition serr_eqb (a b : serr) : bool :=
  match a, b with
  | SEDBExists, SEDBExists | SEDBNotExist, SEDBNotExist | SENoDB, SENoDB => true
  | SEStmt x, SEStmt y => err_eqb x y
  | _, _ => false
  end.

Definition sout_eqb (a b : sout) : bool :=
  match a, b with
  | SOOk, SOOk | SOPanic, SOPanic => true
  | SOErr x, SOErr y => serr_eqb x y
  | SOShow x, SOShow y => list_eqb String.eqb x y
  | _, _ => false
  end.

Definition shobs_eqb (a b : shobs) : bool :=
  match a, b with
  | ShOut x, ShOut y => sout_eqb x y
  | ShDone x, ShDone y => Bool.eqb x y
  | ShTables x, ShTables y => list_eqb (pair_eqb String.eqb tobs_eqb) x y
  | ShNoDB, ShNoDB | ShDead, ShDead => true
  | _, _ => false
  end.

Fixpoint run_sh (s : sess) (evs : list shev) : list shobs :=
  match evs with
  | [] => []
  | ShRead ns :: r =>
      match cur s with
      | Some c => match get_db c (dbs s) with
                  | Some y => ShTables (map (fun n => (n, obs_table (mem y) n)) ns) :: run_sh s r
                  | None => [ShDead]
                  end
      | None => ShNoDB :: run_sh s r
      end
  | ShEv ev :: r =>
      match sess_step s ev with
      | (Ok s1, Some o) => ShOut o :: run_sh s1 r
      | (Ok s1, None) => ShDone true :: run_sh s1 r
      | (_, Some o) => [ShOut o; ShDead]
      | (_, None) => [ShDone false; ShDead]
      end
  end.

Definition shcase := (list shev * list shobs)%type.
Definition sess_model_agrees (c : shcase) : bool := list_eqb shobs_eqb (run_sh init_sess (fst c)) (snd c).

(* ---- specification: each database holds exactly the effects of the statements issued while it
   was selected; USE / CREATE DATABASE errors change nothing; SHOW lists exactly the created names;
   restarts and ticks change nothing ---- *)
Fixpoint sp_get (n : string) (l : list (string * db)) : option db :=
  match l with [] => None | (m, d) :: r => if String.eqb m n then Some d else sp_get n r end.
Fixpoint sp_set (n : string) (d : db) (l : list (string * db)) : list (string * db) :=
  match l with [] => [(n, d)] | (m, x) :: r => if String.eqb m n then (n, d) :: r else (m, x) :: sp_set n d r end.

Fixpoint sess_spec_ok (sp : list (string * db)) (cur : option string) (evs : list shev) (obs : list shobs) : bool :=
  match evs, obs with
  | [], [] => true
  | ShEv (SvStmt (SCreateDatabase name)) :: er, ShOut o :: orr =>
      let n := lower name in
      (* a legal name: not empty, not a path (".", "..", a separator), short enough for a directory *)
      let legal := negb (String.eqb n "") && valid_dbname n in
      match sp_get n sp, o with
      | None, SOOk => legal && sess_spec_ok (sp ++ [(n, [])]) cur er orr
      | Some _, SOErr SEDBExists => sess_spec_ok sp cur er orr
      | None, SOErr _ => negb legal && sess_spec_ok sp cur er orr
      | _, _ => false
      end
  | ShEv (SvStmt (SUse name)) :: er, ShOut o :: orr =>
      let n := lower name in
      match sp_get n sp, o with
      | Some _, SOOk => sess_spec_ok sp (Some n) er orr
      | None, SOErr SEDBNotExist => valid_dbname n && sess_spec_ok sp cur er orr     (* selection unchanged *)
      | None, SOErr (SEStmt _) => negb (valid_dbname n) && sess_spec_ok sp cur er orr   (* a path is refused *)
      | _, _ => false
      end
  | ShEv (SvStmt SShowDatabase) :: er, ShOut o :: orr =>
      (* SHOW DATABASES never fails, with or without a selected database: any other answer than
         the list of names is rejected here (it must not reach the DDL / DML clause below) *)
      match o with
      | SOShow names => list_eqb String.eqb names (sort_strs (map fst sp)) && sess_spec_ok sp cur er orr
      | _ => false
      end
  | ShEv (SvStmt st) :: er, ShOut o :: orr =>
      match cur, o with
      | None, SOErr SENoDB => sess_spec_ok sp cur er orr
      | Some c, SOOk =>
          match sp_get c sp with
          | Some d => match spec_exec d st with
                      | SpecOk d' => sess_spec_ok (sp_set c d' sp) cur er orr
                      | SpecErr _ => false
                      end
          | None => false
          end
      | Some c, SOErr (SEStmt _) =>
          (* a refused statement is one the specification refuses too (a valid INSERT answered with
             "record already exists" is not acceptable), and it changes nothing *)
          match sp_get c sp with
          | Some d => match spec_exec d st with
                      | SpecErr _ => sess_spec_ok sp cur er orr
                      | SpecOk _ => false
                      end
          | None => false
          end
      | _, _ => false
      end
  | ShEv SvTick :: er, ShDone true :: orr => sess_spec_ok sp cur er orr
  | ShEv (SvRestart _) :: er, ShDone true :: orr => sess_spec_ok sp None er orr
  | ShRead ns :: er, ShTables l :: orr =>
      (* the tables answered are exactly the tables asked for, in order *)
      match cur with
      | Some c => match sp_get c sp with
                  | Some d => list_eqb String.eqb ns (map fst l) &&
                              forallb (table_matches_spec d) l && sess_spec_ok sp cur er orr
                  | None => false
                  end
      | None => false
      end
  | ShRead _ :: er, ShNoDB :: orr => match cur with None => sess_spec_ok sp cur er orr | Some _ => false end
  | _, _ => false
  end.

Definition sess_spec_accepts (c : shcase) : bool := sess_spec_ok [] None (fst c) (snd c).
