(* C11's oracle, stated on what the Go driver dumps (the page graph: every allocated page with
   its stored fields), independent of the tree model: checks the shape invariants of the
   property text directly on the pages, following stored child and sibling offsets. *)
From Mkdb Require Import Spec.HistObs Gen.Params.
From Coq Require Import Arith.
Local Open Scope N_scope.
Local Open Scope list_scope.

Definition page_at (off : N) (pages : list pobs) : option pobs :=
  find (fun p => N.eqb (pobs_off p) off) pages.

Definition in_bounds (lo : N) (hi : option N) (k : N) : bool :=
  N.leb lo k && match hi with None => true | Some h => N.ltb k h end.

Fixpoint strictly_asc (l : list N) : bool :=
  match l with
  | a :: ((b :: _) as r) => N.ltb a b && strictly_asc r
  | _ => true
  end.

(* result of checking the subtree rooted at `off` with key bounds [lo, hi):
   (depth, leaf offsets in tree order, all page offsets) *)
Fixpoint check_sub (fuel : nat) (pages : list pobs) (off lo : N) (hi : option N)
  : option (nat * list N * list N) :=
  match fuel with
  | O => None
  | S f =>
      match page_at off pages with
      | Some (PLeaf _ _ _ _ _ _ _ cells) =>
          let ks := map (fun c => fst (fst c)) cells in
          if strictly_asc ks && forallb (in_bounds lo hi) ks && (List.length cells <? ML)%nat
          then Some (O, [off], [off]) else None
      | Some (PInt _ _ _ rightc kids) =>
          if negb ((0 <? List.length kids)%nat && (List.length kids <? MI)%nat) then None else
          let r :=
            (fix go (lo : N) (ks : list (N * N)) : option (nat * list N * list N) :=
               match ks with
               | [] => check_sub f pages rightc lo hi
               | (s, c) :: r =>
                   if negb (N.leb lo s && match hi with None => true | Some h => N.leb s h end) then None else
                   match check_sub f pages c lo (Some s), go s r with
                   | Some (d1, l1, a1), Some (d2, l2, a2) =>
                       if Nat.eqb d1 d2 then Some (d1, l1 ++ l2, a1 ++ a2) else None
                   | _, _ => None
                   end
               end) lo kids in
          match r with Some (d, ls, al) => Some (S d, ls, off :: al) | None => None end
      | None => None
      end
  end.

Fixpoint nodup_N (l : list N) : bool :=
  match l with [] => true | a :: r => negb (existsb (N.eqb a) r) && nodup_N r end.

(* follow the stored right-sibling offsets from leaf `off` *)
Fixpoint follow_right (fuel : nat) (pages : list pobs) (off : N) : option (list N) :=
  match fuel with
  | O => None
  | S f => match page_at off pages with
           | Some (PLeaf _ _ _ _ hasR _ rs _) =>
               if hasR then match follow_right f pages rs with Some l => Some (off :: l) | None => None end
               else Some [off]
           | _ => None
           end
  end.

Fixpoint follow_left (fuel : nat) (pages : list pobs) (off : N) : option (list N) :=
  match fuel with
  | O => None
  | S f => match page_at off pages with
           | Some (PLeaf _ _ _ hasL _ ls _ _) =>
               if hasL then match follow_left f pages ls with Some l => Some (off :: l) | None => None end
               else Some [off]
           | _ => None
           end
  end.

(* point lookup by separators, as findCell descends *)
Fixpoint lookup_leaf (fuel : nat) (pages : list pobs) (off k : N) : option N :=
  match fuel with
  | O => None
  | S f => match page_at off pages with
           | Some (PLeaf _ _ _ _ _ _ _ _) => Some off
           | Some (PInt _ _ _ rightc kids) =>
               let c := (fix pick (ks : list (N * N)) : N :=
                           match ks with [] => rightc | (s, c) :: r => if N.ltb k s then c else pick r end) kids in
               lookup_leaf f pages c k
           | None => None
           end
  end.

Definition leaf_keys (pages : list pobs) (off : N) : list N :=
  match page_at off pages with
  | Some (PLeaf _ _ _ _ _ _ _ cells) => map (fun c => fst (fst c)) cells
  | _ => []
  end.

(* one tree: shape, chains, lookups. Returns the offsets of its pages. *)
Definition check_tree (pages : list pobs) (root : N) : option (list N) :=
  let fuel := S (List.length pages) in
  match check_sub fuel pages root 0 None with
  | Some (_, ls, al) =>
      let first := hd 0 ls in
      let last_ := last ls 0 in
      if option_eqb (list_eqb N.eqb) (follow_right fuel pages first) (Some ls) &&
         option_eqb (list_eqb N.eqb) (follow_left fuel pages last_) (Some (rev ls)) &&
         forallb (fun lf => forallb (fun k => option_eqb N.eqb (lookup_leaf fuel pages root k) (Some lf))
                                    (leaf_keys pages lf)) ls
      then Some al else None
  | None => None
  end.

(* roots: the page table itself plus every file_offset stored in its rows *)
Definition leaf_cells_of (pages : list pobs) (off : N) : list (N * bool * bytes) :=
  match page_at off pages with Some (PLeaf _ _ _ _ _ _ _ cells) => cells | _ => [] end.

Definition catalog_roots (pages : list pobs) (ptroot : N) : option (list N) :=
  match check_sub (S (List.length pages)) pages ptroot 0 None with
  | Some (_, ls, _) =>
      let cells := flat_map (leaf_cells_of pages) ls in
      let live := filter (fun c => negb (snd (fst c))) cells in
      (fix go (cs : list (N * bool * bytes)) : option (list N) :=
         match cs with
         | [] => Some []
         | c :: r =>
             match decode_tuple pageTableSchema (snd c) [], go r with
             | Ok m, Some rest =>
                 (* the page table's own row keeps the offset of its first page for ever (only the
                    file header follows its root); its tree is checked from the header's root *)
                 if value_eqb (tget "table_name"%string m) (VStr "sys_pages"%string) then Some rest else
                 match tget "file_offset"%string m with VInt z => Some (Z.to_N z :: rest) | _ => None end
             | _, _ => None
             end
         end) live
  | None => None
  end.

Fixpoint check_trees (pages : list pobs) (roots : list N) : option (list N) :=
  match roots with
  | [] => Some []
  | r :: rest => match check_tree pages r, check_trees pages rest with
                 | Some a, Some b => Some (a ++ b)
                 | _, _ => None
                 end
  end.

(* the whole dump: every table's tree well formed, no page reachable twice (within or across
   trees), every page below nextFreeOffset *)
Definition dump_ok (o : hobs) : bool :=
  match o with
  | HDump (_, ptroot, nextfree, _) pages =>
      match catalog_roots pages ptroot with
      | Some roots0 =>
          let roots := ptroot :: roots0 in
          nodup_N roots &&
          match check_trees pages roots with
          | Some allo => nodup_N allo && forallb (fun x => N.ltb x nextfree) allo
          | None => false
          end
      | None => false
      end
  | _ => true
  end.

Definition dumps_ok (c : hcase) : bool := forallb dump_ok (snd c).
