(* C08, byte-exact Tuple.Encode sub-check: the case type and the boolean functions the check
   evaluates on every case (`tuple_model_agrees` = TM, `tuple_spec` = TS).
   Originally in the header string of tools/props/c08.py (after hist.HEADER, i.e. the three lines
   below); the check imports them from here, the theorems about them are in Proofs/TupleOracle.v
   and Properties/C08.v. Since then `tuple_model_agrees` also compares a failed decode with the
   model. *)
From Mkdb Require Import Spec.HistObs.
Local Open Scope string_scope.
Local Open Scope N_scope.

Definition tuple_case := (schema * tuple * res bytes * option row)%type.
Definition res_bytes_eqb (a b : res bytes) : bool :=
  match a, b with Ok x, Ok y => bytes_eqb x y | Err x, Err y => err_eqb x y | Panic, Panic => true | _, _ => false end.
Definition tuple_model_agrees (c : tuple_case) : bool :=
  let '(sch, m, enc, dec) := c in
  res_bytes_eqb (encode_tuple sch m) enc &&
  match enc, dec with
  | Ok bs, Some r => match decode_row sch bs with Ok r' => row_eqb r r' | _ => false end
  | Ok bs, None => match decode_row sch bs with Ok _ => false | _ => true end   (* Go failed to decode its own bytes *)
  | _, _ => true
  end.
(* the property on the observed bytes: decoding what Go encoded gives the values back *)
Definition tuple_spec (c : tuple_case) : bool :=
  let '(sch, m, enc, dec) := c in
  match enc, dec with
  | Ok _, Some r => row_eqb r (map (fun fd => tget (fd_name fd) m) sch)
  | Ok _, None => false
  | _, _ => true
  end.

(* ---- the oracle the check uses (TS): the same with the other two clauses of the property.
   `tuple_spec` only judges the round trip of an accepted row: it accepts every refusal and does
   not look at the encoded size. `tuple_spec_strict` is stated with the specification's own
   functions (Spec/TableSpec.v row_err / row_size, no codec):
   - accepted: no value is invalid for its column (C08_refusal_type_range), the number of encoded
     bytes is the specification's row_size (C08_size_law), decoding gives the values back
     (C08_tuple_roundtrip);
   - refused: some value is invalid for its column, and the error is one of the two the property
     names;
   - a panic is never accepted. ---- *)
Definition tuple_spec_strict (c : tuple_case) : bool :=
  let '(sch, m, enc, dec) := c in
  let r := map (fun fd => tget (fd_name fd) m) sch in
  match enc with
  | Ok bs =>
      match row_err sch r with None => true | Some _ => false end &&
      Nat.eqb (List.length bs) (row_size sch r) &&
      match dec with Some r' => row_eqb r' r | None => false end
  | Err e =>
      match row_err sch r with Some _ => true | None => false end &&
      (err_eqb e ETypeMismatch || err_eqb e EIntRange)
  | Panic => false
  end.
