#!/usr/bin/env python3
"""tools/check.py <ID> [--tier quick|thorough] [--replay FILE]

Exit 0: property held on everything explored. Exit 1 + `VIOLATION property=<id> replay=<path>`.
See DESIGN.md section 5 for the anatomy of a check."""
import argparse
import importlib
import json
import os
import sys
import time
import traceback

sys.path.insert(0, os.path.dirname(os.path.abspath(__file__)))
import vlib
from vlib import log


class Ctx:
    pass


def main():
    ap = argparse.ArgumentParser()
    ap.add_argument("pid")
    ap.add_argument("--tier", default=os.environ.get("VERIF_TIER", "quick"))
    ap.add_argument("--replay")
    ap.add_argument("--no-coq-build", action="store_true")
    args = ap.parse_args()
    pid = args.pid.upper()
    tier = "thorough" if args.tier.startswith("t") else "quick"
    seed = int(os.environ.get("VERIF_SEED", "1") or "1")
    mod = importlib.import_module("props.%s" % pid.lower())
    rep = vlib.Report(pid, tier, seed)
    ctx = Ctx()
    ctx.pid, ctx.tier, ctx.seed, ctx.report = pid, tier, seed, rep
    ctx.rng = vlib.Rng(seed * 1000003 + sum(map(ord, pid)))
    ctx.replay = json.load(open(args.replay)) if args.replay else None
    ctx.known = [k for k in vlib.load_known().get("open", []) if k.get("property") == pid]

    # ---- 1. Coq build -------------------------------------------------------------------
    cone = vlib.coq_cone(mod.PROP_FILES)
    t0 = time.time()
    vlib.regenerate_gen()          # so that the cone is computed on current generated files
    cb = vlib.build_coq(only=cone)
    failed_in_cone = [f for f in cb.failed_files if f in cone]
    # a failure outside the cone does not concern this property
    total, done, names = vlib.count_obligations(cone, failed_in_cone)
    bad = vlib.hygiene(cone)
    n_expected = sum(vlib.count_print_assumptions(f) for f in mod.PROP_FILES)
    n_closed, axioms = 0, []
    pa_ok = True
    if not failed_in_cone:
        for f in mod.PROP_FILES:
            ok, n, ax, raw = vlib.print_assumptions(f)
            pa_ok = pa_ok and ok
            n_closed += n
            axioms += ax
    chk = None
    if tier == "thorough" and not failed_in_cone and os.environ.get("VERIF_NO_COQCHK") != "1":
        t1 = time.time()
        chk_ok, chk_summ, chk_raw = vlib.coqchk(mod.PROP_FILES)
        chk = {"ok": chk_ok, "summary": chk_summ, "wall_s": round(time.time() - t1, 1),
               "cmd": "coqchk -silent -o -R . Mkdb " + " ".join(mod.PROP_FILES)}
        if not chk_ok:
            chk["tail"] = chk_raw
    allowed = getattr(mod, "ALLOWED_AXIOMS", [])
    unexpected_axioms = [a for a in axioms if not any(x in a for x in allowed)]
    rep.coverage.update({
        "obligations": total,
        "discharged": done if (not bad and pa_ok and not unexpected_axioms) else max(0, done - 1),
        "checker_cmd": "make -C /verif/coq (coqc 8.16.1, full .vo build) && coqc -R . Mkdb " + " ".join(mod.PROP_FILES),
        "trusted_base": vlib.TRUSTED_BASE + getattr(mod, "TRUSTED_EXTRA", []),
        "property_theorems_closed_under_global_context": n_closed,
        "print_assumptions_expected": n_expected,
        "assumptions_printed": axioms,
        "coq_cone_files": cone,
        "coq_build_wall_s": round(time.time() - t0, 1),
        "theorem_names": [n for n in names if n.startswith(pid)],
    })
    if chk is not None:
        rep.coverage["coqchk"] = chk
    rep.assumptions = getattr(mod, "ASSUMPTIONS", [])
    proof_broken = []
    if failed_in_cone:
        proof_broken.append("Coq files no longer compile: %s" % ", ".join(failed_in_cone))
    if bad:
        proof_broken.append("hygiene: " + "; ".join(bad))
    if not failed_in_cone and (not pa_ok or n_closed + len(axioms) < n_expected):
        proof_broken.append("Print Assumptions output incomplete (%d of %d)" % (n_closed + len(axioms), n_expected))
    if chk is not None and not chk["ok"]:
        proof_broken.append("coqchk rejects the compiled development or reports axioms: %s" % chk["summary"])
    if unexpected_axioms:
        proof_broken.append("unexpected axioms: %s" % unexpected_axioms)
    ctx.proof_broken = proof_broken
    ctx.coq_log = cb.log
    ctx.model_ok = not any(f.startswith(("Model/", "Spec/", "Gen/")) for f in failed_in_cone)

    # ---- 2. Go drivers ---------------------------------------------------------------------
    ctx.bins = {}
    go_broken = None
    cover = tier == "thorough" and os.environ.get("VERIF_NO_COVER") != "1"
    cdir = None
    if cover:
        import tempfile
        cdir = tempfile.mkdtemp(prefix="verif_cover_")
        os.environ["VERIF_COVERDIR"] = cdir
    for h in getattr(mod, "HARNESS", []):
        ok, binp, out = vlib.build_go(h, cover=cover)
        if not ok:
            go_broken = "go build of /repo with harness %s failed:\n%s" % (h, out[-3000:])
            break
        ctx.bins[h] = binp

    # ---- 3. correspondence + oracle -----------------------------------------------------------
    result = None
    if go_broken:
        rep.violation({"property": pid, "broken": "harness build", "log": go_broken}, False,
                      "the Go drivers no longer build against /repo: correspondence cannot be checked")
    else:
        try:
            result = mod.run(ctx)
        except Exception:
            tb = traceback.format_exc()
            log(tb)
            rep.violation({"property": pid, "broken": "check machinery raised", "trace": tb}, False,
                          "check raised an exception")

    if cdir:
        try:
            anchors = []
            for l in open(os.path.join(vlib.VERIF, "properties.jsonl")):
                pj = json.loads(l)
                if pj["id"] == pid:
                    anchors = pj.get("anchors", {}).get("files", [])
            cs = vlib.coverage_summary(cdir, anchors)
            if cs:
                rep.coverage["go_statement_coverage_of_this_run"] = cs
        finally:
            import shutil
            shutil.rmtree(cdir, ignore_errors=True)
            os.environ.pop("VERIF_COVERDIR", None)

    # ---- 4. verdict -------------------------------------------------------------------------
    if result is not None:
        sm = result.get("spec_violations", [])
        mm = result.get("model_mismatches", [])
        for item in result.get("known", []):
            rep.known.append(item)
        for v in sm[:3]:
            rep.violation(dict(v, property=pid, kind="implementation violates the property on this input"), True,
                          v.get("what", ""))
        if not sm and mm:
            rep.violation({"property": pid, "kind": "correspondence broken: model and implementation disagree; "
                           "the property oracle accepts the implementation's behaviour on every explored input",
                           "correspondence": result.get("correspondence_name", pid + " model-vs-implementation"),
                           "smallest_disagreement": mm[0], "n_disagreements": len(mm)}, False)
        if proof_broken and not sm:
            rep.violation({"property": pid, "kind": "proof obligation no longer checks",
                           "obligations": proof_broken, "coq_log_tail": cb.log[-3000:],
                           "theorems": [n for n in names if n.startswith(pid)]}, False,
                          "; ".join(proof_broken))
    elif proof_broken:
        rep.violation({"property": pid, "kind": "proof obligation no longer checks",
                       "obligations": proof_broken, "coq_log_tail": cb.log[-3000:]}, False)
    rc = rep.finish()
    sys.exit(rc)


if __name__ == "__main__":
    main()
