// iosites.go: the static census of file I/O sites in package storage and the call graph over it.
//
// The protocol extraction in main.go classifies storage methods BY NAME (update -> PageWrite,
// save -> HeaderWrite, known mutators -> Mutate, everything else -> CacheTouch). That is only
// sound if the functions it does not classify as a write really cannot write the data file.
// This file checks that claim against the source with go/types:
//
//   - every use of the field fileStore.file (the *os.File of the data file) is found; a use is
//     a method call on it (recorded with the method name), an argument passed for a parameter
//     of type io.Reader (recorded as "Read"), the field's initialisation in a composite literal,
//     or an ESCAPE (anything else: an alias, a different interface, a return value) which the
//     Coq side refuses;
//   - the same for the log: uses of wal.reader;
//   - a call graph over package storage: static calls and method calls are resolved by the type
//     checker, calls through an interface go to every method of that name declared in the
//     package, function literals belong to the function that contains them, and a function used
//     as a value counts as called by the function that mentions it;
//   - for every function the set of data-file write sites and log write sites it can reach.
//
//   - the same census for the reader/writer lock: every use of fileStore.mtx (a method call RLock /
//     RUnlock / Lock / Unlock, or an escape) and which of them each function can reach: a callee that
//     the protocol extraction does not inline must not lock or unlock anything.
//
// The result is written to Gen/IoSites.v as plain lists; Proofs/IoSitesSound.v evaluates the
// soundness conditions on them (a closed boolean computation checked by the kernel).
package main

import (
	"bytes"
	"fmt"
	"go/ast"
	"go/importer"
	"go/parser"
	"go/token"
	"go/types"
	"os"
	"path/filepath"
	"sort"
	"strings"
)

type ioSite struct {
	Fn, Method, Target string // Target: "data" (fileStore.file) or "log" (wal.reader)
	Pos                token.Position
}

type ioCensus struct {
	sites   []ioSite
	escapes []ioSite
	funcs   []string            // every function/method of the package, "Recv.name" or "name"
	calls   map[string][]string // caller -> callees (sorted, unique)
}

var readOnlyMethods = map[string]bool{"Read": true, "ReadAt": true, "Close": true, "Stat": true, "Name": true, "Fd": true}

func funcKey(fd *ast.FuncDecl) string {
	if r := recvName(fd); r != "" {
		return r + "." + fd.Name.Name
	}
	return fd.Name.Name
}

func objKey(f *types.Func) string {
	sig, _ := f.Type().(*types.Signature)
	if sig != nil && sig.Recv() != nil {
		t := sig.Recv().Type()
		if p, ok := t.(*types.Pointer); ok {
			t = p.Elem()
		}
		if n, ok := t.(*types.Named); ok {
			return n.Obj().Name() + "." + f.Name()
		}
	}
	return f.Name()
}

func isReaderOnly(t types.Type) bool {
	it, ok := t.Underlying().(*types.Interface)
	if !ok {
		return false
	}
	for i := 0; i < it.NumMethods(); i++ {
		if !readOnlyMethods[it.Method(i).Name()] {
			return false
		}
	}
	return it.NumMethods() > 0
}

func census(dir string) (*ioCensus, error) {
	fset := token.NewFileSet()
	pkgs, err := parser.ParseDir(fset, dir, func(fi os.FileInfo) bool {
		return !strings.HasSuffix(fi.Name(), "_test.go") && !strings.HasPrefix(fi.Name(), "zz_verif")
	}, 0)
	if err != nil {
		return nil, err
	}
	pkg, ok := pkgs["storage"]
	if !ok {
		return nil, fmt.Errorf("package storage not found in %s", dir)
	}
	var files []*ast.File
	names := []string{}
	for n := range pkg.Files {
		names = append(names, n)
	}
	sort.Strings(names)
	for _, n := range names {
		files = append(files, pkg.Files[n])
	}
	info := &types.Info{
		Uses: map[*ast.Ident]types.Object{}, Defs: map[*ast.Ident]types.Object{},
		Selections: map[*ast.SelectorExpr]*types.Selection{}, Types: map[ast.Expr]types.TypeAndValue{},
	}
	conf := types.Config{Importer: importer.ForCompiler(fset, "source", nil)}
	tpkg, err := conf.Check("storage", fset, files, info)
	if err != nil {
		return nil, fmt.Errorf("type-checking storage: %v", err)
	}

	// the two tracked fields
	field := func(typ, fld string) *types.Var {
		o := tpkg.Scope().Lookup(typ)
		if o == nil {
			return nil
		}
		st, ok := o.Type().Underlying().(*types.Struct)
		if !ok {
			return nil
		}
		for i := 0; i < st.NumFields(); i++ {
			if st.Field(i).Name() == fld {
				return st.Field(i)
			}
		}
		return nil
	}
	dataF := field("fileStore", "file")
	logF := field("wal", "reader")
	mtxF := field("fileStore", "mtx")
	if dataF == nil || logF == nil || mtxF == nil {
		return nil, fmt.Errorf("fileStore.file, fileStore.mtx or wal.reader not found")
	}
	target := func(v types.Object) string {
		switch v {
		case dataF:
			return "data"
		case logF:
			return "log"
		case mtxF:
			return "lock"
		}
		return ""
	}

	// methods of the package by name (for calls through interfaces)
	byName := map[string][]string{}
	c := &ioCensus{calls: map[string][]string{}}
	for _, f := range files {
		for _, d := range f.Decls {
			if fd, ok := d.(*ast.FuncDecl); ok {
				k := funcKey(fd)
				c.funcs = append(c.funcs, k)
				if fd.Recv != nil {
					byName[fd.Name.Name] = append(byName[fd.Name.Name], k)
				}
			}
		}
	}
	sort.Strings(c.funcs)

	for _, f := range files {
		for _, d := range f.Decls {
			fd, ok := d.(*ast.FuncDecl)
			if !ok || fd.Body == nil {
				continue
			}
			me := funcKey(fd)
			callees := map[string]bool{}
			handled := map[*ast.SelectorExpr]bool{} // tracked-field selectors already accounted for
			var parents []ast.Node
			ast.Inspect(fd, func(n ast.Node) bool {
				if n == nil {
					parents = parents[:len(parents)-1]
					return true
				}
				defer func() { parents = append(parents, n) }()
				switch x := n.(type) {
				case *ast.CallExpr:
					// method call on a tracked field:  <e>.file.M(..)
					if sel, ok := x.Fun.(*ast.SelectorExpr); ok {
						if inner, ok := sel.X.(*ast.SelectorExpr); ok {
							if s := info.Selections[inner]; s != nil && target(s.Obj()) != "" {
								handled[inner] = true
								c.sites = append(c.sites, ioSite{me, sel.Sel.Name, target(s.Obj()), fset.Position(x.Pos())})
							}
						}
					}
					// tracked field passed as an argument
					var sig *types.Signature
					if tv, ok := info.Types[x.Fun]; ok {
						sig, _ = tv.Type.Underlying().(*types.Signature)
					}
					for i, a := range x.Args {
						inner, ok := a.(*ast.SelectorExpr)
						if !ok {
							continue
						}
						s := info.Selections[inner]
						if s == nil || target(s.Obj()) == "" {
							continue
						}
						handled[inner] = true
						var pt types.Type
						if sig != nil {
							if i < sig.Params().Len() {
								pt = sig.Params().At(i).Type()
							} else if sig.Variadic() && sig.Params().Len() > 0 {
								pt = sig.Params().At(sig.Params().Len() - 1).Type()
							}
						}
						if pt != nil && isReaderOnly(pt) {
							c.sites = append(c.sites, ioSite{me, "Read", target(s.Obj()), fset.Position(a.Pos())})
						} else {
							c.escapes = append(c.escapes, ioSite{me, "argument", target(s.Obj()), fset.Position(a.Pos())})
						}
					}
				case *ast.KeyValueExpr:
					// initialisation  fileStore{file: ..} / wal{reader: ..}
					if id, ok := x.Key.(*ast.Ident); ok {
						if o := info.Uses[id]; o != nil && target(o) != "" {
							c.sites = append(c.sites, ioSite{me, "init", target(o), fset.Position(x.Pos())})
						}
					}
				case *ast.SelectorExpr:
					if s := info.Selections[x]; s != nil && target(s.Obj()) != "" && !handled[x] {
						// assignment to the field is an initialisation, anything else an escape
						kind := "escape"
						if len(parents) > 0 {
							if as, ok := parents[len(parents)-1].(*ast.AssignStmt); ok {
								for _, l := range as.Lhs {
									if l == ast.Expr(x) {
										kind = "init"
									}
								}
							}
						}
						if kind == "init" {
							c.sites = append(c.sites, ioSite{me, "init", target(s.Obj()), fset.Position(x.Pos())})
						} else {
							c.escapes = append(c.escapes, ioSite{me, "alias", target(s.Obj()), fset.Position(x.Pos())})
						}
					}
					// method value / call resolved by the type checker
					if s := info.Selections[x]; s != nil && (s.Kind() == types.MethodVal || s.Kind() == types.MethodExpr) {
						fn := s.Obj().(*types.Func)
						if fn.Pkg() == tpkg {
							if _, isIface := s.Recv().Underlying().(*types.Interface); isIface {
								for _, k := range byName[fn.Name()] {
									callees[k] = true
								}
							} else {
								callees[objKey(fn)] = true
							}
						}
					}
				case *ast.Ident:
					if fn, ok := info.Uses[x].(*types.Func); ok && fn.Pkg() == tpkg {
						if sig := fn.Type().(*types.Signature); sig.Recv() == nil {
							callees[fn.Name()] = true
						}
					}
				}
				return true
			})
			var l []string
			for k := range callees {
				l = append(l, k)
			}
			sort.Strings(l)
			c.calls[me] = l
		}
	}
	return c, nil
}

// reach computes, for every function, the set of sites (as "Fn/Method") of the given target whose
// method is not read-only and that the function can reach through the call graph.
func (c *ioCensus) reach(target string) map[string][]string {
	direct := map[string]map[string]bool{}
	for _, s := range c.sites {
		if s.Target == target && !readOnlyMethods[s.Method] && s.Method != "init" {
			if direct[s.Fn] == nil {
				direct[s.Fn] = map[string]bool{}
			}
			direct[s.Fn][s.Fn+"/"+s.Method] = true
		}
	}
	for _, s := range c.escapes {
		// an escaped handle may be written through: counted as a write site of its function
		if s.Target == target {
			if direct[s.Fn] == nil {
				direct[s.Fn] = map[string]bool{}
			}
			direct[s.Fn][s.Fn+"/"+s.Method] = true
		}
	}
	out := map[string][]string{}
	for _, f := range c.funcs {
		seen := map[string]bool{}
		acc := map[string]bool{}
		var walk func(g string)
		walk = func(g string) {
			if seen[g] {
				return
			}
			seen[g] = true
			for k := range direct[g] {
				acc[k] = true
			}
			for _, h := range c.calls[g] {
				walk(h)
			}
		}
		walk(f)
		var l []string
		for k := range acc {
			l = append(l, k)
		}
		sort.Strings(l)
		out[f] = l
	}
	return out
}

func coqStrList(l []string) string {
	q := make([]string, len(l))
	for i, s := range l {
		q[i] = "\"" + s + "\""
	}
	return "[" + strings.Join(q, "; ") + "]"
}

// writeIoSites renders Gen/IoSites.v. classes is the name classification of main.go
// ("RelationService.Insert" -> "Mutate", ...).
func writeIoSites(c *ioCensus, classes map[string]string, outDir string) (bool, error) {
	var b bytes.Buffer
	b.WriteString("(* GENERATED by tools/gen_protocol (iosites.go) from the Go sources of package storage. Do not edit. *)\n")
	b.WriteString("From Coq Require Import String List.\nImport ListNotations.\nOpen Scope string_scope.\n\n")
	b.WriteString("(* every use of fileStore.file (\"data\") and wal.reader (\"log\"): (function, method, target) *)\n")
	b.WriteString("Definition io_sites : list (string * string * string) :=\n  [")
	ss := append([]ioSite{}, c.sites...)
	sort.Slice(ss, func(i, j int) bool {
		if ss[i].Fn != ss[j].Fn {
			return ss[i].Fn < ss[j].Fn
		}
		if ss[i].Method != ss[j].Method {
			return ss[i].Method < ss[j].Method
		}
		return ss[i].Target < ss[j].Target
	})
	first := true
	prev := ""
	for _, s := range ss {
		cur := s.Fn + "|" + s.Method + "|" + s.Target
		if cur == prev {
			continue
		}
		prev = cur
		if !first {
			b.WriteString(";\n   ")
		}
		first = false
		fmt.Fprintf(&b, "(\"%s\", \"%s\", \"%s\")", s.Fn, s.Method, s.Target)
	}
	b.WriteString("].\n\n")
	b.WriteString("(* uses of those fields that are neither a method call, an io.Reader argument nor an initialisation *)\n")
	b.WriteString("Definition io_escapes : list (string * string * string) :=\n  [")
	for i, s := range c.escapes {
		if i > 0 {
			b.WriteString(";\n   ")
		}
		fmt.Fprintf(&b, "(\"%s\", \"%s\", \"%s\")", s.Fn, s.Method, s.Target)
	}
	b.WriteString("].\n\n")
	for _, tg := range []string{"data", "log", "lock"} {
		r := c.reach(tg)
		if tg == "lock" {
			b.WriteString("(* for every function of package storage: the operations on fileStore.mtx it can reach *)\n")
			b.WriteString("Definition reaches_lock_op : list (string * list string) :=\n  [")
			for i, f := range c.funcs {
				if i > 0 {
					b.WriteString(";\n   ")
				}
				fmt.Fprintf(&b, "(\"%s\", %s)", f, coqStrList(r[f]))
			}
			b.WriteString("].\n\n")
			continue
		}
		fmt.Fprintf(&b, "(* for every function of package storage: the %s-file write sites it can reach through the call graph *)\n", tg)
		fmt.Fprintf(&b, "Definition reaches_%s_write : list (string * list string) :=\n  [", tg)
		for i, f := range c.funcs {
			if i > 0 {
				b.WriteString(";\n   ")
			}
			fmt.Fprintf(&b, "(\"%s\", %s)", f, coqStrList(r[f]))
		}
		b.WriteString("].\n\n")
	}
	b.WriteString("(* the classification by name used for Gen/Protocol.v *)\n")
	b.WriteString("Definition classified : list (string * string) :=\n  [")
	keys := []string{}
	for k := range classes {
		keys = append(keys, k)
	}
	sort.Strings(keys)
	for i, k := range keys {
		if i > 0 {
			b.WriteString(";\n   ")
		}
		fmt.Fprintf(&b, "(\"%s\", \"%s\")", k, classes[k])
	}
	b.WriteString("].\n")
	path := filepath.Join(outDir, "IoSites.v")
	old, _ := os.ReadFile(path)
	if bytes.Equal(old, b.Bytes()) {
		return false, nil
	}
	if err := os.MkdirAll(outDir, 0755); err != nil {
		return false, err
	}
	return true, os.WriteFile(path, b.Bytes(), 0644)
}
