// gen_protocol: regenerates coq/Gen/Protocol.v from the Go sources of mk6i/mkdb.
//
// For every statement entry point (the functions Session.ExecQuery calls with
// s.RelationService), for fileStore.flushPages, RelationService.Close/fileStore.close and the
// ticker goroutine started in newFileStore it extracts the ORDERED structure of the calls that
// matter for property C13 - lock, unlock, page/cache change, log append, page write, header
// write - as a small regular program (Model/Prog.v: PAct/PSeq/PLoop/PBranch/PSkip).
//
// go/parser + go/ast only (no type checking): "tracked" expressions are recognised from the
// declared types of receivers/parameters (RelationManager, *RelationService, *fileStore,
// *Session) and from field selections on them (.fs .mtx .cache .wal .RelationService).
//
//   - sync.RWMutex calls on <fileStore>.mtx are the four lock actions;
//   - a fixed set of small storage methods is INLINED (StartTxn, EndTxn, lockShared, ...,
//     CreateTable, createTable, flushPages, close, Close, FlushWALBatch) so that what they do is
//     read from the source and not assumed from their names;
//   - same-package functions that receive a tracked value as an argument are inlined
//     (nestedLoopJoin(rm, ..)); a recursive call is replaced by "any number of the actions of
//     that function in any order";
//   - every other method call on a tracked relation service / file store / cache is classified by
//     name: update -> PageWrite, save -> HeaderWrite, a list of known mutators -> Mutate, an
//     allow-list of pure getters -> nothing, and EVERYTHING ELSE -> CacheTouch (conservative);
//   - `defer` is executed on every exit path (early `return`, panic(..) call, falling off the
//     end): the translation is continuation-passing inside one function, so this holds by
//     construction; loops are "zero or more normal iterations, then either leave the loop or
//     run one iteration that escapes (return/break)".
//
// Constructs it cannot express (goto, labelled break/continue, fallthrough, defer inside a
// loop, unknown RWMutex methods) make it fail loudly instead of guessing.
// The output file is rewritten only when its content changes.
package main

import (
	"bytes"
	"flag"
	"fmt"
	"go/ast"
	"go/parser"
	"go/token"
	"os"
	"path/filepath"
	"sort"
	"strings"
)

// ---------------------------------------------------------------------------------------
// programs
// ---------------------------------------------------------------------------------------

type Prog interface{} // nil = no path reaches here ("dead")

type Act struct{ A string }
type Seq struct{ P, Q Prog }
type Loop struct{ P Prog }
type Branch struct{ P, Q Prog }
type Skip struct{}
type Rec struct{ Fn string } // placeholder for a recursive call, resolved when Fn is finished

func render(p Prog) string {
	switch v := p.(type) {
	case nil:
		return "DEAD"
	case Act:
		return "PAct " + v.A
	case Seq:
		return "PSeq (" + render(v.P) + ") (" + render(v.Q) + ")"
	case Loop:
		return "PLoop (" + render(v.P) + ")"
	case Branch:
		return "PBranch (" + render(v.P) + ") (" + render(v.Q) + ")"
	case Skip:
		return "PSkip"
	case Rec:
		return "REC " + v.Fn
	}
	panic("render")
}

var short = map[string]string{
	"LockShared": "RLock", "UnlockShared": "RUnlock", "LockExclusive": "Lock", "UnlockExclusive": "Unlock",
	"Mutate": "Mutate", "CacheTouch": "Touch", "LogAppend": "LogAppend", "PageWrite": "PageWrite", "HeaderWrite": "HeaderWrite",
}

func compact(p Prog) string {
	switch v := p.(type) {
	case Act:
		return short[v.A]
	case Seq:
		return compact(v.P) + "; " + compact(v.Q)
	case Loop:
		return "loop{" + compact(v.P) + "}"
	case Branch:
		return "(" + compact(v.P) + " | " + compact(v.Q) + ")"
	case Skip:
		return "skip"
	}
	return "?"
}

func seq(p, q Prog) Prog {
	if p == nil || q == nil {
		return nil
	}
	if _, ok := p.(Skip); ok {
		return q
	}
	if _, ok := q.(Skip); ok {
		return p
	}
	// keep sequences right-nested
	if s, ok := p.(Seq); ok {
		return Seq{s.P, seq(s.Q, q)}
	}
	return Seq{p, q}
}

func branch(p, q Prog) Prog {
	if p == nil {
		return q
	}
	if q == nil {
		return p
	}
	if render(p) == render(q) {
		return p
	}
	return Branch{p, q}
}

func loop(p Prog) Prog {
	if p == nil {
		return Skip{}
	}
	if _, ok := p.(Skip); ok {
		return Skip{}
	}
	if l, ok := p.(Loop); ok {
		return l
	}
	return Loop{p}
}

func alphabet(p Prog, set map[string]bool) {
	switch v := p.(type) {
	case Act:
		set[v.A] = true
	case Seq:
		alphabet(v.P, set)
		alphabet(v.Q, set)
	case Loop:
		alphabet(v.P, set)
	case Branch:
		alphabet(v.P, set)
		alphabet(v.Q, set)
	}
}

func substRec(p Prog, fn string, r Prog) Prog {
	switch v := p.(type) {
	case Rec:
		if v.Fn == fn {
			return r
		}
		return v
	case Seq:
		return seq(substRec(v.P, fn, r), substRec(v.Q, fn, r))
	case Loop:
		return loop(substRec(v.P, fn, r))
	case Branch:
		return branch(substRec(v.P, fn, r), substRec(v.Q, fn, r))
	}
	return p
}

func hasRec(p Prog) bool {
	switch v := p.(type) {
	case Rec:
		return true
	case Seq:
		return hasRec(v.P) || hasRec(v.Q)
	case Loop:
		return hasRec(v.P)
	case Branch:
		return hasRec(v.P) || hasRec(v.Q)
	}
	return false
}

// ---------------------------------------------------------------------------------------
// source model
// ---------------------------------------------------------------------------------------

type kind int

const (
	kNone    kind = iota
	kRS           // engine.RelationManager / *storage.RelationService
	kFS           // *storage.fileStore
	kMTX          // fileStore.mtx (sync.RWMutex)
	kCache        // fileStore.cache
	kWAL          // RelationService.wal
	kSession      // *engine.Session
)

var fieldKind = map[kind]map[string]kind{
	kRS:      {"fs": kFS, "wal": kWAL},
	kFS:      {"mtx": kMTX, "cache": kCache},
	kSession: {"RelationService": kRS},
}

func typeKind(e ast.Expr) kind {
	switch t := e.(type) {
	case *ast.StarExpr:
		return typeKind(t.X)
	case *ast.SelectorExpr:
		return typeKind(t.Sel)
	case *ast.Ident:
		switch t.Name {
		case "RelationManager", "RelationService":
			return kRS
		case "fileStore":
			return kFS
		case "Session":
			return kSession
		}
	}
	return kNone
}

// methods on a relation service / file store that are inlined from their source
var inlineSet = map[string]bool{
	"StartTxn": true, "EndTxn": true, "lockShared": true, "unlockShared": true,
	"lockExclusive": true, "unlockExclusive": true, "CreateTable": true, "createTable": true,
	"flushPages": true, "close": true, "Close": true, "FlushWALBatch": true,
}

// known mutators of page / cache / allocator state (label only: anything not listed and not
// pure becomes CacheTouch, which the checker treats exactly like Mutate)
var mutateSet = map[string]bool{
	"Insert": true, "Update": true, "MarkDeleted": true, "createPage": true, "insertPageTable": true,
	"insertSchemaTable": true, "updatePageTable": true, "append": true, "setRoot": true,
	"setPageTableRoot": true, "incrementLastKey": true, "incrLSN": true, "setCache": true,
}

// pure helpers: read a scalar field of the file store that only the session thread writes
var pureSet = map[string]bool{"getLastKey": true, "nextLSN": true}

var mutexAct = map[string]string{
	"RLock": "LockShared", "RUnlock": "UnlockShared", "Lock": "LockExclusive", "Unlock": "UnlockExclusive",
}

type source struct {
	fset    *token.FileSet
	funcs   map[string]*ast.FuncDecl // "pkg.Func" or "pkg.Recv.Method"
	classes map[string]string        // "kind.method" -> classification (for the report)
}

func recvName(fd *ast.FuncDecl) string {
	if fd.Recv == nil || len(fd.Recv.List) == 0 {
		return ""
	}
	t := fd.Recv.List[0].Type
	if s, ok := t.(*ast.StarExpr); ok {
		t = s.X
	}
	if id, ok := t.(*ast.Ident); ok {
		return id.Name
	}
	return "?"
}

func (s *source) loadDir(dir, pkg string) error {
	ents, err := os.ReadDir(dir)
	if err != nil {
		return err
	}
	n := 0
	for _, e := range ents {
		name := e.Name()
		if e.IsDir() || !strings.HasSuffix(name, ".go") || strings.HasSuffix(name, "_test.go") {
			continue
		}
		f, err := parser.ParseFile(s.fset, filepath.Join(dir, name), nil, parser.SkipObjectResolution)
		if err != nil {
			return err
		}
		if f.Name.Name != pkg {
			continue
		}
		n++
		for _, d := range f.Decls {
			fd, ok := d.(*ast.FuncDecl)
			if !ok || fd.Body == nil {
				continue
			}
			key := pkg + "." + fd.Name.Name
			if r := recvName(fd); r != "" {
				key = pkg + "." + r + "." + fd.Name.Name
			}
			s.funcs[key] = fd
		}
	}
	if n == 0 {
		return fmt.Errorf("no Go files of package %s in %s", pkg, dir)
	}
	return nil
}

// ---------------------------------------------------------------------------------------
// translation
// ---------------------------------------------------------------------------------------

type env struct {
	pkg     string
	tracked map[string]kind
	defers  []Prog // registered so far on this path, oldest first
	inLoop  bool
	// continuations for control transfer
	onReturn   func(env) Prog
	onBreak    func(env) Prog
	onContinue func(env) Prog
}

type cont func(env) Prog

type translator struct {
	src   *source
	stack []string
	memo  map[string]Prog
	errs  []string
}

func (t *translator) fail(pos token.Pos, format string, a ...interface{}) {
	t.errs = append(t.errs, fmt.Sprintf("%s: %s", t.src.fset.Position(pos), fmt.Sprintf(format, a...)))
}

func (t *translator) kindOf(e ast.Expr, en env) kind {
	switch v := e.(type) {
	case *ast.Ident:
		return en.tracked[v.Name]
	case *ast.ParenExpr:
		return t.kindOf(v.X, en)
	case *ast.StarExpr:
		return t.kindOf(v.X, en)
	case *ast.UnaryExpr:
		if v.Op == token.AND {
			return t.kindOf(v.X, en)
		}
	case *ast.SelectorExpr:
		if k := t.kindOf(v.X, en); k != kNone {
			return fieldKind[k][v.Sel.Name]
		}
	}
	return kNone
}

func runDefers(en env) Prog {
	var p Prog = Skip{}
	for i := len(en.defers) - 1; i >= 0; i-- {
		p = seq(p, en.defers[i])
	}
	return p
}

// function translates a whole function (declaration or literal) into a self-contained program:
// every path, including early returns, ends at the end of the program after the deferred calls.
func (t *translator) function(pkg string, typ *ast.FuncType, recv *ast.FieldList, body *ast.BlockStmt, outer map[string]kind) Prog {
	tracked := map[string]kind{}
	for k, v := range outer {
		tracked[k] = v
	}
	bind := func(fl *ast.FieldList) {
		if fl == nil {
			return
		}
		for _, f := range fl.List {
			k := typeKind(f.Type)
			for _, n := range f.Names {
				if k != kNone {
					tracked[n.Name] = k
				} else {
					delete(tracked, n.Name)
				}
			}
		}
	}
	bind(recv)
	bind(typ.Params)
	// locals created from a composite literal of a tracked type (fs := &fileStore{..}) or by
	// taking a tracked field
	ast.Inspect(body, func(n ast.Node) bool {
		as, ok := n.(*ast.AssignStmt)
		if !ok || as.Tok != token.DEFINE {
			return true
		}
		// rc, ok := rm.(rowChecker)  /  rc := rm.(rowChecker)  /  r2 := rm : the new name denotes the same
		// relation manager / file store, calls on it are calls on the tracked value
		if len(as.Rhs) == 1 && len(as.Lhs) >= 1 {
			if id, ok := as.Lhs[0].(*ast.Ident); ok && id.Name != "_" {
				src := as.Rhs[0]
				if ta, ok := src.(*ast.TypeAssertExpr); ok {
					src = ta.X
				}
				if k := t.kindOf(src, env{tracked: tracked}); k != kNone {
					if _, isCall := src.(*ast.CallExpr); !isCall {
						tracked[id.Name] = k
					}
				}
			}
		}
		if len(as.Lhs) != len(as.Rhs) {
			return true
		}
		for i, r := range as.Rhs {
			id, ok := as.Lhs[i].(*ast.Ident)
			if !ok {
				continue
			}
			if u, ok := r.(*ast.UnaryExpr); ok && u.Op == token.AND {
				r = u.X
			}
			if cl, ok := r.(*ast.CompositeLit); ok && cl.Type != nil {
				if k := typeKind(cl.Type); k != kNone {
					tracked[id.Name] = k
				}
			}
		}
		return true
	})
	en := env{pkg: pkg, tracked: tracked}
	en.onReturn = func(e env) Prog { return runDefers(e) }
	en.onBreak = func(e env) Prog { t.fail(body.Pos(), "break outside loop"); return nil }
	en.onContinue = en.onBreak
	return t.stmts(body.List, en, func(e env) Prog { return runDefers(e) })
}

func (t *translator) inlineDecl(key string) Prog {
	if p, ok := t.memo[key]; ok {
		return p
	}
	for _, s := range t.stack {
		if s == key {
			return Rec{key}
		}
	}
	fd := t.src.funcs[key]
	pkg := key[:strings.Index(key, ".")]
	t.stack = append(t.stack, key)
	p := t.function(pkg, fd.Type, fd.Recv, fd.Body, nil)
	t.stack = t.stack[:len(t.stack)-1]
	if hasRec(p) {
		// a recursive call performs some sequence of this function's own actions
		set := map[string]bool{}
		alphabet(p, set)
		names := []string{}
		for a := range set {
			names = append(names, a)
		}
		sort.Strings(names)
		var any Prog
		for _, a := range names {
			any = branch(any, Act{a})
		}
		p = substRec(p, key, loop(any))
	}
	t.memo[key] = p
	return p
}

func (t *translator) classify(k kind, name, cls string) {
	kn := map[kind]string{kRS: "RelationService", kFS: "fileStore", kMTX: "mtx", kCache: "cache", kWAL: "wal"}[k]
	t.src.classes[kn+"."+name] = cls
}

// call translates one call expression (arguments first).
func (t *translator) call(c *ast.CallExpr, en env) Prog {
	var p Prog = Skip{}
	if sel, ok := c.Fun.(*ast.SelectorExpr); ok {
		p = seq(p, t.expr(sel.X, en))
	} else if _, ok := c.Fun.(*ast.Ident); !ok {
		if fl, ok := c.Fun.(*ast.FuncLit); ok {
			// immediately invoked literal
			for _, a := range c.Args {
				p = seq(p, t.expr(a, en))
			}
			return seq(p, t.function(en.pkg, fl.Type, nil, fl.Body, en.tracked))
		}
		p = seq(p, t.expr(c.Fun, en))
	}
	trackedArg := false
	for _, a := range c.Args {
		if fl, ok := a.(*ast.FuncLit); ok {
			// callback: may run any number of times during the call
			p = seq(p, loop(t.function(en.pkg, fl.Type, nil, fl.Body, en.tracked)))
			continue
		}
		p = seq(p, t.expr(a, en))
		if t.kindOf(a, en) != kNone {
			trackedArg = true
		}
	}
	switch f := c.Fun.(type) {
	case *ast.Ident:
		if trackedArg {
			if _, ok := t.src.funcs[en.pkg+"."+f.Name]; ok {
				return seq(p, t.inlineDecl(en.pkg+"."+f.Name))
			}
			// a tracked value escapes into an unknown function
			return seq(p, Act{"CacheTouch"})
		}
	case *ast.SelectorExpr:
		k := t.kindOf(f.X, en)
		name := f.Sel.Name
		switch k {
		case kMTX:
			a, ok := mutexAct[name]
			if !ok {
				t.fail(c.Pos(), "unsupported RWMutex method %s", name)
				return nil
			}
			t.classify(k, name, a)
			return seq(p, Act{a})
		case kWAL:
			if name == "flush" {
				t.classify(k, name, "LogAppend")
				return seq(p, Act{"LogAppend"})
			}
			t.classify(k, name, "ignored")
			return p
		case kCache:
			t.classify(k, name, "CacheTouch")
			return seq(p, Act{"CacheTouch"})
		case kRS, kFS:
			recv := "RelationService"
			if k == kFS {
				recv = "fileStore"
			}
			key := "storage." + recv + "." + name
			if inlineSet[name] {
				if _, ok := t.src.funcs[key]; ok {
					t.classify(k, name, "inlined")
					return seq(p, t.inlineDecl(key))
				}
			}
			switch {
			case k == kFS && name == "update":
				t.classify(k, name, "PageWrite")
				return seq(p, Act{"PageWrite"})
			case k == kFS && name == "save":
				t.classify(k, name, "HeaderWrite")
				return seq(p, Act{"HeaderWrite"})
			case mutateSet[name]:
				t.classify(k, name, "Mutate")
				return seq(p, Act{"Mutate"})
			case pureSet[name]:
				t.classify(k, name, "pure")
				return p
			default:
				t.classify(k, name, "CacheTouch")
				return seq(p, Act{"CacheTouch"})
			}
		}
	}
	return p
}

// expr returns the program of the calls inside an expression, in evaluation order.
func (t *translator) expr(e ast.Expr, en env) Prog {
	if e == nil {
		return Skip{}
	}
	switch v := e.(type) {
	case *ast.CallExpr:
		return t.call(v, en)
	case *ast.BinaryExpr:
		l := t.expr(v.X, en)
		r := t.expr(v.Y, en)
		if v.Op == token.LAND || v.Op == token.LOR {
			return seq(l, branch(Skip{}, r))
		}
		return seq(l, r)
	case *ast.FuncLit:
		// a function value that is stored, not called here: may run later any number of times
		return loop(t.function(en.pkg, v.Type, nil, v.Body, en.tracked))
	case *ast.ParenExpr:
		return t.expr(v.X, en)
	case *ast.UnaryExpr:
		return t.expr(v.X, en)
	case *ast.StarExpr:
		return t.expr(v.X, en)
	case *ast.SelectorExpr:
		return t.expr(v.X, en)
	case *ast.IndexExpr:
		return seq(t.expr(v.X, en), t.expr(v.Index, en))
	case *ast.SliceExpr:
		return seq(seq(t.expr(v.X, en), t.expr(v.Low, en)), seq(t.expr(v.High, en), t.expr(v.Max, en)))
	case *ast.TypeAssertExpr:
		return t.expr(v.X, en)
	case *ast.KeyValueExpr:
		return seq(t.expr(v.Key, en), t.expr(v.Value, en))
	case *ast.CompositeLit:
		var p Prog = Skip{}
		for _, x := range v.Elts {
			p = seq(p, t.expr(x, en))
		}
		return p
	}
	return Skip{}
}

func (t *translator) exprs(es []ast.Expr, en env) Prog {
	var p Prog = Skip{}
	for _, e := range es {
		p = seq(p, t.expr(e, en))
	}
	return p
}

// escapes: does the statement contain control transfer or a defer (outside function literals)?
func escapes(n ast.Node) bool {
	found := false
	ast.Inspect(n, func(x ast.Node) bool {
		switch v := x.(type) {
		case *ast.FuncLit:
			return false
		case *ast.ReturnStmt, *ast.BranchStmt, *ast.DeferStmt:
			found = true
		case *ast.CallExpr:
			if id, ok := v.Fun.(*ast.Ident); ok && id.Name == "panic" {
				found = true
			}
		}
		return !found
	})
	return found
}

func skipK(env) Prog { return Skip{} }
func deadK(env) Prog { return nil }

func (t *translator) stmts(list []ast.Stmt, en env, k cont) Prog {
	if len(list) == 0 {
		return k(en)
	}
	return t.stmt(list[0], en, func(e env) Prog { return t.stmts(list[1:], e, k) })
}

func (t *translator) stmt(s ast.Stmt, en env, k cont) Prog {
	if s == nil {
		return k(en)
	}
	// statements without control transfer are translated locally (no duplication of k)
	if !escapes(s) {
		switch s.(type) {
		case *ast.IfStmt, *ast.ForStmt, *ast.RangeStmt, *ast.SwitchStmt, *ast.TypeSwitchStmt, *ast.SelectStmt, *ast.BlockStmt:
			local := en
			local.onReturn, local.onBreak, local.onContinue = deadK, skipK, skipK
			p := t.stmtCPS(s, local, skipK)
			return seq(p, k(en))
		}
	}
	return t.stmtCPS(s, en, k)
}

func (t *translator) stmtCPS(s ast.Stmt, en env, k cont) Prog {
	switch v := s.(type) {
	case *ast.ExprStmt:
		if c, ok := v.X.(*ast.CallExpr); ok {
			if id, ok := c.Fun.(*ast.Ident); ok && id.Name == "panic" {
				return seq(t.exprs(c.Args, en), en.onReturn(en))
			}
		}
		return seq(t.expr(v.X, en), k(en))
	case *ast.AssignStmt:
		return seq(seq(t.exprs(v.Rhs, en), t.exprs(v.Lhs, en)), k(en))
	case *ast.DeclStmt:
		var p Prog = Skip{}
		if gd, ok := v.Decl.(*ast.GenDecl); ok {
			for _, sp := range gd.Specs {
				if vs, ok := sp.(*ast.ValueSpec); ok {
					p = seq(p, t.exprs(vs.Values, en))
				}
			}
		}
		return seq(p, k(en))
	case *ast.IncDecStmt:
		return seq(t.expr(v.X, en), k(en))
	case *ast.SendStmt:
		return seq(seq(t.expr(v.Chan, en), t.expr(v.Value, en)), k(en))
	case *ast.EmptyStmt:
		return k(en)
	case *ast.GoStmt:
		// a new goroutine: its body is a separate thread, extracted on its own (ticker)
		return seq(t.exprs(v.Call.Args, en), k(en))
	case *ast.LabeledStmt:
		return t.stmt(v.Stmt, en, k)
	case *ast.BlockStmt:
		return t.stmts(v.List, en, k)
	case *ast.ReturnStmt:
		return seq(t.exprs(v.Results, en), en.onReturn(en))
	case *ast.BranchStmt:
		if v.Label != nil || v.Tok == token.GOTO || v.Tok == token.FALLTHROUGH {
			t.fail(v.Pos(), "unsupported branch statement %s", v.Tok)
			return nil
		}
		if v.Tok == token.BREAK {
			return en.onBreak(en)
		}
		return en.onContinue(en)
	case *ast.DeferStmt:
		if en.inLoop {
			t.fail(v.Pos(), "defer inside a loop is not supported")
			return nil
		}
		d := t.call(v.Call, en)
		e2 := en
		e2.defers = append(append([]Prog{}, en.defers...), d)
		return k(e2)
	case *ast.IfStmt:
		return t.stmt(v.Init, en, func(e env) Prog {
			cond := t.expr(v.Cond, e)
			thenP := t.stmts(v.Body.List, e, k)
			var elseP Prog
			if v.Else != nil {
				elseP = t.stmt(v.Else, e, k)
			} else {
				elseP = k(e)
			}
			return seq(cond, branch(thenP, elseP))
		})
	case *ast.ForStmt:
		return t.stmt(v.Init, en, func(e env) Prog {
			cond := t.expr(v.Cond, e)
			post := func(e2 env) Prog { return t.stmt(v.Post, e2, skipK) }
			return seq(cond, t.loopBody(v.Body, e, func(e2 env) Prog { return seq(post(e2), t.expr(v.Cond, e2)) }, v.Cond == nil, k))
		})
	case *ast.RangeStmt:
		return seq(t.expr(v.X, en), t.loopBody(v.Body, en, skipK, false, k))
	case *ast.SwitchStmt:
		return t.stmt(v.Init, en, func(e env) Prog {
			return seq(t.expr(v.Tag, e), t.clauses(v.Body, e, k, true))
		})
	case *ast.TypeSwitchStmt:
		return t.stmt(v.Init, en, func(e env) Prog {
			return t.stmt(v.Assign, e, func(e2 env) Prog { return t.clauses(v.Body, e2, k, true) })
		})
	case *ast.SelectStmt:
		return t.clauses(v.Body, en, k, false)
	}
	t.fail(s.Pos(), "unsupported statement %T", s)
	return nil
}

// loopBody: zero or more iterations that complete normally, then either the loop is left
// (unless it has no condition) or one more iteration runs that escapes through return / break
// (its normally completing paths are followed by leaving the loop, which over-approximates).
func (t *translator) loopBody(body *ast.BlockStmt, en env, after cont, infinite bool, k cont) Prog {
	normal := en
	normal.inLoop = true
	normal.onReturn, normal.onBreak = deadK, deadK
	normal.onContinue = after
	bodyN := t.stmts(body.List, normal, after)
	var leave Prog
	if !infinite {
		leave = k(en)
	}
	if !escapes(body) {
		if infinite {
			// for { } without any way out: what follows is unreachable
			return seq(loop(bodyN), Skip{})
		}
		return seq(loop(bodyN), leave)
	}
	esc := en
	esc.inLoop = true
	esc.onBreak = func(e env) Prog { return k(en) }
	esc.onContinue = deadK
	bodyE := t.stmts(body.List, esc, deadK)
	return seq(loop(bodyN), branch(leave, bodyE))
}

func (t *translator) clauses(body *ast.BlockStmt, en env, k cont, isSwitch bool) Prog {
	inner := en
	inner.onBreak = func(e env) Prog { return k(en) }
	var all Prog
	var pre Prog = Skip{}
	hasDefault := false
	for _, c := range body.List {
		switch cc := c.(type) {
		case *ast.CaseClause:
			if cc.List == nil {
				hasDefault = true
			}
			pre = seq(pre, t.exprs(cc.List, en))
			all = branch(all, t.stmts(cc.Body, inner, k))
		case *ast.CommClause:
			if cc.Comm == nil {
				hasDefault = true
			}
			all = branch(all, t.stmt(cc.Comm, inner, func(e env) Prog { return t.stmts(cc.Body, e, k) }))
		}
	}
	if isSwitch && !hasDefault {
		all = branch(all, k(en))
	}
	_ = hasDefault
	return seq(pre, all)
}

// ---------------------------------------------------------------------------------------
// entry points
// ---------------------------------------------------------------------------------------

// statementEntryPoints: the functions Session.ExecQuery calls with s.RelationService.
func statementEntryPoints(src *source) ([]string, error) {
	fd, ok := src.funcs["engine.Session.ExecQuery"]
	if !ok {
		return nil, fmt.Errorf("engine.Session.ExecQuery not found")
	}
	recv := ""
	if len(fd.Recv.List[0].Names) > 0 {
		recv = fd.Recv.List[0].Names[0].Name
	}
	seen := map[string]bool{}
	var out []string
	ast.Inspect(fd.Body, func(n ast.Node) bool {
		c, ok := n.(*ast.CallExpr)
		if !ok {
			return true
		}
		id, ok := c.Fun.(*ast.Ident)
		if !ok {
			return true
		}
		for _, a := range c.Args {
			if sel, ok := a.(*ast.SelectorExpr); ok && sel.Sel.Name == "RelationService" {
				if x, ok := sel.X.(*ast.Ident); ok && x.Name == recv {
					if _, ok := src.funcs["engine."+id.Name]; ok && !seen[id.Name] {
						seen[id.Name] = true
						out = append(out, id.Name)
					}
				}
			}
		}
		return true
	})
	return out, nil
}

func protoName(fn string) string {
	return "proto_" + strings.ToLower(strings.TrimPrefix(fn, "Evaluate"))
}

func main() {
	repo := flag.String("repo", "/repo", "path of the mkdb working tree")
	out := flag.String("out", "/verif/coq/Gen", "output directory for Protocol.v")
	flag.Parse()

	src := &source{fset: token.NewFileSet(), funcs: map[string]*ast.FuncDecl{}, classes: map[string]string{}}
	for _, d := range [][2]string{{"engine", "engine"}, {"storage", "storage"}} {
		if err := src.loadDir(filepath.Join(*repo, d[0]), d[1]); err != nil {
			fmt.Fprintln(os.Stderr, "gen_protocol:", err)
			os.Exit(1)
		}
	}
	t := &translator{src: src, memo: map[string]Prog{}}

	entries, err := statementEntryPoints(src)
	if err != nil {
		fmt.Fprintln(os.Stderr, "gen_protocol:", err)
		os.Exit(1)
	}
	have := map[string]bool{}
	for _, e := range entries {
		have[e] = true
	}
	for _, want := range []string{"EvaluateSelect", "EvaluateInsert", "EvaluateUpdate", "EvaluateDelete", "EvaluateCreateTable"} {
		if !have[want] {
			fmt.Fprintf(os.Stderr, "gen_protocol: Session.ExecQuery no longer dispatches to %s with s.RelationService\n", want)
			os.Exit(1)
		}
	}

	type def struct {
		name, origin string
		p            Prog
	}
	var stmtDefs, otherDefs []def
	for _, e := range entries {
		stmtDefs = append(stmtDefs, def{protoName(e), "engine." + e, t.inlineDecl("engine." + e)})
	}
	need := func(key string) *ast.FuncDecl {
		fd, ok := src.funcs[key]
		if !ok {
			fmt.Fprintf(os.Stderr, "gen_protocol: %s not found\n", key)
			os.Exit(1)
		}
		return fd
	}
	need("storage.fileStore.flushPages")
	need("storage.fileStore.close")
	need("storage.RelationService.Close")
	otherDefs = append(otherDefs, def{"proto_flush", "storage.fileStore.flushPages", t.inlineDecl("storage.fileStore.flushPages")})
	otherDefs = append(otherDefs, def{"proto_close", "storage.RelationService.Close (wal.close, fileStore.close)", t.inlineDecl("storage.RelationService.Close")})
	// Session.Close is what the session thread runs at the end
	if _, ok := src.funcs["engine.Session.Close"]; ok {
		otherDefs = append(otherDefs, def{"proto_session_close", "engine.Session.Close", t.inlineDecl("engine.Session.Close")})
	}

	// ticker goroutine: the function literal started with `go` inside newFileStore
	nfs := need("storage.newFileStore")
	var tick Prog
	nGo := 0
	{
		// the locals of newFileStore (fs := &fileStore{...}) are visible inside the literal
		tracked := map[string]kind{}
		ast.Inspect(nfs.Body, func(n ast.Node) bool {
			as, ok := n.(*ast.AssignStmt)
			if !ok || as.Tok != token.DEFINE || len(as.Lhs) != len(as.Rhs) {
				return true
			}
			for i, r := range as.Rhs {
				id, ok := as.Lhs[i].(*ast.Ident)
				if !ok {
					continue
				}
				if u, ok := r.(*ast.UnaryExpr); ok && u.Op == token.AND {
					r = u.X
				}
				if cl, ok := r.(*ast.CompositeLit); ok && cl.Type != nil {
					if k := typeKind(cl.Type); k != kNone {
						tracked[id.Name] = k
					}
				}
			}
			return true
		})
		ast.Inspect(nfs.Body, func(n ast.Node) bool {
			g, ok := n.(*ast.GoStmt)
			if !ok {
				return true
			}
			nGo++
			if fl, ok := g.Call.Fun.(*ast.FuncLit); ok {
				tick = t.function("storage", fl.Type, nil, fl.Body, tracked)
			} else {
				t.fail(g.Pos(), "go statement does not start a function literal")
			}
			return false
		})
	}
	if nGo != 1 {
		fmt.Fprintf(os.Stderr, "gen_protocol: expected exactly one go statement in newFileStore, found %d\n", nGo)
		os.Exit(1)
	}
	otherDefs = append(otherDefs, def{"proto_ticker", "storage.newFileStore: go func(){...}()", tick})

	for _, d := range append(append([]def{}, stmtDefs...), otherDefs...) {
		if d.p == nil {
			t.fail(token.NoPos, "%s: no path reaches the end of %s", d.name, d.origin)
		} else if hasRec(d.p) {
			t.fail(token.NoPos, "%s: unresolved recursion", d.name)
		}
	}
	if len(t.errs) > 0 {
		for _, e := range t.errs {
			fmt.Fprintln(os.Stderr, "gen_protocol:", e)
		}
		os.Exit(1)
	}

	var b bytes.Buffer
	b.WriteString("(* GENERATED by tools/gen_protocol from the Go sources (engine/, storage/). Do not edit. *)\n")
	b.WriteString("From Coq Require Import String List.\nFrom Mkdb Require Import Model.Prog.\nImport ListNotations.\nOpen Scope string_scope.\n\n")
	b.WriteString("(* classification of the calls met on tracked receivers:\n")
	keys := []string{}
	for k := range src.classes {
		keys = append(keys, k)
	}
	sort.Strings(keys)
	for _, k := range keys {
		fmt.Fprintf(&b, "     %-40s %s\n", k, src.classes[k])
	}
	b.WriteString("*)\n\n")
	for _, d := range append(append([]def{}, stmtDefs...), otherDefs...) {
		fmt.Fprintf(&b, "(* %s\n   %s *)\nDefinition %s : prog :=\n  %s.\n\n", d.origin, compact(d.p), d.name, render(d.p))
	}
	b.WriteString("Definition all_statement_protocols : list (string * prog) :=\n  [")
	for i, d := range stmtDefs {
		if i > 0 {
			b.WriteString(";\n   ")
		}
		fmt.Fprintf(&b, "(\"%s\", %s)", strings.TrimPrefix(d.name, "proto_"), d.name)
	}
	b.WriteString("].\n")

	path := filepath.Join(*out, "Protocol.v")
	old, _ := os.ReadFile(path)
	changed := !bytes.Equal(old, b.Bytes())
	if changed {
		if err := os.MkdirAll(*out, 0755); err != nil {
			fmt.Fprintln(os.Stderr, "gen_protocol:", err)
			os.Exit(1)
		}
		if err := os.WriteFile(path, b.Bytes(), 0644); err != nil {
			fmt.Fprintln(os.Stderr, "gen_protocol:", err)
			os.Exit(1)
		}
	}
	// static census of the file I/O sites of package storage and what each function can reach
	cen, err := census(filepath.Join(*repo, "storage"))
	if err != nil {
		fmt.Fprintln(os.Stderr, "gen_protocol:", err)
		os.Exit(1)
	}
	ioChanged, err := writeIoSites(cen, src.classes, *out)
	if err != nil {
		fmt.Fprintln(os.Stderr, "gen_protocol:", err)
		os.Exit(1)
	}
	changed = changed || ioChanged
	for _, s := range cen.sites {
		fmt.Printf("IOSITE %s %s %s %s:%d\n", s.Target, s.Fn, s.Method, filepath.Base(s.Pos.Filename), s.Pos.Line)
	}
	for _, s := range cen.escapes {
		fmt.Printf("IOESCAPE %s %s %s %s:%d\n", s.Target, s.Fn, s.Method, filepath.Base(s.Pos.Filename), s.Pos.Line)
	}
	// machine-readable summary on stdout (tools/props/c13.py puts it into the evidence)
	for _, d := range append(append([]def{}, stmtDefs...), otherDefs...) {
		fmt.Printf("PROTO %s = %s\n", d.name, compact(d.p))
	}
	for _, k := range keys {
		fmt.Printf("CLASS %s %s\n", k, src.classes[k])
	}
	fmt.Printf("CHANGED %v\n", changed)
}
