module genprotocol

go 1.18
