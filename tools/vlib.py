"""Shared machinery for the mkdb verification checks (see DESIGN.md section 5).

Every check = (1) regenerate Gen/*.v from /repo and rebuild the Coq development,
(2) hygiene + Print Assumptions on the property file, (3) build the Go drivers from /repo's
working tree (overlay, -tags verif), run seeded cases on the real code, (4) evaluate the model
and the property oracle on the same cases inside Coq (vm_compute), (5) verdict, (6) evidence.
"""
import fcntl
import hashlib
import json
import os
import random
import re
import shutil
import subprocess
import sys
import tempfile
import time
from concurrent.futures import ThreadPoolExecutor

VERIF = os.path.dirname(os.path.dirname(os.path.abspath(__file__)))
REPO = os.environ.get("VERIF_REPO", "/repo")
COQ = os.path.join(VERIF, "coq")
BUILD = os.path.join(VERIF, "build")
if os.path.realpath(REPO) != "/repo":
    # a scratch copy of the repository (sanity tests): keep its binaries apart
    BUILD = os.path.join(VERIF, "build", "alt_" + hashlib.sha1(os.path.realpath(REPO).encode()).hexdigest()[:8])
# evidence and replays of runs against a scratch repository never overwrite the real ones
if os.path.realpath(REPO) == "/repo":
    EVID = os.path.join(VERIF, "evidence")
else:
    EVID = os.path.join(BUILD, "evidence")
REPLAYS = os.path.join(EVID, "replays")

GOENV = dict(os.environ, GOFLAGS="-mod=mod", GOPROXY="off", GOSUMDB="off", GOTOOLCHAIN="local",
             CGO_ENABLED=os.environ.get("CGO_ENABLED", "0"))

HARNESS_PKGS = {  # harness dir -> package path inside /repo
    "storage": "storage",
    "engine": "engine",
    "sql": "sql",
    "console": "cmd/console",
    "csvimport": "cmd/csvimport",
}

FORBIDDEN = re.compile(
    r"\bAdmitted\b|\badmit\b|\bAxiom\b|\bAxioms\b|\bParameter\b|\bParameters\b|\bConjecture\b|"
    r"\bAdmit Obligations\b|Unset Guard Checking|bypass_check|Unset Positivity|Unset Universe Checking|"
    r"type-in-type|impredicative-set|\bnative_compute\b")

TRUSTED_BASE = [
    "Coq 8.16.1 kernel (coqc); vm_compute bytecode VM; no native_compute",
    "axioms: none (Print Assumptions: Closed under the global context) unless listed in 'assumptions_printed'",
    "hand-written Gallina model of the anchored Go code (coq/Model/*.v): modelled, not verified",
    "correspondence harness: Go overlay drivers (/verif/harness), Python generators and verdict logic (/verif/tools)",
    "translator tools/gen_params (Go go/parser+go/types) producing coq/Gen/Params.v",
    "Go toolchain 1.26 building /repo's working tree",
]


def log(*a):
    print(*a, file=sys.stderr, flush=True)


def sh(cmd, cwd=None, env=None, timeout=None, check=False):
    p = subprocess.run(cmd, cwd=cwd, env=env, timeout=timeout, stdout=subprocess.PIPE,
                       stderr=subprocess.STDOUT, text=True, errors="replace")
    if check and p.returncode != 0:
        raise RuntimeError("command failed: %s\n%s" % (cmd, p.stdout[-4000:]))
    return p.returncode, p.stdout


# --------------------------------------------------------------------------------------
# Coq side
# --------------------------------------------------------------------------------------

class CoqBuild:
    def __init__(self):
        self.ok = True
        self.failed_files = []   # .v files that failed to compile
        self.log = ""
        self.wall = 0.0


def coq_project_files():
    out = []
    for line in open(os.path.join(COQ, "_CoqProject")):
        line = line.strip()
        if line.endswith(".v"):
            out.append(line)
    return out


def regenerate_gen():
    """Run the translators; they rewrite Gen/*.v only if content changed."""
    gen = os.path.join(VERIF, "tools", "gen_params")
    if not os.path.isdir(gen):
        return True, ""
    rc, out = sh(["go", "run", ".", "-repo", REPO, "-out", os.path.join(COQ, "Gen")],
                 cwd=gen, env=GOENV, timeout=300)
    return rc == 0, out


def build_coq(jobs=16, timeout=3000, only=None):
    """make the development (or only the .vo files of `only`, a list of .v paths: the cone of
    one property) under a lock; keep going so that unrelated failures do not mask each other;
    returns CoqBuild."""
    os.makedirs(BUILD, exist_ok=True)
    res = CoqBuild()
    t0 = time.time()
    with open(os.path.join(VERIF, "build", "coq.lock"), "w") as lk:
        fcntl.flock(lk, fcntl.LOCK_EX)
        ok, out = regenerate_gen()
        if not ok:
            res.ok = False
            res.log = "translator failed:\n" + out
            res.failed_files = ["Gen/Params.v"]
            return res
        mk = os.path.join(COQ, "Makefile")
        cp = os.path.join(COQ, "_CoqProject")
        if not os.path.exists(mk) or os.path.getmtime(mk) < os.path.getmtime(cp):
            sh(["coq_makefile", "-f", "_CoqProject", "-o", "Makefile"], cwd=COQ, check=True)
        targets = [f[:-2] + ".vo" for f in only] if only else []
        rc, out = sh(["timeout", str(timeout), "make", "-k", "-j%d" % jobs] + targets, cwd=COQ, timeout=timeout + 60)
        res.log = out
        if rc != 0:
            res.ok = False
            for m in re.finditer(r'File "\./([^"]+\.v)", line \d+', out):
                if m.group(1) not in res.failed_files:
                    res.failed_files.append(m.group(1))
            for m in re.finditer(r"\*\*\* \[[^\]]*?([A-Za-z0-9_/]+)\.vo\]", out):
                f = m.group(1) + ".v"
                if f not in res.failed_files:
                    res.failed_files.append(f)
            # anything whose .vo is missing or stale
            for f in (only or coq_project_files()):
                vo = os.path.join(COQ, f[:-2] + ".vo")
                src = os.path.join(COQ, f)
                if not os.path.exists(vo) or os.path.getmtime(vo) < os.path.getmtime(src):
                    if f not in res.failed_files:
                        res.failed_files.append(f)
    res.wall = time.time() - t0
    return res


_REQ = re.compile(r"From\s+Mkdb\s+Require\s+(?:Import|Export)\s+([^.]*(?:\.[A-Za-z_][^.\s]*)*)\s*\.", re.S)


def coq_deps(vfile):
    """direct Mkdb dependencies of a .v file (relative path inside coq/)."""
    txt = open(os.path.join(COQ, vfile)).read()
    deps = []
    for m in re.finditer(r"From\s+Mkdb\s+Require\s+(?:Import|Export)\s+(.*?)\.\s", txt, re.S):
        for mod in m.group(1).split():
            p = mod.replace(".", "/") + ".v"
            if os.path.exists(os.path.join(COQ, p)):
                deps.append(p)
    for m in re.finditer(r"Require\s+(?:Import|Export)\s+(Mkdb\.[A-Za-z0-9_.]+)", txt):
        p = m.group(1)[len("Mkdb."):].replace(".", "/") + ".v"
        if os.path.exists(os.path.join(COQ, p)):
            deps.append(p)
    return deps


def coq_cone(vfiles):
    seen = []
    todo = list(vfiles)
    while todo:
        f = todo.pop()
        if f in seen:
            continue
        seen.append(f)
        todo.extend(coq_deps(f))
    return sorted(seen)


_STMT = re.compile(r"^\s*(?:Local\s+|Global\s+)?(Lemma|Theorem|Corollary|Fact|Proposition|Example|Remark)\s+([A-Za-z0-9_']+)", re.M)


def strip_comments(txt):
    out = []
    depth = 0
    i = 0
    while i < len(txt):
        if txt.startswith("(*", i):
            depth += 1
            i += 2
        elif txt.startswith("*)", i) and depth > 0:
            depth -= 1
            i += 2
        else:
            if depth == 0:
                out.append(txt[i])
            i += 1
    return "".join(out)


def count_obligations(cone, failed):
    """number of proved statements in the cone; those in files that failed count as undischarged."""
    total = 0
    done = 0
    names = []
    for f in cone:
        txt = strip_comments(open(os.path.join(COQ, f)).read())
        n = [m.group(2) for m in _STMT.finditer(txt)]
        total += len(n)
        if f not in failed:
            done += len(n)
        names.extend(n)
    return total, done, names


def hygiene(cone):
    bad = []
    for f in cone:
        txt = strip_comments(open(os.path.join(COQ, f)).read())
        for m in FORBIDDEN.finditer(txt):
            bad.append("%s: %s" % (f, m.group(0)))
    # _CoqProject / Makefile flags
    cp = open(os.path.join(COQ, "_CoqProject")).read()
    if re.search(r"type-in-type|impredicative-set|-vos|-noinit", cp):
        bad.append("_CoqProject: forbidden flag")
    return bad


def print_assumptions(prop_vfile, timeout=900):
    """Re-compile the property file (its dependencies are built) and parse the output of every
    Print Assumptions in it. Returns (ok, n_closed, axioms_listed, raw)."""
    # the output of compiling the property file is reused as long as its .vo (which `make` has just brought
    # up to date with every source it depends on) is the one the output was produced with
    vo = os.path.join(COQ, prop_vfile[:-2] + ".vo")
    cache = os.path.join(BUILD, "pa_cache", prop_vfile.replace("/", "_") + ".json")
    stamp = None
    try:
        st = os.stat(vo)
        stamp = [st.st_mtime_ns, st.st_size, os.stat(os.path.join(COQ, prop_vfile)).st_mtime_ns]
        c = json.load(open(cache))
        if c.get("stamp") == stamp and c.get("rc") == 0:
            rc, out = 0, c["out"]
            stamp = None          # nothing to store
        else:
            raise KeyError
    except (OSError, ValueError, KeyError):
        rc, out = sh(["timeout", str(timeout), "coqc", "-R", ".", "Mkdb", prop_vfile], cwd=COQ, timeout=timeout + 30)
        try:
            st = os.stat(vo)          # coqc rewrote the .vo
            stamp = [st.st_mtime_ns, st.st_size, os.stat(os.path.join(COQ, prop_vfile)).st_mtime_ns]
            os.makedirs(os.path.dirname(cache), exist_ok=True)
            json.dump({"stamp": stamp, "rc": rc, "out": out}, open(cache, "w"))
        except OSError:
            pass
    n_closed = out.count("Closed under the global context")
    axioms = []
    for m in re.finditer(r"^Axioms:\n((?:.+\n?)+?)(?=\n|\Z)", out, re.M):
        axioms.append(m.group(1).strip())
    if "Axioms:" in out and not axioms:
        axioms.append(out[out.index("Axioms:"):][:2000])
    return rc == 0, n_closed, axioms, out


def coqchk(prop_vfiles, timeout=3000):
    """Independent re-check (coqchk) of the compiled property files and everything they depend on.
    Returns (ok, summary dict, raw tail)."""
    mods = ["Mkdb." + f[:-2].replace("/", ".") for f in prop_vfiles]
    with open(os.path.join(VERIF, "build", "coq.lock"), "w") as lk:
        fcntl.flock(lk, fcntl.LOCK_EX)
        rc, out = sh(["timeout", str(timeout), "coqchk", "-silent", "-o", "-R", ".", "Mkdb"] + mods, cwd=COQ, timeout=timeout + 60)
    summ = {}
    for key, label in (("axioms", "Axioms"), ("type_in_type", "Constants/Inductives relying on type-in-type"),
                       ("unsafe_fixpoints", "Constants/Inductives relying on unsafe (co)fixpoints"),
                       ("assumed_positivity", "Inductives whose positivity is assumed")):
        m = re.search(r"\* %s:(.*?)(?=\n\* |\Z)" % re.escape(label), out, re.S)
        summ[key] = " ".join(m.group(1).split()) if m else "?"
    ok = rc == 0 and all(v == "<none>" for v in summ.values())
    return ok, summ, out[-1500:]


def count_print_assumptions(prop_vfile):
    txt = strip_comments(open(os.path.join(COQ, prop_vfile)).read())
    return len(re.findall(r"Print\s+Assumptions", txt))


def _parse_def(out, name):
    """parse `name = [a; b; ...]` (possibly wrapped) printed by `Print name.` -> list of ints"""
    m = re.search(r"^%s\s*=\s*(.*?)\n\s*:\s" % re.escape(name), out, re.S | re.M)
    if not m:
        return None
    body = m.group(1)
    return [int(x) for x in re.findall(r"\d+", body)]


def run_coq_text(name, text, timeout=1800):
    d = os.path.join(BUILD, "cases", name)
    os.makedirs(d, exist_ok=True)
    path = os.path.join(d, "cases.v")
    with open(path, "w") as f:
        f.write(text)
    rc, out = sh(["timeout", str(timeout), "coqc", "-noglob", "-R", COQ, "Mkdb", "-Q", d, "Cases", path], cwd=d, timeout=timeout + 30)
    # the compiled case file is of no further use (only the printed result is)
    for ext in (".vo", ".vok", ".vos", ".glob"):
        try:
            os.remove(os.path.join(d, "cases" + ext))
        except OSError:
            pass
    return rc, out


def run_coq_cases(name, header, case_terms, ctype, defs, shard=400, timeout=1800):
    """Evaluate boolean functions over a list of case terms.
    header: Coq text (imports, helper definitions)
    case_terms: list of Coq terms (strings), one per case
    ctype: Coq type of a case
    defs: dict NAME -> Coq function (case -> bool); for each the indices of failing cases are returned
    Returns (ok, {NAME: [global indices]}, raw_log)."""
    # shards of at most `shard` cases and about 4 MB of text (coqc's memory grows with the size of the
    # literal: a 45 MB case file needs more than 10 GB)
    shards, starts, cur, size = [], [], [], 0
    for k, t in enumerate(case_terms):
        if cur and (len(cur) >= shard or size + len(t) > 4000000):
            shards.append(cur)
            cur, size = [], 0
        if not cur:
            starts.append(k)
        cur.append(t)
        size += len(t)
    if cur or not shards:
        if not cur:
            starts.append(0)
        shards.append(cur)

    def one(i):
        terms = shards[i]
        buf = [header, "\nDefinition cases : list (%s) := [\n" % ctype]
        buf.append(";\n".join(terms))
        buf.append("\n].\n")
        for nm, fn in defs.items():
            buf.append("Definition %s := Eval vm_compute in bad_idx (%s) cases.\nPrint %s.\n" % (nm, fn, nm))
        return run_coq_text("%s_%d" % (name, i), "".join(buf), timeout)

    results = {nm: [] for nm in defs}
    ok = True
    logs = []
    with ThreadPoolExecutor(max_workers=min(12, len(shards))) as ex:
        outs = list(ex.map(one, range(len(shards))))
    for i, (rc, out) in enumerate(outs):
        if rc != 0:
            ok = False
            logs.append("shard %d: coqc rc=%d\n%s" % (i, rc, out[-3000:]))
            continue
        for nm in defs:
            idx = _parse_def(out, nm)
            if idx is None:
                ok = False
                logs.append("shard %d: cannot parse %s\n%s" % (i, nm, out[-2000:]))
            else:
                results[nm].extend(starts[i] + j for j in idx)
    return ok, results, "\n".join(logs)


# --------------------------------------------------------------------------------------
# Coq literal helpers
# --------------------------------------------------------------------------------------

def cq_list(items):
    return "[" + "; ".join(items) + "]"


def cq_bool(b):
    return "true" if b else "false"


def cq_N(n):
    return "%d%%N" % n


def cq_Z(n):
    return "(%d)%%Z" % n


def cq_nat(n):
    assert n < 5000
    return "%d%%nat" % n


def cq_opt(x):
    return "None" if x is None else "(Some %s)" % x


def cq_bytes(bs):
    """list of N literals for a byte string"""
    return "[" + ";".join("%d" % b for b in bs) + "]%N"


def cq_string(s):
    """Coq string literal from python str restricted to bytes<128 printable; others escaped via ascii codes"""
    if all(32 <= ord(ch) < 127 and ch != '"' for ch in s):
        return '"%s"%%string' % s
    parts = []
    for b in s.encode("latin-1", "replace"):
        parts.append("(String (ascii_of_nat %d) " % b)
    return "".join(parts) + "EmptyString" + ")" * len(parts)


# --------------------------------------------------------------------------------------
# Go side
# --------------------------------------------------------------------------------------

def write_overlay():
    ov = {}
    for d, pkg in HARNESS_PKGS.items():
        hd = os.path.join(VERIF, "harness", d)
        if not os.path.isdir(hd):
            continue
        for f in sorted(os.listdir(hd)):
            if f.endswith(".go"):
                ov[os.path.join(REPO, pkg, f)] = os.path.join(hd, f)
    os.makedirs(BUILD, exist_ok=True)
    path = os.path.join(BUILD, "overlay.json")
    with open(path, "w") as f:
        json.dump({"Replace": ov}, f, indent=1)
    return path


def build_go(harness_dir, race=False, timeout=900, cover=False):
    """go test -c of /repo's package with the harness overlaid. Returns (ok, binary, log).
    cover: instrument every package of /repo for statement coverage (thorough tier: which parts of
    the code did the correspondence runs of this property execute)."""
    ov = write_overlay()
    pkg = HARNESS_PKGS[harness_dir]
    binp = os.path.join(BUILD, "%s%s.test" % (harness_dir, "_race" if race else "_cover" if cover else ""))
    env = dict(GOENV)
    cmd = ["go", "test", "-c", "-overlay", ov, "-tags", "verif", "-vet=off", "-o", binp]
    if race:
        cmd.insert(3, "-race")
        env["CGO_ENABLED"] = "1"
    elif cover:
        # go's cover tool does not read files added through -overlay: build in a scratch copy of the
        # working tree of /repo (outside /repo and /verif, removed at once) with the harness files copied in
        scratch = tempfile.mkdtemp(prefix="verif_coverrepo_")
        try:
            sh(["rsync", "-a", "--exclude", ".git", REPO + "/", scratch + "/"], check=True)
            for d, p2 in HARNESS_PKGS.items():
                hd = os.path.join(VERIF, "harness", d)
                for f in sorted(os.listdir(hd)) if os.path.isdir(hd) else []:
                    if f.endswith(".go"):
                        shutil.copy(os.path.join(hd, f), os.path.join(scratch, p2, f))
            cmd = ["go", "test", "-c", "-cover", "-covermode=set", "-coverpkg=github.com/mk6i/mkdb/...",
                   "-tags", "verif", "-vet=off", "-o", binp, "./" + pkg]
            rc, out = sh(cmd, cwd=scratch, env=env, timeout=timeout)
            return rc == 0, binp, out
        finally:
            shutil.rmtree(scratch, ignore_errors=True)
    cmd.append("./" + pkg)
    with open(os.path.join(BUILD, "go_%s.lock" % harness_dir), "w") as lk:
        fcntl.flock(lk, fcntl.LOCK_EX)
        rc, out = sh(cmd, cwd=REPO, env=env, timeout=timeout)
    return rc == 0, binp, out


import itertools
_cover_seq = itertools.count()


def coverage_summary(cdir, anchor_files):
    """merge the coverage profiles of a run (mode set) and summarise: statements executed per /repo file,
    and the functions of the property's anchor files no statement of which was executed."""
    blocks = {}
    for fn in os.listdir(cdir) if os.path.isdir(cdir) else []:
        with open(os.path.join(cdir, fn)) as f:
            for line in f:
                if line.startswith("mode:") or not line.strip():
                    continue
                m = re.match(r"(.+):(\d+)\.(\d+),(\d+)\.(\d+) (\d+) (\d+)$", line.strip())
                if not m:
                    continue
                key = (m.group(1), int(m.group(2)), int(m.group(3)), int(m.group(4)), int(m.group(5)), int(m.group(6)))
                blocks[key] = blocks.get(key, 0) + int(m.group(7))
    if not blocks:
        return None
    per_file = {}
    for (f, l1, c1, l2, c2, n), cnt in blocks.items():
        rel = f.split("github.com/mk6i/mkdb/")[-1]
        if "zz_verif" in rel:
            continue
        t = per_file.setdefault(rel, [0, 0])
        t[1] += n
        if cnt:
            t[0] += n
    # functions without any executed statement, in the anchor files
    untouched = []
    for rel in sorted(per_file):
        if rel not in anchor_files:
            continue
        path = os.path.join(REPO, rel)
        try:
            src = open(path).read().split("\n")
        except OSError:
            continue
        funcs = [(i + 1, re.match(r"func (\([^)]*\) )?([A-Za-z0-9_]+)", l).group(2)) for i, l in enumerate(src) if l.startswith("func ")]
        for k, (ln, name) in enumerate(funcs):
            end = funcs[k + 1][0] - 1 if k + 1 < len(funcs) else len(src)
            tot = hit = 0
            for (f, l1, c1, l2, c2, n), cnt in blocks.items():
                if f.endswith("/" + rel) or f.endswith(rel):
                    if ln <= l1 <= end:
                        tot += n
                        hit += n if cnt else 0
            if tot and not hit:
                untouched.append("%s:%s" % (rel, name))
    return {"statements_executed_per_file": {k: "%d/%d" % (v[0], v[1]) for k, v in sorted(per_file.items()) if v[0]},
            "anchor_files": {k: "%d/%d" % (per_file[k][0], per_file[k][1]) for k in sorted(per_file) if k in anchor_files},
            "anchor_functions_never_executed": untouched}


def run_driver(binp, mode, inputs, timeout=1200, extra_env=None, workdir=None):
    """Run one driver mode over JSON-able inputs; returns (ok, outputs(list of json), log).
    The driver runs in a fresh temp dir (the storage package writes ./data)."""
    wd = workdir or tempfile.mkdtemp(prefix="verif_run_")
    try:
        inp = os.path.join(wd, "in.jsonl")
        outp = os.path.join(wd, "out.jsonl")
        with open(inp, "w") as f:
            for c in inputs:
                f.write(json.dumps(c, separators=(",", ":")) + "\n")
        env = dict(os.environ, VERIF_MODE=mode, VERIF_IN=inp, VERIF_OUT=outp)
        if extra_env:
            env.update(extra_env)
        args = [binp, "-test.run", "^TestVerifDriver$", "-test.timeout", "%ds" % timeout]
        cdir = os.environ.get("VERIF_COVERDIR")
        if cdir and binp.endswith("_cover.test"):
            os.makedirs(cdir, exist_ok=True)
            args.append("-test.coverprofile=" + os.path.join(cdir, "p%d_%d.out" % (os.getpid(), next(_cover_seq))))
        try:
            rc, out = sh(args, cwd=wd, env=env, timeout=timeout + 30)
        except subprocess.TimeoutExpired:
            return False, [], "driver timeout"
        outs = []
        if os.path.exists(outp):
            with open(outp) as f:
                for line in f:
                    line = line.strip()
                    if line:
                        try:
                            outs.append(json.loads(line))
                        except ValueError:
                            break      # a line cut short: the driver died while writing it (not answered)
        return rc == 0, outs, out
    finally:
        if workdir is None:
            shutil.rmtree(wd, ignore_errors=True)


def run_driver_resilient(binp, mode, inputs, **kw):
    """like run_driver, but a driver process that dies (fatal runtime error such as a stack overflow,
    which recover() cannot catch) costs only the case it was working on: that case gets the output
    {"_fatal": <log tail>} and the remaining cases are run in a new process."""
    outs = []
    todo = list(inputs)
    logs = []
    guard = 0
    while todo and guard < 50:
        guard += 1
        ok, got, lg = run_driver(binp, mode, todo, **kw)
        outs.extend(got)
        if ok and len(got) == len(todo):
            return True, outs, "\n".join(logs)
        if len(got) >= len(todo):
            return ok, outs, lg
        # the case after the last answered one killed the process
        tail = lg[-1500:]
        m = re.search(r"(fatal error: [^\n]*|panic: [^\n]*|signal: [^\n]*)", lg)
        outs.append({"_fatal": (m.group(1) if m else "driver process died") , "_log": tail})
        logs.append(tail)
        todo = todo[len(got) + 1:]
    return True, outs, "\n".join(logs)


def run_driver_parallel(binp, mode, inputs, nshards=8, **kw):
    resilient = kw.pop("resilient", False)
    runner = run_driver_resilient if resilient else run_driver
    if len(inputs) < 2 * nshards:
        return runner(binp, mode, inputs, **kw)
    size = (len(inputs) + nshards - 1) // nshards
    chunks = [inputs[i:i + size] for i in range(0, len(inputs), size)]
    with ThreadPoolExecutor(max_workers=len(chunks)) as ex:
        rs = list(ex.map(lambda c: runner(binp, mode, c, **kw), chunks))
    ok = all(r[0] for r in rs)
    outs = [o for r in rs for o in r[1]]
    return ok, outs, "\n".join(r[2] for r in rs if not r[0])


# --------------------------------------------------------------------------------------
# known findings, evidence, verdict
# --------------------------------------------------------------------------------------

def load_known():
    p = os.path.join(VERIF, "known_findings.json")
    if not os.path.exists(p):
        return {"open": [], "fixed": []}
    return json.load(open(p))


def write_replay(pid, payload):
    os.makedirs(REPLAYS, exist_ok=True)
    h = hashlib.sha1(json.dumps(payload, sort_keys=True, default=str).encode()).hexdigest()[:12]
    path = os.path.join(REPLAYS, "%s-%s.json" % (pid, h))
    with open(path, "w") as f:
        json.dump(payload, f, indent=1, default=str)
    return path


class Report:
    """collects what a run did; emits evidence + verdict"""

    def __init__(self, pid, tier, seed):
        self.pid = pid
        self.tier = tier
        self.seed = seed
        self.t0 = time.time()
        self.coverage = {}
        self.assumptions = []
        self.violations = []      # (replay_path, no_failing_input_found: bool, what)
        self.known = []           # strings
        self.notes = []

    def violation(self, payload, found_input, what=""):
        path = write_replay(self.pid, payload)
        self.violations.append((path, not found_input, what))

    def finish(self):
        os.makedirs(EVID, exist_ok=True)
        ev = {
            "property_id": self.pid,
            "tier": self.tier,
            "seed": self.seed,
            "level": "proof",
            "coverage": self.coverage,
            "assumptions": self.assumptions,
            "wall_s": round(time.time() - self.t0, 2),
            "violations": len(self.violations),
        }
        if self.notes:
            ev["coverage"]["notes"] = self.notes
        cov = ev["coverage"]
        # keep the schema's types whatever a property module put there
        if "exhaustive" in cov and not isinstance(cov["exhaustive"], bool):
            cov["exhaustive_scope"] = cov["exhaustive"]
            cov["exhaustive"] = False
        for k in ("evaluations", "distinct_nontrivial", "states", "transitions", "traces_validated_against_impl",
                  "obligations", "discharged", "programs", "disagreements_checked"):
            if k in cov and not isinstance(cov[k], int):
                try:
                    cov[k] = int(cov[k])
                except (TypeError, ValueError):
                    cov[k + "_note"] = cov.pop(k)
        if "samples" in cov and not isinstance(cov["samples"], list):
            cov["samples"] = [cov["samples"]]
        if not cov.get("samples"):
            cov["samples"] = [{"note": "no case was evaluated in this run (see violations)"}]
        if cov.get("obligations", 0) < 1:
            cov.setdefault("evaluations", 0)
        with open(os.path.join(EVID, "%s.json" % self.pid), "w") as f:
            json.dump(ev, f, indent=1, default=str)
        for k in self.known:
            print("KNOWN-FINDING: property=%s %s" % (self.pid, k))
        for path, nofail, what in self.violations:
            line = "VIOLATION property=%s replay=%s" % (self.pid, path)
            if what:
                log("  " + what)
            if nofail:
                line += " no-failing-input-found"
            print(line)
        sys.stdout.flush()
        return 1 if self.violations else 0


class Rng(random.Random):
    """single PRNG stream derived from VERIF_SEED"""

    def chance(self, p):
        return self.random() < p
