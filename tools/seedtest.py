#!/usr/bin/env python3
"""tools/seedtest.py <seed-id> <worktree-with-change> <seedout-dir> <PID> [<PID> ...]
Runs the quick checks of the given properties against a scratch worktree that carries a seeded
change (VERIF_REPO), records which checks raise a VIOLATION, and files the seed under
/verif/seeded/<seed-id>/ (patch.diff, demonstration, meta.json with the results)."""
import json
import os
import shutil
import subprocess
import sys
import time

V = os.path.dirname(os.path.dirname(os.path.abspath(__file__)))


def main():
    sid, wt, outdir = sys.argv[1:4]
    pids = sys.argv[4:]
    dest = os.path.join(V, "seeded", sid)
    os.makedirs(dest, exist_ok=True)
    for f in os.listdir(outdir):
        src = os.path.join(outdir, f)
        if os.path.isfile(src):
            shutil.copy(src, os.path.join(dest, f))
    meta_p = os.path.join(dest, "meta.json")
    meta = json.load(open(meta_p)) if os.path.exists(meta_p) else {}
    results = {}
    for pid in pids:
        t0 = time.time()
        env = dict(os.environ, VERIF_REPO=wt)
        p = subprocess.run([sys.executable, os.path.join(V, "tools", "check.py"), pid, "--tier", "quick"],
                           cwd=V, env=env, stdout=subprocess.PIPE, stderr=subprocess.STDOUT, text=True)
        lines = [l for l in p.stdout.splitlines() if l.startswith("VIOLATION") or l.startswith("KNOWN-FINDING")]
        viol = [l for l in lines if l.startswith("VIOLATION")]
        results[pid] = {"exit": p.returncode, "violations": viol[:3], "wall_s": round(time.time() - t0, 1),
                        "detected": p.returncode == 1 and bool(viol)}
        # keep the first replay next to the seed
        for l in viol[:1]:
            path = l.split("replay=")[1].split()[0]
            if os.path.exists(path):
                shutil.copy(path, os.path.join(dest, "replay_%s.json" % pid))
        print(pid, "DETECTED" if results[pid]["detected"] else "missed", results[pid]["wall_s"], "s", viol[:1])
    meta_now = json.load(open(meta_p)) if os.path.exists(meta_p) else {}
    prev = meta_now.get("checks_run", {})
    prev.update(results)
    meta["checks_run"] = prev
    if "confirmed" in meta_now:
        meta["confirmed"] = meta_now["confirmed"]
    meta["checked_at"] = time.strftime("%Y-%m-%dT%H:%M:%SZ", time.gmtime())
    json.dump(meta, open(meta_p, "w"), indent=1)
    # restore generated files for the real repository
    subprocess.run([sys.executable, "-c", "import sys; sys.path.insert(0, %r); import vlib; vlib.regenerate_gen()" % os.path.join(V, "tools")],
                   cwd=V)
    if "C13" in pids:
        # Gen/Protocol.v was regenerated from the scratch repository: put the real one back
        subprocess.run(["go", "run", ".", "-repo", "/repo", "-out", os.path.join(V, "coq", "Gen")],
                       cwd=os.path.join(V, "tools", "gen_protocol"),
                       env=dict(os.environ, GOFLAGS="-mod=mod", GOPROXY="off", GOSUMDB="off"))


main()
