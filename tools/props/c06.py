"""C06 - JOIN results equal the relational definition.

1-3 tables of 0-8 rows with duplicate and missing keys; chains of 1-2 joins of all kinds
(JOIN / INNER JOIN / LEFT JOIN / RIGHT JOIN), self-joins under aliases, ON conditions with
AND/OR; written as SQL text and run on a real database. SM: Go's rows are, as a multiset, the
declarative JoinSpec (check_join, Spec/SelectSpec.v); name resolution errors are checked
against the declarative resolution rule. MM: the model agrees with Go row by row (the
nested-loop order is deterministic)."""
import vlib
from props import selcommon as sc

PROP_FILES = ["Properties/C06.v"]
HARNESS = ["engine"]
ASSUMPTIONS = [
    "the statement tree handed to the model is the one sql.Parser produced for the text (C10)",
    "table contents handed to the model are the inserted rows in insertion order (C01)",
]
SM_FN = "sm_c06"

JOINS = ["JOIN", "INNER JOIN", "LEFT JOIN", "RIGHT JOIN", "LEFT JOIN", "RIGHT JOIN"]


def gen_join_table(rng, name, uniq, pnull=0.0):
    """columns: k (shared name, join key), <uniq> (int), s (shared name, varchar) [, f boolean]"""
    cols = [{"name": "k", "type": "int"}, {"name": uniq, "type": rng.choice(["int", "bigint"])},
            {"name": "s", "type": "varchar"}]
    if rng.random() < 0.3:
        cols.append({"name": "f" + uniq, "type": "boolean"})
    # vary the row width (1..8 columns): the executor builds joined rows by appending to the left
    # row, so widths around the slice growth steps 1, 2, 4, 8 matter
    r = rng.random()
    if r < 0.2:
        cols = cols[:1]                      # key only
    elif r < 0.3:
        cols = cols[:2]
    elif r < 0.6:
        for i in range(rng.randint(1, 4)):
            cols.append({"name": "e%d%s" % (i, uniq), "type": "int"})
    n = rng.choice([0, 1, 2, 3, 4, 5, 6, 8, 8])
    keys = rng.choice([[1, 2, 3], [1, 1, 2, 4], [2, 3, 5], [1, 2, 2, 3, 3, 3], [1, 2, 3, 4, 5], [7]])
    rows = []
    for _ in range(n):
        r = []
        for c in cols:
            if c["name"] == "k":
                r.append(None if rng.random() < pnull else rng.choice(keys))
            elif c["type"] == "varchar":
                r.append(None if rng.random() < pnull else rng.choice(["a", "b", "c", "ab"]))
            elif c["type"] == "boolean":
                r.append(rng.random() < 0.5)
            else:
                r.append(None if rng.random() < pnull else rng.choice([1, 2, 3, 4, 5]))
        rows.append(r)
    return {"name": name, "cols": cols, "rows": rows}


def gen_case(rng, tier):
    pnull = rng.choice([0.0, 0.0, 0.0, 0.0, 0.2])
    tables = [gen_join_table(rng, "t1", "a", pnull)]
    nt = rng.choice([1, 2, 2, 2, 3, 3])
    if nt >= 2:
        tables.append(gen_join_table(rng, "t2", "b", pnull))
    if nt >= 3:
        tables.append(gen_join_table(rng, "t3", "c", pnull))
    by_name = {t["name"]: t for t in tables}
    queries = []
    for _ in range(10 if tier == "quick" else 16):
        njoins = rng.choice([1, 1, 2])
        names = [rng.choice(list(by_name)) for _ in range(njoins + 1)]
        if rng.random() < 0.2:
            names[1] = names[0]                       # self-join
        elif len(by_name) > 1 and names[1] == names[0] and rng.random() < 0.7:
            names[1] = rng.choice([n for n in by_name if n != names[0]])
        refs = []                                     # (table, tid, alias text)
        used = set()
        for i, n in enumerate(names):
            need_alias = n in [x[0] for x in refs]
            alias = None
            if need_alias and rng.random() < 0.9 or rng.random() < 0.3:
                alias = rng.choice([a for a in ["x", "y", "z", "w"] if a not in used])
                used.add(alias)
            refs.append((n, alias or n, alias))
        mode = rng.choice(["good"] * 8 + ["unqualified", "wrong_qualifier"])

        def pool_upto(i):
            cols = []
            for n, tid, _ in refs[:i + 1]:
                cols += sc.table_cols(by_name[n], tid, unique=lambda nm: False)
            if mode == "unqualified":
                for c in cols:
                    c.unique_name = True
            if mode == "wrong_qualifier":
                for c, (n, tid, alias) in zip(cols, [r for r in refs[:i + 1] for _ in by_name[r[0]]["cols"]]):
                    if alias is not None and rng.random() < 0.5:
                        c.tid = n                     # table name although an alias was given
            return cols

        frm = "t" if False else refs[0][0] + ((" " + refs[0][2]) if refs[0][2] else "")
        for i in range(1, len(refs)):
            pool = pool_upto(i)
            keycols = [c for c in pool if c.name == "k"]
            if len(keycols) >= 2 and rng.random() < 0.75:
                l, r = keycols[-1], rng.choice(keycols[:-1])
                on = "%s.k %s %s.k" % (r.tid, rng.choice(["=", "=", "=", "=", "=", "<", "!=", ">="]), l.tid)
                if mode == "unqualified":
                    on = "k = k"
                for _ in range(rng.choice([0, 0, 0, 1, 2])):
                    on += " %s %s" % (rng.choice(["AND", "OR"]), sc.gen_pred(rng, pool, pqual=0.0 if mode == "unqualified" else 1.0))
            else:
                on = sc.gen_cond(rng, pool, rng.choice([0, 1, 2]), pqual=0.0 if mode == "unqualified" else 1.0)
            frm += " %s %s%s ON %s" % (rng.choice(JOINS), refs[i][0], (" " + refs[i][2]) if refs[i][2] else "", on)
        pool = pool_upto(len(refs) - 1)
        if rng.random() < 0.6:
            sel = "*"
        else:
            sel = ", ".join(rng.choice(pool).ref(rng, 1.0) for _ in range(rng.randrange(1, 4)))
        q = "SELECT %s FROM %s" % (sel, frm)
        if rng.random() < 0.2:
            q += " WHERE " + sc.gen_cond(rng, pool, rng.choice([0, 1]), pqual=1.0)
        queries.append(q)
    return {"tables": tables, "queries": queries}


def generate(rng, tier):
    n = 110 if tier == "quick" else 600
    return [gen_case(rng, tier) for _ in range(n)]


def join_shape(t):
    if t["k"] == "name":
        return 0, set()
    n, kinds = join_shape(t["l"])
    return n + 1, kinds | {t["jt"]}


def padded_and_matched(r, ast):
    """a join result has both matched and unmatched (NULL padded) rows: some row has a NULL and
    some row has none (only meaningful for tables without NULLs)"""
    rows = r["rows"]
    return any(None in row for row in rows) and any(None not in row for row in rows)


def run(ctx):
    if ctx.replay and "case" in ctx.replay:
        cases = [ctx.replay["case"]]
    else:
        cases = generate(ctx.rng, ctx.tier)
    obs, res, items = sc.evaluate(ctx, cases, "c06", SM_FN, {"WT": "wt_c06"})
    not_wt = set(res.get("WT", []))
    seen = set()
    nontriv = 0
    stats = {"joins_1": 0, "joins_2": 0, "self_join": 0, "kinds": {}, "join_tree_ok": 0, "on_with_and_or": 0,
             "FieldAmbiguous": 0, "FieldNotFound": 0}
    for ci, qi in items:
        c, r = cases[ci], obs[ci]["results"][qi]
        a = r["ast"]
        nj, kinds = join_shape(a["from"][0]) if a["from"] else (0, set())
        stats["joins_%d" % nj] = stats.get("joins_%d" % nj, 0) + 1
        for k in kinds:
            stats["kinds"][k] = stats["kinds"].get(k, 0) + 1
        if (ci, qi) not in not_wt:
            stats["join_tree_ok"] += 1
        if r["kind"] == "err" and r["err"] in stats:
            stats[r["err"]] += 1
        t = a["from"][0] if a["from"] else None
        if t and t["k"] == "join":
            names = []

            def walk(x):
                if x["k"] == "name":
                    names.append(x["name"])
                else:
                    walk(x["l"])
                    walk(x["r"])
                    if x["on"]["k"] in ("and", "or"):
                        stats["on_with_and_or"] += 1
            walk(t)
            if len(set(names)) < len(names):
                stats["self_join"] += 1
        no_nulls = all(v is not None for tb in c["tables"] for row in tb["rows"] for v in row)
        key = (str(c["tables"]), c["queries"][qi])
        if (ci, qi) not in not_wt and r["kind"] == "ok" and no_nulls and padded_and_matched(r, a) and key not in seen:
            seen.add(key)
            nontriv += 1
    ctx.report.coverage.update(sc.summarize(cases, obs))
    ctx.report.coverage.update({
        "evaluations": len(items),
        "distinct_nontrivial": nontriv,
        "rule": "a join query is non-trivial when its join tree is well-formed (wt_c06), the tables hold no NULL "
                "and the result contains both matched rows and NULL-padded unmatched rows; distinct by (tables, text)",
        "traces_validated_against_impl": len(items),
        "databases": len(cases),
        "distribution": stats,
        "exhaustive": False,
        "samples": [{"query": cases[ci]["queries"][qi], "go": {k: obs[ci]["results"][qi].get(k) for k in ("kind", "err")},
                     "rows": len(obs[ci]["results"][qi]["rows"])} for ci, qi in items[:: max(1, len(items) // 4)][:4]],
    })
    out = {"spec_violations": [], "model_mismatches": [], "known": [],
           "correspondence_name": "Model/Select.v nested_loop_join/select vs engine.EvaluateSelect (joins)"}
    sc.report_failures(ctx, out, cases, obs, res, "c06", SM_FN,
                       "join result rejected by Spec.SelectSpec.check_join / name resolution rule")
    return out
