"""C18 - no statement can crash the engine.
Grammar-derived statements, valid and type-confused, run through engine.Session.ExecQuery under
recover() and a watchdog in the session states {no USE, failed USE, empty database, populated
database with NULL-bearing rows}. SM: the outcome is a result or an error value, never a panic or
a hang. MM: DDL/DML/session statements against Model/Session.v (outcome classes and table contents);
SELECT statements against Model/Select.v via props/c18sel.py (the executor part)."""
import importlib
import vlib
from props import hist, c17

PROP_FILES = ["Properties/C18.v"]
HARNESS = ["engine"]
ASSUMPTIONS = [
    "statements are produced from the grammar and then type-confused; arbitrary byte strings are C09's subject",
    "SELECT outcomes are compared with the executor model by the C18 select sub-check (props/c18sel.py)",
]

COLS = [("i", "int", 0), ("b", "bigint", 0), ("s", "varchar", 50), ("f", "boolean", 0)]


def confused_value(rng):
    return rng.choice([0, 1, 2147483648, 99999999999, "x", "", "TRUE", True, False])


def dml_statements(rng, tables):
    """(text, ast-or-None)"""
    out = []
    names = tables + ["nosuch"]
    for _ in range(rng.randint(10, 25)):
        t = rng.choice(names)
        r = rng.random()
        if r < 0.35:
            k = rng.randint(0, 5)
            cols = [rng.choice(["i", "b", "s", "f", "zz", "i"]) for _ in range(rng.randint(0, 4))]
            nvals = len(cols) if cols and rng.random() < 0.8 else rng.randint(0, 5)
            rows = [[confused_value(rng) for _ in range(nvals)] for _ in range(rng.randint(1, 3))]
            st = {"k": "insert", "table": t, "cols": cols, "rows": rows}
        elif r < 0.6:
            sets = [(rng.choice(["i", "b", "s", "f", "zz"]), rng.choice([confused_value(rng), ("col", "", "i")]))
                    for _ in range(rng.randint(1, 2))]
            st = {"k": "update", "table": t, "sets": sets, "where": rand_where(rng)}
        elif r < 0.8:
            st = {"k": "delete", "table": t, "where": rand_where(rng)}
        else:
            cc = [(rng.choice(["a", "b", "a", "c"]), rng.choice(hist.TYPES), rng.choice([1, 255, 3000000000])) for _ in range(rng.randint(1, 4))]
            cc = [(c, ty, ln if ty == "varchar" else 0) for c, ty, ln in cc]
            st = {"k": "create", "table": rng.choice(["n1", "n2", t]), "cols": cc}
        out.append(st)
    return out


def rand_where(rng):
    if rng.random() < 0.2:
        return None

    def pred():
        lhs = rng.choice([("col", "", rng.choice(["i", "b", "s", "f", "zz"])), ("col", rng.choice(["t", "x"]), "i"), confused_value(rng)])
        return (lhs, rng.choice(["=", "!=", "<", "<=", ">", ">="]), rng.choice([confused_value(rng), ("col", "", rng.choice(["i", "s", "f"]))]))
    return [[pred() for _ in range(rng.choice([1, 1, 2]))] for _ in range(rng.choice([1, 1, 2]))]


RAW_SQL = [
    "SELECT * FROM t", "SELECT avg(s) FROM t", "SELECT avg(f) FROM t", "SELECT avg(i), count(zz) FROM t", "SELECT i FROM t ORDER BY s DESC, i",
    "SELECT * FROM t ORDER BY zz", "SELECT i, i FROM t ORDER BY i", "SELECT count(*) FROM nosuch", "SELECT i FROM t WHERE s > 5",
    "SELECT i FROM t WHERE f >= TRUE", "SELECT i FROM t WHERE f > TRUE", "SELECT i FROM t WHERE i", "SELECT 1 OR 2", "SELECT 'a' = 1, 1 < 'a'",
    "SELECT t.i, u.i FROM t JOIN t u ON t.i = u.i", "SELECT i FROM t JOIN t ON i = i", "SELECT * FROM t LEFT JOIN nosuch ON t.i = 1",
    "SELECT s, count(*) FROM t GROUP BY s", "SELECT s, avg(b) FROM t GROUP BY s ORDER BY s", "SELECT count(*), i FROM t", "SELECT * FROM t LIMIT 0 OFFSET 99",
    "SELECT i FROM t GROUP BY i, s", "SELECT zz FROM t", "SELECT x.i FROM t", "SELECT i AS a, s AS a FROM t ORDER BY a",
    "CREATE TABLE t2 ()", "CREATE TABLE (a INT)", "INSERT INTO t VALUES", "INSERT INTO t VALUES ()", "INSERT INTO t () VALUES ()",
    "UPDATE t SET i = i", "UPDATE t SET", "DELETE FROM t WHERE", "CREATE TABLE \"select\" (\"from\" INT)", "INSERT INTO \"select\" VALUES (1)",
    "SELECT \"from\" FROM \"select\"", "USE", "CREATE DATABASE", "SHOW", "SHOW TABLES", "SELECT", "SELECT *", "SELECT * FROM", "SELECT count(", "SELECT avg(*) FROM t",
    "SELECT w.y FROM t RIGHT JOIN w ON t.i = w.x", "SELECT * FROM t RIGHT JOIN w ON t.i = 99 WHERE w.y = 'q'",
    "SELECT w.x, count(w.y) FROM t RIGHT JOIN w ON t.i = w.x GROUP BY w.x", "SELECT t.s, w.y FROM w LEFT JOIN t ON t.i = w.x ORDER BY w.y",
    "SELECT t.f, w.y FROM w RIGHT JOIN t ON t.i = w.x", "SELECT w.y, t.b FROM t LEFT JOIN w ON t.i = w.x WHERE t.b > 5",
    "SELECT a.y, b.y, t.s FROM w a JOIN w b ON a.x = b.x RIGHT JOIN t ON t.i = a.x",
    # names that are paths or too long to be a directory name (CREATE DATABASE used to panic on the last)
    'CREATE DATABASE "a/b"', 'USE "../x"', 'CREATE DATABASE "."', 'CREATE DATABASE "%s"' % ("L" * 300), 'USE "%s"' % ("m" * 300),
    'CREATE TABLE "%s" (a INT)' % ("t" * 300), 'CREATE TABLE tc ("%s" INT)' % ("c" * 300), "INSERT INTO t (zz) VALUES (1)",
    "INSERT INTO t (i, i) VALUES (1, 2)", "UPDATE t SET zz = 1", "CREATE TABLE dd (a INT, a INT)",
    "SELECT i FROM t LIMIT 9223372036854775807 OFFSET 1", "SELECT * FROM t LIMIT 9223372036854775806 OFFSET 2",
    "SELECT i FROM t ORDER BY i LIMIT 9223372036854775807 OFFSET 3", "SELECT i FROM t OFFSET 9223372036854775807",
    "INSERT INTO sys_pages VALUES ('x', 5)", "UPDATE sys_pages SET file_offset = 12345", "DELETE FROM sys_schema", "SELECT * FROM sys_pages", "SELECT * FROM sys_schema",
]


def gen_case(rng, state):
    evs = []
    if state == "failed_use":
        evs.append(("use", "nosuch"))
    if state in ("empty", "populated"):
        evs.append(("createdb", "d"))
        evs.append(("use", "d"))
    tables = []
    if state == "populated":
        evs.append(("sql_stmt", {"k": "create", "table": "t", "cols": COLS}))
        evs.append(("sql_stmt", {"k": "insert", "table": "t", "cols": [], "rows": [[1, 10, "a", True], [2, 20, "b", False], [2, 5, "a", True]]}))
        evs.append(("sql_stmt", {"k": "insert", "table": "t", "cols": ["i"], "rows": [[7]]}))        # NULLs in b, s, f
        evs.append(("sql_stmt", {"k": "insert", "table": "t", "cols": ["s", "f"], "rows": [["z", False]]}))  # NULLs in i, b
        # a narrower second table with unmatched keys, for outer joins in both directions
        evs.append(("sql_stmt", {"k": "create", "table": "w", "cols": [("x", "int", 0), ("y", "varchar", 20)]}))
        evs.append(("sql_stmt", {"k": "insert", "table": "w", "cols": [], "rows": [[1, "p"], [50, "q"], [51, "r"]]}))
        tables = ["t"]
    for st in dml_statements(rng, tables or ["t"]):
        evs.append(("sql_stmt", st))
        if state == "populated":
            evs.append(("read", ["t", "n1"]))
    raws = rng.sample(RAW_SQL, 32)
    return evs, raws


def big_case(rng, nrows):
    """a database with 25 tables (every schema lookup scans the catalog) and ONE statement of thousands of rows:
    its validation pass and its storing pass each last several periods of the 100 ms flush timer, so the flusher
    asks for the lock again and again while the statement is inside - the statement must still return"""
    evs = [("createdb", "d"), ("use", "d")]
    for i in range(24):
        evs.append(("sql_stmt", {"k": "create", "table": "f%d" % i, "cols": [("a", "int", 0), ("b", "varchar", 20)]}))
    evs.append(("sql_stmt", {"k": "create", "table": "t", "cols": COLS}))
    rows = ", ".join("(%d, %d, 'r%d', %s)" % (i, i * 7, i % 10, "TRUE" if i % 2 else "FALSE") for i in range(nrows))
    raws = ["INSERT INTO t VALUES " + rows, "SELECT count(*) FROM t", "DELETE FROM t WHERE i < %d" % (nrows // 2),
            "SELECT count(*), f FROM t GROUP BY f", "INSERT INTO t VALUES (1, 2, 'x', TRUE), (2, 'wrong type', 'x', TRUE)"]
    return evs, raws


def run(ctx):
    n = 6 if ctx.tier == "quick" else 60
    states = ["no_use", "failed_use", "empty", "populated", "populated", "populated"]
    built = [(s, gen_case(ctx.rng, s)) for s in states for _ in range(n)]
    built += [("many_rows_in_one_statement", big_case(ctx.rng, nr)) for nr in ([4000] if ctx.tier == "quick" else [4000, 9000, 2500])]
    cases = [b[1][0] for b in built]
    inputs = []
    for state, (evs, raws) in built:
        inputs.append({"events": c17.go_events(evs) + [{"t": "sql", "q": q} for q in raws]})
    ok, outs, lg = vlib.run_driver_parallel(ctx.bins["engine"], "session", inputs, nshards=16)
    if not ok or len(outs) != len(cases):
        raise RuntimeError("session driver failed: " + lg[-3000:])
    out = {"spec_violations": [], "model_mismatches": [],
           "correspondence_name": "Model/Session.v vs engine.Session on type-confused DDL/DML in every session state"}
    nstm = 0
    classes = {}
    for (state, (evs, raws)), o in zip(built, outs):
        texts = [x["q"] for x in c17.go_events(evs) if x.get("q")] + raws
        sql_outs = [x for x in o["events"] if x["t"] == "sql"]
        for q, x in zip(texts, sql_outs):
            nstm += 1
            cl = x["res"].split(":")[0]
            classes[cl] = classes.get(cl, 0) + 1
            if x["res"].startswith("panic") or x["res"] == "timeout":
                if len(out["spec_violations"]) < 3:
                    out["spec_violations"].append({"session_state": state, "statement": q, "outcome": x["res"],
                                                   "script": texts[:texts.index(q) + 1][-12:],
                                                   "what": "a statement that parses made the engine panic or hang"})
        if len(sql_outs) < len(texts) and len(out["spec_violations"]) < 3 and not any(
                v.get("session_state") == state for v in out["spec_violations"]):
            out["spec_violations"].append({"session_state": state, "statement": texts[len(sql_outs)] if len(sql_outs) < len(texts) else None,
                                           "outcome": "driver stopped", "script": texts[:len(sql_outs) + 1][-12:],
                                           "what": "the session died"})
    # model agreement on the generated (expressible) part
    terms = []
    for (state, (evs, raws)), o in zip(built, outs):
        obs = [c17.cq_ob(x, y) for x, y in zip(evs, o["events"])]
        terms.append("(%s, %s)" % (hist.cq_list(c17.cq_ev(x) for x in evs), hist.cq_list(obs)))
    if ctx.model_ok:
        okc, res, lg = vlib.run_coq_cases("c18", c17.HEADER, terms, "shcase", {"MM": "sess_model_agrees"}, shard=3)
        if not okc:
            raise RuntimeError("coq evaluation failed: " + lg[-3000:])
        for i in res["MM"][:2]:
            evs = built[i][1][0]
            out["model_mismatches"].append({"session_state": built[i][0], "events": [list(x) for x in evs],
                                            "script": [hist.sql_stmt(x[1])[:100] if x[0] == "sql_stmt" else " ".join(map(str, x)) for x in evs if x[0] != "read"]})
    # the executor part (SELECT) with its own model
    sel = {}
    try:
        c18sel = importlib.import_module("props.c18sel")
        r2 = c18sel.run(ctx)
        out["spec_violations"] += r2.get("spec_violations", [])
        out["model_mismatches"] += r2.get("model_mismatches", [])
        sel = {k: ctx.report.coverage.get(k) for k in ("evaluations", "distinct_nontrivial")}
    except ModuleNotFoundError:
        pass
    ctx.report.coverage.update({
        "evaluations": nstm + (sel.get("evaluations") or 0),
        "distinct_nontrivial": sum(v for k, v in classes.items() if k not in ("ok",)) ,
        "rule": "statements run per session state (no USE, failed USE, empty database, populated database with NULL-bearing "
                "rows): type-confused INSERT/UPDATE/DELETE/CREATE TABLE from the grammar plus a fixed list of awkward texts "
                "(aggregates on wrong types, ORDER BY on NULLs, self-joins, empty lists, keywords as delimited names, DML on "
                "the catalog); non-trivial = the statement ended in an error value (counted)",
        "traces_validated_against_impl": len(cases),
        "outcome_classes": classes,
        "select_subcheck": sel,
        "samples": [{"state": built[i][0], "statements": [x["q"] for x in inputs[i]["events"] if x.get("q")][:8]} for i in (0, len(built) - 1)],
    })
    return out
