"""WAL codec correspondence (part of C03; not a registered property check by itself).

Drives wal.flush over an in-memory log and wal.read over byte-granular cuts of that log
(harness/storage/zz_verif_codec_test.go, mode "walcodec") and compares inside Coq
  MM: the Write/Sync calls == Model/WalCodec.flush_calls, wal.read of every cut == wal_read;
  SM: Spec/WalCodecSpec.wal_spec_accepts on Go's behaviour only: the reader returns exactly the
      records whose frames lie completely inside the log, validLen = their total length, no error.

Use from another check:   import props.c03codec as wc;  res = wc.run_codec(ctx)
  -> {"spec_violations": [...], "model_mismatches": [...], "coverage": {...}}
Stand-alone test run:      python3 tools/props/c03codec.py [quick|thorough]"""
import copy
import os
import sys

sys.path.insert(0, os.path.dirname(os.path.dirname(os.path.abspath(__file__))))
import vlib
from vlib import cq_bool, cq_list
from props.c12 import chunks

HARNESS = ["storage"]
PROOF_FILES = ["Model/WalCodec.v", "Proofs/WalCodecProofs.v", "Spec/WalCodecSpec.v"]
THEOREMS = ["wal_decode_encode", "wal_read_frames", "wal_read_torn", "wal_read_zero_tail", "written_flush",
            "wal_read_interrupted_flush", "wal_read_interrupted_flush_synced"]

HEADER = """From Coq Require Import Init.Byte.
From Mkdb Require Import Model.CaseLib Model.WalCodec Spec.PageCodecSpec Spec.WalCodecSpec.
Open Scope N_scope.
"""

U32 = 2 ** 32 - 1
U64 = 2 ** 64 - 1
FIXED = 25


def rec_coq(r):
    return "wr %d %d %d %d %s" % (r["op"], r["lsn"], r["page"], r["cell"], chunks(bytes.fromhex(r["val"])))


def frame_len(r):
    return 4 + FIXED + len(r["val"]) // 2


def case_coq(c, o):
    calls = []
    for call in o["calls"]:
        calls.append("None" if call[0] == "S" else "Some %s" % chunks(bytes.fromhex(call[1])))
    reads = []
    for rd in o["reads"]:
        n = len(rd["recs"])
        if rd["recs"] == c["recs"][:n]:
            ent = "Pfx %d" % n
        else:
            ent = "Lst %s" % cq_list(rec_coq(r) for r in rd["recs"])
        st = {"ok": "ROk", "panic": "RPanic"}.get(rd["st"]) or ("RErrEof" if rd.get("e") == "eof" else "RErrOther")
        valid = rd["valid"]
        if valid < 0:
            raise RuntimeError("validLen was not set by wal.read")
        reads.append("mkRO %d (%s) %d %s" % (rd["cut"], ent, valid, st))
    return "mkWC %s %s %s %s %s" % (cq_list(rec_coq(r) for r in c["recs"]), cq_bool(c["sync"]),
                                    chunks(bytes.fromhex(c.get("extra", ""))), cq_list(calls), cq_list(reads))


def rrec(rng, maxval=400):
    op = rng.choice([0, 1, 2, 0, 1, 2, 0, 1, 2, 3, 255])
    n = rng.choice([0, 1, 2, 7, 40, 399, 400, rng.randrange(maxval + 1)])
    mode = rng.randrange(3)
    val = bytes(rng.randrange(256) for _ in range(n)) if mode == 0 else \
        (bytes([rng.choice([0, 255, 65])]) * n if mode == 1 else bytes((7 * i) % 256 for i in range(n)))
    return {"op": op, "lsn": rng.choice([0, 1, U64, rng.randrange(U64 + 1), rng.randrange(1, 100000)]),
            "page": rng.choice([4096, 8192, U64, 4096 * rng.randrange(1, 5000)]),
            "cell": rng.choice([0, 1, U32, rng.randrange(U32 + 1), rng.randrange(1, 70000)]),
            "val": val.hex()}


def generate(rng, tier):
    quick = tier == "quick"
    cases = []
    # every cut position of the last frame (and of the whole log when it is short)
    for i in range(60 if quick else 600):
        k = rng.choice([1, 1, 2, 3, 5, 8]) if i else 0
        recs = [rrec(rng, 400 if i % 5 else 60) for _ in range(k)]
        total = sum(frame_len(r) for r in recs)
        last = frame_len(recs[-1]) if recs else 0
        if total <= 300 or i % 7 == 0:
            cuts = list(range(0, total + 1))
        else:
            cuts = list(range(total - last, total + 1))
        if len(cuts) > 140:      # long values: all of the head of the frame, a stride through the value, the end
            head = cuts[:40]
            cuts = head + cuts[40:-6:rng.randrange(5, 17)] + cuts[-6:]
        cases.append({"recs": recs, "sync": bool(i % 2), "cuts": cuts, "extra": "", "chunk": rng.choice([0, 0, 1, 3, 7, 64]),
                      "kind": "every_cut_of_last_frame"})
    # random cuts anywhere (also inside earlier frames)
    for i in range(40 if quick else 500):
        recs = [rrec(rng) for _ in range(rng.randrange(1, 9))]
        total = sum(frame_len(r) for r in recs)
        cuts = sorted(set([0, total] + [rng.randrange(total + 1) for _ in range(12)]))
        cases.append({"recs": recs, "sync": bool(i % 2), "cuts": cuts, "extra": "", "chunk": rng.choice([0, 2, 5]),
                      "kind": "random_cuts"})
    # bytes after the cut: zero length word, garbage, a frame whose body is too short to decode
    for i in range(40 if quick else 400):
        recs = [rrec(rng, 50) for _ in range(rng.randrange(0, 4))]
        total = sum(frame_len(r) for r in recs)
        t = i % 5
        if t == 0:
            extra = bytes(4) + bytes(rng.randrange(256) for _ in range(rng.randrange(0, 40)))
        elif t == 1:
            extra = bytes(rng.randrange(0, 120))          # zero bytes (a preallocated tail)
        elif t == 2:
            n = rng.randrange(1, FIXED)                   # complete frame, body shorter than the fixed part
            extra = n.to_bytes(4, "little") + bytes(rng.randrange(256) for _ in range(n))
        elif t == 3:
            n = FIXED + rng.randrange(0, 6)               # value size field larger than what follows
            body = bytearray(rng.randrange(256) for _ in range(n))
            body[21:25] = rng.choice([n - FIXED + 1, 200, 65535]).to_bytes(4, "little")
            extra = n.to_bytes(4, "little") + bytes(body)
        else:
            n = rng.choice([5, 300, 70000, 2 ** 24])       # length word promising more than is there
            extra = n.to_bytes(4, "little") + bytes(rng.randrange(256) for _ in range(rng.randrange(0, 30)))
        # only at a frame boundary: a cut inside a frame followed by other bytes makes both Go and the
        # model read a random 32-bit value size (Go then allocates up to 4 GiB; the model pads with zeros)
        cuts = [total]
        cases.append({"recs": recs, "sync": bool(i % 2), "cuts": cuts, "extra": extra.hex(), "chunk": rng.choice([0, 1, 4]),
                      "kind": "bytes_after_cut"})
    return cases


def evaluate(ctx, cases, name, shard=25):
    inputs = [{k: c[k] for k in ("recs", "sync", "cuts", "extra", "chunk")} for c in cases]
    ok, obs, lg = vlib.run_driver_parallel(ctx.bins["storage"], "walcodec", inputs)
    if not ok or len(obs) != len(cases):
        raise RuntimeError("walcodec driver failed: " + lg[-2000:])
    terms = [case_coq(c, o) for c, o in zip(cases, obs)]
    defs = {"SM": "wal_spec_accepts"}
    if getattr(ctx, "model_ok", True):
        defs["MM"] = "wal_model_agrees"
    okc, res, lg = vlib.run_coq_cases(name, HEADER, terms, "wal_case", defs, shard=shard)
    if not okc:
        raise RuntimeError("coq evaluation failed: " + lg[-3000:])
    return obs, res.get("MM", []), res["SM"]


def shrink(ctx, c, which):
    def fails(x):
        try:
            _, mm, sm = evaluate(ctx, [x], "c03codec_shrink")
        except RuntimeError:
            return False
        return bool(mm if which == "MM" else sm)
    cur = copy.deepcopy(c)
    budget = 30
    # one cut is enough
    for cut in cur["cuts"][-1:] + cur["cuts"][len(cur["cuts"]) // 2:-1] + cur["cuts"][:len(cur["cuts"]) // 2]:
        if budget <= 10 or len(cur["cuts"]) == 1:
            break
        y = dict(cur, cuts=[cut])
        budget -= 1
        if fails(y):
            cur = y
            break
    progress = True
    while progress and budget > 0:
        progress = False
        cands = []
        total = sum(frame_len(r) for r in cur["recs"])
        for i in range(len(cur["recs"])):
            y = copy.deepcopy(cur)
            removed = frame_len(y["recs"][i])
            del y["recs"][i]
            y["cuts"] = sorted(set(max(0, min(total - removed, x - removed)) for x in cur["cuts"]))
            cands.append(y)
        for i, r in enumerate(cur["recs"]):
            if len(r["val"]) > 2:
                y = copy.deepcopy(cur)
                keep = len(r["val"]) // 4
                y["recs"][i]["val"] = r["val"][: 2 * keep]
                d = len(r["val"]) // 2 - keep
                y["cuts"] = sorted(set(max(0, x - d) for x in cur["cuts"]))
                cands.append(y)
        if cur.get("chunk"):
            cands.append(dict(cur, chunk=0))
        for y in cands:
            budget -= 1
            if budget < 0:
                break
            if fails(y):
                cur, progress = y, True
                break
    return cur


def run_codec(ctx, cases=None):
    """returns {"spec_violations", "model_mismatches", "coverage"} for inclusion in C03"""
    if cases is None:
        cases = generate(ctx.rng, ctx.tier)
    obs, mm, sm = evaluate(ctx, cases, "c03codec")
    kinds, reads, torn, stopped_err = {}, 0, 0, 0
    for c, o in zip(cases, obs):
        kinds[c.get("kind", "replay")] = kinds.get(c.get("kind", "replay"), 0) + 1
        total = sum(frame_len(r) for r in c["recs"])
        bounds = set()
        acc = 0
        for r in c["recs"]:
            bounds.add(acc)
            acc += frame_len(r)
        bounds.add(acc)
        for rd in o["reads"]:
            reads += 1
            if rd["cut"] not in bounds and not c.get("extra"):
                torn += 1
            if rd["st"] != "ok":
                stopped_err += 1
    out = {"spec_violations": [], "model_mismatches": [],
           "correspondence_name": "Model/WalCodec.v flush_calls / wal_read vs wal.flush / wal.read over byte-granular cuts",
           "coverage": {"wal_codec_cases": len(cases), "wal_reads_compared": reads,
                        "wal_reads_of_torn_logs": torn, "wal_reads_ending_in_error": stopped_err,
                        "wal_case_kinds": kinds,
                        "wal_rule": "a read is non-trivial (torn) when the cut lies strictly inside a frame: "
                                    "inside the 4-byte length word or inside the body"}}
    for i in sm[:2]:
        small = shrink(ctx, cases[i], "SM")
        o2, _, _ = evaluate(ctx, [small], "c03codec_final")
        out["spec_violations"].append({"codec_case": small, "observed": o2[0],
                                       "what": "wal.read does not return exactly the complete-record prefix of a cut log"})
    for i in mm[:2]:
        small = shrink(ctx, cases[i], "MM")
        o2, _, _ = evaluate(ctx, [small], "c03codec_final")
        out["model_mismatches"].append({"codec_case": small, "observed": o2[0]})
    return out


if __name__ == "__main__":
    import json
    import time

    class Ctx:
        pass
    ctx = Ctx()
    ctx.tier = "thorough" if len(sys.argv) > 1 and sys.argv[1].startswith("t") else "quick"
    ctx.rng = vlib.Rng(int(os.environ.get("VERIF_SEED", "1")) * 1000003 + 303)
    ctx.model_ok = True
    t0 = time.time()
    cb = vlib.build_coq(only=vlib.coq_cone(PROP_FILES) if 'PROP_FILES' in globals() else None)
    bad = [f for f in cb.failed_files if f in vlib.coq_cone(PROOF_FILES)]
    if bad:
        print("coq files failed:", bad)
        sys.exit(2)
    ok, binp, log = vlib.build_go("storage")
    if not ok:
        print(log[-3000:])
        sys.exit(2)
    ctx.bins = {"storage": binp}
    res = run_codec(ctx)
    print(json.dumps({k: (v if k == "coverage" else len(v)) for k, v in res.items() if k != "correspondence_name"}, indent=1))
    for v in res["spec_violations"][:1] + res["model_mismatches"][:1]:
        print(json.dumps(v)[:3000])
    print("wall %.1fs" % (time.time() - t0))
    sys.exit(1 if res["spec_violations"] or res["model_mismatches"] else 0)
