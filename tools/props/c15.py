"""C15 - LRU page cache. Drives storage.LRUCache in-package; compares every step with the Coq
model (Model/Lru.v) and with the property oracle (Spec/LruSpec.v)."""
import itertools
import vlib
from vlib import cq_list, cq_bool, cq_opt

PROP_FILES = ["Properties/C15.v"]
HARNESS = ["storage"]
ASSUMPTIONS = [
    "container/list and Go maps behave as specified (the model keeps only the list)",
    "the dirty flag is read through btreeNode.isDirty at eviction time, as in lru.go",
]

HEADER = """From Mkdb Require Import Model.CaseLib Model.Lru Spec.LruSpec.
Open Scope N_scope.
"""


def op_coq(op):
    t = op[0]
    if t == "S":
        return "OSet %d %d %s" % (op[1], op[2], cq_bool(op[3]))
    return {"G": "OGet %d", "D": "ODirty %d", "C": "OClean %d"}[t] % op[1]


def res_coq(res):
    return cq_list("(%d,%d,%s)" % (k, v, cq_bool(d)) for k, v, d in res)


def step_coq(op, st):
    r = st["r"]
    if op[0] == "S":
        out = "RSet %s %s" % (cq_bool(r[0]), cq_opt(None if r[1] < 0 else "%d" % r[1]))
    elif op[0] == "G":
        out = "RGet %s" % cq_opt("%d" % r[1] if r[0] else None)
    else:
        out = "RNone"
    return "(%s, %s)" % (out, res_coq(st["res"]))


def effective_ops(case, obs):
    """["R", k] (store the cached page object again) is OSet k v d with the entry's own value and dirty flag when
    k is resident, and a lookup that misses otherwise"""
    out, prev = [], []
    for op, st in zip(case["ops"], obs["steps"]):
        if op[0] == "R":
            hit = [e for e in prev if e[0] == op[1]]
            op = ["S", op[1], hit[0][1], hit[0][2]] if hit else ["G", op[1]]
        out.append(op)
        prev = st["res"]
    return out


def case_coq(case, obs):
    ops = effective_ops(case, obs)
    return "(%d%%nat, %s, %s)" % (
        case["cap"], cq_list(op_coq(o) for o in ops),
        cq_list(step_coq(o, s) for o, s in zip(ops, obs["steps"])))


def alphabet(keys):
    ops = []
    for k in keys:
        ops += [["S", k, None, 0], ["S", k, None, 1], ["G", k], ["D", k], ["C", k], ["R", k]]
    return ops


def number_values(ops):
    out = []
    v = 100
    for o in ops:
        o = list(o)
        if o[0] == "S":
            v += 1
            o[2] = v
        out.append(o)
    return out


def generate(rng, tier):
    cases = []
    # exhaustive small scopes
    depth = 3 if tier == "quick" else 4
    alpha = alphabet([1, 2, 3])
    for cap in (0, 1, 2, 3):
        for d in range(1, depth + 1):
            if d < depth and tier == "quick":
                continue
            if d == 4 and cap < 2:
                continue              # depth 4 only where evictions can interleave (capacities 2 and 3)
            for seq in itertools.product(alpha, repeat=d):
                cases.append({"cap": cap, "ops": number_values(seq), "kind": "exhaustive"})
    # random long sequences at larger capacities
    nrand, length = (40, 300) if tier == "quick" else (200, 800)
    for i in range(nrand):
        cap = rng.choice([1, 2, 3, 4, 5, 8, 16, 32, 64])
        nkeys = max(2, int(cap * rng.choice([1.0, 1.5, 2.0, 3.0])))
        pdirty = rng.choice([0.0, 0.2, 0.5, 0.9])
        ops = []
        for _ in range(length):
            r = rng.random()
            k = rng.randrange(1, nkeys + 1)
            if r < 0.45:
                ops.append(["S", k, None, 1 if rng.random() < pdirty else 0])
            elif r < 0.68:
                ops.append(["G", k])
            elif r < 0.75:
                ops.append(["R", k])
            elif r < 0.87:
                ops.append(["D", k])
            else:
                ops.append(["C", k])
        cases.append({"cap": cap, "ops": number_values(ops), "kind": "random"})
    return cases + big_cases(rng, tier)


def big_cases(rng, tier):
    """long runs at LARGE capacities (the production cache holds 10000 pages): a run of D dirty entries at the cold
    end, clean entries above it, then insertions of new keys - each must evict the least recently used CLEAN entry,
    however far from the cold end it sits - lookups and re-dirtying in between, and at the end a cache full of dirty
    entries, where (and only where) insertions are refused. Observed sparsely (model_agrees_sparse)."""
    plan = [(300, 270), (1500, 1100)] if tier == "quick" else \
           [(300, 270), (700, 530), (1500, 1100), (2500, 2100), (5000, 4200), (10000, 8300)]
    cases = []
    for cap, d in plan:
        d = d + rng.randrange(0, 8)
        ops = []
        for k in range(1, d + 1):
            ops.append(["S", k, None, 1])                     # dirty, coldest
        for k in range(d + 1, cap + 1):
            ops.append(["S", k, None, 0])                     # clean, fills the cache
        nxt = cap + 1
        for _ in range(rng.randint(20, 40)):                  # evictions past the dirty run
            r = rng.random()
            if r < 0.6:
                ops.append(["S", nxt, None, 1 if rng.random() < 0.3 else 0])
                nxt += 1
            elif r < 0.75:
                ops.append(["G", rng.randrange(1, nxt)])
            elif r < 0.9:
                ops.append(["D", rng.randrange(d + 1, nxt)])
            else:
                ops.append(["C", rng.randrange(1, d + 1)])
        # make everything dirty: now, and only now, insertions are refused
        for k in range(1, nxt):
            ops.append(["D", k])
        for _ in range(3):
            ops.append(["S", nxt, None, 0])
            nxt += 1
        ops.append(["C", rng.randrange(1, cap)])
        ops.append(["S", nxt, None, 0])
        cases.append({"cap": cap, "ops": number_values(ops), "kind": "large-capacity", "sparse": True})
    return cases


def evaluate_big(ctx, cases, name):
    ok, obs, lg = vlib.run_driver_parallel(ctx.bins["storage"], "lru",
                                           [{"cap": c["cap"], "ops": c["ops"], "sparse": True} for c in cases])
    if not ok or len(obs) != len(cases):
        raise RuntimeError("lru driver failed: " + lg[-2000:])
    terms = []
    for c, o in zip(cases, obs):
        outs = []
        for op, st in zip(c["ops"], o["steps"]):
            r = st["r"]
            if op[0] == "S":
                outs.append("RSet %s %s" % (cq_bool(r[0]), cq_opt(None if r[1] < 0 else "%d" % r[1])))
            elif op[0] == "G":
                outs.append("RGet %s" % cq_opt("%d" % r[1] if r[0] else None))
            else:
                outs.append("RNone")
        terms.append("(%d%%nat, %s, %s, %s)" % (c["cap"], cq_list(op_coq(x) for x in c["ops"]), cq_list(outs),
                                                res_coq(o["steps"][-1]["res"])))
    okc, res, lg = vlib.run_coq_cases(name, HEADER, terms, "lru_sparse_case", {"MM": "model_agrees_sparse"}, shard=2)
    if not okc:
        raise RuntimeError("coq evaluation failed: " + lg[-3000:])
    return obs, res["MM"]


def first_difference(ctx, case):
    """shortest prefix of a large-capacity run on which the implementation and the model disagree"""
    lo, hi = 1, len(case["ops"])
    while lo < hi:
        mid = (lo + hi) // 2
        _, mm = evaluate_big(ctx, [dict(case, ops=case["ops"][:mid])], "c15_big_shrink")
        if mm:
            hi = mid
        else:
            lo = mid + 1
    return dict(case, ops=case["ops"][:lo])


def classify(case, obs):
    """non-trivial = the run contains an eviction past a dirty LRU entry, or a refusal"""
    tags = set()
    prev = []
    for op, st in zip(case["ops"], obs["steps"]):
        if op[0] == "S":
            if st["r"][0] == 0:
                tags.add("refusal")
            elif st["r"][1] >= 0:
                tags.add("evict")
                if prev and prev[-1][2] == 1:
                    tags.add("evict_skipping_dirty")
        prev = st["res"]
    return tags


def evaluate(ctx, cases, name):
    ok, obs, lg = vlib.run_driver_parallel(ctx.bins["storage"], "lru",
                                           [{"cap": c["cap"], "ops": c["ops"]} for c in cases])
    if not ok or len(obs) != len(cases):
        raise RuntimeError("lru driver failed: " + lg[-2000:])
    terms = [case_coq(c, o) for c, o in zip(cases, obs)]
    defs = {"SM": "spec_accepts"}
    if ctx.model_ok:
        defs["MM"] = "model_agrees"
    okc, res, lg = vlib.run_coq_cases(name, HEADER, terms, "lru_case", defs, shard=600)
    if not okc:
        raise RuntimeError("coq evaluation failed: " + lg[-3000:])
    return obs, res.get("MM", []), res["SM"]


def shrink(ctx, case, which):
    """delta-debug the op list while the case keeps failing `which` (MM or SM)"""
    def fails(ops):
        c = {"cap": case["cap"], "ops": ops}
        try:
            _, mm, sm = evaluate(ctx, [c], "c15_shrink")
        except RuntimeError:
            return False
        return bool(mm if which == "MM" else sm)
    ops = list(case["ops"])
    budget = 40
    # first cut the tail after the first failing step by prefix search
    n = len(ops)
    chunk = max(1, n // 2)
    while chunk >= 1 and budget > 0:
        i = 0
        changed = False
        while i < len(ops) and budget > 0:
            cand = ops[:i] + ops[i + chunk:]
            budget -= 1
            if cand and fails(cand):
                ops = cand
                changed = True
            else:
                i += chunk
        if chunk == 1 and not changed:
            break
        chunk = max(1, chunk // 2) if chunk > 1 else (1 if changed else 0)
    return {"cap": case["cap"], "ops": ops}


def run(ctx):
    if ctx.replay and "case" in ctx.replay:
        cases = [ctx.replay["case"]]
    else:
        cases = generate(ctx.rng, ctx.tier)
    big = [c for c in cases if c.get("sparse")]
    cases = [c for c in cases if not c.get("sparse")]
    big_obs, big_mm = evaluate_big(ctx, big, "c15_big") if big and ctx.model_ok else ([], [])
    obs, mm, sm = evaluate(ctx, cases, "c15") if cases else ([], [], [])
    seen = set()
    nontrivial = 0
    kinds = {}
    tagcount = {}
    nops = 0
    for c, o in zip(cases, obs):
        nops += len(c["ops"])
        kinds[c.get("kind", "replay")] = kinds.get(c.get("kind", "replay"), 0) + 1
        tags = classify(c, o)
        for t in tags:
            tagcount[t] = tagcount.get(t, 0) + 1
        key = (c["cap"], tuple(tuple(x) for x in c["ops"]))
        if tags and key not in seen:
            seen.add(key)
            nontrivial += 1
    ctx.report.coverage.update({
        "evaluations": len(cases),
        "distinct_nontrivial": nontrivial,
        "rule": "exhaustive op sequences over keys {1,2,3} x {set clean,set dirty,get,markDirty,markClean} "
                "at depth %d for capacities 0..3, plus random long sequences at capacities up to 64; a case is "
                "non-trivial when it contains an eviction or a refused insertion; distinct by (capacity, op list)"
                % (3 if ctx.tier == "quick" else 4),
        "traces_validated_against_impl": len(cases),
        "steps_compared": nops,
        "case_kinds": kinds,
        "large_capacity_runs": [{"capacity": c["cap"], "operations": len(c["ops"]),
                                 "refusals": sum(1 for op, st in zip(c["ops"], o["steps"]) if op[0] == "S" and st["r"][0] == 0),
                                 "evictions": sum(1 for op, st in zip(c["ops"], o["steps"]) if op[0] == "S" and st["r"][1] >= 0)}
                                for c, o in zip(big, big_obs)],
        "cases_with": tagcount,
        "exhaustive": False,
        "samples": [{"cap": c["cap"], "ops": c["ops"][:12], "first_steps": o["steps"][:3]}
                    for c, o in list(zip(cases, obs))[:: max(1, len(cases) // 3)][:3]],
    })
    out = {"spec_violations": [], "model_mismatches": [], "correspondence_name":
           "lru_trace (Model/Lru.v) vs storage.LRUCache step by step"}
    for i in sm[:2]:
        small = shrink(ctx, cases[i], "SM")
        o2, _, _ = evaluate(ctx, [small], "c15_final")
        out["spec_violations"].append({"case": small, "observed": o2[0],
                                       "what": "LRUCache behaviour rejected by Spec.LruSpec.step_ok",
                                       "replay_cmd": "python3 tools/check.py C15 --replay <this file>"})
    for i in big_mm[:1]:
        small = first_difference(ctx, big[i])
        o2, _ = evaluate_big(ctx, [small], "c15_big_final")
        last = small["ops"][-1]
        out["spec_violations"].append({
            "case": small, "observed_last_step": o2[0]["steps"][-1]["r"], "last_operation": last,
            "what": "at capacity %d, after %d operations, the return value of this operation differs from the "
                    "reference model (an insertion refused although a clean entry exists, a wrong victim, ...)"
                    % (small["cap"], len(small["ops"]) - 1),
            "replay_cmd": "python3 tools/check.py C15 --replay <this file>"})
    for i in mm[:2]:
        small = shrink(ctx, cases[i], "MM")
        o2, _, _ = evaluate(ctx, [small], "c15_final")
        out["model_mismatches"].append({"case": small, "observed": o2[0]})
    return out
