"""C11 - the on-disk B+ tree keeps its shape invariants. Page dumps of every tree after every
operation (small scopes) or periodically (large trees), with flushes and reloads in between,
are (MM) compared field by field with the model's trees and (SM) judged by Spec/DumpCheck.v,
which checks the property's invariants directly on the dumped page graph."""
import vlib
from props import hist, c01

PROP_FILES = ["Properties/C11.v"]
HARNESS = ["engine"]
ASSUMPTIONS = c01.ASSUMPTIONS + [
    "flush + reload = a flush followed by a restart (recovery finds nothing to redo); crash recovery proper is C02",
]
HEADER = hist.HEADER.replace("Spec.HistObs", "Spec.HistObs Spec.DumpCheck")


def with_reloads(rng, evs):
    out = []
    for e in evs:
        out.append(e)
        if e[0] == "dump" and rng.random() < 0.25:
            out.append(("flush",))
            if rng.random() < 0.6:
                out.append(("crash",))
            out.append(("dump",))
    return out


def generate(rng, tier):
    plan = [("deep", 1), ("small", 14), ("split", 10), ("catalog", 3)] if tier == "quick" else \
           [("deep", 1), ("small", 80), ("split", 50), ("catalog", 15), ("large", 4)]
    cases = []
    for kind, n in plan:
        for _ in range(n):
            cases.append((kind, with_reloads(rng, c01.build_case(rng, tier, kind))))
    return cases


def evaluate(ctx, name, evs, outs, shard=4):
    terms = [hist.cq_case(e, o) for e, o in zip(evs, outs)]
    defs = {"SM": "dumps_ok"}
    if ctx.model_ok:
        defs["MM"] = "model_agrees"
    okc, res, lg = vlib.run_coq_cases(name, HEADER, terms, "hcase", defs, shard=shard)
    if not okc:
        raise RuntimeError("coq evaluation failed: " + lg[-3000:])
    # dumps_ok judges the dumps it is shown and does not look at the events: a history whose
    # observations are missing (the driver died, a dump was not delivered) must not pass for that reason
    short = [i for i, (e, o) in enumerate(zip(evs, outs)) if len(o) != len(e)]
    return res.get("MM", []), sorted(set(res["SM"]) | set(short))


def run(ctx):
    if ctx.replay and "events" in ctx.replay:
        cases = [("replay", [tuple(e) for e in ctx.replay["events"]])]
    else:
        cases = generate(ctx.rng, ctx.tier)
    evs = [c[1] for c in cases]
    outs = hist.run_histories(ctx, evs)
    mm, sm = evaluate(ctx, "c11", evs, outs, shard=1 if ctx.tier == "quick" else 4)
    ndumps = 0
    maxpages = 0
    heights = {}
    tagcount = {}
    nontrivial = 0
    for e, o in zip(evs, outs):
        tags = c01.classify(e, o)
        for t in tags:
            tagcount[t] = tagcount.get(t, 0) + 1
        if "root_moved" in tags:
            nontrivial += 1
        for x in o:
            if x["t"] == "dump" and x.get("pages") is not None:
                ndumps += 1
                maxpages = max(maxpages, len(x["pages"]))
    ctx.report.coverage.update({
        "evaluations": len(cases),
        "distinct_nontrivial": nontrivial,
        "rule": "histories as in C01 with flushes and reloads inserted; every dump lists every allocated page "
                "(cache or file); non-trivial = the history reaches at least one tree with an internal root "
                "(a leaf split happened); histories are generated independently, hence distinct",
        "traces_validated_against_impl": len(cases),
        "dumps_compared": ndumps,
        "largest_dump_pages": maxpages,
        "histories_with": tagcount,
        "samples": [{"kind": cases[i][0], "events": [x[0] if x[0] != "stmt" else hist.sql_stmt(x[1])[:60] for x in evs[i]][:10]}
                    for i in range(0, len(cases), max(1, len(cases) // 3))][:3],
    })
    out = {"spec_violations": [], "model_mismatches": [],
           "correspondence_name": "page dumps vs flatten of the model's forest (Spec.HistObs.model_agrees)"}

    def shrink(i, which):
        ev = evs[i]
        sts = [x for x in ev if x[0] in ("stmt", "flush", "crash")]

        def rebuild(items):
            res = []
            every = max(1, len(items) // 12)        # long histories: dump sparsely while shrinking
            for n, it in enumerate(items):
                res.append(it)
                if n % every == 0 or n == len(items) - 1 or it[0] == "crash":
                    res.append(("dump",))
            return res

        def fails(items):
            e2 = rebuild(items)
            try:
                o2 = hist.run_histories(ctx, [e2])
                m2, s2 = evaluate(ctx, "c11_shrink", [e2], o2)
            except RuntimeError:
                return False
            return bool(m2 if which == "MM" else s2)
        if not fails(sts):
            return ev, None
        small = hist.ddmin(sts, fails, budget=45)
        e2 = rebuild(small)
        return e2, hist.run_histories(ctx, [e2])[0]

    for i in sm[:1]:
        e2, o2 = shrink(i, "SM")
        out["spec_violations"].append({
            "events": [list(x) for x in e2], "sql": [hist.sql_stmt(x[1]) if x[0] == "stmt" else x[0] for x in e2 if x[0] != "dump"],
            "observed_last_dump": [x for x in (o2 or []) if x["t"] == "dump"][-1:] ,
            "what": "a dumped page graph violates the shape invariants (Spec/DumpCheck.v dump_ok = false)"})
    for i in mm[:1]:
        e2, o2 = shrink(i, "MM")
        out["model_mismatches"].append({"events": [list(x) for x in e2],
                                        "sql": [hist.sql_stmt(x[1]) if x[0] == "stmt" else x[0] for x in e2 if x[0] != "dump"]})
    return out
