"""Shared machinery of the SELECT checks (C05, C06, C07, C18-select).

A *case* is {"tables":[{"name","cols":[{"name","type"}],"rows":[[...]]}], "queries":[sql text]}.
The Go driver (harness/engine, mode "select") loads the tables into a real database, parses every
query text, dumps the AST and runs engine.EvaluateSelect under recover()+watchdog. The Coq side
gets the same table contents, the AST Go parsed and what Go returned, and evaluates
  MM = mm_select (model vs Go)   and   SM = a property oracle on Go's result.
"""
import json
import os
import re
import time
from concurrent.futures import ThreadPoolExecutor

import vlib

HEADER = """From Coq Require Import ZArith String List.
From Mkdb Require Import Model.CaseLib Model.Select Spec.SelectSpec Spec.SelectObs.
Import ListNotations.
Open Scope string_scope.
"""

TYPES = ["int", "bigint", "varchar", "boolean"]


# --------------------------------------------------------------------------------------
# Coq literals
# --------------------------------------------------------------------------------------

def cq_str(s):
    if all(32 <= ord(ch) < 127 for ch in s):
        return '"%s"' % s.replace('"', '""')
    return vlib.cq_string(s).replace("%string", "")


def cq_val(v):
    if v is None:
        return "VNull"
    if v is True:
        return "(VBool true)"
    if v is False:
        return "(VBool false)"
    if isinstance(v, int):
        return "(VInt (%d)%%Z)" % v
    if isinstance(v, str):
        return "(VStr %s)" % cq_str(v)
    raise ValueError("value %r" % (v,))


def cq_row(r):
    return "[" + ";".join(cq_val(v) for v in r) + "]"


def cq_rows(rows):
    return "[" + ";\n   ".join(cq_row(r) for r in rows) + "]"


def cq_table(name, cols, rows):
    return "(%s, [%s], %s)" % (cq_str(name), ";".join(cq_str(c) for c in cols), cq_rows(rows))


def cq_colref(c):
    return "(mkCol %s %s)" % (cq_str(c["q"]), cq_str(c["n"]))


def cq_vexpr(v):
    k = v["k"]
    if k == "col":
        return "(XCol %s)" % cq_colref(v)
    if k == "int":
        return "(XLit (VInt (%d)%%Z))" % v["v"]
    if k == "str":
        return "(XLit (VStr %s))" % cq_str(v["v"])
    if k == "bool":
        return "(XLit (VBool %s))" % ("true" if v["v"] else "false")
    raise ValueError(k)


OPS = {"eq": "CEq", "neq": "CNeq", "gt": "CGt", "lt": "CLt", "lte": "CLte", "gte": "CGte"}


def cq_expr(e):
    k = e["k"]
    if k == "val":
        return "(EVal %s)" % cq_vexpr(e["v"])
    if k == "pred":
        l, op, r = e["p"]
        return "(EPred %s %s %s)" % (cq_vexpr(l), OPS[op], cq_vexpr(r))
    if k == "and":
        l, op, r = e["l"]
        return "(EAnd (%s, %s, %s) %s)" % (cq_vexpr(l), OPS[op], cq_vexpr(r), cq_expr(e["r"]))
    if k == "or":
        return "(EOr %s %s)" % (cq_expr(e["l"]), cq_expr(e["r"]))
    raise ValueError(k)


def cq_tref(t):
    if t["k"] == "name":
        return "(TRName %s %s)" % (cq_str(t["name"]),
                                   "None" if t["alias"] is None else "(Some %s)" % cq_str(t["alias"]))
    jt = {"full": "JFull", "left": "JLeft", "right": "JRight", "inner": "JInner"}[t["jt"]]
    return "(TRJoin %s %s %s %s)" % (cq_tref(t["l"]), jt, cq_tref(t["r"]), cq_expr(t["on"]))


def cq_prim(p):
    k = p["k"]
    if k == "star":
        return "SPStar"
    if k == "count":
        return "(SPCount %s)" % ("None" if p["c"] is None else "(Some %s)" % cq_colref(p["c"]))
    if k == "avg":
        return "(SPAvg %s)" % cq_colref(p["c"])
    return "(SPExpr %s)" % cq_expr(p["e"])


def cq_select(a):
    return "(mkSelect [%s] [%s] %s [%s] [%s] %s %s (%d)%%Z (%d)%%Z)" % (
        ";".join("mkDC %s %s" % (cq_prim(d["p"]), cq_str(d["as"])) for d in a["list"]),
        ";".join(cq_tref(t) for t in a["from"]),
        "None" if a["where"] is None else "(Some %s)" % cq_expr(a["where"]),
        ";".join(cq_colref(c) for c in a["group"]),
        ";".join("mkSort %s %s" % (cq_colref(s["key"]), "SDesc" if s["desc"] else "SAsc") for s in a["sort"]),
        "true" if a["la"] else "false", "true" if a["oa"] else "false", a["limit"], a["offset"])


ERRS = {"FieldNotFound": "EFieldNotFound", "FieldAmbiguous": "EFieldAmbiguous",
        "SortFieldNotFound": "ESortFieldNotFound", "IncompatTypeCompare": "EIncompatTypeCompare",
        "NonBoolJoinCond": "ENonBoolJoinCond", "TableNotExist": "ETableNotExist",
        "TmpUnsupported": "ETmpUnsupported", "Other": "EOther"}


def good_val(v):
    return v is None or isinstance(v, (bool, int, str))


def cq_gobs(r):
    k = r["kind"]
    if k == "ok":
        if not all(good_val(v) for row in r["rows"] for v in row):
            return "GPanic"      # a value of a Go type the engine never produces: flag it
        return "(GOk [%s] %s)" % (";".join("(%s,%s)" % (cq_str(t), cq_str(c)) for t, c in r["fields"]),
                                 cq_rows(r["rows"]))
    if k == "err":
        return "(GErr %s)" % ERRS[r["err"]]
    if k == "panic":
        return "GPanic"
    return "GTimeout"


# --------------------------------------------------------------------------------------
# running
# --------------------------------------------------------------------------------------

SETUP_FAILURES = []


def has_dup_cols(t):
    names = [c["name"] for c in t["cols"]]
    return len(set(names)) != len(names)


def model_db(case, obs):
    """table contents handed to the model: the generated contents; for a table with duplicated
    column names (C18 stream) what a scan of the real table returns."""
    out = []
    for t in case["tables"]:
        rows = t["rows"]
        if has_dup_cols(t):
            rows = obs["scan"].get(t["name"], rows)
        out.append((t["name"], [c["name"] for c in t["cols"]], rows))
    return out


def run_go(ctx, cases):
    ok, obs, lg = vlib.run_driver_parallel(ctx.bins["engine"], "select",
                                           [{"tables": c["tables"], "queries": c["queries"]} for c in cases],
                                           nshards=12)
    if not ok or len(obs) != len(cases):
        raise RuntimeError("select driver failed: " + lg[-3000:])
    for c, o in zip(cases, obs):
        if o.get("setup_err"):
            # a valid CREATE TABLE / INSERT of the generated contents was refused: that is an observation
            # about the code (e.g. a string value spelled like a keyword), reported as a violation with the
            # tables as input; the queries of this case are not evaluated
            SETUP_FAILURES.append({"tables": c["tables"], "error": o["setup_err"]})
            o["results"] = [{"parse_err": "setup"} for _ in c["queries"]]
            continue
        if len(o["results"]) != len(c["queries"]):
            raise RuntimeError("driver returned %d results for %d queries" % (len(o["results"]), len(c["queries"])))
    return obs


def _parse_def(out, name):
    m = re.search(r"^%s\s*=\s*(.*?)\n\s*:\s" % re.escape(name), out, re.S | re.M)
    if not m:
        return None
    return [int(x) for x in re.findall(r"\d+", m.group(1))]


def run_coq(name, cases, obs, defs, shard_queries=250, timeout=1500):
    """Evaluate the boolean functions `defs` (NAME -> Coq function sel_case -> bool) on every
    (case, query) whose text parsed. Returns {NAME: [(case index, query index), ...]} of the
    items on which the function is false, and the list of evaluated items."""
    items = []          # (ci, qi)
    for ci, (c, o) in enumerate(zip(cases, obs)):
        for qi, r in enumerate(o["results"]):
            if not r.get("parse_err"):
                items.append((ci, qi))
    # shards: consecutive cases until the query budget is reached
    shards = []
    cur, n = [], 0
    last_ci = None
    for it in items:
        if n >= shard_queries and it[0] != last_ci:
            shards.append(cur)
            cur, n = [], 0
        cur.append(it)
        n += 1
        last_ci = it[0]
    if cur or not shards:
        shards.append(cur)

    def one(si):
        its = shards[si]
        buf = [HEADER]
        seen = set()
        for ci, _ in its:
            if ci not in seen:
                seen.add(ci)
                dbl = model_db(cases[ci], obs[ci])
                buf.append("Definition db_%d : db := [%s].\n" % (ci, ";\n  ".join(cq_table(*t) for t in dbl)))
        buf.append("Definition cases : list sel_case := [\n")
        buf.append(";\n".join("(db_%d, %s, %s)" % (ci, cq_select(obs[ci]["results"][qi]["ast"]),
                                                  cq_gobs(obs[ci]["results"][qi])) for ci, qi in its))
        buf.append("\n].\n")
        for nm, fn in defs.items():
            buf.append("Definition %s := Eval vm_compute in bad_idx (%s) cases.\nPrint %s.\n" % (nm, fn, nm))
        return vlib.run_coq_text("%s_%d" % (name, si), "".join(buf), timeout)

    with ThreadPoolExecutor(max_workers=min(12, len(shards))) as ex:
        outs = list(ex.map(one, range(len(shards))))
    res = {nm: [] for nm in defs}
    for si, (rc, out) in enumerate(outs):
        if rc != 0:
            raise RuntimeError("coq evaluation failed (shard %d of %s):\n%s" % (si, name, out[-3000:]))
        for nm in defs:
            idx = _parse_def(out, nm)
            if idx is None:
                raise RuntimeError("cannot parse %s in shard %d:\n%s" % (nm, si, out[-2000:]))
            res[nm].extend(shards[si][j] for j in idx)
    return res, items


def evaluate(ctx, cases, name, sm_fn, extra_defs=None):
    """Go run + Coq evaluation. Returns (obs, {NAME: [(ci, qi)]}, items)."""
    obs = run_go(ctx, cases)
    defs = {"SM": sm_fn}
    if ctx.model_ok:
        defs["MM"] = "mm_select"
    if extra_defs:
        defs.update(extra_defs)
    res, items = run_coq(name, cases, obs, defs)
    res.setdefault("MM", [])
    return obs, res, items


# --------------------------------------------------------------------------------------
# shrinking: one query, fewer rows
# --------------------------------------------------------------------------------------

def shrink(ctx, case, qi, which, name, sm_fn, budget=30):
    """keep only query qi, then delete rows while the item still fails `which`"""
    cur = {"tables": [dict(t, rows=list(t["rows"])) for t in case["tables"]], "queries": [case["queries"][qi]]}

    def fails(c):
        try:
            _, res, _ = evaluate(ctx, [c], name + "_shrink", sm_fn)
        except RuntimeError:
            return False
        return bool(res.get(which))

    if not fails(cur):
        return {"tables": case["tables"], "queries": [case["queries"][qi]]}
    for ti in range(len(cur["tables"])):
        chunk = max(1, len(cur["tables"][ti]["rows"]) // 2)
        while chunk >= 1 and budget > 0:
            i = 0
            progressed = False
            while i < len(cur["tables"][ti]["rows"]) and budget > 0:
                rows = cur["tables"][ti]["rows"]
                cand_rows = rows[:i] + rows[i + chunk:]
                cand = {"tables": [dict(t) for t in cur["tables"]], "queries": cur["queries"]}
                cand["tables"][ti] = dict(cur["tables"][ti], rows=cand_rows)
                budget -= 1
                if fails(cand):
                    cur = cand
                    progressed = True
                else:
                    i += chunk
            if chunk == 1 and not progressed:
                break
            chunk = chunk // 2 if chunk > 1 else (1 if progressed else 0)
    return cur


def report_failures(ctx, out, cases, obs, res, name, sm_fn, what_sm, max_each=2):
    """fill out["spec_violations"] / out["model_mismatches"] from failing items (shrunk)"""
    seen_err = set()
    for sf in SETUP_FAILURES:
        if sf["error"] in seen_err or len(out["spec_violations"]) >= max_each:
            continue
        seen_err.add(sf["error"])
        out["spec_violations"].append({
            "case": {"tables": sf["tables"], "queries": []}, "observed": {"setup_error": sf["error"]},
            "what": "loading valid table contents failed (CREATE TABLE / INSERT of generated values was refused): " + sf["error"][:300],
            "replay_cmd": "python3 tools/check.py %s --replay <this file>" % ctx.pid})
    del SETUP_FAILURES[:]
    for which, key in (("SM", "spec_violations"), ("MM", "model_mismatches")):
        for ci, qi in res.get(which, [])[:max_each]:
            small = shrink(ctx, cases[ci], qi, which, name, sm_fn)
            o2 = run_go(ctx, [small])[0]
            r = o2["results"][0]
            entry = {"case": small, "query": small["queries"][0],
                     "observed": {k: r.get(k) for k in ("kind", "err", "text", "fields", "rows")}}
            if which == "SM":
                entry["what"] = what_sm
                entry["replay_cmd"] = "python3 tools/check.py %s --replay <this file>" % ctx.pid
            out[key].append(entry)


# --------------------------------------------------------------------------------------
# generator helpers
# --------------------------------------------------------------------------------------

STR_ALPHABET = ["a", "b", "c", "ab", "bc", "x", "y", "A", "B", "aa", "a b", "z9", "0", "10", "9",
                'q"r', "a,b", ",", '"', "a\\'b", "<nil>", "true", "1,", '"a",', "", "mm", "zz", "Ab",
                # strings spelled like reserved words and symbols: they are values, not syntax
                "on", "or", "false", "null", "select", "*", "=", "left", "(", "desc"]


def gen_value(rng, ty, pnull=0.0, small=True):
    if rng.random() < pnull:
        return None
    if ty == "int":
        return rng.choice([0, 1, 2, 3, 4, 5, 7, 10, 12, 23, 100]) if small else rng.randrange(-2**31, 2**31)
    if ty == "bigint":
        return rng.choice([0, 1, 2, 3, 12, 123, 2**31, 2**40 + 1, -1, -2, -7]) if small else rng.randrange(-2**62, 2**62)
    if ty == "varchar":
        return rng.choice(STR_ALPHABET)
    return rng.random() < 0.5


def sql_lit(v):
    if isinstance(v, bool):
        return "true" if v else "false"
    if isinstance(v, int):
        return str(v)
    return "'" + v + "'"


def gen_table(rng, name, ncols=None, nrows=None, pnull=0.0, types=None, colnames=None, small=True):
    ncols = ncols or rng.randrange(1, 6)
    types = types or [rng.choice(TYPES) for _ in range(ncols)]
    base = colnames or ["a", "b", "c", "d", "e", "f"]
    cols = [{"name": base[i], "type": types[i]} for i in range(len(types))]
    if nrows is None:
        nrows = rng.choice([0, 1, 2, 3, 5, 8, 13, 14, 17, 20, 25, 31, 40])
    rows = [[gen_value(rng, c["type"], pnull, small) for c in cols] for _ in range(nrows)]
    return {"name": name, "cols": cols, "rows": rows}


def summarize(cases, obs):
    kinds = {}
    errs = {}
    nq = 0
    nparse = 0
    for c, o in zip(cases, obs):
        for r in o["results"]:
            nq += 1
            if r.get("parse_err"):
                nparse += 1
                continue
            kinds[r["kind"]] = kinds.get(r["kind"], 0) + 1
            if r["kind"] == "err":
                errs[r["err"]] = errs.get(r["err"], 0) + 1
    return {"queries": nq, "rejected_by_parser": nparse, "outcome_kinds": kinds, "error_classes": errs}


# --------------------------------------------------------------------------------------
# SQL text grammar pieces
# --------------------------------------------------------------------------------------

class Col:
    """a column as a query can name it"""

    def __init__(self, table, tid, name, ty, values, unique_name=True):
        self.table, self.tid, self.name, self.ty, self.values = table, tid, name, ty, values
        self.unique_name = unique_name

    def ref(self, rng, pqual=0.35):
        if not self.unique_name or rng.random() < pqual:
            return "%s.%s" % (self.tid, self.name)
        return self.name


def table_cols(t, tid=None, unique=None):
    tid = tid or t["name"]
    out = []
    for i, c in enumerate(t["cols"]):
        vals = [r[i] for r in t["rows"] if r[i] is not None]
        out.append(Col(t["name"], tid, c["name"], c["type"], vals,
                       True if unique is None else unique(c["name"])))
    return out


def lit_for(rng, col, other_type=False):
    ty = col.ty
    if other_type:
        ty = rng.choice([x for x in TYPES if x != ty and not (x in ("int", "bigint") and ty in ("int", "bigint"))])
    if ty in ("int", "bigint"):
        pos = [v for v in col.values if isinstance(v, int) and not isinstance(v, bool) and v >= 0] if not other_type else []
        if pos and rng.random() < 0.8:
            return str(rng.choice(pos) + rng.choice([0, 0, 0, 1]))
        return str(rng.choice([0, 1, 2, 3, 5, 12, 100]))
    if ty == "varchar":
        sv = [v for v in col.values if isinstance(v, str)] if not other_type else []
        if sv and rng.random() < 0.8:
            return "'" + rng.choice(sv) + "'"
        return "'" + rng.choice(STR_ALPHABET) + "'"
    return rng.choice(["true", "false"])


ORD_OPS = ["<", "<=", ">", ">="]
EQ_OPS = ["=", "!="]


def gen_pred(rng, pool, confuse=0.0, pqual=0.35):
    """one comparison; with probability `confuse` the operand types are mixed up (or, one time in
    four, a bare value stands where a comparison is expected)"""
    c = rng.choice(pool)
    bad = rng.random() < confuse
    if bad and rng.random() < 0.25:
        return rng.choice([c.ref(rng, pqual), lit_for(rng, c), "1", "'a'", "true", "false"])
    if c.ty == "boolean" and not bad:
        op = rng.choice(EQ_OPS)
    else:
        op = rng.choice(EQ_OPS + ORD_OPS + ORD_OPS)
    same = [d for d in pool if (d.ty == c.ty or {d.ty, c.ty} == {"int", "bigint"})]
    other = [d for d in pool if d not in same]
    if bad and other and rng.random() < 0.5:
        rhs = rng.choice(other).ref(rng, pqual)
    elif bad:
        rhs = lit_for(rng, c, other_type=True)
    elif len(same) > 1 and rng.random() < 0.25:
        rhs = rng.choice(same).ref(rng, pqual)
    else:
        rhs = lit_for(rng, c)
    lhs = c.ref(rng, pqual)
    if rng.random() < 0.15:
        lhs, rhs = rhs, lhs
        op = {"<": ">", ">": "<", "<=": ">=", ">=": "<="}.get(op, op)
    return "%s %s %s" % (lhs, op, rhs)


def gen_cond(rng, pool, depth, confuse=0.0, pqual=0.35):
    """OrCondition := AndCondition [OR OrCondition]; AndCondition := Predicate [AND AndCondition].
    `depth` bounds the nesting of the resulting tree (a chain of k connectives nests k deep)."""
    nconn = rng.randrange(0, depth + 1)
    parts = [gen_pred(rng, pool, confuse, pqual)]
    for _ in range(nconn):
        parts.append(rng.choice(["AND", "OR"]))
        parts.append(gen_pred(rng, pool, confuse, pqual))
    return " ".join(parts)


def cond_depth(e):
    if e is None:
        return 0
    k = e["k"]
    if k in ("val", "pred"):
        return 0
    if k == "and":
        return 1 + cond_depth(e["r"])
    return 1 + max(cond_depth(e["l"]), cond_depth(e["r"]))


def cond_mixes(e):
    """does the tree contain both AND and OR"""
    seen = set()

    def walk(x):
        if x is None or x["k"] in ("val", "pred"):
            return
        seen.add(x["k"])
        if x["k"] == "and":
            walk(x["r"])
        else:
            walk(x["l"])
            walk(x["r"])
    walk(e)
    return seen == {"and", "or"}


def gen_limit_offset(rng, n):
    """LIMIT / OFFSET around the boundaries 0, n-1, n, n+1 of an n-row result"""
    parts = []
    cands = sorted({0, 1, max(0, n - 1), n, n + 1, max(0, n // 2)})
    # (LIMIT values near the top of the integer range are exercised by C18's session statements: the select
    # model keeps LIMIT / OFFSET as unary naturals and cannot evaluate them)
    mode = rng.choice(["none", "none", "limit", "offset", "both", "both", "both_rev"])
    if mode in ("limit", "both", "both_rev"):
        parts.append("LIMIT %d" % rng.choice(cands))
    if mode in ("offset", "both", "both_rev"):
        parts.append("OFFSET %d" % rng.choice(cands))
    if mode == "both_rev":
        parts.reverse()
    return " ".join(parts)


def force_ties(rng, t, colidx, k=3):
    """rewrite column colidx so that it has at most k distinct values (keeps the type)"""
    vals = [r[colidx] for r in t["rows"] if r[colidx] is not None]
    if not vals:
        return
    pick = [rng.choice(vals) for _ in range(k)]
    for r in t["rows"]:
        if r[colidx] is not None:
            r[colidx] = rng.choice(pick)
