"""C07 - COUNT, AVG and GROUP BY compute true aggregates.

Tables with adversarial grouping values ((1,23)/(12,3), ("a","bc")/("ab","c"), strings holding
quotes and commas, NULLs), NULLs in counted columns, averages ending in .5, shuffled row orders;
GROUP BY written by name / qualifier / alias, with and without commas, with and without an
aggregate function, on top of WHERE and JOIN. SM = check_agg (Spec/SelectSpec.v) on Go's rows as
a multiset. AVG is a running rounded average in the code (known, pinned by the existing tests):
a mismatch that concerns only AVG cells of groups with >= 3 rows and on which Go agrees with the
model is reported under "known"; the fixed witness [1,0,0] is replayed on every run."""
import copy
import vlib
from props import selcommon as sc

PROP_FILES = ["Properties/C07.v"]
HARNESS = ["engine"]
ASSUMPTIONS = [
    "the statement tree handed to the model is the one sql.Parser produced for the text (C10)",
    "table contents handed to the model are the inserted rows in insertion order (C01)",
    "float64 division followed by math.Round agrees with exact rounding (half away from zero) while "
    "|sum| and the row count stay below 2^52; int64 overflow is out of scope",
    "fmt.Sprintf(\"%#v,\") is injective on tuples of int64/string/bool/nil (strconv.Quote is injective and "
    "self-delimiting); proved for the quoting of printable ASCII in Proofs/SelectGroupKey.v",
]
SM_FN = "sm_c07"

WITNESS = {"tables": [{"name": "t", "cols": [{"name": "v", "type": "int"}], "rows": [[1], [0], [0]]}],
           "queries": ["SELECT avg(v) FROM t"], "kind": "witness"}

GROUP_VALUE_SETS = {
    "int": [[1, 12, 2, 23, 3], [0, 1], [5], [1, 2, 3, 4, 5, 6, 7]],
    "bigint": [[1, 12, 123, 23, 3], [2**40, 2**40 + 1], [-1, 1, 11, -11]],
    "varchar": [["a", "ab", "abc", "b", "bc", "c"], ['q"r', 'q', '"r', '"', ",", "a,b", "a", "b", "a,", ",b"],
                ["<nil>", "true", "1", "1,", '"a",', "a"], ["", "a", "a\\'b", "b\\'", "ab"]],
    "boolean": [[True, False]],
}


def gen_agg_table(rng, name="t"):
    gtypes = [rng.choice(sc.TYPES) for _ in range(rng.choice([1, 2, 2, 3]))]
    cols = [{"name": "g%d" % (i + 1), "type": ty} for i, ty in enumerate(gtypes)]
    cols += [{"name": "v", "type": "int"}, {"name": "w", "type": "bigint"},
             {"name": "c", "type": rng.choice(sc.TYPES)}]
    gsets = [rng.choice(GROUP_VALUE_SETS[ty]) for ty in gtypes]
    gsets = [[x for x in s if not (isinstance(x, str) and "'" in x and "\\'" not in x)] or ["a"] for s in gsets]
    pnull_g = rng.choice([0.0, 0.0, 0.15])
    pnull_c = rng.choice([0.0, 0.3, 0.6])
    vset = rng.choice([[0, 1], [1, 2], [0, 1, 2, 3], [1, 2, 4, 7, 10], [3], [0, 5, 10, 15]])
    n = rng.choice([0, 1, 2, 3, 4, 6, 8, 12, 12, 20, 20, 30])
    rows = []
    for _ in range(n):
        r = [None if rng.random() < pnull_g else rng.choice(s) for s in gsets]
        r.append(rng.choice(vset))
        r.append(rng.choice([-3, -1, 0, 1, 2, 2**33, 5]))
        r.append(sc.gen_value(rng, cols[-1]["type"], pnull_c))
        rows.append(r)
    return {"name": name, "cols": cols, "rows": rows}, len(gtypes)


def gen_queries(rng, t, ng, tier, other=None):
    qs = []
    alias = rng.choice([None, None, "x"])
    tid = alias or t["name"]
    frm = t["name"] + ((" " + alias) if alias else "")
    pool = sc.table_cols(t, tid)
    for _ in range(8 if tier == "quick" else 14):
        shape = rng.choice(["group", "group", "group", "group", "nogroup", "nogroup", "groupnoagg", "join", "join"])
        if shape == "join" and other is None:
            shape = "group"
        items, gb = [], []
        gcols = rng.sample(range(ng), rng.randrange(1, ng + 1)) if shape != "nogroup" else []
        used_alias = set()
        for gi in gcols:
            name = "g%d" % (gi + 1)
            spell = rng.choice(["name", "name", "qual", "alias", "qual_alias"])
            if shape == "join":
                spell = rng.choice(["qual", "qual_alias"])
            sel = name if spell in ("name", "alias") else "%s.%s" % (tid, name)
            grp = rng.choice([name, sel]) if spell != "name" else name
            if spell in ("alias", "qual_alias"):
                al = "k%d" % (gi + 1)
                sel += rng.choice([" AS ", " "]) + al
                grp = rng.choice([al, al, grp])
            if sel.startswith(tid + ".") is False and grp.startswith(tid + "."):
                grp = name                       # a qualified GROUP BY of an unqualified item is a parse error
            items.append(sel)
            gb.append(grp)
        aggs = []
        if shape != "groupnoagg":
            for _ in range(rng.randrange(1, 4)):
                if shape == "join":
                    aggs.append(rng.choice(["count(*)", "count(*)", "count(%s.c)" % tid, "avg(%s.v)" % tid, "count(y.z)", "avg(y.z)"]))
                else:
                    aggs.append(rng.choice(["count(*)", "count(*)", "count(c)", "count(%s.c)" % tid, "avg(v)", "avg(v)", "avg(w)",
                                            "avg(%s.v)" % tid, "count(v)", "count(g1)"]))
        if rng.random() < 0.15 and "avg(v)" in aggs:
            aggs.append("avg(v)")                # the same average twice
        if shape != "join" and rng.random() < 0.3:
            # aggregates under an alias - also one that is the name of a grouping column or of another column
            # (an alias names the item, it never makes the aggregate a grouping key)
            names = ["n", "total", "v", "c"] + ["g%d" % (gi + 1) for gi in range(ng)]
            taken = set()
            for ai in range(len(aggs)):
                al = rng.choice(names)
                if rng.random() < 0.6 and al not in taken:
                    taken.add(al)
                    aggs[ai] += rng.choice([" AS ", " "]) + al
        items += aggs
        rng.shuffle(items)
        q = "SELECT %s FROM %s" % (", ".join(items), frm)
        if shape == "join" and other is not None:
            q = "SELECT %s FROM %s %s %s y ON %s.g1 = y.g1" % (", ".join(items), frm, rng.choice(sc_joins()), other["name"], tid)
            if t["cols"][0]["type"] != other["cols"][0]["type"]:
                continue
        r = rng.random()
        if r < 0.3:
            q += " WHERE " + sc.gen_cond(rng, [c for c in pool if c.name in ("v", "w", "g1")], rng.choice([0, 1]), pqual=1.0 if shape == "join" else 0.3)
        elif r < 0.4:
            q += " WHERE %s.v > 1000" % tid      # empty input
        if gb:
            rng.shuffle(gb)
            q += " GROUP BY " + rng.choice([", ", ", ", " "]).join(gb)
        if gcols and rng.random() < 0.25:
            first = items[0].split(" ")[-1]
            if "(" not in first:
                q += " ORDER BY %s%s" % (first, rng.choice(["", " DESC"]))
        qs.append(q)
    return qs


def sc_joins():
    return ["JOIN", "LEFT JOIN", "RIGHT JOIN", "INNER JOIN"]


def gen_case(rng, tier):
    t, ng = gen_agg_table(rng)
    other = None
    if rng.random() < 0.5:
        other = {"name": "u", "cols": [{"name": "g1", "type": t["cols"][0]["type"]}, {"name": "z", "type": "int"}],
                 "rows": [[r[0], rng.choice([1, 2, 3])] for r in rng.sample(t["rows"], min(len(t["rows"]), 4))]
                 + [[sc.gen_value(rng, t["cols"][0]["type"]), 9] for _ in range(rng.choice([0, 1, 2]))]}
    queries = gen_queries(rng, t, ng, tier, other)
    tables = [t] + ([other] if other else [])
    out = [{"tables": tables, "queries": queries, "kind": "base"}]
    if len(t["rows"]) > 1 and rng.random() < 0.6:
        t2 = copy.deepcopy(t)
        rng.shuffle(t2["rows"])
        out.append({"tables": [t2] + ([other] if other else []), "queries": queries, "kind": "shuffled"})
    return out


def half_cases():
    """averages ending in .5, positive and negative, groups of one and two rows"""
    rows = [[1, 0], [1, 1], [2, 2], [2, 5], [3, -1], [3, 0], [4, -3], [4, -4], [5, 7], [6, 2**40], [6, 2**40 + 1]]
    t = {"name": "t", "cols": [{"name": "g1", "type": "int"}, {"name": "w", "type": "bigint"}], "rows": rows}
    return {"tables": [t], "queries": ["SELECT g1, avg(w), count(*) FROM t GROUP BY g1",
                                       "SELECT avg(w), g1 FROM t WHERE g1 > 2 GROUP BY g1 ORDER BY g1 DESC",
                                       "SELECT t.g1 k, avg(t.w) FROM t GROUP BY k"], "kind": "halves"}


FIXED_WITNESSES = [   # the shapes repaired by the four fix commits of 2026-09-25
    {"tables": [{"name": "t", "cols": [{"name": "a", "type": "int"}, {"name": "b", "type": "int"}],
                 "rows": [[0, 1], [6, 1], [4, 2]]}],
     "queries": ["SELECT count(*), t.b FROM t GROUP BY b", "SELECT count(*), b AS x FROM t GROUP BY x",
                 "SELECT count(a), t.b FROM t GROUP BY b", "SELECT b FROM t GROUP BY b",
                 "SELECT avg(a), avg(a) FROM t WHERE b = 1", "SELECT a AS x, a FROM t"], "kind": "fixed_witness"},
]


def same_name_grouping_cases(rng):
    """a join of two tables that share a column name: both same-named columns, each under its own qualifier, in
    the select list and in GROUP BY - two grouping columns, not one named twice"""
    o = {"name": "o", "cols": [{"name": "k", "type": "int"}, {"name": "year", "type": "int"}, {"name": "v", "type": "int"}],
         "rows": [[1, 2020, 5], [1, 2020, 7], [2, 2020, 1], [2, 2021, 3], [3, 2021, 9], [3, 2021, 2], [1, 2021, 4]]}
    c = {"name": "c", "cols": [{"name": "k", "type": "int"}, {"name": "year", "type": "int"}],
         "rows": [[1, 2001], [2, 2001], [2, 2002], [3, 2002], [3, 2003]]}
    qs = ["SELECT o.year, c.year, count(*) FROM o JOIN c ON o.k = c.k GROUP BY o.year, c.year",
          "SELECT c.year, o.year, count(o.v) FROM o JOIN c ON o.k = c.k GROUP BY c.year, o.year",
          "SELECT o.year, c.year, count(*) FROM o LEFT JOIN c ON o.k = c.k GROUP BY o.year c.year",
          "SELECT a.year, b.year, count(*) FROM o a JOIN o b ON a.k = b.k GROUP BY a.year, b.year",
          "SELECT o.year y1, c.year y2, count(*) FROM o JOIN c ON o.k = c.k GROUP BY y1, y2",
          "SELECT o.k, c.k, o.year, count(*) FROM o JOIN c ON o.year > c.year GROUP BY o.k, c.k, o.year"]
    rng.shuffle(qs)
    return {"tables": [o, c], "queries": qs, "kind": "same_name_grouping"}


def generate(rng, tier):
    n = 160 if tier == "quick" else 700
    cases = [WITNESS, half_cases(), same_name_grouping_cases(rng)] + FIXED_WITNESSES
    for _ in range(n):
        cases += gen_case(rng, tier)
    return cases


def group_sizes(rows):
    return len(rows)


def run(ctx):
    if ctx.replay and "case" in ctx.replay:
        cases = [WITNESS, ctx.replay["case"]]
    else:
        cases = generate(ctx.rng, ctx.tier)
    obs, res, items = sc.evaluate(ctx, cases, "c07", SM_FN, {"WT": "wt_c07", "SML": "sm_c07_lenient"})
    not_wt = set(res.get("WT", []))
    sm = res["SM"]
    mm = set(res.get("MM", []))
    sml = set(res.get("SML", []))
    known, real_sm = [], []
    for it in sm:
        if it not in sml and it not in mm and ctx.model_ok:
            known.append(it)
        else:
            real_sm.append(it)
    seen = set()
    nontriv = 0
    stats = {"typed": 0, "group_by": 0, "no_group_by": 0, "group_by_without_aggregate": 0, "avg": 0, "count_col": 0,
             "on_join": 0, "with_where": 0, "empty_input_one_row": 0, "shuffled_tables": 0, "known_avg_drift": len(known)}
    for c in cases:
        if c.get("kind") == "shuffled":
            stats["shuffled_tables"] += 1
    for ci, qi in items:
        c, r = cases[ci], obs[ci]["results"][qi]
        a = r["ast"]
        if (ci, qi) in not_wt:
            continue
        stats["typed"] += 1
        kinds = [d["p"]["k"] for d in a["list"]]
        stats["group_by" if a["group"] else "no_group_by"] += 1
        if a["group"] and "count" not in kinds and "avg" not in kinds:
            stats["group_by_without_aggregate"] += 1
        if "avg" in kinds:
            stats["avg"] += 1
        if any(d["p"]["k"] == "count" and d["p"]["c"] for d in a["list"]):
            stats["count_col"] += 1
        if a["from"] and a["from"][0]["k"] == "join":
            stats["on_join"] += 1
        if a["where"]:
            stats["with_where"] += 1
        if r["kind"] == "ok" and not a["group"] and r["rows"] and all(v == 0 for v in r["rows"][0]):
            stats["empty_input_one_row"] += 1
        # non-trivial: at least two groups holding more than one row each
        if r["kind"] == "ok" and a["group"]:
            cnt_pos = [i for i, d in enumerate(a["list"]) if d["p"]["k"] == "count" and d["p"]["c"] is None]
            big = 0
            if cnt_pos:
                big = sum(1 for row in r["rows"] if row[cnt_pos[0]] > 1)
            key = (str(c["tables"]), c["queries"][qi])
            if big >= 2 and key not in seen:
                seen.add(key)
                nontriv += 1
    ctx.report.coverage.update(sc.summarize(cases, obs))
    ctx.report.coverage.update({
        "evaluations": len(items),
        "distinct_nontrivial": nontriv,
        "rule": "an aggregate query is non-trivial when it is typed (wt_c07), has GROUP BY and count(*), and Go's "
                "result has at least two groups of more than one row; distinct by (tables, query text)",
        "traces_validated_against_impl": len(items),
        "databases": len(cases),
        "distribution": stats,
        "exhaustive": False,
        "samples": [{"query": cases[ci]["queries"][qi], "go": {k: obs[ci]["results"][qi].get(k) for k in ("kind", "err")},
                     "first_rows": obs[ci]["results"][qi]["rows"][:3]} for ci, qi in items[:: max(1, len(items) // 4)][:4]],
    })
    out = {"spec_violations": [], "model_mismatches": [], "known": [],
           "correspondence_name": "Model/Select.v select (aggregate_rows) vs engine.EvaluateSelect"}
    shown = set()
    for ci, qi in known:
        rows = cases[ci]["tables"][0]["rows"]
        msg = "AVG is a running rounded average (order dependent) for groups of 3 or more rows: %s over %s" % (
            cases[ci]["queries"][qi], rows if len(rows) <= 6 else "%d rows" % len(rows))
        if cases[ci].get("kind") == "witness" or len(shown) < 1:
            if msg not in shown:
                shown.add(msg)
                out["known"].append(msg)
    res2 = dict(res, SM=real_sm)
    sc.report_failures(ctx, out, cases, obs, res2, "c07", SM_FN,
                       "aggregate result rejected by Spec.SelectSpec.check_agg")
    return out
