"""Shared library for the storage correspondence runs (C01 C02 C03 C11 C14 C16): history
generation, SQL text rendering, Coq rendering of statements / events / observations, and the
conversion of the Go history driver's output."""
import json
import vlib
from vlib import cq_list, cq_bool, cq_opt

HEADER = """From Mkdb Require Import Spec.HistObs.
Local Open Scope string_scope.
Local Open Scope N_scope.
"""

TYPES = ["int", "bigint", "varchar", "boolean"]
SQLTYPE = {"int": "INT", "bigint": "BIGINT", "varchar": "VARCHAR(%d)", "boolean": "BOOLEAN"}
ERRMAP = {
    "TableNotExist": "ETableNotExist", "TableExists": "ETableExists", "ColCount": "EColCount",
    "TypeMismatch": "ETypeMismatch", "IntRange": "EIntRange", "RowTooLarge": "ERowTooLarge",
    "KeyExists": "EKeyExists", "CellNotFound": "ECellNotFound", "FieldNotFound": "EFieldNotFound",
    "FieldAmbiguous": "EFieldAmbiguous", "Incompat": "EIncompat", "TmpUnsupported": "ETmpUnsupported",
}
SAFE = "abcdefghijklmnopqrstuvwxyzABCDEFGHIJKLMNOPQRSTUVWXYZ0123456789 _-.,;:!?*()[]{}<>=+/#@$%^&|~"


# ------------------------------------------------------------------ Coq rendering
def cq_str(s):
    """python str (chars < 256) -> Coq string term"""
    if all(32 <= ord(ch) < 127 and ch != '"' for ch in s):
        return '"%s"' % s
    return "(string_of_bytes (B [%s]))" % ";".join(str(ord(ch)) for ch in s)


def cq_value(v):
    if v is None:
        return "VNull"
    if isinstance(v, bool):
        return "(VBool %s)" % cq_bool(v)
    if isinstance(v, int):
        return "(VInt (%d)%%Z)" % v
    if isinstance(v, str):
        if all(32 <= ord(ch) < 127 and ch != '"' for ch in v):
            return '(VStr "%s")' % v
        return "(VS [%s])" % ";".join(str(ord(ch)) for ch in v)
    raise ValueError(v)


def cq_colref(q, c):
    return "(mkCol %s %s)" % (cq_str(q), cq_str(c))


def cq_vexpr(x):
    if isinstance(x, tuple) and x[0] == "col":
        return "(XCol %s)" % cq_colref(x[1], x[2])
    return "(XLit %s)" % cq_value(x)


OPS = {"=": "CEq", "!=": "CNeq", ">": "CGt", "<": "CLt", "<=": "CLte", ">=": "CGte"}


def cq_pred_triple(p):
    return "(%s, %s, %s)" % (cq_vexpr(p[0]), OPS[p[1]], cq_vexpr(p[2]))


def cq_where(w):
    """w = list of and-groups (OR of ANDs), each a list of predicates (lhs, op, rhs); parser shape:
    right-nested EOr of right-nested EAnd"""
    if w is None:
        return "None"

    def and_group(g):
        if len(g) == 1:
            p = g[0]
            return "(EPred %s %s %s)" % (cq_vexpr(p[0]), OPS[p[1]], cq_vexpr(p[2]))
        return "(EAnd %s %s)" % (cq_pred_triple(g[0]), and_group(g[1:]))

    def or_list(gs):
        if len(gs) == 1:
            return and_group(gs[0])
        return "(EOr %s %s)" % (and_group(gs[0]), or_list(gs[1:]))

    return "(Some %s)" % or_list(w)


def cq_stmt(st):
    k = st["k"]
    if k == "create":
        cols = []
        for n, t, ln in st["cols"]:
            ty = {"int": "STNumeric", "bigint": "STBigInt", "boolean": "STBoolean"}.get(t) or "(STVarchar %d)" % ln
            cols.append("(mkColDef %s %s)" % (cq_str(n), ty))
        return "(SCreateTable %s %s)" % (cq_str(st["table"]), cq_list(cols))
    if k == "insert":
        return "(SInsert %s %s %s)" % (cq_str(st["table"]), cq_list(cq_str(c) for c in st["cols"]),
                                       cq_list(cq_list(cq_value(v) for v in r) for r in st["rows"]))
    if k == "update":
        return "(SUpdate %s %s %s)" % (cq_str(st["table"]),
                                       cq_list("(%s, %s)" % (cq_str(c), cq_vexpr(v)) for c, v in st["sets"]),
                                       cq_where(st["where"]))
    if k == "delete":
        return "(SDelete %s %s)" % (cq_str(st["table"]), cq_where(st["where"]))
    raise ValueError(k)


# ------------------------------------------------------------------ SQL text rendering
def sql_lit(v):
    if isinstance(v, bool):
        return "TRUE" if v else "FALSE"
    if isinstance(v, int):
        assert v >= 0
        return str(v)
    if isinstance(v, str):
        assert "'" not in v and "\\" not in v and "\n" not in v
        return "'%s'" % v
    raise ValueError(v)


def sql_vexpr(x):
    if isinstance(x, tuple) and x[0] == "col":
        return (x[1] + "." if x[1] else "") + x[2]
    return sql_lit(x)


def sql_where(w):
    if w is None:
        return ""
    return " WHERE " + " OR ".join(" AND ".join("%s %s %s" % (sql_vexpr(p[0]), p[1], sql_vexpr(p[2])) for p in g) for g in w)


def sql_stmt(st):
    k = st["k"]
    if k == "create":
        cols = ", ".join("%s %s" % (n, SQLTYPE[t] % ln if t == "varchar" else SQLTYPE[t]) for n, t, ln in st["cols"])
        return "CREATE TABLE %s (%s)" % (st["table"], cols)
    if k == "insert":
        cl = " (%s)" % ", ".join(st["cols"]) if st["cols"] else ""
        rows = ", ".join("(%s)" % ", ".join(sql_lit(v) for v in r) for r in st["rows"])
        return "INSERT INTO %s%s VALUES %s" % (st["table"], cl, rows)
    if k == "update":
        return "UPDATE %s SET %s%s" % (st["table"], ", ".join("%s = %s" % (c, sql_vexpr(v)) for c, v in st["sets"]),
                                      sql_where(st["where"]))
    if k == "delete":
        return "DELETE FROM %s%s" % (st["table"], sql_where(st["where"]))
    raise ValueError(k)


# ------------------------------------------------------------------ generation
def value_size(t, v):
    if v is None:
        return 1
    if t == "int":
        return 5
    if t == "bigint":
        return 9
    if t == "boolean":
        return 2
    return 5 + len(v)


def row_size(cols, src, row):
    given = {c: v for (c, _, _), v in zip(src, row)}
    return sum(value_size(t, given.get(c)) for c, t, _ in cols)


class Gen:
    """keeps a shadow of which tables/columns exist so that statements are mostly valid"""

    def __init__(self, rng, max_tables=4, wide=False):
        self.rng = rng
        self.tables = {}     # name -> list of (col, type, len)
        self.max_tables = max_tables
        self.ntab = 0
        self.wide = wide     # rows near the 400-byte limit
        self.counter = 0

    def rand_str(self, lo=0, hi=12):
        n = self.rng.randint(lo, hi)
        return "".join(self.rng.choice(SAFE) for _ in range(n))

    def value(self, t, long=False):
        r = self.rng
        self.counter += 1
        if t == "int":
            return r.choice([0, 1, 2, 3, 7, 2147483647, r.randrange(0, 1000), self.counter])
        if t == "bigint":
            return r.choice([0, 5, 9223372036854775807, 2147483648, r.randrange(0, 10 ** 12), self.counter])
        if t == "boolean":
            return r.choice([True, False])
        if long:
            return self.rand_str(60, 330)
        return r.choice(["", "a", "b", self.rand_str(0, 6), self.rand_str(0, 40), "v%d" % self.counter])

    def create(self, name=None, cols=None):
        self.ntab += 1
        if name is None and self.tables and self.rng.random() < 0.12:
            # a name that differs from an existing table's only in letter case: another table
            twin = self.rng.choice(sorted(self.tables))
            for cand in (twin.upper(), twin.capitalize()):
                if cand not in self.tables and cand != twin:
                    name = cand
                    break
        name = name or "t%d" % self.ntab
        if cols is None:
            n = self.rng.randint(1, 5)
            cols = []
            for i in range(n):
                t = self.rng.choice(TYPES)
                cols.append(("c%d" % i, t, self.rng.choice([10, 255, 400]) if t == "varchar" else 0))
        self.tables.setdefault(name, cols)
        return {"k": "create", "table": name, "cols": cols}

    def insert(self, name=None, nrows=None, long=False):
        name = name or self.rng.choice(sorted(self.tables))
        cols = self.tables[name]
        nrows = nrows or self.rng.choice([1, 1, 1, 2, 3, 5, 12])
        use_cols = []
        if self.rng.random() < 0.3:
            # explicit (possibly partial, reordered) column list: missing columns become NULL
            k = self.rng.randint(1, len(cols))
            use_cols = self.rng.sample(cols, k)
        src = use_cols or cols
        rows = []
        for _ in range(nrows):
            while True:
                row = [self.value(t, long and self.rng.random() < 0.5) for _, t, _ in src]
                # inside the 400-byte limit; now and then within its last bytes (the log record of such a row is
                # the longest one there is)
                if row_size(cols, src, row) <= 340:
                    break
                if long and row_size(cols, src, row) <= 400 and self.rng.random() < 0.5:
                    break
            rows.append(row)
        return {"k": "insert", "table": name, "cols": [c for c, _, _ in use_cols], "rows": rows}

    def pred(self, cols):
        c, t, _ = self.rng.choice(cols)
        if t in ("int", "bigint"):
            op = self.rng.choice(["=", "!=", "<", "<=", ">", ">="])
        elif t == "varchar":
            op = self.rng.choice(["=", "!=", "<", ">="])
        else:
            op = self.rng.choice(["=", "!="])
        return (("col", "", c), op, self.value(t))

    def where(self, cols):
        r = self.rng.random()
        if r < 0.15:
            return None
        ngroups = self.rng.choice([1, 1, 1, 2, 3])
        return [[self.pred(cols) for _ in range(self.rng.choice([1, 1, 2, 3]))] for _ in range(ngroups)]

    def update(self, name=None):
        name = name or self.rng.choice(sorted(self.tables))
        cols = self.tables[name]
        k = self.rng.randint(1, min(2, len(cols)))
        sets = [(c, self.value(t)) for c, t, _ in self.rng.sample(cols, k)]
        return {"k": "update", "table": name, "sets": sets, "where": self.where(cols)}

    def delete(self, name=None):
        name = name or self.rng.choice(sorted(self.tables))
        cols = self.tables[name]
        return {"k": "delete", "table": name, "where": self.where(cols)}

    def failing(self):
        """statements that fail before changing anything"""
        r = self.rng.random()
        names = sorted(self.tables)
        if r < 0.25 or not names:
            return {"k": "insert", "table": "nosuch", "cols": [], "rows": [[1]]}
        name = self.rng.choice(names)
        cols = self.tables[name]
        if r < 0.4:
            if self.rng.random() < 0.5:
                return {"k": "create", "table": name, "cols": cols}       # duplicate table
            # duplicate table, other columns: nothing of the refused definition may stick
            return {"k": "create", "table": name,
                    "cols": [("o%d" % i, self.rng.choice(TYPES), 10) for i in range(self.rng.randint(1, len(cols) + 1))]}
        if r < 0.5:
            # a column name used twice (new or existing table name): refused before any change
            dup = [("d0", "int", 0), (self.rng.choice(["d1", "d0"]), "varchar", 10), ("d0", "int", 0)]
            return {"k": "create", "table": self.rng.choice([name, "dupcols"]), "cols": dup}
        if r < 0.75:
            return {"k": "insert", "table": name, "cols": [], "rows": [[1] * (len(cols) + 1)]}   # count mismatch
        if r < 0.85:
            # type mismatch in the first (only) row
            bad = [("x" if t in ("int", "bigint", "boolean") else 1) for _, t, _ in cols]
            return {"k": "insert", "table": name, "cols": [], "rows": [bad]}
        # a multi-row INSERT whose k-th row (k > 1) is invalid: since /repo a9c009f the whole statement is
        # refused before its first row is stored (before: rows 1..k-1 stayed - the former finding F11a)
        n = self.rng.randint(2, 5)
        k = self.rng.randint(2, n)
        rows = []
        for i in range(n):
            while True:
                row = [self.value(t) for _, t, _ in cols]
                if row_size(cols, cols, row) <= 340:
                    break
            rows.append(row)
        ints = [i for i, c in enumerate(cols) if c[1] == "int"]
        if ints and self.rng.random() < 0.5:
            rows[k - 1][self.rng.choice(ints)] = 2147483648                  # INT out of range
        else:
            rows[k - 1] = rows[k - 1] + [1]                                  # one value too many
        return {"k": "insert", "table": name, "cols": [], "rows": rows}


def gen_history(rng, n, max_tables=4, p_fail=0.05, long_rows=0.0, big_insert=None):
    g = Gen(rng, max_tables)
    sts = [g.create()]
    while len(sts) < n:
        r = rng.random()
        if r < p_fail:
            sts.append(g.failing())
        elif r < p_fail + 0.08 and len(g.tables) < max_tables:
            sts.append(g.create())
        elif r < 0.70:
            sts.append(g.insert(long=rng.random() < long_rows, nrows=big_insert and rng.choice([1, big_insert])))
        elif r < 0.85:
            sts.append(g.update())
        else:
            sts.append(g.delete())
    return sts, g


# ------------------------------------------------------------------ events (python form)
# ("stmt", st) | ("flush",) | ("crash",) | ("tables", [names]) | ("dump",) | ("crashlog", st, then, names)

def go_typed(v):
    if v is None:
        return None
    if isinstance(v, bool):
        return ["b", v]
    if isinstance(v, int):
        return ["i", str(v)]
    return ["s", [ord(c) for c in v]]


def go_direct(st):
    d = {"k": st["k"], "table": st["table"]}
    if st["k"] == "insert":
        d["cols"] = st["cols"]
        d["rows"] = [[go_typed(v) for v in r] for r in st["rows"]]
    elif st["k"] == "update":
        d["sets"] = [[c, go_typed(v)] for c, v in st["sets"]]
        d["where"] = sql_where(st["where"])[len(" WHERE "):] if st["where"] else ""
    else:
        d["where"] = sql_where(st["where"])[len(" WHERE "):] if st["where"] else ""
    return d


def go_events(evs):
    out = []
    for e in evs:
        if e[0] == "stmt":
            out.append({"t": "sql", "q": sql_stmt(e[1])})
        elif e[0] == "dstmt":
            out.append({"t": "direct", "d": go_direct(e[1])})
        elif e[0] == "flush":
            out.append({"t": "flush"})
        elif e[0] == "crash":
            out.append({"t": "crash"})
        elif e[0] == "tables":
            out.append({"t": "tables", "tables": e[1]})
        elif e[0] == "dump":
            out.append({"t": "dump"})
        elif e[0] == "crashlog":
            out.append({"t": "crashlog", "q": sql_stmt(e[1]), "then": [sql_stmt(s) for s in e[2]], "tables": e[3]})
        else:
            raise ValueError(e)
    return out


def cq_event(e):
    if e[0] in ("stmt", "dstmt"):
        return "HEv (EvStmt %s)" % cq_stmt(e[1])
    if e[0] == "flush":
        return "HEv EvFlush"
    if e[0] == "crash":
        return "HEv EvCrash"
    if e[0] == "tables":
        return "HReadTables %s" % cq_list(cq_str(n) for n in e[1])
    if e[0] == "dump":
        return "HDumpPages"
    raise ValueError(e)


# ------------------------------------------------------------------ observations (Go -> Coq)
def cq_res(res):
    if res == "ok":
        return "OBok"
    if res.startswith("panic") or res == "timeout":
        return "OBpanic"
    return "OBerr %s" % ERRMAP.get(res, "EOther")


def py_val(v):
    if v is None:
        return None
    if v[0] == "i":
        return int(v[1])
    if v[0] == "b":
        return bool(v[1])
    if v[0] == "s":
        return "".join(chr(b) for b in v[1])
    raise ValueError(v)


# Values and cells longer than two pages cannot come from the model (a row must fit a 4096-byte page);
# an implementation that returns one (a misread size field) is rendered cut at this length, which still
# differs from every value of the model, and keeps the Coq term within what coqc can read.
OBS_CAP = 8192


def cq_obs_value(v):
    if isinstance(v, str) and len(v) > OBS_CAP:
        v = v[:OBS_CAP]
    return cq_value(v)


def cq_table_obs(t):
    if t["err"] != "ok":
        if t["err"].startswith("panic") or t["err"] == "timeout":
            return "(%s, TPanic)" % cq_str(t["name"])
        return "(%s, TFail %s)" % (cq_str(t["name"]), ERRMAP.get(t["err"], "EOther"))
    rows = cq_list("(%d, %s)" % (i, cq_list(cq_obs_value(py_val(v)) for v in r)) for i, r in zip(t["ids"], t["rows"]))
    return "(%s, TRows %s %s)" % (cq_str(t["name"]), cq_list(cq_str(c) for c in t["cols"]), rows)


def cq_page(p):
    if p["leaf"]:
        cells = cq_list("(%d, %s, B [%s])" % (k, cq_bool(d), ";".join(map(str, v[:OBS_CAP])))
                        for k, d, v in zip(p["keys"], p["deleted"], p["vals"]))
        return "PLeaf %d %d %s %s %s %d %d %s" % (p["off"], p["lsn"], cq_bool(p["dirty"]), cq_bool(p["hasL"]),
                                                 cq_bool(p["hasR"]), p["lsib"], p["rsib"], cells)
    kids = cq_list("(%d, %d)" % (k, c) for k, c in zip(p["keys"], p["kids"]))
    return "PInt %d %d %s %d %s" % (p["off"], p["lsn"], cq_bool(p["dirty"]), p["right"], kids)


def cq_obs(o):
    t = o["t"]
    if t in ("sql", "flush", "crash", "direct"):
        return "HOut (%s)" % cq_res(o["res"])
    if t == "tables":
        return "HTables %s" % cq_list(cq_table_obs(x) for x in o.get("tables") or [])
    if t == "dump":
        h = o["header"]
        return "HDump (%d, %d, %d, %d) %s" % (h["lastKey"], h["ptRoot"], h["nextFree"], h["nextLSN"],
                                             cq_list(cq_page(p) for p in o.get("pages") or []))
    raise ValueError(t)


def cq_case(evs, outs):
    """evs: python events (no crashlog), outs: Go outputs per event. If the Go history died early
    (failed recovery) the observation list is shorter; an HDead marker is appended."""
    obs = [cq_obs(o) for o in outs]
    if len(outs) < len(evs):
        obs.append("HDead")
    return "(%s, %s)" % (cq_list(cq_event(e) for e in evs), cq_list(obs))


def run_histories(ctx, cases, cache=10000):
    """cases: list of python event lists -> list of Go outputs (list per case)"""
    inputs = [{"cache": cache, "events": go_events(evs)} for evs in cases]
    ok, outs, lg = vlib.run_driver_parallel(ctx.bins["engine"], "history", inputs, nshards=12, resilient=True)
    if not ok or len(outs) != len(cases):
        raise RuntimeError("history driver failed: " + lg[-3000:])
    # a case on which the driver process died (fatal error inside the code under test, e.g. unbounded
    # recursion during recovery) has no observations: every oracle rejects it
    return [o.get("events", []) if "_fatal" not in o else [] for o in outs]


def eval_cases(ctx, name, cases, outs, shard=40, strict=True):
    terms = [cq_case(e, o) for e, o in zip(cases, outs)]
    defs = {"SM": "spec_accepts_strict" if strict else "spec_accepts"}
    if ctx.model_ok:
        defs["MM"] = "model_agrees"
    okc, res, lg = vlib.run_coq_cases(name, HEADER, terms, "hcase", defs, shard=shard)
    if not okc:
        raise RuntimeError("coq evaluation failed: " + lg[-3000:])
    return res.get("MM", []), res["SM"]


def ddmin(items, fails, budget=40, keep_first=0, seconds=60):
    """delta debugging on a list; `fails(list)` -> bool; the first keep_first items are kept;
    stops after `budget` attempts or `seconds` of wall time"""
    import time as _t
    deadline = _t.time() + seconds
    items = list(items)
    chunk = max(1, (len(items) - keep_first) // 2)
    while chunk >= 1 and budget > 0 and _t.time() < deadline:
        i = keep_first
        changed = False
        while i < len(items) and budget > 0 and _t.time() < deadline:
            cand = items[:i] + items[i + chunk:]
            budget -= 1
            if len(cand) > keep_first and fails(cand):
                items = cand
                changed = True
            else:
                i += chunk
        if chunk == 1:
            if not changed:
                break
        else:
            chunk //= 2
    return items
