"""Shared helpers for C09 / C10 (SQL front end): Coq literals for tokens and statement trees,
conversion of the Go driver's canonical AST JSON into a Coq `stmt` term, a generator of statement
trees over the whole grammar (in the same JSON shape as the Go walker emits), and a renderer of trees
to SQL text with per-occurrence optional spellings (mirrors `render` in coq/Spec/ParseSpec.v).

Byte strings are python str with code points < 256 ("latin-1 text"), as the Go driver sends them."""
import os
import re

import vlib

# ----------------------------------------------------------------------------------------------
# token numbering (from the generated coq/Gen/Params.v, itself generated from sql/scanner.go)
# ----------------------------------------------------------------------------------------------

_codes = None
_texts = None


def load_tables():
    global _codes, _texts
    if _codes is None:
        txt = open(os.path.join(vlib.COQ, "Gen", "Params.v")).read()
        m = re.search(r"Definition token_codes[^:]*:[^:]*:=\s*\[(.*?)\]\.", txt, re.S)
        _codes = {n: int(v) for n, v in re.findall(r'\("([A-Za-z_]+)",\s*\(?(-?\d+)\)?%Z\)', m.group(1))}
        m = re.search(r"Definition token_texts[^:]*:[^:]*:=\s*\[(.*?)\]\.", txt, re.S)
        _texts = {int(c): t for c, t in re.findall(r'\(\(?(-?\d+)\)?%Z,\s*"([^"]*)"\)', m.group(1))}
    return _codes, _texts


def code(name):
    return load_tables()[0][name]


def keyword_map():
    """text -> code for every Tokens entry strictly between the reserved-word fences"""
    codes, texts = load_tables()
    lo, hi = codes["reserved_word_start"], codes["reserved_word_end"]
    return {t: c for c, t in sorted(texts.items()) if lo < c < hi}


def go_upper(s):
    """strings.ToUpper as far as keyword lookup can tell (latin-1 text of UTF-8 bytes)"""
    out = []
    i = 0
    while i < len(s):
        if s[i] == "\xc5" and i + 1 < len(s) and s[i + 1] == "\xbf":
            out.append("S")
            i += 2
        elif s[i] == "\xc4" and i + 1 < len(s) and s[i + 1] == "\xb1":
            out.append("I")
            i += 2
        else:
            c = s[i]
            out.append(c.upper() if "a" <= c <= "z" else c)
            i += 1
    return "".join(out)


# ----------------------------------------------------------------------------------------------
# Coq literals
# ----------------------------------------------------------------------------------------------

class Interner:
    """Coq parses string / number literals slowly (about 12 kB of string literal per second), so every
    distinct string of a shard is defined once and referred to by name."""

    def __init__(self):
        self.map = {}
        self.defs = []

    def s(self, text):
        nm = self.map.get(text)
        if nm is None:
            nm = "s%d" % len(self.map)
            self.map[text] = nm
            self.defs.append('Definition %s : string := "%s".' % (nm, text.replace('"', '""')))
        return nm

    def z(self, n):
        key = ("z", n)
        nm = self.map.get(key)
        if nm is None:
            nm = "z%d" % len(self.map)
            self.map[key] = nm
            self.defs.append("Definition %s : Z := (%d)%%Z." % (nm, n))
        return nm

    def header(self):
        return "\n".join(self.defs) + "\n"


_I = None


def set_interner(i):
    global _I
    _I = i


def cq_str(s):
    """Coq string term for a byte string (latin-1 text). Coq string literals may hold any byte; only
    the double quote is escaped (doubled). Files must be written as latin-1 bytes."""
    if _I is not None:
        return _I.s(s)
    return '"' + s.replace('"', '""') + '"'


def cq_z(n):
    n = int(n)
    if _I is not None and n > 9:
        return _I.z(n)
    return "%d" % n if n >= 0 else "(%d)" % n


def _tkname(c):
    return "Tk%d" % c if c >= 0 else "Tkm%d" % (-c)


def tok_term(t):
    if -2 <= t[0] <= 120:
        return "(%s %s)" % (_tkname(t[0]), cq_str(t[1]))
    return "(mkTok %s %s)" % (cq_z(t[0]), cq_str(t[1]))


RAWCLASS = {"Ident": "RIdent", "Int": "RInt", "Float": "RFloat", "Char": "RChar", "String": "RString",
            "RawString": "RRawString", "Comment": "RComment", "DelimIdent": "RDelimIdent", "rune": "ROther"}


def raw_term(r):
    return "(%s%s %s)" % (RAWCLASS[r[0]], "e" if r[2] == 61 else "n", cq_str(r[1]))


def cq_list(items):
    return "[" + "; ".join(items) + "]"


class Unrep(Exception):
    """the Go tree holds something Model/Ast.v cannot express"""


def _value(j):
    k = j.get("k") if isinstance(j, dict) else None
    if k == "int64":
        return "(VInt %s)" % cq_z(j["v"])
    if k == "str":
        return "(VStr %s)" % cq_str(j["v"])
    if k == "bool":
        return "(VBool %s)" % ("true" if j["v"] else "false")
    raise Unrep("value %r" % (j,))


def _col(j):
    if not isinstance(j, dict) or j.get("k") != "col":
        raise Unrep("column reference expected: %r" % (j,))
    return "(mkCol %s %s)" % (cq_str(j["q"]), cq_str(j["n"]))


def _vexpr(j):
    if isinstance(j, dict) and j.get("k") == "col":
        return "(XCol %s)" % _col(j)
    return "(XLit %s)" % _value(j)


def _op(n):
    for name, c in (("EQ", "CEq"), ("NEQ", "CNeq"), ("GT", "CGt"), ("LT", "CLt"), ("LTE", "CLte"), ("GTE", "CGte")):
        if n == code(name):
            return c
    raise Unrep("comparison operator %r" % n)


def _expr(j):
    k = j.get("k") if isinstance(j, dict) else None
    if k == "pred":
        return "(EPred %s %s %s)" % (_vexpr(j["l"]), _op(j["op"]), _vexpr(j["r"]))
    if k == "and":
        l = j["l"]
        if not isinstance(l, dict) or l.get("k") != "pred":
            raise Unrep("BooleanTerm.LHS %r" % (l,))
        return "(EAnd (%s, %s, %s) %s)" % (_vexpr(l["l"]), _op(l["op"]), _vexpr(l["r"]), _expr(j["r"]))
    if k == "or":
        return "(EOr %s %s)" % (_expr(j["l"]), _expr(j["r"]))
    if k in ("int64", "str", "bool", "col"):
        return "(EVal %s)" % _vexpr(j)
    raise Unrep("expression %r" % (j,))


def _where(j):
    if j is None:
        return "None"
    if isinstance(j, dict) and j.get("k") == "where":
        return "(Some %s)" % _expr(j["c"])
    raise Unrep("where clause %r" % (j,))


def _prim(j):
    k = j.get("k") if isinstance(j, dict) else None
    if k == "star":
        return "SPStar"
    if k == "count":
        return "(SPCount %s)" % ("None" if j["arg"] is None else "(Some %s)" % _col(j["arg"]))
    if k == "avg":
        return "(SPAvg %s)" % _col(j["arg"])
    return "(SPExpr %s)" % _expr(j)


def _tref(j):
    k = j.get("k") if isinstance(j, dict) else None
    if k == "tname":
        c = j["corr"]
        if c is None:
            a = "None"
        elif isinstance(c, dict) and c.get("k") == "str":
            a = "(Some %s)" % cq_str(c["v"])
        else:
            raise Unrep("correlation name %r" % (c,))
        return "(TRName %s %s)" % (cq_str(j["name"]), a)
    if k == "join":
        jt = {0: "JFull", 1: "JLeft", 2: "JRight", 3: "JInner"}.get(j["jt"])
        if jt is None:
            raise Unrep("join type %r" % j["jt"])
        return "(TRJoin %s %s %s %s)" % (_tref(j["l"]), jt, _tref(j["r"]), _expr(j["on"]))
    raise Unrep("table reference %r" % (j,))


def _sort(j):
    if j["type"] == code("ASC"):
        d = "SAsc"
    elif j["type"] == code("DESC"):
        d = "SDesc"
    else:
        raise Unrep("ordering specification %r" % j["type"])
    return "(mkSort %s %s)" % (_col(j["key"]), d)


def _sqltype(j):
    k = j.get("k") if isinstance(j, dict) else None
    if k == "numeric":
        return "STNumeric"
    if k == "bigint":
        return "STBigInt"
    if k == "boolean":
        return "STBoolean"
    if k == "charstr" and j["type"] == code("T_VARCHAR"):
        return "(STVarchar %s)" % cq_z(j["len"])
    raise Unrep("data type %r" % (j,))


def stmt_term(j):
    """Coq `stmt` term of the canonical AST JSON (Go walker or python generator)"""
    k = j.get("k") if isinstance(j, dict) else None
    if k == "select":
        return "(SSelect (mkSelect %s %s %s %s %s %s %s %s %s))" % (
            cq_list("(mkDC %s %s)" % (_prim(d["p"]), cq_str(d["as"])) for d in (j["list"] or [])),
            cq_list(_tref(t) for t in (j["from"] or [])),
            _where(j["where"]),
            cq_list(_col(c) for c in (j["group"] or [])),
            cq_list(_sort(s) for s in (j["sort"] or [])),
            "true" if j["la"] else "false", "true" if j["oa"] else "false",
            cq_z(j["limit"]), cq_z(j["offset"]))
    if k == "createtable":
        return "(SCreateTable %s %s)" % (cq_str(j["name"]), cq_list(
            "(mkColDef %s %s)" % (cq_str(e["name"]), _sqltype(e["dt"])) for e in (j["els"] or [])))
    if k == "createdb":
        return "(SCreateDatabase %s)" % cq_str(j["name"])
    if k == "showdb":
        return "SShowDatabase"
    if k == "use":
        return "(SUse %s)" % cq_str(j["name"])
    if k == "insert":
        q = j["query"]
        if not isinstance(q, dict) or q.get("k") != "tvc":
            raise Unrep("insert source %r" % (q,))
        rows = []
        for r in (q["rows"] or []):
            rows.append(cq_list(_value(v) for v in (r["vals"] or [])))
        return "(SInsert %s %s %s)" % (cq_str(j["table"]), cq_list(cq_str(c) for c in (j["cols"] or [])), cq_list(rows))
    if k == "update":
        return "(SUpdate %s %s %s)" % (cq_str(j["table"]), cq_list(
            "(%s, %s)" % (cq_str(s["col"]), _vexpr(s["src"])) for s in (j["sets"] or [])), _where(j["where"]))
    if k == "delete":
        return "(SDelete %s %s)" % (cq_str(j["table"]), _where(j["where"]))
    raise Unrep("statement %r" % (j,))


ERRCLASS = {"syntax": 1, "unexpected": 2, "neglimit": 3, "negoffset": 4, "invalidgroupby": 5,
            "ambiguousgroupby": 6, "atoi": 7, "avg": 8, "tmpunsupported": 9, "unsupportedtoken": 10, "other": 11}


UNREP = []          # Go trees that Model/Ast.v could not express (reported in the evidence)


def gout_term(out):
    k = out["k"]
    if k == "ok":
        try:
            return "(GOk %s)" % stmt_term(out["ast"])
        except Unrep as e:
            UNREP.append(str(e)[:200])
            return "GUnrep"
    if k == "err":
        return "(GErr %d)" % ERRCLASS[out["e"]]
    if k == "panic":
        return "GPanic"
    return "GTimeout"


def out_class(out):
    return {"ok": "ok", "err": "err:" + out.get("e", ""), "panic": "panic", "timeout": "timeout"}[out["k"]]


OBS_HEADER = """From Coq Require Import ZArith String Ascii List Bool.
From Mkdb Require Import Model.CaseLib Model.Value Model.Ast Model.Lexer Model.Parser Spec.ParseObs.
Import ListNotations.
Open Scope string_scope.
Open Scope list_scope.
Open Scope Z_scope.
""" + "".join("Definition %s := mkTok (%d).\n" % (_tkname(c), c) for c in range(-2, 121)) + "".join(
    "Definition %sn (s : string) := mkRaw %s s false.\nDefinition %se (s : string) := mkRaw %s s true.\n" % (c, c, c, c)
    for c in sorted(set(RAWCLASS.values())))


def run_coq_bytes(name, text, timeout=1800):
    """like vlib.run_coq_text, but the file is written as latin-1 bytes (string literals hold raw
    bytes) and coqc gets an unlimited C stack (20 000-element lists and 5000-deep trees overflow the
    default 8 MB while being parsed)"""
    d = os.path.join(vlib.BUILD, "cases", name)
    os.makedirs(d, exist_ok=True)
    path = os.path.join(d, "cases.v")
    with open(path, "wb") as f:
        f.write(text.encode("latin-1"))
    cmd = "ulimit -s unlimited 2>/dev/null || ulimit -s 4000000; exec timeout %d coqc -R %s Mkdb -Q %s Cases %s" % (
        timeout, vlib.COQ, d, path)
    return vlib.sh(["bash", "-c", cmd], cwd=d, timeout=timeout + 30)


def eval_cases(name, thunks, sizes, ctype, defs, header=None, budget=400000, maxn=1500, workers=12):
    """Evaluate boolean functions `defs` (NAME -> Coq function) over cases inside Coq.
    thunks: callables returning the Coq term of a case (called with the shard's interner active);
    sizes: rough byte size of each case (shards are bounded in bytes and in count).
    Returns (ok, {NAME: [indices of cases on which the function is false]}, log)."""
    from concurrent.futures import ThreadPoolExecutor
    import time as _t0
    t0 = _t0.time()
    shards, cur, size = [], [], 0
    for i, sz in enumerate(sizes):
        if cur and (size + sz > budget or len(cur) >= maxn):
            shards.append(cur)
            cur, size = [], 0
        cur.append(i)
        size += sz
    if cur:
        shards.append(cur)
    texts = []
    for sh in shards:
        it = Interner()
        set_interner(it)
        try:
            terms = [thunks[i]() for i in sh]
        finally:
            set_interner(None)
        buf = [header or OBS_HEADER, it.header(), "\nDefinition cases : list (%s) := [\n" % ctype, ";\n".join(terms), "\n].\n"]
        for nm, fn in defs.items():
            buf.append("Definition %s := Eval vm_compute in bad_idx (%s) cases.\nPrint %s.\n" % (nm, fn, nm))
        texts.append("".join(buf))
    results = {nm: [] for nm in defs}
    ok, logs = True, []
    import time as _t
    t1 = _t.time()
    with ThreadPoolExecutor(max_workers=workers) as ex:
        outs = list(ex.map(lambda k: run_coq_bytes("%s_%d" % (name, k), texts[k]), range(len(shards))))
    vlib.log("    [%s] %d cases, %d shards, %d bytes: terms %.1fs, coqc %.1fs" % (
        name, len(thunks), len(shards), sum(len(t) for t in texts), t1 - t0, _t.time() - t1))
    for k, (rc, out) in enumerate(outs):
        if rc != 0:
            ok = False
            logs.append("shard %d rc=%d\n%s" % (k, rc, out[-3000:]))
            continue
        for nm in defs:
            idx = vlib._parse_def(out, nm)
            if idx is None:
                ok = False
                logs.append("shard %d: cannot parse %s\n%s" % (k, nm, out[-2000:]))
            else:
                results[nm].extend(shards[k][j] for j in idx)
    return ok, results, "\n".join(logs)


# ----------------------------------------------------------------------------------------------
# statement trees (same JSON shape as the Go walker)
# ----------------------------------------------------------------------------------------------

def J_int(z):
    return {"k": "int64", "v": str(z)}


def J_str(s):
    return {"k": "str", "v": s}


def J_bool(b):
    return {"k": "bool", "v": bool(b)}


def J_col(q, n):
    return {"k": "col", "q": q, "n": n}


def J_pred(l, opname, r):
    return {"k": "pred", "l": l, "op": code(opname), "r": r}


OPS = ["EQ", "NEQ", "GT", "LT", "LTE", "GTE"]
OPTEXT = {"EQ": "=", "NEQ": "!=", "GT": ">", "LT": "<", "LTE": "<=", "GTE": ">="}

PLAIN_NAMES = ["a", "b", "c", "id", "name", "t1", "users", "Orders", "x_y", "_z", "col9", "databases", "Actor",
               "total", "year"]
ODD_NAMES = ["order", "select", "Group", "my col", "semi;colon", "it's", "FROM", "a.b", "x,y", "(p)", "1st",
             "caf\xc3\xa9", "\xc5\xbfelect", "l\xc4\xb1m\xc4\xb1t", "tab\there", "true", "and", "!", "*", "=", "by"]
STRINGS = ["", "x", "hello world", "semi;colon", 'say "hi"', "SELECT * FROM t", "and", "100%", "a,b", "(x)",
           "caf\xc3\xa9", "  spaced  ", "--", "/* c */", "// not a comment", "tab\there", "1=1", "OR", "it\"s"]


def gen_name(rng, odd=0.2):
    if rng.random() < odd:
        return rng.choice(ODD_NAMES)
    return rng.choice(PLAIN_NAMES)


def gen_int(rng):
    r = rng.random()
    if r < 0.5:
        return rng.randrange(0, 100)
    if r < 0.8:
        return rng.randrange(0, 2 ** 31)
    if r < 0.9:
        return rng.choice([2 ** 31 - 1, 2 ** 31, 2 ** 63 - 1, 2 ** 63 - 2, 0, 1])
    return rng.randrange(0, 2 ** 63)


def gen_value(rng):
    r = rng.random()
    if r < 0.45:
        return J_int(gen_int(rng))
    if r < 0.85:
        return J_str(rng.choice(STRINGS))
    return J_bool(rng.random() < 0.5)


def gen_colref(rng, quals=("", "", "t", "u")):
    return J_col(rng.choice(quals), gen_name(rng, 0.1))


def gen_vexpr(rng):
    return gen_colref(rng) if rng.random() < 0.55 else gen_value(rng)


def gen_pred(rng):
    return J_pred(gen_vexpr(rng), rng.choice(OPS), gen_vexpr(rng))


def gen_and_chain(rng, n, bare_last=False):
    """n leaves joined by AND (right nested); every leaf but the last must be a comparison"""
    last = gen_vexpr(rng) if bare_last else gen_pred(rng)
    e = last
    for _ in range(n - 1):
        e = {"k": "and", "l": gen_pred(rng), "r": e}
    return e


def gen_or_expr(rng, chains):
    """chains: list of (n_leaves, bare_last) - an OR (right nested) of AND chains"""
    parts = [gen_and_chain(rng, n, b) for n, b in chains]
    e = parts[-1]
    for p in reversed(parts[:-1]):
        e = {"k": "or", "l": p, "r": e}
    return e


def compositions(n):
    if n == 0:
        yield []
        return
    for first in range(1, n + 1):
        for rest in compositions(n - first):
            yield [first] + rest


def all_bool_shapes(max_leaves):
    """every (composition into AND chains) x (which chains end in a bare value)"""
    out = []
    for n in range(1, max_leaves + 1):
        for comp in compositions(n):
            for mask in range(2 ** len(comp)):
                out.append([(k, bool(mask >> i & 1)) for i, k in enumerate(comp)])
    return out


def gen_expr(rng, max_leaves=4):
    n = rng.randrange(1, max_leaves + 1)
    comp = rng.choice(list(compositions(n)))
    return gen_or_expr(rng, [(k, rng.random() < 0.08) for k in comp])


def dc_colref(d):
    p = d["p"]
    return p if isinstance(p, dict) and p.get("k") == "col" else None


def cr_equals(v, r):
    if (v["q"] == "") != (r["q"] == ""):
        return False
    if v["q"] != r["q"]:
        return False
    return v["n"] == r["n"]


def dc_matches(d, r):
    l = dc_colref(d)
    if l is None:
        return False
    return cr_equals(l, r) or d["as"] == r["n"] or (l["n"] == r["n"] and r["q"] == "")


def validate_group_by(sl, g):
    """mirror of parser.go validateGroupByFields: None | 'invalidgroupby' | 'ambiguousgroupby'"""
    aggr = any(isinstance(d["p"], dict) and d["p"].get("k") in ("count", "avg") for d in sl)
    if not aggr and not g:
        return None
    for d in sl:
        if dc_colref(d) is not None and not any(dc_matches(d, gc) for gc in g):
            return "invalidgroupby"
    for gc in g:
        if sum(1 for d in sl if dc_matches(d, gc)) >= 2:
            return "ambiguousgroupby"
    return None


def gen_tname(rng):
    return {"k": "tname", "name": gen_name(rng, 0.15),
            "corr": J_str(gen_name(rng, 0.15)) if rng.random() < 0.4 else None}


def gen_select(rng, where=None):
    has_from = rng.random() < 0.88
    star = rng.random() < 0.2
    for _attempt in range(30):
        if star:
            sl = [{"k": "dc", "p": {"k": "star"}, "as": ""}]
        else:
            sl = []
            for _ in range(rng.choice([1, 1, 2, 2, 3, 4])):
                r = rng.random()
                if r < 0.5:
                    p = gen_colref(rng)
                elif r < 0.7:
                    kind = rng.choice(["count*", "count", "avg"])
                    p = ({"k": "count", "arg": None} if kind == "count*" else
                         {"k": "count", "arg": gen_colref(rng)} if kind == "count" else
                         {"k": "avg", "arg": gen_colref(rng)})
                elif r < 0.9:
                    p = gen_expr(rng, 3)
                else:
                    p = gen_value(rng)
                sl.append({"k": "dc", "p": p, "as": gen_name(rng, 0.15) if rng.random() < 0.3 else ""})
        group = []
        if has_from and not star and rng.random() < 0.45:
            cols = [dc_colref(d) for d in sl if dc_colref(d) is not None]
            group = [dict(c) for c in cols]
            if rng.random() < 0.4:
                group.append(gen_colref(rng))
            if rng.random() < 0.3:
                group = [J_col("", c["n"]) if rng.random() < 0.5 else c for c in group]
            rng.shuffle(group)
        if validate_group_by(sl, group) is None:
            break
    else:
        sl = [{"k": "dc", "p": {"k": "star"}, "as": ""}]
        group = []
    sel = {"k": "select", "list": sl, "from": [], "where": None, "group": None, "sort": None,
           "la": False, "oa": False, "limit": "0", "offset": "0"}
    if not has_from:
        return sel
    tr = gen_tname(rng)
    for _ in range(rng.choice([0, 0, 0, 1, 1, 2, 3])):
        tr = {"k": "join", "l": tr, "jt": rng.choice([1, 2, 3, 3]), "r": gen_tname(rng), "on": gen_expr(rng, 3)}
    sel["from"] = [tr]
    if where is not None:
        sel["where"] = {"k": "where", "c": where}
    elif rng.random() < 0.5:
        sel["where"] = {"k": "where", "c": gen_expr(rng, 4)}
    if group:
        sel["group"] = group
    if rng.random() < 0.4:
        sel["sort"] = [{"k": "sort", "key": gen_colref(rng), "type": code(rng.choice(["ASC", "DESC"])), "text": ""}
                       for _ in range(rng.choice([1, 1, 2, 3]))]
    if rng.random() < 0.4:
        sel["la"] = True
        sel["limit"] = str(gen_int(rng))
    if rng.random() < 0.3:
        sel["oa"] = True
        sel["offset"] = str(gen_int(rng))
    return sel


def gen_stmt(rng):
    r = rng.random()
    if r < 0.5:
        return gen_select(rng)
    if r < 0.62:
        ncols = rng.choice([0, 0, 1, 2, 3])
        width = ncols if ncols else rng.choice([0, 1, 2, 3, 4])
        rows = [{"k": "row", "vals": [gen_value(rng) for _ in range(width)] or None}
                for _ in range(rng.choice([0, 1, 1, 2, 3]))]
        return {"k": "insert", "table": gen_name(rng), "cols": [gen_name(rng) for _ in range(ncols)] or None,
                "query": {"k": "tvc", "rows": rows or None}}
    if r < 0.72:
        sets = [{"k": "set", "col": gen_name(rng), "src": gen_vexpr(rng)} for _ in range(rng.choice([0, 1, 1, 2, 3]))]
        return {"k": "update", "table": gen_name(rng), "sets": sets or None,
                "where": {"k": "where", "c": gen_expr(rng, 3)} if rng.random() < 0.6 else None}
    if r < 0.8:
        return {"k": "delete", "table": gen_name(rng),
                "where": {"k": "where", "c": gen_expr(rng, 3)} if rng.random() < 0.7 else None}
    if r < 0.9:
        els = []
        for _ in range(rng.choice([0, 1, 2, 3, 5])):
            t = rng.choice(["numeric", "bigint", "boolean", "charstr"])
            dt = {"k": t}
            if t == "charstr":
                dt = {"k": "charstr", "len": str(gen_int(rng)), "type": code("T_VARCHAR")}
            els.append({"k": "element", "name": gen_name(rng), "dt": dt})
        return {"k": "createtable", "name": gen_name(rng) if rng.random() < 0.95 else "", "els": els or None}
    if r < 0.93:
        return {"k": "createdb", "name": gen_name(rng)}
    if r < 0.96:
        return {"k": "use", "name": gen_name(rng)}
    return {"k": "showdb"}


# ----------------------------------------------------------------------------------------------
# rendering to text. Lexemes are (text, kind); kind "w" = word-like (needs white space next to
# another word-like lexeme), "p" = punctuation / operator.
# ----------------------------------------------------------------------------------------------

IDENT_RE = re.compile(r"^[A-Za-z_][A-Za-z0-9_]*$")


class Renderer:
    """renders one statement; records the optional-spelling choices in self.opts so that the Coq
    side can recompute the token list with Spec.ParseSpec.render"""

    def __init__(self, rng, canonical=False, force=None):
        self.rng = rng
        self.canonical = canonical
        self.force = force or {}
        self.kw = keyword_map()
        self.nums = {}
        self.o_as = []
        self.o_inner = []
        self.o_asc = []
        self.o_gsep = []
        self.o_offset_first = False
        self.o_empty_cols = False
        self.o_show = None
        self.o_semi = False
        self.unrenderable = False

    def chance(self, p):
        return (not self.canonical) and self.rng.random() < p

    def opt(self, key, p):
        """an optional spelling: random, or (canonical rendering) what `force` says"""
        if self.canonical:
            return bool(self.force.get(key, False))
        return self.rng.random() < p

    def flags(self):
        """which optional spellings this rendering used at least once (for shrinking)"""
        return {"inner": any(self.o_inner), "as": any(self.o_as), "asc": any(self.o_asc),
                "gspace": any(not x for x in self.o_gsep), "offset_first": self.o_offset_first,
                "empty_cols": self.o_empty_cols, "show": self.o_show is not None, "semi": self.o_semi}

    def kwd(self, w):
        if self.canonical:
            return (w, "w")
        r = self.rng.random()
        if r < 0.3:
            return (w.lower(), "w")
        if r < 0.6:
            return (w, "w")
        if r < 0.75:
            return (w.capitalize(), "w")
        return ("".join(c.upper() if self.rng.random() < 0.5 else c.lower() for c in w), "w")

    def ident(self, name):
        bare_ok = bool(IDENT_RE.match(name)) and go_upper(name) not in self.kw
        if any(c in name for c in '"\\\n'):
            self.unrenderable = True
        if bare_ok and not self.chance(0.15):
            return (name, "w")
        return ('"' + name + '"', "w")

    def value(self, v):
        k = v["k"]
        if k == "int64":
            z = int(v["v"])
            if z not in self.nums:
                t = str(z)
                if self.chance(0.05):
                    t = "0" * self.rng.randrange(1, 4) + t
                self.nums[z] = t
            return [(self.nums[z], "w")]
        if k == "str":
            if any(c in v["v"] for c in "'\\\n"):
                self.unrenderable = True
            return [("'" + v["v"] + "'", "w")]
        if k == "bool":
            return [self.kwd("TRUE" if v["v"] else "FALSE")]
        raise ValueError(v)

    def num(self, z):
        return self.value(J_int(z))

    def colref(self, c):
        if c["q"] == "":
            return [self.ident(c["n"])]
        return [self.ident(c["q"]), (".", "p"), self.ident(c["n"])]

    def vexpr(self, v):
        return self.colref(v) if v["k"] == "col" else self.value(v)

    def op(self, n):
        for name in OPS:
            if code(name) == n:
                return (OPTEXT[name], "p")
        raise ValueError(n)

    def expr(self, e):
        k = e["k"]
        if k == "pred":
            return self.vexpr(e["l"]) + [self.op(e["op"])] + self.vexpr(e["r"])
        if k == "and":
            return self.expr(e["l"]) + [self.kwd("AND")] + self.expr(e["r"])
        if k == "or":
            return self.expr(e["l"]) + [self.kwd("OR")] + self.expr(e["r"])
        return self.vexpr(e)

    def prim(self, p):
        k = p["k"]
        if k == "star":
            return [("*", "p")]
        if k == "count":
            arg = [("*", "p")] if p["arg"] is None else self.colref(p["arg"])
            return [self.kwd("COUNT"), ("(", "p")] + arg + [(")", "p")]
        if k == "avg":
            return [self.kwd("AVG"), ("(", "p")] + self.colref(p["arg"]) + [(")", "p")]
        return self.expr(p)

    def tref(self, t):
        if t["k"] == "tname":
            out = [self.ident(t["name"])]
            if t["corr"] is not None:
                out.append(self.ident(t["corr"]["v"]))
            return out
        out = self.tref(t["l"])
        jt = t["jt"]
        if jt == 1:
            out.append(self.kwd("LEFT"))
            self.o_inner.append(False)
        elif jt == 2:
            out.append(self.kwd("RIGHT"))
            self.o_inner.append(False)
        else:
            inner = self.opt("inner", 0.5)
            self.o_inner.append(inner)
            if inner:
                out.append(self.kwd("INNER"))
        out.append(self.kwd("JOIN"))
        out += self.tref(t["r"])
        out.append(self.kwd("ON"))
        out += self.expr(t["on"])
        return out

    def where(self, w):
        if w is None:
            return []
        return [self.kwd("WHERE")] + self.expr(w["c"])

    def select(self, s):
        out = [self.kwd("SELECT")]
        for i, d in enumerate(s["list"]):
            if i:
                out.append((",", "p"))
            out += self.prim(d["p"])
            explicit = False
            if d["as"] != "":
                explicit = self.opt("as", 0.5)
                if explicit:
                    out.append(self.kwd("AS"))
                out.append(self.ident(d["as"]))
            self.o_as.append(explicit)
        if s["from"]:
            out.append(self.kwd("FROM"))
            out += self.tref(s["from"][0])
        out += self.where(s["where"])
        if s["group"]:
            out += [self.kwd("GROUP"), self.kwd("BY")]
            for i, c in enumerate(s["group"]):
                if i:
                    comma = not self.opt("gspace", 0.25)
                    self.o_gsep.append(comma)
                    if comma:
                        out.append((",", "p"))
                out += self.colref(c)
        if s["sort"]:
            out += [self.kwd("ORDER"), self.kwd("BY")]
            for i, ss in enumerate(s["sort"]):
                if i:
                    out.append((",", "p"))
                out += self.colref(ss["key"])
                explicit = False
                if ss["type"] == code("DESC"):
                    out.append(self.kwd("DESC"))
                else:
                    explicit = self.opt("asc", 0.5)
                    if explicit:
                        out.append(self.kwd("ASC"))
                self.o_asc.append(explicit)
        lim = [self.kwd("LIMIT")] + self.num(int(s["limit"])) if s["la"] else []
        off = [self.kwd("OFFSET")] + self.num(int(s["offset"])) if s["oa"] else []
        if s["la"] and s["oa"] and self.opt("offset_first", 0.5):
            self.o_offset_first = True
            out += off + lim
        else:
            out += lim + off
        return out

    def stmt(self, s):
        k = s["k"]
        if k == "select":
            out = self.select(s)
        elif k == "insert":
            out = [self.kwd("INSERT"), self.kwd("INTO"), self.ident(s["table"])]
            cols = s["cols"] or []
            if cols:
                out.append(("(", "p"))
                for i, c in enumerate(cols):
                    if i:
                        out.append((",", "p"))
                    out.append(self.ident(c))
                out.append((")", "p"))
            elif self.opt("empty_cols", 0.2):
                self.o_empty_cols = True
                out += [("(", "p"), (")", "p")]
            out.append(self.kwd("VALUES"))
            for i, r in enumerate(s["query"]["rows"] or []):
                if i:
                    out.append((",", "p"))
                out.append(("(", "p"))
                for jx, v in enumerate(r["vals"] or []):
                    if jx:
                        out.append((",", "p"))
                    out += self.value(v)
                out.append((")", "p"))
        elif k == "update":
            out = [self.kwd("UPDATE"), self.ident(s["table"]), self.kwd("SET")]
            for i, sc in enumerate(s["sets"] or []):
                if i:
                    out.append((",", "p"))
                out += [self.ident(sc["col"]), ("=", "p")] + self.vexpr(sc["src"])
            out += self.where(s["where"])
        elif k == "delete":
            out = [self.kwd("DELETE"), self.kwd("FROM"), self.ident(s["table"])] + self.where(s["where"])
        elif k == "createtable":
            out = [self.kwd("CREATE"), self.kwd("TABLE"), self.ident(s["name"]), ("(", "p")]
            for i, e in enumerate(s["els"] or []):
                if i:
                    out.append((",", "p"))
                out.append(self.ident(e["name"]))
                dt = e["dt"]["k"]
                if dt == "numeric":
                    out.append(self.kwd("INT"))
                elif dt == "bigint":
                    out.append(self.kwd("BIGINT"))
                elif dt == "boolean":
                    out.append(self.kwd("BOOLEAN"))
                else:
                    out += [self.kwd("VARCHAR"), ("(", "p")] + self.num(int(e["dt"]["len"])) + [(")", "p")]
            out.append((")", "p"))
        elif k == "createdb":
            out = [self.kwd("CREATE"), self.kwd("DATABASE"), self.ident(s["name"])]
        elif k == "use":
            out = [self.kwd("USE"), self.ident(s["name"])]
        elif k == "showdb":
            out = [self.kwd("SHOW")]
            if self.opt("show", 0.5):
                w = self.kwd("DATABASES")[0]
                self.o_show = w
                out.append((w, "w"))
            else:
                out.append(self.kwd("DATABASE"))
        else:
            raise ValueError(k)
        if self.opt("semi", 0.5):
            self.o_semi = True
            out.append((";", "p"))
        return out

    WS = [" ", " ", " ", "  ", "\n", "\t", "\r\n", " \n  "]

    def text(self, lexemes):
        buf = []
        for i, (t, kind) in enumerate(lexemes):
            if i:
                prev = lexemes[i - 1][1]
                if prev == "w" and kind == "w":
                    buf.append(" " if self.canonical else self.rng.choice(self.WS))
                elif self.canonical:
                    buf.append(" ")
                elif self.rng.random() < 0.6:
                    buf.append(self.rng.choice(self.WS))
            buf.append(t)
        if not self.canonical:
            if self.rng.random() < 0.2:
                buf.insert(0, self.rng.choice(self.WS))
            if self.rng.random() < 0.2:
                buf.append(self.rng.choice(self.WS))
        return "".join(buf)

    def opts_term(self):
        """Coq term of type Spec.ParseSpec.ropts"""
        def bl(l):
            return cq_list("true" if b else "false" for b in l)
        nums = cq_list("(%s, %s)" % (cq_z(z), cq_str(t)) for z, t in sorted(self.nums.items()))
        return "(mkOpts (num_of %s) %s %s %s %s %s %s %s %s)" % (
            nums, bl(self.o_as), bl(self.o_inner), bl(self.o_asc), bl(self.o_gsep),
            "true" if self.o_offset_first else "false", "true" if self.o_empty_cols else "false",
            "None" if self.o_show is None else "(Some %s)" % cq_str(self.o_show),
            "true" if self.o_semi else "false")


def render_stmt(rng, ast, canonical=False, force=None):
    """-> (text, lexemes, renderer)"""
    r = Renderer(rng, canonical, force)
    lex = r.stmt(ast)
    return r.text(lex), lex, r


def pad_to_buffer_boundary(rng, text, block=1024):
    """The forked text/scanner reads its source in blocks of 1024 bytes. Widen one blank of the statement
    (outside quoted literals) so that a later token starts a few bytes before a multiple of the block size and
    straddles it (or ends exactly on it). Returns the text unchanged when it has no suitable blank."""
    spots = []
    q = None                                                    # the quote kind of the literal we are inside
    for i, ch in enumerate(text):
        if q is not None:
            if ch == q:
                q = None
            continue
        if ch in "'\"":
            q = ch
        elif ch == " " and i + 1 < len(text) and text[i + 1] not in " '\"" and (i == 0 or text[i - 1] not in "/*-"):
            spots.append(i)
    if not spots:
        return text
    i = rng.choice(spots[: max(1, len(spots) // 2)])            # an early blank: the tokens after it move
    later = [j for j in spots if j >= i]
    words = [j for j in later if text[j + 1].isalpha()]         # keywords and names are looked up by their text
    j = rng.choice(words) if words and rng.random() < 0.8 else rng.choice(later)   # this token straddles the boundary
    tok_start = j + 1
    tok_len = 1
    while tok_start + tok_len < len(text) and text[tok_start + tok_len] not in " ,();":
        tok_len += 1
    k = rng.choice([1, 1, 1, 2, 3])
    inside = rng.randrange(0, tok_len + 1)                      # how many bytes of the token lie before the boundary
    nbytes = len(text[:tok_start].encode("utf-8"))
    pad = k * block - inside - nbytes
    while pad < 0:
        pad += block
    return text[:i] + " " * (pad + 1) + text[i + 1:]
