"""C02 - acknowledged statements survive a crash between statements.
Histories with harness-controlled flushes (timer off) and crashes at statement boundaries: the data
directory is copied as it is, storage.InitStorage runs on the copy, the history continues there.
After every crash and every later statement SELECT * of every table and a page dump are compared
with the model (Model/Engine.v recover/replay) and judged by the table specification."""
import vlib
from props import hist, c01

PROP_FILES = ["Properties/C02.v"]
HARNESS = ["engine"]
ASSUMPTIONS = c01.ASSUMPTIONS + [
    "a crash at a statement boundary leaves exactly the data file as last flushed and the complete log "
    "(every FlushWALBatch has fsynced); torn writes are C03 / C04",
]


def build_case(rng, tier, kind, policy):
    base = c01.build_case(rng, tier, kind)
    sts = [e[1] for e in base if e[0] == "stmt"]
    evs = []
    seen = []
    ncrash = 0
    for i, st in enumerate(sts):
        evs.append(("stmt", st))
        if st["k"] == "create" and st["table"] not in seen:
            seen.append(st["table"])
        names = list(seen)[-5:] + ["sys_schema"]
        if policy == "always" or (policy == "random" and rng.random() < 0.3):
            evs.append(("flush",))
        # crash after a share of the statements (every boundary is a crash point over the run's cases)
        if rng.random() < (0.35 if len(sts) < 25 else 0.12):
            ncrash += 1
            evs.append(("crash",))
            evs.append(("tables", names))
            evs.append(("dump",))
            if rng.random() < 0.3:
                evs.append(("crash",))          # recovery again: must change nothing
                evs.append(("tables", names))
                evs.append(("dump",))
        else:
            evs.append(("tables", names))
    evs.append(("crash",))
    evs.append(("tables", list(seen)[-5:] + ["sys_schema"]))
    evs.append(("dump",))
    return evs


def deep_case(rng, policy):
    """one table grown past the split of its first internal root (about 1165 rows with the real page constants: the
    tree gets a third level and the old root becomes an ordinary internal node), with the split still only in the
    log (never), already in the data file (flush after it) or flushed at the very end; then a crash, recovery TWICE,
    further statements and another crash"""
    g = hist.Gen(rng, 1)
    c = g.create(cols=[("a", "int", 0), ("b", "varchar", 10)])
    name = c["table"]
    evs = [("stmt", c)]
    nst = rng.randint(100, 110)
    flush_at = {"never": None, "random": rng.randint(97, nst - 2), "always": nst - 1}[policy]
    for i in range(nst):
        evs.append(("stmt", {"k": "insert", "table": name, "cols": [], "rows": [[i * 12 + j, "r"] for j in range(12)]}))
        if i == nst - 4:
            # rows of the right-most leaf are changed and THEN moved to a new page by the splits the next statements
            # cause: their update / delete records name the old page, their insert records are redone at every restart
            evs.append(("stmt", {"k": "update", "table": name, "sets": [("b", "w")], "where": [[(("col", "", "a"), ">=", i * 12 + 4)]]}))
            evs.append(("stmt", {"k": "delete", "table": name, "where": [[(("col", "", "a"), "=", i * 12 + 9)]]}))
        if i == flush_at:
            evs.append(("flush",))
    evs.append(("stmt", {"k": "update", "table": name, "sets": [("b", "u")], "where": [[(("col", "", "a"), "=", 1170)]]}))
    evs.append(("stmt", {"k": "delete", "table": name, "where": [[(("col", "", "a"), "=", 600)]]}))
    evs += [("crash",), ("tables", [name]), ("dump",), ("crash",), ("tables", [name]), ("dump",),
            ("stmt", {"k": "insert", "table": name, "cols": [], "rows": [[5000 + j, "n"] for j in range(3)]}),
            ("tables", [name]), ("crash",), ("tables", [name]), ("dump",)]
    return evs


def generate(rng, tier):
    plan = [("small", 10), ("split", 8), ("manytables", 6), ("catalog", 2)] if tier == "quick" else \
           [("small", 70), ("split", 50), ("manytables", 30), ("catalog", 12)]
    cases = []
    for kind, n in plan:
        for i in range(n):
            policy = ["never", "random", "always"][i % 3]
            cases.append((kind + "/" + policy, build_case(rng, tier, kind, policy)))
    for policy in (["never", "random"] if tier == "quick" else ["never", "random", "always", "never", "random"]):
        cases.append(("deep/" + policy, deep_case(rng, policy)))
    return cases


def run(ctx):
    if ctx.replay and "events" in ctx.replay:
        cases = [("replay", [tuple(e) for e in ctx.replay["events"]])]
    else:
        cases = generate(ctx.rng, ctx.tier)
    evs = [c[1] for c in cases]
    outs = hist.run_histories(ctx, evs)
    mm, sm = hist.eval_cases(ctx, "c02", evs, outs, shard=3 if ctx.tier == "quick" else 5)
    ncr = sum(1 for e in evs for x in e if x[0] == "crash")
    nfl = sum(1 for e in evs for x in e if x[0] == "flush")
    nst = sum(1 for e in evs for x in e if x[0] == "stmt")
    nontrivial = 0
    redo = 0
    for e, o in zip(evs, outs):
        # non-trivial: some crash happened while statements were only in the log (no flush since)
        dirty = False
        hit = False
        for x in e:
            if x[0] == "stmt" and x[1]["k"] != "create":
                dirty = True
            elif x[0] == "flush" or (x[0] == "stmt" and x[1]["k"] == "create"):
                dirty = False
            elif x[0] == "crash":
                if dirty:
                    hit = True
                    redo += 1
                dirty = False
        if hit:
            nontrivial += 1
    kinds = {}
    for k, _ in cases:
        kinds[k] = kinds.get(k, 0) + 1
    ctx.report.coverage.update({
        "evaluations": len(cases),
        "distinct_nontrivial": nontrivial,
        "rule": "C01-style histories under three flush policies (never / random subset of boundaries / after every "
                "statement) with crashes at random statement boundaries, double recoveries and a final crash; "
                "non-trivial = at least one crash hits a state where DML effects exist only in the log",
        "traces_validated_against_impl": len(cases),
        "statements_run": nst, "crashes": ncr, "flushes": nfl, "crashes_with_redo_work": redo,
        "case_kinds": kinds,
        "samples": [{"kind": cases[i][0], "events": [x[0] if x[0] != "stmt" else hist.sql_stmt(x[1])[:70] for x in evs[i]][:12]}
                    for i in range(0, len(cases), max(1, len(cases) // 3))][:3],
    })
    out = {"spec_violations": [], "model_mismatches": [],
           "correspondence_name": "Spec.HistObs.model_agrees with crash events: Model/Engine.v recover vs storage.InitStorage"}

    def shrink(i, which):
        ev = evs[i]
        items = [x for x in ev if x[0] in ("stmt", "flush", "crash")]

        def rebuild(its):
            seen, res = [], []
            for it in its:
                res.append(it)
                if it[0] == "stmt" and it[1]["k"] == "create" and it[1]["table"] not in seen:
                    seen.append(it[1]["table"])
                res.append(("tables", list(seen) + ["sys_schema"]))
                res.append(("dump",))
            return res

        def fails(its):
            e2 = rebuild(its)
            try:
                o2 = hist.run_histories(ctx, [e2])
                m2, s2 = hist.eval_cases(ctx, "c02_shrink", [e2], o2)
            except RuntimeError:
                return False
            return bool(m2 if which == "MM" else s2)
        if not fails(items):
            return ev, None
        small = hist.ddmin(items, fails, budget=50)
        e2 = rebuild(small)
        return e2, hist.run_histories(ctx, [e2])[0]

    for i in sm[:1]:
        e2, o2 = shrink(i, "SM")
        out["spec_violations"].append({
            "events": [list(x) for x in e2],
            "script": [hist.sql_stmt(x[1]) if x[0] == "stmt" else x[0].upper() for x in e2 if x[0] in ("stmt", "flush", "crash")],
            "observed": o2, "what": "after recovery the tables differ from the effects of the acknowledged statements"})
    for i in mm[:1]:
        e2, o2 = shrink(i, "MM")
        out["model_mismatches"].append({
            "events": [list(x) for x in e2],
            "script": [hist.sql_stmt(x[1]) if x[0] == "stmt" else x[0].upper() for x in e2 if x[0] in ("stmt", "flush", "crash")]})
    return out
