"""C14 - a statement that returns an error changes nothing.
For each error kind and each position k of the invalid row in a multi-row statement: SELECT * of
every table and sys_schema before, after, and after a restart; compared with the model and judged
by the specification (an erroring statement must leave every table as it was)."""
import vlib
from props import hist, c01

PROP_FILES = ["Properties/C14.v"]
HARNESS = ["engine"]
ASSUMPTIONS = c01.ASSUMPTIONS

HEADER = hist.HEADER

KNOWN_SIG = {
    "insert_row_k": "multi-row INSERT whose k-th row (k > 1) is invalid keeps rows 1..k-1 (visible at once, durable after the next flush)",
    "update_row_k": "UPDATE failing at its k-th matching row (k > 1, row would exceed 400 bytes) keeps the earlier rows updated",
    "create_col_k": "CREATE TABLE failing while storing its k-th column definition (VARCHAR length beyond 32 bits, or an "
                    "oversized catalog row) leaves the table registered with the first k-1 columns",
}


def good_row(g, cols):
    return [g.value(t) for _, t, _ in cols]


def failing_statements(rng, g, name, cols):
    """(kind, statement, k) - statements that must fail"""
    out = []
    n = rng.randint(1, 6)
    for kind in ["colcount", "type", "range", "size"]:
        for k in range(1, n + 1):
            rows = [good_row(g, cols) for _ in range(n)]
            bad = list(rows[k - 1])
            if kind == "colcount":
                bad = bad + [1]
            elif kind == "type":
                i = rng.randrange(len(cols))
                bad[i] = "x" if cols[i][1] != "varchar" else 5
            elif kind == "range":
                idx = [i for i, c in enumerate(cols) if c[1] == "int"]
                if not idx:
                    continue
                bad[rng.choice(idx)] = rng.choice([2147483648, 4294967296, 9223372036854775807])
            else:
                idx = [i for i, c in enumerate(cols) if c[1] == "varchar"]
                if not idx:
                    continue
                bad[rng.choice(idx)] = "".join(rng.choice(hist.SAFE) for _ in range(rng.choice([396, 400, 401, 500])))
                if hist.row_size(cols, cols, bad) <= 400:
                    continue
            rows[k - 1] = bad
            out.append(("insert/%s" % kind, {"k": "insert", "table": name, "cols": [], "rows": rows}, k))
    out.append(("insert/notable", {"k": "insert", "table": "nosuch", "cols": [], "rows": [[1]]}, 1))
    out.append(("delete/notable", {"k": "delete", "table": "nosuch", "where": None}, 1))
    out.append(("update/notable", {"k": "update", "table": "nosuch", "sets": [("a", 1)], "where": None}, 1))
    out.append(("create/duplicate", {"k": "create", "table": name, "cols": cols}, 1))
    # the same name with OTHER columns (more, fewer, other types): nothing of the refused definition may stick
    other = [("z%d" % i, rng.choice(["int", "varchar", "boolean", "bigint"]), 10) for i in range(rng.choice([1, len(cols) + 1, len(cols)]))]
    out.append(("create/duplicate-other-columns", {"k": "create", "table": name, "cols": other}, 1))
    # a column name used twice, at position k of m (refused before the table is registered)
    m = rng.randint(2, 4)
    k = rng.randint(2, m)
    cc = [("e%d" % i, rng.choice(["int", "varchar", "boolean"]), 10) for i in range(m)]
    cc[k - 1] = (cc[rng.randrange(k - 1)][0], cc[k - 1][1], 10)
    out.append(("create/dupcolumn", {"k": "create", "table": "dupc%d_%d" % (m, k), "cols": cc}, 1))
    # UPDATE: wrong type fails at the first matching row; an oversized value fails at the first row
    # it does not fit - which is row k > 1 when earlier rows are short
    for c, t, _ in cols:
        bad = "x" if t != "varchar" else 7
        out.append(("update/type", {"k": "update", "table": name, "sets": [(c, bad)], "where": None}, 1))
        if t == "int":
            out.append(("update/range", {"k": "update", "table": name, "sets": [(c, 2147483648)], "where": None}, 1))
    vc = [c for c in cols if c[1] == "varchar"]
    if vc:
        c = rng.choice(vc)[0]
        ln = rng.choice([60, 100, 200, 330, 396])
        out.append(("update/size", {"k": "update", "table": name,
                                    "sets": [(c, "".join(rng.choice(hist.SAFE) for _ in range(ln)))], "where": None}, 0))
    out.append(("update/colref", {"k": "update", "table": name, "sets": [(cols[0][0], ("col", "", cols[0][0]))], "where": None}, 1))
    # WHERE that cannot be evaluated
    out.append(("delete/badwhere", {"k": "delete", "table": name, "where": [[(("col", "", "nosuchcol"), "=", 1)]]}, 1))
    out.append(("update/badwhere", {"k": "update", "table": name, "sets": [(cols[0][0], g.value(cols[0][1]))],
                                    "where": [[(("col", "", "nosuchcol"), "=", 1)]]}, 1))
    # CREATE TABLE whose k-th column cannot be stored
    m = rng.randint(1, 4)
    for k in range(1, m + 1):
        cc = [("d%d" % i, "int", 0) for i in range(m)]
        cc[k - 1] = ("d%d" % (k - 1), "varchar", rng.choice([2147483648, 3000000000]))
        out.append(("create/varcharlen", {"k": "create", "table": "bad%d_%d" % (m, k), "cols": cc}, k))
    return out


def witness_cases():
    """the recorded findings' witnesses, replayed on every run"""
    out = []
    t = {"k": "create", "table": "w", "cols": [("a", "int", 0), ("b", "varchar", 400), ("c", "varchar", 400)]}
    ins = {"k": "insert", "table": "w", "cols": [], "rows": [[1, "x", "y"], [2, "x", "L" * 300]]}
    nm = ["w", "sys_schema"]
    w1 = {"k": "insert", "table": "w", "cols": [], "rows": [[3, "p", "q"], [2147483648, "r", "s"]]}
    w2 = {"k": "update", "table": "w", "sets": [("b", "M" * 200)], "where": None}
    w3 = {"k": "create", "table": "w3", "cols": [("a", "int", 0), ("b", "varchar", 3000000000)]}
    for kind, k, st, names in [("insert/range", 2, w1, nm), ("update/size", 0, w2, nm), ("create/varcharlen", 2, w3, nm + ["w3"])]:
        evs = [("stmt", t), ("stmt", ins), ("tables", names), ("stmt", st), ("tables", names), ("flush",), ("crash",), ("tables", names)]
        out.append((kind, k, evs, 2))
    return out


def fixed_width_growth_cases(rng):
    """an UPDATE that assigns a fixed-width value (INT / BIGINT / BOOLEAN) to a column that is NULL makes the
    row longer too: the first matching row fits, a later one (padded to within a few bytes of the 400-byte
    limit) does not; nothing may be changed. id INT + pad VARCHAR + n <type>, n omitted at INSERT."""
    out = []
    for ty, grow, val in (("int", 4, 7), ("bigint", 8, 9), ("boolean", 1, True)):
        # row size with n NULL: 5 + (5 + len(pad)) + 1; with n set: + grow
        lo = 400 - 11 - grow + 1
        L = rng.randint(lo, 400 - 11)
        t = {"k": "create", "table": "g", "cols": [("id", "int", 0), ("pad", "varchar", 400), ("n", ty, 0)]}
        rows = [[1, "short"], [2, "p" * L], [3, "x"]]
        rng.shuffle(rows)
        if rows[0][1].startswith("p"):
            rows[0], rows[1] = rows[1], rows[0]            # the long row is not the first one
        ins = {"k": "insert", "table": "g", "cols": ["id", "pad"], "rows": rows}
        upd = {"k": "update", "table": "g", "sets": [("n", val)], "where": None}
        names = ["g", "sys_schema"]
        evs = [("stmt", t), ("stmt", ins), ("tables", names), ("dstmt" if ty == "boolean" else "stmt", upd), ("tables", names),
               ("flush",), ("crash",), ("tables", names)]
        out.append(("update/null-to-" + ty + "-size", 2, evs, 2))
    return out


def where_fails_late_cases(rng):
    """DELETE / UPDATE whose WHERE can be evaluated on the first rows and fails on a later one (an ordering
    comparison with NULL is an error): the statement fails, and no row matched before may be gone or changed"""
    out = []
    for kind in ("delete", "update"):
        t = {"k": "create", "table": "n", "cols": [("id", "int", 0), ("score", "int", 0), ("s", "varchar", 20)]}
        n = rng.randint(3, 7)
        k = rng.randint(2, n)                                    # the row whose score is NULL
        rows = [[i, 10 * i, "r%d" % i] for i in range(1, n + 1)]
        evs = [("stmt", t), ("stmt", {"k": "insert", "table": "n", "cols": [], "rows": rows[:k - 1]}),
               ("stmt", {"k": "insert", "table": "n", "cols": ["id", "s"], "rows": [[k, "null-score"]]})]
        if rows[k:]:
            evs.append(("stmt", {"k": "insert", "table": "n", "cols": [], "rows": rows[k:]}))
        names = ["n", "sys_schema"]
        where = [[(("col", "", "score"), rng.choice([">=", ">", "<", "<="]), rng.choice([0, 10, 1000]))]]
        st = {"k": "delete", "table": "n", "where": where} if kind == "delete" else \
             {"k": "update", "table": "n", "sets": [("s", "changed")], "where": where}
        evs += [("tables", names), ("stmt", st), ("tables", names), ("flush",), ("crash",), ("tables", names)]
        out.append((kind + "/where-fails-at-row-k", k, evs, len([e for e in evs if e[0] == "stmt"]) - 1))
    return out


def build_cases(rng, tier):
    cases = witness_cases() + fixed_width_growth_cases(rng) + where_fails_late_cases(rng)
    nstates = 6 if tier == "quick" else 60
    for _ in range(nstates):
        g = hist.Gen(rng, 2)
        pre = [g.create()]
        name = pre[0]["table"]
        cols = g.tables[name]
        # a state with rows of varied width, sometimes across a leaf split
        for _ in range(rng.randint(1, 4)):
            pre.append(g.insert(name, nrows=rng.choice([1, 3, 6]), long=rng.random() < 0.4))
        if rng.random() < 0.5:
            pre.append(g.delete(name))
        other = g.create()
        pre.append(other)
        pre.append(g.insert(other["table"], nrows=2))
        names = [name, other["table"], "sys_schema"]
        fs = failing_statements(rng, g, name, cols)
        if tier == "quick":
            fs = rng.sample(fs, min(len(fs), 14))
        for kind, st, k in fs:
            nm = names + ([st["table"]] if st["k"] == "create" and st["table"] not in names else [])
            evs = [("stmt", s) for s in pre]
            if rng.random() < 0.5:
                evs.append(("flush",))
            evs += [("tables", nm), ("stmt", st), ("tables", nm)]
            if rng.random() < 0.5:
                evs += [("flush",)]
            evs += [("crash",), ("tables", nm)]
            cases.append((kind, k, evs, len(pre)))
    return cases


def evaluate(ctx, name, evs, outs, shard=25):
    terms = [hist.cq_case(e, o) for e, o in zip(evs, outs)]
    # SM: strict (an error is only acceptable when the specification refuses the statement too);
    # SN: normal (used for CREATE TABLE, which the engine also refuses for catalog limits the plain
    # specification does not know: a VARCHAR length outside INT, a name too long for a catalog row)
    defs = {"SM": "spec_accepts_strict", "SN": "spec_accepts", "PF": "spec_accepts_prefix_on_error"}
    if ctx.model_ok:
        defs["MM"] = "model_agrees"
    okc, res, lg = vlib.run_coq_cases(name, HEADER, terms, "hcase", defs, shard=shard)
    if not okc:
        raise RuntimeError("coq evaluation failed: " + lg[-3000:])
    return res.get("MM", []), res["SM"], res["PF"], res["SN"]


def run(ctx):
    if ctx.replay and "events" in ctx.replay:
        cases = [("replay", 0, [tuple(e) for e in ctx.replay["events"]], 0)]
    else:
        cases = build_cases(ctx.rng, ctx.tier)
    evs = [c[2] for c in cases]
    outs = hist.run_histories(ctx, evs)
    mm, sm_strict, pf, sn = evaluate(ctx, "c14", evs, outs)
    sm = sorted(set(sn) | {i for i in sm_strict if not cases[i][0].startswith("create/")})
    kinds = {}
    failed_as_expected = 0
    for (kind, k, e, npre), o in zip(cases, outs):
        kinds[kind] = kinds.get(kind, 0) + 1
        # the statement under test is the one after the first read-back
        idx = [i for i, x in enumerate(e) if x[0] == "tables"][0] + 1
        if idx < len(o) and o[idx]["res"] != "ok":
            failed_as_expected += 1
    out = {"spec_violations": [], "model_mismatches": [], "known": [],
           "correspondence_name": "failing statements: model_agrees on tables before / after / after restart"}
    known_hits = {}
    for i in sm:
        kind, k, e, npre = cases[i]
        sig = None
        if i not in pf and i not in mm:
            # the observed state is a row-operation prefix of the failing statement and the model
            # (which transliterates the code) predicts exactly it: the recorded finding
            if kind.startswith("insert/") and k > 1:
                sig = "insert_row_k"
            elif kind == "update/size":
                sig = "update_row_k"
            elif kind == "create/varcharlen":
                sig = "create_col_k"
        if sig and any(kf.get("signature") == sig for kf in ctx.known):
            known_hits.setdefault(sig, []).append(i)
        else:
            st = [x for x in e if x[0] == "stmt"][-1][1]
            out["spec_violations"].append({
                "events": [list(x) for x in e], "failing_statement": hist.sql_stmt(st), "kind": kind, "k": k,
                "observed": outs[i],
                "what": "a statement that returned an error changed table contents (and the change is not one of the recorded findings)"})
    # the recorded witnesses are replayed on every run (they are part of the generated cases by
    # construction: at least one hit per open finding is expected while the defect is there)
    for kf in ctx.known:
        hits = known_hits.get(kf.get("signature"), [])
        if hits:
            i = hits[0]
            st = [x for x in cases[i][2] if x[0] == "stmt"][-1][1]
            out["known"].append("%s [%d case(s) this run, e.g. %s]" % (kf["what"], len(hits), hist.sql_stmt(st)[:100]))
    for i in mm[:2]:
        e = cases[i][2]
        out["model_mismatches"].append({"events": [list(x) for x in e], "kind": cases[i][0], "k": cases[i][1],
                                        "sql": [hist.sql_stmt(x[1]) for x in e if x[0] == "stmt"]})
    nontrivial = len({(c[0], c[1], i // max(1, len(cases) // 6)) for i, c in enumerate(cases)})
    ctx.report.coverage.update({
        "evaluations": len(cases),
        "distinct_nontrivial": failed_as_expected,
        "rule": "for several database states (rows of varied width, tombstones, leaf splits, flushed or not): every error "
                "kind (unknown table, column-count mismatch, type mismatch, INT out of range, oversized row, duplicate "
                "table, UPDATE from a column, unevaluable WHERE, CREATE TABLE with an unstorable column) with the invalid "
                "row at every position k; non-trivial = the statement under test did return an error",
        "traces_validated_against_impl": len(cases),
        "error_kinds": kinds,
        "cases_matching_known_findings": {k: len(v) for k, v in known_hits.items()},
        "samples": [{"kind": c[0], "k": c[1], "statement": hist.sql_stmt([x for x in c[2] if x[0] == "stmt"][-1][1])[:160]}
                    for c in cases[:: max(1, len(cases) // 4)]][:4],
    })
    return out
