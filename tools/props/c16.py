"""C16 - query results do not depend on the page-cache size.
The same histories run through the real engine with the LRU replaced by caches of 6..64 pages
(flush after every statement, so the dirty set stays within one statement) and with the default
10000: statement outcomes, SELECT * and page dumps must be identical, equal to the model (which
has no cache at all) and accepted by the table specification."""
import vlib
from props import hist, c01

PROP_FILES = ["Properties/C16.v"]
HARNESS = ["engine"]
ASSUMPTIONS = c01.ASSUMPTIONS + [
    "dirty pages are flushed before they fill the cache: the harness flushes after every statement, as the 100 ms "
    "timer does between statements (hypothesis of the property)",
]
CAPS_QUICK = [6, 8, 16, 64, 10000]
CAPS_THOROUGH = [5, 6, 7, 8, 10, 12, 16, 24, 32, 64, 10000]


def build_case(rng, tier, kind):
    base = c01.build_case(rng, tier, kind)
    evs = []
    for e in base:
        evs.append(e)
        if e[0] == "stmt":
            evs.append(("flush",))
    return evs


def strip_cache_fields(o):
    """page dumps differ in nothing (dirty flags are all false after the flush); the cache
    occupancy numbers do differ and are not part of the comparison"""
    o = dict(o)
    o.pop("cache", None)
    if o.get("pages"):
        # the length of the in-memory slot array is a representation detail: a page that was
        # evicted and re-read has it compacted to the live cells
        o["pages"] = [{k: v for k, v in p.items() if k not in ("slots", "offsets")} for p in o["pages"]]
    return o


def run(ctx):
    caps = CAPS_QUICK if ctx.tier == "quick" else CAPS_THOROUGH
    if ctx.replay and "events" in ctx.replay:
        cases = [("replay", [tuple(e) for e in ctx.replay["events"]])]
        caps = [ctx.replay.get("cache", 6), 10000]
    else:
        plan = [("small", 5), ("split", 4), ("catalog", 1)] if ctx.tier == "quick" else [("small", 20), ("split", 12), ("catalog", 4), ("large", 2)]
        cases = [(k, build_case(ctx.rng, ctx.tier, k)) for k, n in plan for _ in range(n)]
    evs = [c[1] for c in cases]
    per_cap = {}
    for cap in caps:
        inputs = [{"cache": cap, "events": hist.go_events(e)} for e in evs]
        ok, outs, lg = vlib.run_driver_parallel(ctx.bins["engine"], "history", inputs, nshards=10)
        if not ok or len(outs) != len(evs):
            raise RuntimeError("history driver failed at cache=%d: %s" % (cap, lg[-2000:]))
        per_cap[cap] = [o["events"] for o in outs]
    ref = per_cap[10000]
    out = {"spec_violations": [], "model_mismatches": [],
           "correspondence_name": "history driver with a small LRU vs the model (no cache) and vs the default cache"}
    diffs = 0
    out_of_scope = set()
    refusals = 0
    evictions_seen = 0
    for cap in caps:
        for i, o in enumerate(per_cap[cap]):
            a = [strip_cache_fields(x) for x in o]
            b = [strip_cache_fields(x) for x in ref[i]]
            for x in o:
                if x["t"] == "dump" and x.get("cache") and x["cache"][0] >= cap:
                    evictions_seen += 1
                if x.get("res") == "CacheFull":
                    refusals += 1
            if any(x.get("res") == "CacheFull" for x in o):
                # the per-statement dirty set does not fit this capacity: outside the property's
                # quantifier (the statement is refused, as C15 requires)
                out_of_scope.add((cap, i))
                continue
            if a != b:
                diffs += 1
                # first differing event
                j = next((j for j in range(min(len(a), len(b))) if a[j] != b[j]), min(len(a), len(b)))
                if len(out["spec_violations"]) < 2:
                    out["spec_violations"].append({
                        "events": [list(x) for x in evs[i]], "cache": cap, "first_difference_at_event": j,
                        "small_cache": a[j] if j < len(a) else None, "default_cache": b[j] if j < len(b) else None,
                        "sql": [hist.sql_stmt(x[1]) if x[0] == "stmt" else x[0] for x in evs[i][:j + 1] if x[0] != "tables"][-8:],
                        "what": "outcome or contents with a %d-page cache differ from the default cache" % cap})
    # model agreement and specification at the smallest capacity
    small = min(caps)
    mm, sm = hist.eval_cases(ctx, "c16", evs, per_cap[small], shard=3)
    mm = [i for i in mm if (small, i) not in out_of_scope]
    sm = [i for i in sm if (small, i) not in out_of_scope]
    for i in sm[:1]:
        out["spec_violations"].append({"events": [list(x) for x in evs[i]], "cache": small,
                                       "what": "table specification rejects the run at cache=%d" % small})
    for i in mm[:2]:
        out["model_mismatches"].append({"events": [list(x) for x in evs[i]], "cache": small})
    ctx.report.coverage.update({
        "evaluations": len(cases) * len(caps),
        "distinct_nontrivial": evictions_seen,
        "rule": "each of %d histories (flush after every statement) at cache capacities %s; non-trivial = a page dump taken "
                "while the cache was full (so evictions and re-reads from the data file happened before it); counted per "
                "(history, capacity, dump)" % (len(cases), caps),
        "traces_validated_against_impl": len(cases) * len(caps),
        "capacities": caps, "runs_differing_from_default": diffs, "runs_out_of_scope_dirty_set_exceeds_capacity": len(out_of_scope), "statements_refused_cache_full": refusals,
        "samples": [{"kind": cases[i][0], "events": [x[0] if x[0] != "stmt" else hist.sql_stmt(x[1])[:60] for x in evs[i]][:8]}
                    for i in range(0, len(cases), max(1, len(cases) // 3))][:3],
    })
    return out
