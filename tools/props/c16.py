"""C16 - query results do not depend on the page-cache size.
The same histories run through the real engine with the LRU replaced by caches of 6..64 pages
(flush after every statement, so the dirty set stays within one statement) and with the default
10000: statement outcomes, SELECT * and page dumps must be identical, equal to the model (which
has no cache at all) and accepted by the table specification."""
import vlib
from props import hist, c01

PROP_FILES = ["Properties/C16.v"]
HARNESS = ["engine", "storage"]
ASSUMPTIONS = c01.ASSUMPTIONS + [
    "dirty pages are flushed before they fill the cache: the harness flushes after every statement, as the 100 ms "
    "timer does between statements (hypothesis of the property)",
]
CAPS_QUICK = [6, 8, 16, 64, 10000]
CAPS_THOROUGH = [5, 6, 7, 8, 10, 12, 16, 24, 32, 64, 10000]


def build_case(rng, tier, kind):
    base = c01.build_case(rng, tier, kind)
    evs = []
    for e in base:
        evs.append(e)
        if e[0] == "stmt":
            evs.append(("flush",))
    return evs


def strip_cache_fields(o):
    """page dumps differ in nothing (dirty flags are all false after the flush); the cache
    occupancy numbers do differ and are not part of the comparison"""
    o = dict(o)
    o.pop("cache", None)
    if o.get("pages"):
        # the length of the in-memory slot array is a representation detail: a page that was
        # evicted and re-read has it compacted to the live cells
        o["pages"] = [{k: v for k, v in p.items() if k not in ("slots", "offsets")} for p in o["pages"]]
    return o


PS_HEADER = """From Mkdb Require Import Model.CaseLib Spec.PStoreSpec Spec.PStoreObs.
Open Scope N_scope.
"""
# pcase, pout_eqb, in_discipline, ps_model_agrees, href_ok, ps_spec: coq/Spec/PStoreObs.v (the theorem
# C16_agreement_implies_acceptance of Properties/C16.v is about exactly these functions)


def pstore_cases(rng, n):
    cases = []
    for _ in range(n):
        cap = rng.choice([3, 4, 6, 8])
        ops = []
        nkeys = 0
        careless = rng.random() < 0.2     # sometimes modify without fetching first (stale pointers)
        for _ in range(rng.randint(10, 60)):
            r = rng.random()
            if r < 0.22 or nkeys == 0:
                nkeys += 1
                ops.append([1, nkeys, rng.randrange(1, 1000)])
                if not careless or rng.random() < 0.5:
                    ops.append([2, nkeys, rng.randrange(1, 1000)])     # markDirty right after the allocation
            elif r < 0.5:
                ops.append([0, rng.randint(1, nkeys)])
            elif r < 0.85:
                k = rng.randint(1, nkeys)
                if not careless:
                    ops.append([0, k])
                ops.append([2, k, rng.randrange(1, 1000)])
            else:
                ops.append([3])
        cases.append({"cap": cap, "ops": ops})
    return cases


def pstore_check(ctx, out):
    n = 200 if ctx.tier == "quick" else 2000
    cases = pstore_cases(ctx.rng, n)
    ok, outs, lg = vlib.run_driver_parallel(ctx.bins["storage"], "pstore", cases, nshards=8)
    if not ok or len(outs) != len(cases):
        raise RuntimeError("pstore driver failed: " + lg[-2000:])
    terms = []
    for c, o in zip(cases, outs):
        ops = []
        obs = []
        prev_order = []
        for op, r in zip(c["ops"], o["res"]):
            if op[0] == 0:
                ops.append("HFetch %d" % op[1])
                obs.append("PRefused" if r and r[0] < 0 else "PObj %d %d" % (r[0], r[1]))
            elif op[0] == 1:
                ops.append("HAlloc %d %d" % (op[1], op[2]))
                obs.append("PRefused" if r and r[0] < 0 else "PObj %d %d" % (r[0], r[1]))
            elif op[0] == 2:
                ops.append("HModify %d %d" % (op[1], op[2]))
                obs.append("PUnit")
            else:
                # the pages now at the front (reversed) were visited in that order; passing all
                # resident keys is harmless: clean ones are skipped by the model
                ops.append("HFlush %s" % hist.cq_list(str(k) for k in reversed(r)))
                obs.append("PUnit")
        terms.append("(%d%%nat, %s, %s)" % (c["cap"], hist.cq_list(ops), hist.cq_list(obs)))
    okc, res, lg = vlib.run_coq_cases("c16_pstore", PS_HEADER, terms, "pcase",
                                      {"PM": "ps_model_agrees", "PS": "ps_spec", "OUT": "in_discipline"}, shard=100)
    if not okc:
        raise RuntimeError("coq evaluation failed: " + lg[-3000:])
    for i in res["PS"][:2]:
        out["spec_violations"].append({"pstore_case": cases[i], "observed": outs[i]["res"],
                                       "what": "a fetch returned a content different from the unbounded-cache reference although the run respects the discipline"})
    for i in res["PM"][:2]:
        out["model_mismatches"].append({"pstore_case": cases[i], "observed": outs[i]["res"]})
    return len(cases), len(cases) - len(res["OUT"])


def run(ctx):
    caps = CAPS_QUICK if ctx.tier == "quick" else CAPS_THOROUGH
    if ctx.replay and "events" in ctx.replay:
        cases = [("replay", [tuple(e) for e in ctx.replay["events"]])]
        caps = [ctx.replay.get("cache", 6), 10000]
    else:
        plan = [("small", 5), ("split", 4), ("catalog", 1)] if ctx.tier == "quick" else [("small", 20), ("split", 12), ("catalog", 4), ("large", 2)]
        cases = [(k, build_case(ctx.rng, ctx.tier, k)) for k, n in plan for _ in range(n)]
    evs = [c[1] for c in cases]
    per_cap = {}
    for cap in caps:
        inputs = [{"cache": cap, "events": hist.go_events(e)} for e in evs]
        ok, outs, lg = vlib.run_driver_parallel(ctx.bins["engine"], "history", inputs, nshards=10, resilient=True)
        if not ok or len(outs) != len(evs):
            raise RuntimeError("history driver failed at cache=%d: %s" % (cap, lg[-2000:]))
        per_cap[cap] = [o.get("events", []) for o in outs]
    ref = per_cap[10000]
    out = {"spec_violations": [], "model_mismatches": [],
           "correspondence_name": "history driver with a small LRU vs the model (no cache) and vs the default cache"}
    diffs = 0
    out_of_scope = set()
    refusals = 0
    evictions_seen = 0
    for cap in caps:
        for i, o in enumerate(per_cap[cap]):
            a = [strip_cache_fields(x) for x in o]
            b = [strip_cache_fields(x) for x in ref[i]]
            for x in o:
                if x["t"] == "dump" and x.get("cache") and x["cache"][0] >= cap:
                    evictions_seen += 1
                if x.get("res") == "CacheFull":
                    refusals += 1
            if any(x.get("res") == "CacheFull" for x in o):
                # the per-statement dirty set does not fit this capacity: outside the property's
                # quantifier (the statement is refused, as C15 requires)
                out_of_scope.add((cap, i))
                continue
            if a != b:
                diffs += 1
                # first differing event
                j = next((j for j in range(min(len(a), len(b))) if a[j] != b[j]), min(len(a), len(b)))
                if len(out["spec_violations"]) < 2:
                    out["spec_violations"].append({
                        "events": [list(x) for x in evs[i]], "cache": cap, "first_difference_at_event": j,
                        "small_cache": a[j] if j < len(a) else None, "default_cache": b[j] if j < len(b) else None,
                        "sql": [hist.sql_stmt(x[1]) if x[0] == "stmt" else x[0] for x in evs[i][:j + 1] if x[0] != "tables"][-8:],
                        "what": "outcome or contents with a %d-page cache differ from the default cache" % cap})
    # model agreement and specification at the smallest capacity
    small = min(caps)
    mm, sm = hist.eval_cases(ctx, "c16", evs, per_cap[small], shard=3)
    mm = [i for i in mm if (small, i) not in out_of_scope]
    sm = [i for i in sm if (small, i) not in out_of_scope]
    for i in sm[:1]:
        out["spec_violations"].append({"events": [list(x) for x in evs[i]], "cache": small,
                                       "what": "table specification rejects the run at cache=%d" % small})
    for i in mm[:2]:
        out["model_mismatches"].append({"events": [list(x) for x in evs[i]], "cache": small})
    # one deep history (three-level tree, non-root internal splits) at a cache of 24 pages vs the default:
    # Go against Go only (the model comparison of deep histories is C01's and C11's job)
    deep = build_case(ctx.rng, ctx.tier, "deep")
    deep_out = {}
    for cap in (24, 10000):
        ok, o, lg = vlib.run_driver_resilient(ctx.bins["engine"], "history", [{"cache": cap, "events": hist.go_events(deep)}])
        if not ok or len(o) != 1:
            raise RuntimeError("history driver failed on the deep history at cache=%d: %s" % (cap, lg[-1500:]))
        deep_out[cap] = [strip_cache_fields(x) for x in o[0].get("events", [])]
    if deep_out[24] != deep_out[10000] and not any(x.get("res") == "CacheFull" for x in deep_out[24]):
        j = next((j for j in range(min(len(deep_out[24]), len(deep_out[10000]))) if deep_out[24][j] != deep_out[10000][j]),
                 min(len(deep_out[24]), len(deep_out[10000])))
        a, b = (deep_out[24][j] if j < len(deep_out[24]) else None), (deep_out[10000][j] if j < len(deep_out[10000]) else None)
        for x in (a, b):
            if x and x.get("pages"):
                x["pages"] = "(%d pages)" % len(x["pages"])
        out["spec_violations"].append({
            "events": "props.c01.build_case(kind='deep') with a flush after every statement", "cache": 24,
            "first_difference_at_event": j, "event": [str(y)[:200] for y in deep[j:j + 1]],
            "small_cache": a, "default_cache": b,
            "what": "the deep history (2460 rows, three-level tree) behaves differently with a 24-page cache"})
    nps, nps_in = pstore_check(ctx, out)
    ctx.report.coverage.update({
        "page_store_traces": nps, "page_store_traces_within_discipline": nps_in,
        "evaluations": len(cases) * len(caps),
        "distinct_nontrivial": evictions_seen,
        "rule": "each of %d histories (flush after every statement) at cache capacities %s; non-trivial = a page dump taken "
                "while the cache was full (so evictions and re-reads from the data file happened before it); counted per "
                "(history, capacity, dump)" % (len(cases), caps),
        "traces_validated_against_impl": len(cases) * len(caps),
        "capacities": caps, "runs_differing_from_default": diffs, "runs_out_of_scope_dirty_set_exceeds_capacity": len(out_of_scope), "statements_refused_cache_full": refusals,
        "samples": [{"kind": cases[i][0], "events": [x[0] if x[0] != "stmt" else hist.sql_stmt(x[1])[:60] for x in evs[i]][:8]}
                    for i in range(0, len(cases), max(1, len(cases) // 3))][:3],
    })
    return out
