"""C04 - a crash while the page cache is being flushed loses nothing.
At flush points of seeded histories the driver takes the data file before and after the real
flush and builds every torn image: file before + any subset of the pages the flush changed,
header unwritten; each image is recovered (storage.InitStorage) and read back.
In scope of the proved theorem (C04_partial): flushes whose dirty set consists of leaves changed in
place. A flush with a structural change in flight (page allocated since the last completed flush,
or an internal node dirty) is the recorded finding F15: such images are judged by the specification
only, and a loss there is reported as KNOWN-FINDING, anything else as a violation."""
import vlib
from props import hist, c01

PROP_FILES = ["Properties/C04.v"]
HARNESS = ["engine"]
ASSUMPTIONS = c01.ASSUMPTIONS + [
    "WriteAt of one 4096-byte page is atomic; every page write of one flush targets a distinct page, so the reachable "
    "torn images are exactly: file before the flush + a subset of the changed pages, header unwritten",
]


def build_history(rng, tier):
    g = hist.Gen(rng, 2)
    sts = [g.create(cols=[("a", "int", 0), ("b", "varchar", 255)])]
    name = sts[0]["table"]
    evs = [("stmt", sts[0])]
    names = [name]
    plan = rng.choice(["inplace", "inplace", "grow", "grown-inplace"])
    if plan == "grown-inplace":
        # the table has an internal root whose split was flushed long ago; then single rows that fit their leaf
        # (in place: only a leaf changes), each followed by a flush that may be cut short - also the flush that
        # ends the recovery of such an image (root and leaf are different pages there)
        evs.append(("stmt", {"k": "insert", "table": name, "cols": [], "rows": [[i, "r%d" % i] for i in range(rng.randint(19, 30))]}))
        evs.append(("flush",))
        for _ in range(rng.randint(2, 4)):
            g.counter += 1
            evs.append(("stmt", {"k": "insert", "table": name, "cols": [], "rows": [[1000 + g.counter, "n"]]}))
            if rng.random() < 0.5:
                evs.append(("stmt", {"k": "update", "table": name, "sets": [("b", "u")], "where": [[(("col", "", "a"), "=", rng.randrange(0, 15))]]}))
            evs.append(("tornflush", list(names)))
    elif plan == "inplace":
        evs.append(("stmt", g.insert(name, nrows=rng.randint(2, 6))))
        evs.append(("tornflush", list(names)))
        for _ in range(rng.randint(2, 6)):
            r = rng.random()
            if r < 0.4:
                evs.append(("stmt", g.insert(name, nrows=1)))      # fits the leaf: in place
            elif r < 0.7:
                evs.append(("stmt", {"k": "update", "table": name, "sets": [("b", g.value("varchar"))],
                                     "where": [[(("col", "", "a"), rng.choice([">=", "<", "!="]), max(0, g.counter - rng.randint(0, 6)))]]}))
            else:
                evs.append(("stmt", {"k": "delete", "table": name,
                                     "where": [[(("col", "", "a"), "=", max(0, g.counter - rng.randint(0, 6)))]]}))
            if rng.random() < 0.6:
                evs.append(("tornflush", list(names)))
        evs.append(("tornflush", list(names)))
    else:
        for _ in range(rng.randint(2, 5)):
            evs.append(("stmt", g.insert(name, nrows=rng.choice([3, 6, 9, 12]))))
            if rng.random() < 0.4:
                evs.append(("stmt", g.delete(name)))
            if rng.random() < 0.7:
                evs.append(("tornflush", list(names)))
        if rng.random() < 0.5:
            t2 = g.create()
            evs.append(("stmt", t2))
            names.append(t2["table"])
            evs.append(("stmt", g.insert(t2["table"], nrows=2)))
        evs.append(("tornflush", list(names)))
    return evs


def witness_history():
    """the recorded finding's witness: a leaf split between two flushes"""
    t = {"k": "create", "table": "w", "cols": [("a", "int", 0)]}
    evs = [("stmt", t)]
    for i in range(8):
        evs.append(("stmt", {"k": "insert", "table": "w", "cols": [], "rows": [[i]]}))
    evs.append(("tornflush", ["w"]))
    evs.append(("stmt", {"k": "insert", "table": "w", "cols": [], "rows": [[8]]}))
    evs.append(("tornflush", ["w"]))
    return evs


def then_stmts(names):
    """statements run after every torn-flush recovery: the database must keep working (fresh row ids)"""
    return [{"k": "insert", "table": names[0], "cols": ["a"], "rows": [[424242]]},
            {"k": "insert", "table": names[0], "cols": ["a"], "rows": [[434343]]}]


def go_events(evs, seed):
    out = []
    for i, e in enumerate(evs):
        if e[0] == "tornflush":
            out.append({"t": "tornflush", "tables": e[1], "seed": seed + i,
                        "then": [hist.sql_stmt(s) for s in then_stmts(e[1])]})
        else:
            out.extend(hist.go_events([e]))
    return out


def torn_cases(evs, outs):
    res = []
    pev, pob = [], []
    for e, o in zip(evs, outs):
        if e[0] == "tornflush":
            t = o["torn"]
            t["new"] = t.get("new") or []
            t["internal"] = t.get("internal") or []
            t["diff"] = t.get("diff") or []
            structural = any(t["new"]) or any(t["internal"])
            for tc in t.get("cases") or []:
                tc["pages"] = tc.get("pages") or []
                ev = list(pev) + [("torn", tc["pages"]), ("tables", e[1])]
                ob = list(pob) + ["HOut (%s)" % hist.cq_res(tc["recover"])]
                if tc["recover"] == "ok":
                    ob.append("HTables %s" % hist.cq_list(hist.cq_table_obs(x) for x in tc.get("tables") or []))
                    for s2, r2 in zip(then_stmts(e[1]), tc.get("thenRes") or []):
                        ev.append(("stmt", s2))
                        ob.append("HOut (%s)" % hist.cq_res(r2))
                    if tc.get("tables2") is not None:
                        ev.append(("tables", e[1]))
                        ob.append("HTables %s" % hist.cq_list(hist.cq_table_obs(x) for x in tc.get("tables2") or []))
                else:
                    ob.append("HDead")
                    ev = ev[:-1]
                res.append((ev, ob, {"structural": structural, "changed_pages": t["diff"], "written": tc["pages"],
                                     "recover": tc["recover"], "new": t["new"], "internal": t["internal"],
                                     "recovery_cut_at_page": tc.get("prelimit", 0)}))
            pev.append(("flush",))
            pob.append("HOut (%s)" % hist.cq_res(o["res"]))
        else:
            pev.append(e)
            pob.append(hist.cq_obs(o))
    return res


def cq_ev(e):
    if e[0] == "torn":
        return "HEv (EvTornFlush %s)" % hist.cq_list(str(p) for p in e[1])
    return hist.cq_event(e)


def run(ctx):
    n = 16 if ctx.tier == "quick" else 160
    if ctx.replay and "events" in ctx.replay:
        hists = [[tuple(e) for e in ctx.replay["events"]]]
    else:
        hists = [witness_history()] + [build_history(ctx.rng, ctx.tier) for _ in range(n)]
    inputs = [{"cache": 10000, "events": go_events(e, ctx.seed)} for e in hists]
    ok, outs, lg = vlib.run_driver_parallel(ctx.bins["engine"], "history", inputs, nshards=12, resilient=True)
    if not ok or len(outs) != len(hists):
        raise RuntimeError("history driver failed: " + lg[-3000:])
    cases = []
    owner = []
    for hi, (e, o) in enumerate(zip(hists, outs)):
        tc = torn_cases(e, o.get("events", []))
        cases.extend(tc)
        owner.extend([hi] * len(tc))
    terms = ["(%s, %s)" % (hist.cq_list(cq_ev(e) for e in ev), hist.cq_list(ob)) for ev, ob, _ in cases]
    defs = {"SM": "spec_accepts_strict"}
    if ctx.model_ok:
        defs["MM"] = "model_agrees"
        # indexes at which the MODEL says the cut flush has a structural change in flight (torn_disk = None)
        defs["US"] = ("fun c => negb (existsb (fun o => match o with HOut (OBerr EUnmodelled) => true | _ => false end) "
                      "(run_h init_sys (fst c)))")
    okc, res, lg = vlib.run_coq_cases("c04", hist.HEADER, terms, "hcase", defs, shard=60)
    if not okc:
        raise RuntimeError("coq evaluation failed: " + lg[-3000:])
    mm, sm = set(res.get("MM", [])), set(res["SM"])
    out = {"spec_violations": [], "model_mismatches": [], "known": [],
           "correspondence_name": "EvTornFlush (Model/Engine.v torn_disk + recover) vs recovery of the torn image"}
    if ctx.model_ok:
        # F15 covers a flush that is structural by what the statements since the last completed flush did (the model's
        # cache differs from its file in more than leaf contents) AND by what the real flush changed (a new page or an
        # internal node). A flush the model calls in-place whose real dirty set holds an internal node is in scope:
        # a loss there is a violation, not the recorded finding.
        us = set(res.get("US", []))
        for i, c in enumerate(cases):
            c[2]["structural_observed"] = c[2]["structural"]
            c[2]["structural"] = c[2]["structural"] and i in us
    inscope = [i for i, c in enumerate(cases) if not c[2]["structural"]]
    struct_cases = [i for i, c in enumerate(cases) if c[2]["structural"]]
    known = [i for i in struct_cases if i in sm]
    open_f15 = any(k.get("signature") == "torn_structural_flush" for k in ctx.known)
    for i in sorted(sm):
        ev, ob, meta = cases[i]
        if meta["structural"] and open_f15:
            continue
        if len(out["spec_violations"]) < 2:
            out["spec_violations"].append({
                "events": [list(x) for x in hists[owner[i]]], "torn": meta,
                "sql": [hist.sql_stmt(x[1]) if x[0] == "stmt" else x[0] for x in ev],
                "what": "a flush cut after writing pages %s of %s (header unwritten) does not recover to the acknowledged state"
                        % (meta["written"], meta["changed_pages"])})
    for i in sorted(mm):
        ev, ob, meta = cases[i]
        if meta["structural"]:
            continue      # outside the model (torn_disk = None): the model reports EUnmodelled by design
        if len(out["model_mismatches"]) < 2:
            out["model_mismatches"].append({"events": [list(x) for x in hists[owner[i]]], "torn": meta})
    for kf in ctx.known:
        if kf.get("signature") == "torn_structural_flush" and known:
            m = cases[known[0]][2]
            out["known"].append("%s [%d torn image(s) this run, e.g. pages %s of %s written: %s]" % (
                kf["what"], len(known), m["written"], m["changed_pages"], m["recover"]))
    ctx.report.coverage.update({
        "evaluations": len(cases),
        "distinct_nontrivial": len({(owner[i], tuple(cases[i][2]["written"]), tuple(cases[i][2]["changed_pages"]))
                                    for i in inscope if 0 < len(cases[i][2]["written"]) < len(cases[i][2]["changed_pages"]) or len(cases[i][2]["changed_pages"]) == 1}),
        "rule": "every flush point of %d histories; all subsets of the changed pages when there are at most 6, otherwise "
                "singletons, co-singletons and 24 seeded random subsets; non-trivial = an in-scope image in which a proper "
                "non-empty subset of the changed pages (or the only changed page) was written" % len(hists),
        "traces_validated_against_impl": len(inscope),
        "torn_images_in_scope": len(inscope), "torn_images_structural": len(struct_cases),
        "images_whose_first_recovery_was_itself_cut_inside_its_flush": sum(1 for c in cases if c[2].get("recovery_cut_at_page")),
        "recovery_cut_note": "for a part of the images a first recovery runs in a child process whose writes at or beyond "
                             "page 1 / 3..5 are refused by the kernel (RLIMIT_FSIZE), then recovery runs again and is observed",
        "structural_images_not_recovering": len(known),
        "samples": [c[2] for c in cases[:: max(1, len(cases) // 4)]][:4],
    })
    return out
