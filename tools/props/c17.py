"""C17 - databases are isolated and survive any USE / restart pattern.
One engine.Session driven through ExecQuery with the real OpenRelation (100 ms flush timer on):
CREATE DATABASE / USE / SHOW DATABASES interleaved with DDL and DML over 2-3 databases, pauses
longer than a timer period, clean and unclean restarts; after every step SELECT * of the selected
database's tables. MM: Model/Session.v; SM: Spec/SessionObs.v (each database holds exactly the
statements issued while it was selected; errors change nothing; SHOW lists the created names)."""
import vlib
from props import hist

PROP_FILES = ["Properties/C17.v"]
HARNESS = ["engine"]
ASSUMPTIONS = [
    "strings.ToLower is modelled for ASCII letters only: database names with upper-case non-ASCII letters are "
    "not generated (lower-case non-ASCII names, including pairs equal under Unicode case folding, long names "
    "and names the code must refuse - path separators, dots - are)",
    "background flushes happen at unknown instants between statements; only table contents are compared, which "
    "a flush does not change",
]
HEADER = """From Mkdb Require Import Spec.SessionObs.
Local Open Scope string_scope.
Local Open Scope N_scope.
"""
DBNAMES = ["alpha", "Beta", "gamma", "ALPHA", "beta", "nosuch"]
# pairs of lower-case names that are equal under Unicode simple case folding (sigma / final sigma, micro sign /
# mu, s / long s) but are different directory names: different databases
FOLDPAIRS = [("db\u03c3", "db\u03c2"), ("\u00b5m", "\u03bcm"), ("mass", "ma\u017fs")]
# names that are paths or too long for a directory name: must be refused by CREATE DATABASE and USE and
# leave no trace in SHOW DATABASES (until /repo a710589 / 71be150: "a/b" was listed as "a", "../esc" left
# the data directory, a 300-character name made CREATE DATABASE panic); written as delimited identifiers
ODDNAMES = ["a/b", "../esc", ".", "..", "alpha/../beta", "alpha/x", "L" * 300]


def sql_name(n):
    return n if n.isalnum() and n.isascii() and len(n) < 100 else '"%s"' % n


def gen_case(rng, tier):
    evs = []
    gens = {}      # lower name -> hist.Gen
    cur = None
    created = []
    n = rng.randint(12, 40)
    evs.append(("sql_stmt", {"k": "insert", "table": "t", "cols": [], "rows": [[1]]}))   # before any USE: error
    while len(evs) < n:
        r = rng.random()
        if created and r < 0.03:
            evs.append((rng.choice(["createdb", "use"]), rng.choice(ODDNAMES)))
            evs.append(("show",))
        elif created and r < 0.05 and not any(p[0] in created for p in FOLDPAIRS):
            # two databases whose names are fold-equal: statements go to the one that is selected
            a, b = rng.choice(FOLDPAIRS)
            for nm in (a, b):
                evs.append(("createdb", nm))
                created.append(nm)
                gens[nm] = hist.Gen(rng, 3)
            for nm in (a, b, a):
                evs.append(("use", nm))
                cur = nm
                g = gens[cur]
                st = g.create() if not g.tables else g.insert(nrows=2)
                evs.append(("sql_stmt", st))
                evs.append(("read", sorted(g.tables)[:4]))
            evs.append(("show",))
        elif created and r < 0.075 and not any(x.startswith("arch") for x in created):
            # two databases one of whose names is DERIVED from the other's (a suffix or prefix a program might use for
            # a temporary, backup or lock file of the other): creating, failing to create again and selecting one
            # must leave the other alone
            base = "arch" + rng.choice(["", "ive", "1"])
            der = rng.choice([base + ".tmp", base + ".bak", base + ".new", base + "~", base + ".old", base + "_tmp", base + ".1",
                              base + ".lock", "tmp_" + base, base + ".wal", base + ".tbl", base + "-journal"])
            first, second = (der, base) if rng.random() < 0.7 else (base, der)
            evs.append(("createdb", first))
            created.append(first)
            gens[first] = hist.Gen(rng, 3)
            evs.append(("use", first))
            cur = first
            evs.append(("sql_stmt", gens[first].create()))
            evs.append(("sql_stmt", gens[first].insert(nrows=2)))
            evs.append(("createdb", second))
            created.append(second)
            gens[second] = hist.Gen(rng, 3)
            evs.append(("show",))
            evs.append(("read", sorted(gens[first].tables)[:4]))
            if rng.random() < 0.5:
                evs.append(("createdb", second))          # exists now: an error that changes nothing
                evs.append(("createdb", first))
                evs.append(("show",))
            evs.append(("use", second))
            cur = second
            evs.append(("sql_stmt", gens[second].create()))
            evs.append(("read", sorted(gens[second].tables)[:4]))
            evs.append(("restart", rng.random() < 0.5))
            cur = None
            for nm in (first, second):
                evs.append(("use", nm))
                cur = nm
                evs.append(("read", sorted(gens[nm].tables)[:4]))
                evs.append(("sql_stmt", gens[nm].insert(nrows=1)))
            evs.append(("show",))
        elif r < 0.12 or not created:
            name = rng.choice(DBNAMES[:5])
            evs.append(("createdb", name))
            if name.lower() not in created:
                created.append(name.lower())
                gens[name.lower()] = hist.Gen(rng, 3)
        elif r < 0.30:
            name = rng.choice(DBNAMES) if rng.random() < 0.8 else (cur or "alpha")
            evs.append(("use", name))
            if name.lower() in created:
                cur = name.lower()
            evs.append(("read", sorted(gens[cur].tables)[:4] if cur else []))
        elif r < 0.36:
            evs.append(("show",))
        elif r < 0.42:
            evs.append(("tick",))
        elif r < 0.50:
            evs.append(("restart", rng.random() < 0.5))
            cur = None
            evs.append(("read", []))
        elif cur is None:
            evs.append(("sql_stmt", {"k": "delete", "table": "t", "where": None}))
        else:
            g = gens[cur]
            if not g.tables or rng.random() < 0.15:
                st = g.create()
            else:
                rr = rng.random()
                st = g.insert(nrows=rng.choice([1, 2, 5, 9])) if rr < 0.6 else g.update() if rr < 0.8 else g.delete()
            evs.append(("sql_stmt", st))
            evs.append(("read", sorted(g.tables)[:4]))
            if g.tables and cur.isascii() and rng.random() < 0.12:
                # re-select the current database under another spelling right after a write (names are
                # case-insensitive), then write again: contents and the ability to accept rows must be intact
                other = cur.upper() if cur != cur.upper() and rng.random() < 0.7 else cur.capitalize()
                evs.append(("use", other))
                evs.append(("sql_stmt", g.insert(nrows=rng.choice([1, 2, 9]))))
                evs.append(("read", sorted(g.tables)[:4]))
    # every case ends with the pattern once more, deterministically: write, re-select the same database under
    # another spelling WITHOUT a timer tick in between, write again, read
    for d in [x for x in created if x.isascii() and x.isalnum() and gens[x].tables][:2]:
        g = gens[d]
        evs.append(("use", d))
        evs.append(("sql_stmt", g.insert(nrows=rng.choice([2, 9]))))
        evs.append(("use", d.upper() if d != d.upper() else d.lower()))
        evs.append(("sql_stmt", g.insert(nrows=rng.choice([1, 9]))))
        evs.append(("read", sorted(g.tables)[:4]))
        evs.append(("use", d.capitalize()))
        evs.append(("sql_stmt", g.insert(nrows=1)))
        evs.append(("read", sorted(g.tables)[:4]))
    # finally visit every database once more after a restart
    evs.append(("restart", False))
    for d in created:
        evs.append(("use", d))
        evs.append(("read", sorted(gens[d].tables)[:4]))
    evs.append(("show",))
    return evs


def go_events(evs):
    out = []
    for e in evs:
        if e[0] == "sql_stmt":
            out.append({"t": "sql", "q": hist.sql_stmt(e[1])})
        elif e[0] == "createdb":
            out.append({"t": "sql", "q": "CREATE DATABASE %s" % sql_name(e[1])})
        elif e[0] == "use":
            out.append({"t": "sql", "q": "USE %s" % sql_name(e[1])})
        elif e[0] == "show":
            out.append({"t": "sql", "q": "SHOW DATABASES"})
        elif e[0] == "tick":
            out.append({"t": "tick"})
        elif e[0] == "restart":
            out.append({"t": "restart", "clean": e[1]})
        elif e[0] == "read":
            out.append({"t": "read", "tables": e[1]})
    return out


def cq_ev(e):
    if e[0] == "sql_stmt":
        return "ShEv (SvStmt %s)" % hist.cq_stmt(e[1])
    if e[0] == "createdb":
        return "ShEv (SvStmt (SCreateDatabase %s))" % hist.cq_str(e[1])
    if e[0] == "use":
        return "ShEv (SvStmt (SUse %s))" % hist.cq_str(e[1])
    if e[0] == "show":
        return "ShEv (SvStmt SShowDatabase)"
    if e[0] == "tick":
        return "ShEv SvTick"
    if e[0] == "restart":
        return "ShEv (SvRestart %s)" % hist.cq_bool(e[1])
    if e[0] == "read":
        return "ShRead %s" % hist.cq_list(hist.cq_str(n) for n in e[1])
    raise ValueError(e)


def cq_sout(res, show):
    if show is not None:
        return "SOShow %s" % hist.cq_list(hist.cq_str(x) for x in show)
    if res == "ok":
        return "SOOk"
    if res.startswith("panic") or res == "timeout":
        return "SOPanic"
    if res == "DBExists":
        return "SOErr SEDBExists"
    if res == "DBNotExist":
        return "SOErr SEDBNotExist"
    if "NoDBSelected" in res:
        return "SOErr SENoDB"
    return "SOErr (SEStmt %s)" % hist.ERRMAP.get(res, "EOther")


def cq_ob(e, o):
    if e[0] in ("tick", "restart"):
        return "ShDone %s" % hist.cq_bool(o["res"] == "ok")
    if e[0] == "read":
        if o.get("nodb"):
            return "ShNoDB"
        return "ShTables %s" % hist.cq_list(hist.cq_table_obs(t) for t in o.get("tables") or [])
    return "ShOut (%s)" % cq_sout(o["res"], o.get("show") if e[0] == "show" and o["res"] == "ok" else None)


def run(ctx):
    n = 16 if ctx.tier == "quick" else 200
    if ctx.replay and "events" in ctx.replay:
        cases = [[tuple(e) for e in ctx.replay["events"]]]
    else:
        cases = [gen_case(ctx.rng, ctx.tier) for _ in range(n)]
    inputs = [{"events": go_events(e)} for e in cases]
    ok, outs, lg = vlib.run_driver_parallel(ctx.bins["engine"], "session", inputs, nshards=16)
    if not ok or len(outs) != len(cases):
        raise RuntimeError("session driver failed: " + lg[-3000:])
    terms = []
    for e, o in zip(cases, outs):
        obs = [cq_ob(x, y) for x, y in zip(e, o["events"])]
        if len(o["events"]) < len(e):
            obs.append("ShDead")
        terms.append("(%s, %s)" % (hist.cq_list(cq_ev(x) for x in e), hist.cq_list(obs)))
    defs = {"SM": "sess_spec_accepts"}
    if ctx.model_ok:
        defs["MM"] = "sess_model_agrees"
    okc, res, lg = vlib.run_coq_cases("c17", HEADER, terms, "shcase", defs, shard=2)
    if not okc:
        raise RuntimeError("coq evaluation failed: " + lg[-3000:])
    out = {"spec_violations": [], "model_mismatches": [],
           "correspondence_name": "Model/Session.v run_sh vs engine.Session over several databases"}

    def script(e):
        return [hist.sql_stmt(x[1])[:90] if x[0] == "sql_stmt" else " ".join(str(y) for y in x) for x in e if x[0] != "read"]
    for i in res["SM"][:2]:
        out["spec_violations"].append({"events": [list(x) for x in cases[i]], "script": script(cases[i]),
                                       "what": "a database's contents, a USE/CREATE DATABASE outcome or SHOW DATABASES differs from the specification"})
    for i in res.get("MM", [])[:2]:
        out["model_mismatches"].append({"events": [list(x) for x in cases[i]], "script": script(cases[i])})
    kinds = {}
    switches = 0
    for e in cases:
        for x in e:
            kinds[x[0]] = kinds.get(x[0], 0) + 1
        uses = [x[1].lower() for x in e if x[0] == "use"]
        if len(set(uses)) >= 2 and any(x[0] == "restart" for x in e):
            switches += 1
    ctx.report.coverage.update({
        "evaluations": len(cases),
        "distinct_nontrivial": switches,
        "rule": "seeded session scripts over up to 3 databases (names differing only in case included); non-trivial = the "
                "script selects at least two different databases and restarts at least once; scripts are generated "
                "independently, hence distinct",
        "traces_validated_against_impl": len(cases),
        "event_mix": kinds,
        "samples": [script(e)[:10] for e in cases[:2]],
    })
    return out
